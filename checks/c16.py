"""C16 — the BQL lexer tokenizes every input faithfully (ordered substrings, one end token, case / whitespace
insensitivity, printed forms are single tokens)."""
import concurrent.futures, json, os, subprocess
import vcheck
from vcheck import BIN, REPO

GO_CMDS = ["genlex", "h_lex"]
TRANSLATORS = ["genlex"]
COQ_PROJECTS = ["Lexer"]

TRUSTED = vcheck.STD_TRUSTED + [
    "translator harness/cmd/genlex (go/ast over bql/lexer/lexer.go: keyword, single-symbol, literal-type tables, rune "
    "constants, lastTokenType sets; aborts on any unexpected statement shape in lexKeyword/lexToken/isSingleSymbolToken/"
    "consumeKeyword/lexLiteral's type switch)",
    "unicode.IsLetter/IsDigit/IsSpace/ToLower: ASCII computed in Coq, all other code points looked up in the range tables "
    "that genlex copies from the Go toolchain's unicode package into Gen/LexTablesGen.v on every run; EqualFold modelled for "
    "ASCII keywords (incl. U+017F ~ s, U+212A ~ k); the structural theorems hold for every classification (parameter U)",
    "UTF-8 decoding re-implemented in Gallina (coq/Lexer/Utf8.v), tied by the correspondence runs (invalid, truncated, "
    "overlong and surrogate encodings are generated)",
    "channel closure / capacities 0,1,2,64 are observed on the implementation, not modelled (the model is the sequence "
    "of sends followed by close)",
]

ITEM_ERROR, ITEM_EOF, ITEM_FILTER_FUNCTION, ITEM_LPAR = 0, 1, 56, 41

HEADER = """From Coq Require Import List NArith.
From Coq.Strings Require Import Byte.
Import ListNotations.
From BWLexer Require Import Lexer Corr.
Open Scope N_scope.
"""


def hlex(args, timeout=1800):
    p = subprocess.run([os.path.join(BIN, "h_lex")] + args, cwd=REPO, env=vcheck.goenv(), stdout=subprocess.PIPE,
                       stderr=subprocess.PIPE, timeout=timeout * vcheck.TSCALE, text=True)
    if p.returncode != 0:
        raise vcheck.Broken("h_lex failed", (p.stdout[-1500:] + p.stderr[-1500:]))
    rows = [json.loads(l) for l in p.stdout.splitlines() if l.startswith("{")]
    trailer = {}
    for l in p.stderr.splitlines():
        if l.startswith("{"):
            trailer = json.loads(l)
    return rows, trailer


def obs_term(r):
    toks = "[" + ";".join("(%d,%s)" % (k, vcheck.coq_bytes(bytes.fromhex(t))) for k, t in r["toks"]) + "]"
    return "(%s,%s)" % (vcheck.coq_bytes(bytes.fromhex(r["in"])), toks)


def model_mismatches(ctx, name, rows, shard=1000, workers=6):
    """indices of rows on which the Gallina lexer (evaluated in Coq) and lexer.New disagree"""
    def one(k):
        part = rows[k:k + shard]
        v = HEADER + "Definition cases : list obs := [\n" + ";\n".join(obs_term(r) for r in part) + "].\n"
        v += "Definition M := Eval vm_compute in mismatches_from 0 cases.\nPrint M.\n"
        out = vcheck.coq_eval(ctx.work, "%s_%d" % (name, k), v)
        return [k + i for i in vcheck.parse_nat_list(out, "M")]
    with concurrent.futures.ThreadPoolExecutor(max_workers=workers) as ex:
        res = list(ex.map(one, range(0, len(rows), shard)))
    return sorted(i for r in res for i in r)


# ---- exhaustive scopes by checksum (Corr.fold_strings evaluated in Coq  vs  h_lex -cksum on lexer.New)
ALPHA = [b"a", b"1", b" ", b'"', b"\\", b"<", b">", b"/", b",", b";", b"(", b"]"]
CK_PREFIXES = [b"before ", b"= ", b"filter ", b'"a"^^type:', b'"a"@[', b'"', b"?", b"_:", b"/a<", b'"a"^^type:int64', b"@",
               b"between 1,"]


class Hang(Exception):
    pass


def go_cksums(items):
    spec = ",".join("%s:%d" % (p.hex(), d) for p, d in items)
    p = subprocess.run([os.path.join(BIN, "h_lex"), "-cksum", spec], cwd=REPO, env=vcheck.goenv(), stdout=subprocess.PIPE,
                       stderr=subprocess.PIPE, timeout=3000 * vcheck.TSCALE, text=True)
    if p.returncode == 3:
        raise Hang(p.stderr.strip()[-300:])
    if p.returncode != 0:
        raise vcheck.Broken("h_lex -cksum failed", p.stdout[-1000:] + p.stderr[-1000:])
    rows = [json.loads(l) for l in p.stdout.splitlines() if l.startswith("{")]
    return [int(r["hash"]) for r in rows], (sum(r["count"] for r in rows), sum(r.get("nontrivial", 0) for r in rows))


def coq_cksums(ctx, name, items, timeout=3000):
    v = HEADER + "Definition alpha : list (list byte) := %s.\n" % vcheck.coq_list([vcheck.coq_bytes(a) for a in ALPHA])
    v += "Definition R := Eval vm_compute in [%s].\nPrint R.\n" % "; ".join(
        "fold_strings alpha %d %s 0" % (d, vcheck.coq_bytes(p)) for p, d in items)
    out = vcheck.coq_eval(ctx.work, name, v, timeout=timeout)
    return vcheck.parse_nat_list(out, "R")


def cksum_compare(ctx, name, items, parallel=1):
    """returns the items whose checksums differ"""
    go, count = go_cksums(items)
    if parallel <= 1:
        cq = coq_cksums(ctx, name, items)
    else:
        with concurrent.futures.ThreadPoolExecutor(max_workers=parallel) as ex:
            cq = [r[0] for r in ex.map(lambda iv: coq_cksums(ctx, "%s_%d" % (name, iv[0]), [iv[1]]), enumerate(items))]
    if len(cq) != len(go):
        raise vcheck.Broken("checksum lists of different length", "%s vs %s" % (len(cq), len(go)))
    return [it for it, a, b in zip(items, go, cq) if a != b], count


def cksum_bisect(ctx, prefix, depth):
    """a concrete string below (prefix, depth) on which model and implementation differ"""
    for _ in range(12):
        if depth == 0:
            return prefix
        items = [(prefix, 0)] + [(prefix + a, depth - 1) for a in ALPHA]
        bad, _ = cksum_compare(ctx, "cksum_bisect", items)
        if not bad:
            return None
        prefix, depth = bad[0]
    return prefix


WS = set(b"\t\n\v\f\r ")


def trim(b):
    # surrounding white space as unicode.IsSpace sees it (ASCII, U+0085, U+00A0 and the table's spaces)
    s = b.decode("utf-8", errors="surrogateescape")
    return s.strip(" \t\n\v\f\r\u0085   　").encode("utf-8", errors="surrogateescape")


def structure_problem(r):
    """the property, read directly off the implementation's output for one input (no model involved)"""
    if not r["closed"]:
        return "channel not closed (or endless token stream)"
    if not r["caps_equal"]:
        return "token sequence depends on the channel capacity"
    toks = r["toks"]
    if not toks:
        return "no token at all"
    if toks[-1][0] not in (ITEM_ERROR, ITEM_EOF):
        return "last token is neither EOF nor Error"
    if any(k in (ITEM_ERROR, ITEM_EOF) for k, _ in toks[:-1]):
        return "EOF/Error token before the end"
    # texts are non-overlapping substrings in left-to-right order
    inp, pos = bytes.fromhex(r["in"]), 0
    for k, t in toks:
        t = bytes.fromhex(t)
        j = inp.find(t, pos)
        if j < 0:
            return "token text is not a substring after the previous token"
        pos = j + len(t)
    return None


# ---- finding classifiers (narrow: an input is excused only if it is exactly that defect class)
def cls_ws_after_filter_function(base, var):
    """whitespace variant differs, the base has FILTER_FUNCTION immediately followed by '(' with no gap, the variant has
    white space there, and up to that point the token sequences agree; the variant's next token is the Error"""
    bt, vt = base["toks"], var["toks"]
    for i, (k, t) in enumerate(bt):
        if i >= len(vt) or vt[i][0] != k:
            # first difference: must be an Error right where the base had the function name
            return (k == ITEM_FILTER_FUNCTION and vt[i][0] == ITEM_ERROR and i + 1 < len(bt) and bt[i + 1][0] == ITEM_LPAR
                    and bytes.fromhex(vt[i][1]).startswith(bytes.fromhex(t))) if i < len(vt) else False
    return False


def cls_trailing_backslash(r):
    """printed predicate / bound / text literal whose id or text ends in a backslash and contains no double quote"""
    part = bytes.fromhex(r.get("part", ""))
    return r.get("form") in ("predicate", "bound", "literal-text") and part.endswith(b"\\") and b'"' not in part


def cls_node_type_delims(r):
    """printed node whose TYPE contains '<' or '>' or ends in a backslash (NewType only forbids white space)"""
    part = bytes.fromhex(r.get("part", ""))
    return r.get("form") == "node" and (b"<" in part or b">" in part or part.endswith(b"\\"))


PRINTED_CLASSES = [("C16-trailing-backslash", cls_trailing_backslash), ("C16-node-type-delims", cls_node_type_delims)]


def printed_excused(r, findings):
    for fid, cls in PRINTED_CLASSES:
        if fid in findings and cls(r):
            return fid
    return None


def printed_problem(r):
    """printed form without embedded double quote must be exactly one token with that text, then EOF"""
    inp = bytes.fromhex(r["in"])
    part = bytes.fromhex(r.get("part", ""))
    if b'"' in part:
        return None   # embedded double quote: outside the property
    if r["form"] == "literal-text" and b'"' in inp[1:inp.rfind(b'"^^type:')]:
        return None
    toks = r["toks"]
    if len(toks) == 2 and toks[0][0] == r["want"] and bytes.fromhex(toks[0][1]) == inp and toks[1] == [ITEM_EOF, ""]:
        return None
    return "printed %s is not lexed as one %d token" % (r["form"], r["want"])


def pair_problem(base, var):
    bt, vt = base["toks"], var["toks"]
    if [k for k, _ in bt] != [k for k, _ in vt]:
        return "kinds differ"
    for (_, a), (_, b) in zip(bt, vt):
        a, b = trim(bytes.fromhex(a)), trim(bytes.fromhex(b))
        if var["rel"] == "case":
            a, b = a.lower(), b.lower()
        if a != b:
            return "texts differ"
    return None


def replay(ctx):
    """bin/check C16 --replay file: re-run the recorded input(s) on the implementation and on the model and print both"""
    obj = json.load(open(ctx.replay))
    v = obj.get("violation", obj)
    cands = []
    for key in ("case", "base", "variant"):
        c = v.get(key)
        if isinstance(c, dict) and "in" in c:
            cands.append((key, c["in"]))
    if not cands and "failing_input" in v and isinstance(v["failing_input"], dict):
        for key in ("case", "base", "variant"):
            c = v["failing_input"].get(key)
            if isinstance(c, dict) and "in" in c:
                cands.append((key, c["in"]))
    if not cands:
        print("REPLAY: no input recorded in %s (%s)" % (ctx.replay, v.get("what", v.get("kind"))))
        return
    for key, hx in cands:
        rows, _ = hlex(["-only", "none", "-one", hx])
        r = rows[0]
        vv = HEADER + "Definition R := Eval vm_compute in lex_texts %s.\nPrint R.\n" % vcheck.coq_bytes(bytes.fromhex(hx))
        out = vcheck.coq_eval(ctx.work, "replay_c16", vv)
        model = vcheck.norm(out.split("R =", 1)[1].split(": list", 1)[0]) if "R =" in out else out[-400:]
        print("REPLAY %s input=%r" % (key, bytes.fromhex(hx)))
        print("  implementation: %s closed=%s caps_equal=%s" % ([(k, bytes.fromhex(t)) for k, t in r["toks"]], r["closed"], r["caps_equal"]))
        print("  model (Coq):    %s" % model)
        print("  structure:      %s" % (structure_problem(r) or "ok"))
        bad = model_mismatches(ctx, "replay_cmp", [r])
        print("  model = implementation: %s" % ("no" if bad else "yes"))
        if bad:
            ctx.violation({"kind": "lexer-model-vs-real-lexer", "case": r})
    ctx.cov["evaluations"] = len(cands)
    ctx.cov["rule"] = "replay of a recorded case"


def run(ctx):
    if ctx.replay:
        ctx.add_obligations(vcheck.coq_props("Lexer", "C16"))
        return replay(ctx)
    # Props/C16.v is compiled concurrently with the correspondence runs (joined below)
    pool = concurrent.futures.ThreadPoolExecutor(max_workers=1)
    props = pool.submit(vcheck.coq_props, "Lexer", "C16")
    ctx.cov["checker_cmd"] = ("genlex -o coq/Lexer/Gen/LexTablesGen.v (cwd /repo); make -C coq/Lexer; "
                              "coqc -Q coq/Lexer BWLexer coq/Lexer/Props/C16.v; h_lex | checks/c16.py (model evaluated by vm_compute)")
    thorough = ctx.tier == "thorough"
    args = ["-seed", str(ctx.seed)]
    args += ["-n", "3000", "-exhaust", "4", "-exhaustp", "2"] if thorough else ["-n", "250", "-exhaust", "2", "-exhaustp", "1"]
    rows, trailer = hlex(args)
    # concurrency: GOMAXPROCS+2 lexers pending after one token each, further statements lexed to the end meanwhile,
    # then an interleaved drain; verdicts about receives that cannot complete come from the goroutine dump (h_lex/conc.go)
    crows, _ = hlex(["-conc", "-seed", str(ctx.seed)], timeout=600)
    conc_hangs = []
    for r in crows:
        hg = r.get("hang", "")
        if hg.startswith("deadlock") or hg.startswith("endless"):
            conc_hangs.append(r)
        elif hg:
            ctx.notes.append("conc: " + hg)
        else:
            rows.append(r)          # complete token list: structure + model comparison like every other case
    ctx.cov["concurrent_lexers"] = {"opened": len(crows), "complete_and_closed": sum(1 for r in crows if r["closed"] and not r.get("hang")),
                                    "capacities": [0, 2, 5]}
    findings = {f.get("id"): f for f in vcheck.known_findings("C16")}

    nviol = {}
    def violation(obj):
        nviol[obj["kind"]] = nviol.get(obj["kind"], 0) + 1
        if nviol[obj["kind"]] <= 3:     # at most three replays per kind of disagreement
            ctx.violation(obj)
    ctx.cov["violations_by_kind"] = nviol

    for r in conc_hangs:
        violation({"kind": "structure", "what": "with GOMAXPROCS+2 lexers pending, lexer.New does not deliver / close: " + r["hang"],
                   "case": r})
    # 1. structure on the implementation
    for r in rows:
        p = structure_problem(r)
        if p:
            violation({"kind": "structure", "what": p, "case": r})
    # 2. model = implementation
    bad = model_mismatches(ctx, "cases_c16", rows)
    for i in bad:
        violation({"kind": "lexer-model-vs-real-lexer", "case": rows[i],
                   "explain": "lex (Coq, vm_compute) and lexer.New disagree on the (kind, text) sequence"})
    # 2b. exhaustive small scopes by checksum (model evaluated in Coq over ALL strings, compared with lexer.New)
    if thorough:
        items = [(b"", 0)] + [(a, 5) for a in ALPHA] + [(p, 4) for p in CK_PREFIXES]
        par = 8
    else:
        items = [(b"", 4)] + [(p, 2) for p in CK_PREFIXES]
        par = 1
    if any(not r["closed"] for r in rows):
        items = []          # a lexer that does not close its channel would hang the checksum runs
    try:
        badck, (nck, nck_nontrivial) = cksum_compare(ctx, "cksum_c16", items, parallel=par) if items else ([], (0, 0))
    except Hang as h:
        badck, nck, nck_nontrivial = [], 0, 0
        violation({"kind": "structure", "what": "lexer.New did not deliver/close within 5 s during the exhaustive enumeration",
                   "detail": str(h)})
    for pfx, d in badck[:3]:
        w = cksum_bisect(ctx, pfx, d)
        violation({"kind": "lexer-model-vs-real-lexer", "explain": "checksum over the exhaustive scope differs",
                   "scope": {"prefix": pfx.hex(), "depth": d},
                   "case": (hlex(["-only", "none", "-one", w.hex()])[0] or [None])[0] if w is not None else None})
    ctx.cov["exhaustive_by_checksum"] = {"strings": nck, "scopes": ["%s+%d" % (p.decode(), d) for p, d in items]}
    # 3. case / whitespace variants on the implementation
    known_hit = {}
    npairs = 0
    for r in rows:
        if r["of"] >= 0:
            npairs += 1
            base = rows[r["of"]]
            p = pair_problem(base, r)
            if p:
                if r["rel"] == "ws" and "C16-ws-filter-function" in findings and cls_ws_after_filter_function(base, r):
                    known_hit.setdefault("C16-ws-filter-function", r)
                    continue
                violation({"kind": "variant-" + r["rel"], "what": p, "base": base, "variant": r})
    # 4. printed forms
    nprinted = 0
    for r in rows:
        if r["g"] == "printed":
            nprinted += 1
            p = printed_problem(r)
            if p:
                fid = printed_excused(r, findings)
                if fid:
                    known_hit.setdefault(fid, r)
                    continue
                violation({"kind": "printed-form", "what": p, "case": r})
    # known findings: replay the recorded witness on the implementation
    for fid, f in findings.items():
        try:
            wit = json.loads(f.get("witness", "{}"))
        except ValueError:
            wit = {}
        still = replay_finding(fid, wit)
        if still:
            ctx.known("%s site=%s witness=%s: %s" % (fid, f.get("site"), f.get("witness"), still))
        else:
            ctx.notes.append("finding %s no longer reproduces" % fid)

    ctx.add_obligations(props.result())
    pool.shutdown()
    ctx.cov["evaluations"] = len(rows) + nck
    def in_scope(b):
        for pfx, d in items:
            if b.startswith(pfx) and len(b) - len(pfx) <= d and all(bytes([c]) in ALPHA for c in b[len(pfx):]):
                return True
        return False
    seen = set()
    for r in rows:
        if len(r["toks"]) >= 2 and not in_scope(bytes.fromhex(r["in"])):
            seen.add(vcheck.case_hash([r["in"]]))
    ctx.cov["distinct_nontrivial"] = len(seen) + nck_nontrivial
    ctx.cov["rule"] = ("one evaluation = one input lexed by lexer.New under 4 channel capacities and by the Gallina model "
                       "inside Coq, (kind,text) sequences compared (token by token for the generated cases, through a checksum for "
                       "the exhaustively enumerated strings); non-trivial = at least one token before the final EOF/Error "
                       "(counted by the harness for the enumerated strings); distinct by input bytes, enumerated scopes and "
                       "generated cases de-duplicated against each other")
    ctx.cov["groups"] = {g: sum(1 for r in rows if r["g"] == g) for g in sorted(set(r["g"] for r in rows))}
    ctx.cov["variant_pairs_checked"] = npairs
    ctx.cov["printed_forms_checked"] = nprinted
    ctx.cov["ending_in_error_token"] = sum(1 for r in rows if r["toks"] and r["toks"][-1][0] == ITEM_ERROR)
    ctx.cov["max_input_bytes"] = max(len(r["in"]) // 2 for r in rows)
    ctx.cov["channel_capacities"] = [0, 1, 2, 64]
    ctx.cov["generator"] = trailer
    ctx.cov["repository_test_strings"] = sum(1 for r in rows if r["g"] == "tests")
    ctx.cov["exhaustive"] = ("all strings over the 12 symbols a 1 SP \" \\ < > / , ; ( ] up to length %s and up to length %s after "
                             "each of 12 context prefixes: model evaluated in Coq on every string, compared with lexer.New through a "
                             "61-bit polynomial checksum of the (kind,text) sequences (bisected to a concrete string on mismatch); "
                             "additionally token by token up to length %s / %s" % (("6", "4", "4", "2") if thorough else ("4", "2", "2", "1")))
    ctx.cov["samples"] = [{"in": bytes.fromhex(r["in"]).decode("utf-8", "replace"),
                           "toks": [[k, bytes.fromhex(t).decode("utf-8", "replace")] for k, t in r["toks"]]}
                          for r in rows if r["g"] == "stmt"][:3]
    ctx.assumptions += ["unicode classes come from the toolchain the harness is built with (tables regenerated on every run)"]


def lex_real(text_bytes):
    rows, _ = hlex(["-only", "none", "-one", text_bytes.hex()])
    return rows[0]["toks"] if rows else None


def replay_finding(fid, wit):
    """returns a description if the witness still fails on the implementation, else None"""
    if "input" not in wit:
        return None
    toks = lex_real(wit["input"].encode("utf-8"))
    if toks is None:
        return None
    if toks[-1][0] == ITEM_ERROR:
        return "lexes to %s (ends in an Error token)" % [k for k, _ in toks]
    return None


def search(ctx, broken):
    """failing-input search when an obligation (translator shape / proof / build) breaks: run whatever still works of the
    direct property checks on the implementation and report the first input that violates the property text"""
    try:
        rows, _ = hlex(["-seed", str(ctx.seed), "-n", "300", "-exhaust", "3", "-exhaustp", "2"])
    except Exception:
        return None
    for r in rows:
        p = structure_problem(r)
        if p:
            return {"what": p, "case": r}
    try:
        for r in hlex(["-conc", "-seed", str(ctx.seed)], timeout=600)[0]:
            if r.get("hang", "").startswith(("deadlock", "endless")):
                return {"what": "concurrent lexers: " + r["hang"], "case": r}
    except Exception:
        pass
    findings = {f.get("id"): f for f in vcheck.known_findings("C16")}
    for r in rows:
        if r["of"] >= 0:
            p = pair_problem(rows[r["of"]], r)
            if p and not ("C16-ws-filter-function" in findings and cls_ws_after_filter_function(rows[r["of"]], r)):
                return {"what": "variant-" + r["rel"] + ": " + p, "base": rows[r["of"]], "variant": r}
        if r["g"] == "printed":
            p = printed_problem(r)
            if p and not printed_excused(r, findings):
                return {"what": p, "case": r}
    # the old model may still be compiled: differential run against it
    try:
        bad = model_mismatches(ctx, "search_c16", rows)
        if bad:
            return {"what": "model (as last built) and implementation disagree", "case": rows[bad[0]]}
    except Exception:
        pass
    return None
