"""Shared machinery of the Store family checks (C01, C02, C09): run h_store, render its observations as Coq terms,
evaluate the Gallina model inside Coq (vm_compute) against them, and explain disagreements."""
import json, os, re
import vcheck
from vcheck import sh, BIN, REPO

GO_CMDS = ["h_store"]
COQ_PROJECTS = ["Store"]

TRUSTED = vcheck.STD_TRUSTED + [
    "keys are the pre-images of the UUIDs memory.go uses as map keys; 'key equal <-> UUID equal' is checked by h_store "
    "on every universe and argument pool it generates (collisions of the component UUIDs are property C06)",
    "Triple.String() order is supplied to the model as a rank (position of the string in Go string order)",
    "lookup results are compared through a 64-bit polynomial digest computed by h_store and by the model inside Coq; "
    "a sample is additionally compared element by element in the failing-input search",
]

HEADER = """From Coq Require Import List NArith ZArith Bool.
Import ListNotations.
From BWStore Require Import AMap Store Lookup LookupSpec Corr.
Open Scope N_scope.
Definition P0 (i : N) : pred := Build_pred i None.
Definition P1 (i : N) (n o u : Z) : pred := Build_pred i (Some (Build_time n o u)).
Definition T (s : N) (p : pred) (o : obj) (r : N) : triple := Build_triple s p o r.
Definition LO (m : Z) (l u : option Z) (la : bool) (f : option (fop * ffield)) (o : Z) : lopts := Build_lopts m l u la f o.
"""


class KeyUnfaithful(Exception):
    def __init__(self, row, args):
        super().__init__(row.get("what"))
        self.row, self.args = row, args


def unfaithful_violation(ctx, e):
    if e.row.get("kind") == "stuck":
        ctx.violation({"kind": "implementation-blocked", "what": e.row["what"], "harness_output_tail": e.row.get("a"),
                       "harness_args": [str(a) for a in e.args]})
        return
    if e.row.get("kind") == "options_modified":
        ctx.violation({"kind": "lookup-modifies-the-callers-LookupOptions", "what": e.row["what"], "lookup": e.row.get("a"),
                       "afterwards": e.row.get("b"), "harness_args": [str(a) for a in e.args],
                       "explain": "the harness reuses one options value for consecutive lookups (as callers do with "
                                  "storage.DefaultLookup) and compares it with a fresh copy after every lookup"})
        return
    if e.row.get("kind") == "foreign_result":
        ctx.violation({"kind": "result-never-stored", "what": e.row["what"], "value": e.row.get("a"), "where": e.row.get("b"),
                       "harness_args": [str(a) for a in e.args]})
        return
    ctx.violation({"kind": "identity-of-stored-values", "what": e.row.get("what"), "a": e.row.get("a"), "b": e.row.get("b"),
                   "harness_args": [str(a) for a in e.args],
                   "explain": "two values that differ in id, kind, instant or object value have the same UUID (or equal values "
                              "different UUIDs): memory.go keys every index by these UUIDs, so the store holds one triple where "
                              "the property demands two; found by the harness self-check on a generated universe"})


def hstore(args, timeout=1800, gomaxprocs=None):
    env = vcheck.goenv()
    if gomaxprocs is not None:
        env["GOMAXPROCS"] = str(gomaxprocs)
    rc, out = sh([os.path.join(BIN, "h_store")] + [str(a) for a in args], cwd=REPO, env=env, timeout=timeout)
    if rc == 3:
        # the harness found two values whose model keys and UUIDs disagree: the implementation identifies what the
        # property distinguishes (or the reverse); the last line describes the pair
        rows = [json.loads(l) for l in out.splitlines() if l.startswith("{")]
        raise KeyUnfaithful([r for r in rows if r.get("kind") in ("key_unfaithful", "foreign_result", "options_modified")][-1], args)
    if rc == 4:
        raise KeyUnfaithful({"kind": "stuck", "what": "implementation blocked: a Store/Graph call made by the harness did not "
                             "return within 120 s", "a": out[-600:], "b": ""}, args)
    if rc != 0:
        raise vcheck.Broken("h_store failed", out[-3000:])
    return [json.loads(l) for l in out.splitlines() if l.startswith("{")]


# ---------------------------------------------------------------- rendering
def z(n):
    return "(%d)%%Z" % n


def inst(sec, nsec):
    """instant in nanoseconds since the Unix epoch (unbounded)"""
    return sec * 10**9 + nsec


def c_pred(p):
    """p = [id] | [id, unix seconds, nanoseconds, zone offset, Go's UnixNano()]"""
    if len(p) == 1:
        return "(P0 %d)" % p[0]
    return "(P1 %d %s %s %s)" % (p[0], z(inst(p[1], p[2])), z(p[3]), z(p[4]))


def c_obj(o):
    if o[0] == 0:
        return "(ONode %d)" % o[1]
    if o[0] == 1:
        return "(OLit %d)" % o[1]
    return "(OPred %s)" % c_pred(o[1:])


def c_universe(u):
    return "[" + ";\n  ".join("T %d %s %s %d" % (t["s"], c_pred(t["p"]), c_obj(t["o"]), i) for i, t in enumerate(u)) + "]"


def c_pools(p):
    return "(Build_pools [%s] [%s] [%s])" % (";".join(str(n) for n in p["nodes"]),
                                            ";".join(c_pred(x) for x in p["preds"]),
                                            ";".join(c_obj(x) for x in p["objs"]))


def c_nlist(l):
    return "[" + ";".join(str(x) for x in l) + "]"


def c_xop(o):
    k = o[0]
    if k == "new":
        return "XNew %d" % o[1]
    if k == "get":
        return "XGet %d" % o[1]
    if k == "drop":
        return "XDrop %d" % o[1]
    if k == "names":
        return "XNames"
    if k == "add":
        return "XAdd %d %s" % (o[1], c_nlist(o[2]))
    return "XRemove %d %s" % (o[1], c_nlist(o[2]))


QK = ["QObjects", "QSubjects", "QPredsSO", "QPredsS", "QPredsO", "QTrS", "QTrP", "QTrO", "QTrSP", "QTrPO", "QAll"]
QSORTS = [("n", "p"), ("p", "o"), ("n", "o"), ("n",), ("o",), ("n",), ("p",), ("o",), ("n", "p"), ("p", "o"), ()]


def c_query(q, pools):
    args = []
    for sort, ix in zip(QSORTS[q["k"]], (q["a"], q["b"])):
        if sort == "n":
            args.append(str(pools["nodes"][ix]))
        elif sort == "p":
            args.append(c_pred(pools["preds"][ix]))
        else:
            args.append(c_obj(pools["objs"][ix]))
    return "(" + " ".join([QK[q["k"]]] + args) + ")"


FOPS = ["FLatest", "FIsImmutable", "FIsTemporal", "FOpOther"]
FFIELDS = ["FSubject", "FPredicate", "FObject", "FFieldOther"]


def c_optz(v):
    """v = None | [unix seconds, nanoseconds]"""
    return "None" if v is None else "(Some %s)" % z(inst(v[0], v[1]))


def c_lopts(lo):
    f = "None" if not lo.get("filter") else "(Some (%s, %s))" % (FOPS[lo["filter"][0]], FFIELDS[lo["filter"][1]])
    return "(LO %s %s %s %s %s %s)" % (z(lo["max"]), c_optz(lo.get("lower")), c_optz(lo.get("upper")),
                                     "true" if lo.get("latest") else "false", f, z(lo["offset"]))


def c_obs(ob, pools, want02, want09):
    graphs = "[" + ";".join("(%d, %s)" % (g[0], c_nlist(g[1])) for g in ob["graphs"]) + "]"
    c09 = "[]"
    if want09 and ob.get("c09"):
        c09 = "[" + ";".join("([%s], [%s], %d)" % (";".join(c_query(q, pools) for q in e["qs"]),
                                                     ";".join(c_lopts(l) for l in e["los"]), e["d"])
                             for e in ob["c09"]) + "]"
    return "(Build_obs %d %s %s %s %d %s)" % (ob["res"], c_nlist(ob["names"]), c_nlist(ob["gets"]), graphs,
                                             ob["c02"] if want02 else 0, c09)


def c_hist(h, want02, want09):
    steps = ";\n  ".join("(%s, %s)" % (c_xop(s["op"]), c_obs(s["obs"], h["pools"], want02, want09)) for s in h["steps"])
    return "(Build_hist\n %s\n %s %d%%nat\n [%s])" % (c_universe(h["universe"]), c_pools(h["pools"]), h["names"], steps)


def c_cfg(c01, c02, c09):
    b = lambda x: "true" if x else "false"
    return "(Build_cfg %s %s %s)" % (b(c01), b(c02), b(c09))


# ---------------------------------------------------------------- evaluation
def parse_mismatches(out, marker="M"):
    m = re.search(re.escape(marker) + r"\s*=\s*(.*?)\s*:\s*list", vcheck.norm(out))
    if not m:
        raise vcheck.Broken("could not find %s in Coq output" % marker, out[-2000:])
    body = m.group(1)
    res = []
    for a, b in re.findall(r"\((\d+),\s*\[([\d;\s]*)\]\)", body):
        res.append((int(a), [int(x) for x in re.findall(r"\d+", b)]))
    return res


def parse_nlist(out, marker):
    m = re.search(re.escape(marker) + r"\s*=\s*(\[.*?\]|nil)\s*:\s*list", vcheck.norm(out))
    if not m:
        raise vcheck.Broken("could not find %s in Coq output" % marker, out[-2000:])
    return [int(x) for x in re.findall(r"\d+", m.group(1))]


def model_mismatches(ctx, name, hists, c01, c02, c09, shard=150):
    """[(history position, [16*step+component, ...])] where the Coq model and the observations differ"""
    bad = []
    for k in range(0, len(hists), shard):
        part = hists[k:k + shard]
        v = HEADER + "Definition cases : list hist := [\n" + ";\n".join(c_hist(h, c02, c09) for h in part) + "].\n"
        v += "Definition M := Eval vm_compute in mismatches_from %s 0 cases.\nPrint M.\n" % c_cfg(c01, c02, c09)
        out = vcheck.coq_eval(ctx.work, "%s_%d" % (name, k), v)
        bad += [(k + i, codes) for i, codes in parse_mismatches(out)]
    return bad


COMPONENT = {0: "result of the operation", 1: "GraphNames", 2: "Graph(name) for every name",
             3: "Exist over the universe / Triples() of every graph object",
             4: "digest of all lookups with default options", 5: "digest of a query x options product"}

VARIANTS = ["lk_current", "lk_legacy_kind", "lk_legacy_inst", "lk_legacy", "lk_spec"]


def explain_store(ctx, h, step):
    """model observation after step `step` of history h, next to the implementation's"""
    xs = "[" + ";".join(c_xop(s["op"]) for s in h["steps"][:step + 1]) + "]"
    v = HEADER + "Definition U := %s.\n" % c_universe(h["universe"])
    v += "Definition S := Eval vm_compute in state_after U %s.\n" % xs
    v += "Definition ONAMES := Eval vm_compute in obs_names S.\nPrint ONAMES.\n"
    v += "Definition OGETS := Eval vm_compute in obs_gets %d%%nat S.\nPrint OGETS.\n" % h["names"]
    v += "Definition OGRAPHS := Eval vm_compute in flat_map (fun e => 1000000 :: fst e :: snd e) (obs_graphs U S).\nPrint OGRAPHS.\n"
    out = vcheck.coq_eval(ctx.work, "explain_store", v)
    flat = parse_nlist(out, "OGRAPHS")
    graphs, cur = [], None
    for x in flat:
        if x == 1000000:
            cur = None
            graphs.append([])
            continue
        graphs[-1].append(x)
    graphs = [[g[0], g[1:]] for g in graphs]
    return {"model": {"names": parse_nlist(out, "ONAMES"), "gets": parse_nlist(out, "OGETS"), "graphs": graphs},
            "implementation": {k: h["steps"][step]["obs"][k] for k in ("res", "names", "gets", "graphs")},
            "operations": [s["op"] for s in h["steps"][:step + 1]],
            "universe": h["strs"]}


def explain_lookups(ctx, seed, hargs, h, step, spec):
    """per-lookup comparison of the implementation with the model variants and the spec in the state after `step`;
    spec = None (all queries, default options) or {"qs": [...], "los": [...]}"""
    args = ["-mode", "detail", "-seed", seed, "-hist", h["idx"], "-step", step] + hargs
    if spec is not None:
        args += ["-spec", json.dumps(spec), "-ne"]
    rows = [r for r in hstore(args, gomaxprocs=h.get("_gomaxprocs")) if r.get("kind") == "lookup"]
    if spec is None:
        qs = None
        los = [{"max": 0, "offset": 0}]
    else:
        qs, los = spec["qs"], spec["los"]
    xs = "[" + ";".join(c_xop(s["op"]) for s in h["steps"][:step + 1]) + "]"
    v = HEADER + "Definition U := %s.\nDefinition PL := %s.\n" % (c_universe(h["universe"]), c_pools(h["pools"]))
    v += "Definition S := Eval vm_compute in state_after U %s.\n" % xs
    v += "Definition QS := %s.\n" % ("all_queries PL" if qs is None else "[" + ";".join(c_query(q, h["pools"]) for q in qs) + "]")
    v += "Definition LOS := [%s].\n" % ";".join(c_lopts(l) for l in los)
    # the declarative spec uses firstn/skipn on unary naturals: never evaluate it on astronomically large page values
    huge = any(abs(l.get("max", 0)) > 10**6 or abs(l.get("offset", 0)) > 10**6 for l in los)
    variants = [nm for nm in VARIANTS if not (huge and nm == "lk_spec")]
    for nm in variants:
        v += "Definition D_%s := Eval vm_compute in %s %s QS LOS S.\nPrint D_%s.\n" % (
            nm, "detail" if spec is None else "detail_ne", nm, nm)
    out = vcheck.coq_eval(ctx.work, "explain_lookups", v)
    ds = {nm: parse_nlist(out, "D_" + nm) for nm in variants}
    if huge:
        ds["lk_spec"] = ds["lk_current"]
    bad = []
    if any(len(ds[nm]) != len(rows) for nm in VARIANTS):  # (lk_spec is aliased to lk_current when not evaluated)
        return [{"kind": "detail-length-mismatch", "impl": len(rows), "model": {k: len(x) for k, x in ds.items()}}]
    for i, r in enumerate(rows):
        if r["d"] != ds["lk_current"][i] or r["d"] != ds["lk_spec"][i]:
            bad.append({"graph_object": r["graph"], "query": describe_query(r["q"], h), "options": r["lo"],
                        "implementation_result": r["enc"],
                        "agrees_with": [nm for nm in VARIANTS if ds[nm][i] == r["d"]],
                        "model_equals_spec": ds["lk_current"][i] == ds["lk_spec"][i]})
    return bad


def describe_query(q, h):
    names = ["Objects(s,p)", "Subjects(p,o)", "PredicatesForSubjectAndObject(s,o)", "PredicatesForSubject(s)",
             "PredicatesForObject(o)", "TriplesForSubject(s)", "TriplesForPredicate(p)", "TriplesForObject(o)",
             "TriplesForSubjectAndPredicate(s,p)", "TriplesForPredicateAndObject(p,o)", "Triples()"]
    args = []
    for sort, ix in zip(QSORTS[q["k"]], (q["a"], q["b"])):
        pool = {"n": "nodes", "p": "preds", "o": "objs"}[sort]
        args.append({sort: h["pools"][pool][ix]})
    return {"method": names[q["k"]], "args": args}


def classify(b):
    """Narrow classifiers for the two repaired lookup defects: a disagreement belongs to the class only if the
    implementation's answer is exactly the answer of the corresponding legacy variant of the model."""
    a = b.get("agrees_with", [])
    if "lk_current" in a:
        return None
    if "lk_legacy_kind" in a:
        return "F6-kind-ignored"
    if "lk_legacy_inst" in a:
        return "F19-filter-compares-printed-predicate"
    if "lk_legacy" in a:
        return "F6+F19"
    return None


def report(ctx, seed, hargs, hists, bad, limit=2):
    """turn mismatches into violations with a concrete failing input"""
    for pos, codes in bad[:limit]:
        h = hists[pos]
        code = codes[0]
        step, comp = code // 16, code % 16
        v = {"kind": "model-vs-implementation", "history": h["idx"], "step": step, "component": COMPONENT.get(comp, comp),
             "seed": seed}
        if h.get("_gomaxprocs"):
            v["GOMAXPROCS"] = h["_gomaxprocs"]
        try:
            if comp <= 3:
                v.update(explain_store(ctx, h, step))
            elif comp == 4:
                fails = explain_lookups(ctx, seed, hargs, h, step, None)
                v["failing_lookups"] = fails[:5]
                v["classes"] = sorted(set(str(classify(f)) for f in fails))
                v["operations"] = [s["op"] for s in h["steps"][:step + 1]]
                v["universe"] = h["strs"]
            else:
                fails = []
                for e in h["steps"][step]["obs"]["c09"]:
                    fails += explain_lookups(ctx, seed, hargs, h, step, {"qs": e["qs"], "los": e["los"]})
                v["failing_lookups"] = fails[:5]
                v["classes"] = sorted(set(str(classify(f)) for f in fails))
                v["operations"] = [s["op"] for s in h["steps"][:step + 1]]
                v["universe"] = h["strs"]
        except vcheck.Broken as b:
            v["explain_failed"] = b.what
        ctx.violation(v)


def distribution(hists):
    ops = {}
    nsteps = 0
    sizes = []
    for h in hists:
        sizes.append(len(h["steps"]))
        for s in h["steps"]:
            nsteps += 1
            ops[s["op"][0]] = ops.get(s["op"][0], 0) + 1
            if s["obs"]["res"] == 1:
                ops["error:" + s["op"][0]] = ops.get("error:" + s["op"][0], 0) + 1
    return {"histories": len(hists), "steps": nsteps, "operation_mix": ops,
            "history_length_min_max": [min(sizes), max(sizes)] if sizes else [0, 0],
            "universe_sizes_min_max": [min(len(h["universe"]) for h in hists), max(len(h["universe"]) for h in hists)] if hists else [0, 0]}


def single_proc_histories(seed, flags, hargs, n=8):
    """a few ordinary histories run with GOMAXPROCS=1 (code paths that size worker pools by GOMAXPROCS)"""
    hs = hstore(["-mode", "hist", "-first", 1000, "-n", n, "-seed", seed] + flags + hargs, gomaxprocs=1)
    for h in hs:
        h["_gomaxprocs"] = 1
    return hs


def replay(ctx, flags, hargs, cfg):
    """bin/check Cxx --replay file: re-run exactly the recorded history on the implementation and in the model,
    print what the implementation, the model and the spec say at the recorded step. Returns True if handled."""
    d = json.load(open(ctx.replay))
    v = d.get("violation", {})
    if v.get("kind") != "model-vs-implementation":
        return False
    seed, idx, step = v.get("seed", d.get("seed", 1)), v["history"], v["step"]
    hists = hstore(["-mode", "hist", "-first", idx, "-n", 1, "-seed", seed] + flags + hargs)
    bad = model_mismatches(ctx, "replay", hists, *cfg)
    h = hists[0]
    print("replay: history %d of seed %s, %d steps; recorded step %d" % (idx, seed, len(h["steps"]), step))
    if step < len(h["steps"]):
        ex = explain_store(ctx, h, step)
        print("replay: implementation:", json.dumps(ex["implementation"]))
        print("replay: model         :", json.dumps(ex["model"]))
        if cfg[1] or cfg[2]:
            spec = None
            if cfg[2] and h["steps"][step]["obs"]["c09"]:
                e = h["steps"][step]["obs"]["c09"][0]
                spec = {"qs": e["qs"], "los": e["los"]}
            fails = explain_lookups(ctx, seed, hargs, h, step, spec)
            print("replay: lookups on which implementation differs from model/spec:", json.dumps(fails[:5]))
    if bad:
        report(ctx, seed, hargs, hists, bad)
    else:
        print("replay: model, spec and implementation agree on this history now")
    ctx.cov["evaluations"] = sum(len(x["steps"]) for x in hists)
    ctx.cov["rule"] = "replay of one recorded history"
    return True


# ---------------------------------------------------------------- independent spec oracle (Python)
import store_oracle as so


def oracle_failures(seed, hargs, hists, c01, c02, c09, limit=2, ctx=None):
    """disagreements between the implementation's observations and the Python reading of the SPEC"""
    out = []
    for h in hists:
        r = so.check_history(h, c01, c02, c09)
        if r is None:
            continue
        step, comp, detail = r
        v = {"kind": "spec-oracle-vs-implementation", "history": h["idx"], "seed": seed, "step": step, "component": comp,
             "operations": [s["op"] for s in h["steps"][:step + 1]], "universe": h["strs"]}
        if comp in ("c02", "c09"):
            args = ["-mode", "detail", "-seed", seed, "-hist", h["idx"], "-step", step] + hargs
            if comp == "c09":
                args += ["-spec", json.dumps({"qs": detail["qs"], "los": detail["los"]}), "-ne"]
            rows = [x for x in hstore(args) if x.get("kind") == "lookup"]
            sp = so.state_at(h, step)
            graphs = [g for g in sp.heap if g] if comp == "c09" else sp.heap
            fails = []
            for x in rows:
                want = sp.lookup(x["q"], x["lo"], graphs[x["graph"]])
                if want != x["enc"]:
                    fails.append({"query": describe_query(x["q"], h), "options": x["lo"], "implementation": x["enc"],
                                  "spec": want})
            v["failing_lookups"] = fails[:5]
        else:
            v["detail"] = detail
        if ctx is not None:
            try:
                v["shrunk"] = shrink(ctx, h, step, (c01, c02, c09), detail if comp == "c09" else None)
            except Exception as e:      # shrinking is a convenience; never hide the original failure
                v["shrunk"] = "shrinking failed: %s" % e
        out.append(v)
        if len(out) >= limit:
            break
    return out


def oracle_check(ctx, seed, hargs, hists, c01, c02, c09):
    for v in oracle_failures(seed, hargs, hists, c01, c02, c09, ctx=ctx):
        ctx.violation(v)


def oracle_search(ctx, flags, hargs, cfg, n=150):
    """failing-input search without the Coq model (used when an obligation or the build is broken)"""
    try:
        hists = hstore(["-mode", "hist", "-n", n, "-seed", ctx.seed] + flags + hargs)
        fails = oracle_failures(ctx.seed, hargs, hists, *cfg, limit=1, ctx=ctx)
    except Exception:
        return None
    return fails[0] if fails else None


# ---------------------------------------------------------------- shrinking (delta debugging over operations and batches)
def run_case(ctx, case, c02, c09):
    path = os.path.join(ctx.work, "shrink-case.json")
    with open(path, "w") as f:
        json.dump(case, f)
    args = ["-mode", "replay", "-file", path] + (["-c02"] if c02 else []) + (["-c09"] if c09 else [])
    return hstore(args)[0]


def shrink(ctx, h, step, cfg, c09_entry=None, budget=120, seconds=40):
    """smallest operation list (prefix of h up to `step`, operations and batch elements removed) on which the
    implementation still disagrees with the Python reading of the SPEC; None if the oracle does not see the failure"""
    c01, c02, c09 = cfg
    ops = [s["op"] for s in h["steps"][:step + 1]]
    import time as _time
    deadline = _time.time() + seconds        # shrinking is a convenience: never let it dominate a failing run

    def fails(ops):
        if _time.time() > deadline:
            return False
        case = {"universe": h["universe"], "pools": h["pools"], "names": h["names"], "ops": ops, "c09": {}}
        if c09 and c09_entry is not None:
            case["c09"] = {str(len(ops) - 1): {"qs": c09_entry["qs"], "los": c09_entry["los"], "d": 0}}
        try:
            r = run_case(ctx, case, c02, c09)
        except vcheck.Broken:
            return False
        return so.check_history(r, c01, c02, c09) is not None

    if not fails(ops):
        return None
    runs = 1
    chunk = max(1, len(ops) // 2)
    while chunk >= 1 and runs < budget:
        i, changed = 0, False
        while i < len(ops) - 1 and runs < budget:          # the last operation stays: the failure is observed after it
            cand = ops[:i] + ops[min(i + chunk, len(ops) - 1):]
            runs += 1
            if len(cand) < len(ops) and fails(cand):
                ops, changed = cand, True
            else:
                i += chunk
        if not changed:
            chunk //= 2
    # batches: drop single elements
    for k in range(len(ops)):
        if ops[k][0] in ("add", "rem"):
            j = 0
            while j < len(ops[k][2]) and runs < budget:
                cand = [list(o) for o in ops]
                cand[k] = [ops[k][0], ops[k][1], ops[k][2][:j] + ops[k][2][j + 1:]]
                runs += 1
                if fails(cand):
                    ops = cand
                else:
                    j += 1
    used = sorted(set(r for o in ops if o[0] in ("add", "rem") for r in o[2]))
    return {"operations": ops, "triples_used": {r: h["strs"][r] for r in used}, "harness_runs": runs}
