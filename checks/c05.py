"""C05 — printed nodes, predicates, literals, triples, graphs parse back to equal values."""
import json, os, re
import vcheck
import values_common as vc

GO_CMDS = vc.GO_CMDS
TRANSLATORS = []
COQ_PROJECTS = vc.COQ_PROJECTS
TRUSTED = vcheck.STD_TRUSTED + vc.TRUSTED_VALUES + [
    "oracle laws assumed by the C05 theorems (Section hypotheses, stated in Props/C05.v): Unquote(Quote s) = s; Quote s starts and ends "
    "with a double quote and contains a space only if s does, and no tab/newline/CR/FF; Format output has no double quote, ']' or "
    "whitespace and Parse(Format t) = t on the time domain; ParseFloat(%v f) = f for non-NaN f; all sampled by every run"]


def nodes_of(kind, v):
    if kind == "node":
        return [v]
    if kind == "obj":
        return [v["n"]] if v["k"] == "n" else []
    if kind == "triple":
        return [v["s"]] + nodes_of("obj", v["o"])
    return []


def lits_of(kind, v):
    if kind == "lit":
        return [v]
    if kind == "obj":
        return [v["l"]] if v["k"] == "l" else []
    if kind == "triple":
        return lits_of("obj", v["o"])
    return []


def is_nan_bits(b):
    b = int(b)
    return (b >> 52) & 0x7FF == 0x7FF and (b & ((1 << 52) - 1)) != 0


# ---------------------------------------------------------------- classifiers of the known findings (narrow)
def cls_node_type_lt(f):
    """a node whose type contains '<' (accepted by NewType) does not parse back"""
    if f["class"] == "graph-roundtrip":
        return any(b"<" in bytes.fromhex(n["t"]) for t in f["triples"] for n in nodes_of("triple", t))
    if f["class"] != "roundtrip":
        return False
    return any(b"<" in bytes.fromhex(n["t"]) for n in nodes_of(f["vk"], f["value"]))


def cls_nan_payload(f):
    """a NaN with a non-canonical payload prints as NaN and parses back as the canonical NaN"""
    if f["class"] != "roundtrip":
        return False
    ls = [l for l in lits_of(f["vk"], f["value"]) if l["ty"] == "float64" and is_nan_bits(l["v"])]
    if not ls or f["reparsed"]["c"] != "ok":
        return False
    # everything else must have survived: compare with the NaN bits masked
    def mask(j):
        s = json.dumps(j, sort_keys=True)
        return re.sub(r'"ty": "float64", "v": "\d+"', '"ty": "float64", "v": "NaN"', s) if True else s
    a, b = f["value"], f["reparsed"]["v"]
    la = lits_of(f["vk"], a)
    lb = lits_of(f["vk"], b)
    if len(la) != 1 or len(lb) != 1 or lb[0]["ty"] != "float64" or not is_nan_bits(lb[0]["v"]):
        return False
    return mask(a) == mask(b)


def cls_triple_pred_id_split(f):
    """in a triple, a predicate id containing ']' spaces '/' is cut by the object-split regular expression"""
    if f["class"] == "graph-roundtrip":
        return any(re.search(rb"\] +/", bytes.fromhex(t["p"]["id"])) is not None for t in f["triples"])
    if f["class"] != "roundtrip" or f["vk"] != "triple":
        return False
    return re.search(rb"\] +/", bytes.fromhex(f["value"]["p"]["id"])) is not None


def cls_subject_type_formfeed(f):
    """NewType accepts a form feed; a subject type containing '>' form-feed '"' is cut by the subject-split expression"""
    if f["class"] != "roundtrip" or f["vk"] != "triple":
        return False
    return re.search(rb">[\t\n\x0c\r ]+\"", bytes.fromhex(f["value"]["s"]["t"])) is not None


def anchors_of(kind, v):
    if kind == "pred":
        return [v["a"]] if v["a"] else []
    if kind == "obj":
        return anchors_of("pred", v["p"]) if v["k"] == "p" else []
    if kind == "triple":
        return anchors_of("pred", v["p"]) + anchors_of("obj", v["o"])
    return []


def cls_anchor_zone_seconds(f):
    """RFC3339 has no seconds in the zone offset: an anchor in a zone such as LMT +00:19:32 prints a truncated offset and
    parses back as a different instant"""
    if f["class"] != "roundtrip":
        return False
    return any(int(a["off"]) % 60 != 0 for a in anchors_of(f["vk"], f["value"]))


def cls_graph_newline(f):
    """a text literal or node id containing a newline is written as two lines"""
    if f["class"] != "graph-roundtrip":
        return False
    return any(b"\n" in bytes.fromhex(h) for h in f["stored_hex"])


def cls_graph_uuid_collision(f):
    """two different triples with the same UUID (C06 findings) are one entry of the graph"""
    return f["class"] == "graph-count" and f.get("distinct_uuids") == f.get("wcnt")


CLASSIFIERS = {"node_type_lt": cls_node_type_lt, "nan_payload": cls_nan_payload, "triple_pred_id_split": cls_triple_pred_id_split,
               "graph_newline": cls_graph_newline, "subject_type_formfeed": cls_subject_type_formfeed,
               "anchor_zone_seconds": cls_anchor_zone_seconds}


def norm_anchors(v):
    """F24: an anchor whose zone offset has seconds is printed in UTC, so it comes back as the same instant with offset 0
    (C05_predicate_zone_seconds_partial); every other anchor comes back unchanged"""
    if isinstance(v, dict):
        if set(v.keys()) == {"ns", "off"} and int(v["off"]) % 60 != 0:
            return {"ns": v["ns"], "off": 0}
        return {k: norm_anchors(x) for k, x in v.items()}
    if isinstance(v, list):
        return [norm_anchors(x) for x in v]
    return v


def failures_of(r):
    out = []
    if r["kind"] == "value" and r.get("src") == "second-pass":
        # the same text parsed a second time, later in the same process, gave a different answer
        return [{"class": "parse-depends-on-earlier-calls", "vk": r["vk"], "value": r["v"], "printed": vc.show(r["text"]),
                 "second_parse": r["parsed"]}]
    if r["kind"] == "value" and r.get("src") in ("generated", "corpus"):
        if r.get("printpanic"):
            return [{"class": "print-panic", "vk": r["vk"]}]
        ok = r["parsed"]["c"] == "ok" and r["parsed"]["v"] == norm_anchors(r["v"]) and r.get("retext") == r["text"]
        if not ok:
            out.append({"class": "roundtrip", "vk": r["vk"], "value": r["v"], "printed": vc.show(r["text"]), "reparsed": r["parsed"],
                        "reprinted": vc.show(r["retext"]) if r.get("retext") else None, "name": r.get("name")})
    elif r["kind"] == "graph":
        if r.get("addpanic"):
            return [{"class": "graph-add-panic", "triples": r["triples"]}]
        rd = r["read"]
        distinct = len(set(r.get("uuids") or []))
        if r["wcnt"] != len(r["stored"]) or r["werr"]:
            out.append({"class": "graph-write-count", "wcnt": r["wcnt"], "stored": len(r["stored"])})
        br = r.get("bounded_read")
        if br is not None and rd["err"] == "nil" and rd["cnt"] == r["wcnt"] and (br.get("panic") or br["err"] or br["cnt"] != rd["cnt"] or not br["same"]):
            out.append({"class": "graph-bounded-read", "name": r.get("name"), "bounded_read": br, "wcnt": r["wcnt"],
                        "explain": "ReadIntoGraph with NewBoundedBuilder(largest text/blob value of the graph) does not read what WriteGraph wrote",
                        "stored_hex": r["stored"], "triples": r["triples"]})
        if rd["err"] != "nil" or rd["cnt"] != r["wcnt"] or rd["lines"] != r["stored"] or r["wlines"] != r["stored"]:
            out.append({"class": "graph-roundtrip", "wcnt": r["wcnt"], "read_cnt": rd["cnt"], "read_err": rd["err"], "name": r.get("name"),
                        "stored": [vc.show(h) for h in r["stored"]], "stored_hex": r["stored"], "triples": r["triples"], "read_back": [vc.show(h) for h in rd["lines"]]})
    return out


def run(ctx):
    info = vcheck.coq_props("Values", "C05")
    ctx.add_obligations(info)
    ctx.cov["checker_cmd"] = "coqc -Q coq/Values BWValues coq/Values/Props/C05.v ; work/bin/h_values -mode values|graph ; model evaluated by coqc (vm_compute) on the generated cases"
    thorough = ctx.tier == "thorough"
    seed = str(ctx.seed)
    rows = vc.hrows(["-mode", "values", "-seed", seed, "-n", "30000" if thorough else "600"])
    rows += vc.hrows(["-mode", "graph", "-seed", seed, "-n", "1500" if thorough else "30"])
    # part of the value stream in child processes whose LOCAL zone is not UTC (time.Parse attaches time.Local to anchors
    # written with the local offset): whole-hour zone with daylight saving, and a half-hour zone
    for tz in ("Europe/Berlin", "Asia/Kolkata"):
        os.environ["TZ"] = tz
        try:
            extra = vc.hrows(["-mode", "values", "-seed", str(ctx.seed + 17), "-n", "2000" if thorough else "120"])
        finally:
            os.environ.pop("TZ", None)
        for r in extra:
            r["tz"] = tz
        rows += extra
    for r in [r for r in rows if r["kind"] == "ctor"][:3]:
        ctx.violation({"kind": "property-violated-by-implementation", "class": "constructor-getter-mismatch", "explain": r["what"],
                       "failing_input": {"id": vc.show(r["id"]), "anchor": r["anchor"], "printed": vc.show(r["printed"])}})
    rows = [r for r in rows if r["kind"] != "ctor"]
    # literal.NewBoundedBuilder: what Build accepts parses back from its own printed form with the same builder
    bounded = [r for r in rows if r["kind"] == "bounded"]
    rows = [r for r in rows if r["kind"] != "bounded"]
    nb = 0
    for r in bounded:
        why = None
        if r.get("panic"):
            why = "panics"
        elif r["size"] <= r["max"] and not r["build_ok"]:
            why = "Build refuses a value within the bound"
        elif r["size"] > r["max"] and (r["build_ok"] or r["parse_ok"]):
            why = "a value larger than the bound is accepted"
        elif r["build_ok"] and not (r["parse_ok"] and r.get("equal")):
            why = "a literal the bounded builder built does not parse back (equal) from its printed form with the same builder"
        if why:
            nb += 1
            if nb <= 3:
                ctx.violation({"kind": "property-violated-by-implementation", "class": "bounded-builder-roundtrip", "explain": why,
                               "failing_input": {k: (vc.show(v)[:120] if k == "text" else v) for k, v in r.items()}})
    ctx.cov["bounded_builder_cases"] = len(bounded)
    faults = [r for r in rows if r["kind"] in ("wfault", "rfault")]
    rows = [r for r in rows if r["kind"] not in ("wfault", "rfault")]
    second = [r for r in rows if r["kind"] == "secondpass"]
    big = [r for r in rows if r.get("nomodel")]
    rows = [r for r in rows if r["kind"] != "secondpass" and not r.get("nomodel")]
    nmodel = len(rows)
    qi = {}
    bad, dom, ill = vc.model_eval(ctx, "cases_c05", rows, quote_instance=qi)
    # cases too large for the Coq evaluation (graph text > 64 KiB, built from line-safe domain triples only): the
    # property is checked on the implementation's observations; they count as in-domain
    rows = rows + big
    dom = dom + list(range(nmodel, len(rows)))
    if qi.get("mismatches", 0) > 0:
        ctx.violation({"kind": "gallina-quote-instance-vs-go", "count": qi["mismatches"],
                       "explain": "Instance.quote_g / unquote_g (the Gallina instance whose laws are proved) disagrees with strconv.Quote on ASCII input"})
    ctx.cov["quote_instance_vs_go"] = qi
    for i in bad[:5]:
        ctx.violation({"kind": "model-vs-implementation", "case": vc.strip(rows[i]),
                       "explain": "String()/Parse()/WriteGraph/ReadIntoGraph of the Go code and the Gallina model (evaluated in Coq) disagree"})
    # the Gallina RFC3339Nano codec (TimeCodec.v, laws proved) against Go's Time.Format / time.Parse
    trows = vc.hrows(["-mode", "time", "-seed", seed, "-n", "1500" if thorough else "40"])
    tuse, tbad = vc.time_eval(ctx, "cases_time", trows)
    for r in tbad[:3]:
        ctx.violation({"kind": "time-codec-vs-go", "case": r,
                       "explain": "fmt_rfc3339nano / parse_rfc3339nano (TimeCodec.v, evaluated in Coq) and Go's Time.Format / time.Parse(RFC3339Nano) disagree"})
    ctx.cov["time_codec_vs_go"] = {"format_cases": sum(1 for r in tuse if r["kind"] == "tfmt"),
                                   "parse_cases": sum(1 for r in tuse if r["kind"] == "tparse"),
                                   "parse_accepted": sum(1 for r in tuse if r["kind"] == "tparse" and r["res"] is not None),
                                   "mismatches": len(tbad)}
    lawcnt, lawfails = vc.check_laws(rows)
    for f in lawfails[:3]:
        ctx.violation({"kind": "oracle-law-fails", "explain": "a law of the Go library assumed by the C05 theorems (oracle_laws) does not hold on this sample",
                       "failing_input": f})
    ctx.cov["oracle_law_samples"] = lawcnt
    # failing writers / readers: "both operations report that number of triples"
    for r in faults:
        why = None
        if r.get("panic"):
            why = "panics"
        elif r["kind"] == "wfault":
            if not r["err"] and not (r["complete"] and r["n"] == r["triples"]):
                why = "WriteGraph returned a nil error although the text that reached the writer is incomplete (or a wrong count)"
            elif r["limit"] >= r["total"] and r["err"]:
                why = "WriteGraph failed although the writer accepted the whole text"
        else:
            lo = r["lines_delivered"]
            if not r["err"]:
                why = "ReadIntoGraph returned a nil error although the reader failed"
            elif not (lo <= r["n"] <= lo + 1) or r["stored"] != r["n"] or r["foreign"] > r["n"] - lo:
                why = "ReadIntoGraph's count / stored triples do not match the lines the reader delivered"
        if why:
            ctx.violation({"kind": "property-violated-by-implementation", "class": "io-fault-" + r["kind"], "explain": why, "failing_input": r})
    ctx.cov["io_fault_cases"] = len(faults)
    domset = set(dom)
    findings = vcheck.known_findings("C05")
    unexplained, explained, in_dom_fail = [], {}, []
    corpus_fail = {}
    for i, r in enumerate(rows):
        for f in failures_of(r):
            if r.get("name"):
                corpus_fail.setdefault(r["name"], []).append(f)
            if i in domset:
                in_dom_fail.append(f)
                continue
            hit = None
            for kf in findings:
                c = CLASSIFIERS.get(kf.get("class"))
                if c and c(f):
                    hit = kf
                    break
            if hit is None:
                unexplained.append(f)
            else:
                explained.setdefault(hit["id"], []).append(f)
    for f in in_dom_fail[:5]:
        ctx.violation({"kind": "property-violated-by-implementation", "class": f["class"], "in_documented_domain": True, "failing_input": f})
    byclass = {}
    for f in unexplained:
        byclass.setdefault((f["class"], f.get("vk")), []).append(f)
    for (c, p), fs in sorted(byclass.items(), key=lambda kv: str(kv[0])):
        fs.sort(key=lambda f: len(json.dumps(f)))
        ctx.violation({"kind": "property-violated-by-implementation", "class": c, "value_kind": p, "count": len(fs),
                       "in_documented_domain": False, "explain": "outside the domain predicate of the C05 theorems but in no known finding class",
                       "failing_input": fs[0], "more": fs[1:3]})
    # replay of the open findings: their witnesses are named corpus cases of the harness
    for kf in findings:
        c = CLASSIFIERS.get(kf.get("class"))
        w = json.loads(kf["witness"])
        ff = corpus_fail.get(w.get("corpus"), [])
        if c and any(c(f) for f in ff):
            ctx.known("id=%s site=%s class=%s witness=%s still fails" % (kf["id"], kf.get("site"), kf.get("class"), kf["witness"]))
        else:
            ctx.notes.append("finding %s no longer reproduces" % kf["id"])
    ctx.cov["evaluations"] = len(rows)
    nt = set()
    for r in rows:
        if r["kind"] == "value" and len(r.get("text", "")) >= 12:
            nt.add(vcheck.case_hash([r["vk"], r["text"]]))
        elif r["kind"] == "graph" and len(r["triples"] or []) >= 1:
            nt.add(vcheck.case_hash(r["triples"]))
    ctx.cov["distinct_nontrivial"] = len(nt)
    ctx.cov["rule"] = ("value case (String, Parse(String), re-String of one generated value) is non-trivial when the printed form has at least "
                       "6 bytes; graph case (AddTriples, WriteGraph, ReadIntoGraph into a fresh memory graph) when it has at least one triple; "
                       "distinct by printed form / triple list")
    ctx.cov["in_documented_domain"] = len(dom)
    ctx.cov["in_domain_failures"] = len(in_dom_fail)
    ctx.cov["kinds"] = {}
    for r in rows:
        k = r["kind"] + "/" + str(r.get("vk") or "")
        ctx.cov["kinds"][k] = ctx.cov["kinds"].get(k, 0) + 1
    ctx.cov["graph_sizes"] = sorted(set(len(r["triples"] or []) for r in rows if r["kind"] == "graph"))
    ctx.cov["roundtrip_outcomes"] = {c: sum(1 for r in rows if r["kind"] == "value" and r.get("parsed", {}).get("c") == c) for c in ("ok", "err", "panic", "nilnil")}
    ctx.cov["model_mismatches"] = len(bad)
    ctx.cov["second_pass"] = second
    ctx.cov["values_in_other_local_zones"] = {tz: sum(1 for r in rows if r.get("tz") == tz) for tz in ("Europe/Berlin", "Asia/Kolkata")}
    ctx.cov["long_values"] = sum(1 for r in big if r["kind"] == "value")
    ctx.cov["largest_graph_text_bytes"] = max([r.get("textlen", 0) for r in rows if r["kind"] == "graph"] + [0])
    ctx.cov["failures_in_known_classes"] = {k: len(v) for k, v in explained.items()}
    ctx.cov["property_failures_unexplained"] = len(unexplained)
    ctx.cov["samples"] = [vc.strip(r) for r in rows[20:23]]
    ctx.assumptions += ["zone offsets are whole minutes and anchors lie in years 0001..9999 (generator and time_dom)",
                        "graphs are compared as sorted listings of Triple.String() of storage/memory graphs"]


def search(ctx, broken):
    try:
        rows = vc.hrows(["-mode", "values", "-seed", str(ctx.seed), "-n", "4000"])
        rows += vc.hrows(["-mode", "graph", "-seed", str(ctx.seed), "-n", "100"])
    except Exception:
        return None
    findings = vcheck.known_findings("C05")
    for r in rows:
        for f in failures_of(r):
            if not any(CLASSIFIERS.get(k.get("class"), lambda f: False)(f) for k in findings):
                return f
    return None
