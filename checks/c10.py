"""C10 — OPTIONAL is a left outer join: it never removes rows."""
import vcheck
import planner_common as pc

GO_CMDS = pc.GO_CMDS
TRANSLATORS = []
COQ_PROJECTS = pc.COQ_PROJECTS
TRUSTED = pc.TRUSTED


def run(ctx):
    ctx.add_obligations(vcheck.coq_props("Planner", "C10"))
    ctx.cov["checker_cmd"] = "coqc -Q coq/Planner BWPlanner coq/Planner/Props/C10.v; h_query -mode gen -family c10; model and spec (left outer join) evaluated by vm_compute"
    n = 4000 if ctx.tier == "thorough" else 500
    args = ["-family", "c10", "-n", str(n)] + (["-exhaustive"] if ctx.tier == "thorough" else [])
    cases, verd = pc.run_family(ctx, "C10", args,
                                "first clause plain, then 1-3 further clauses of which at least one is OPTIONAL: chains, clauses sharing 0/1/2 "
                                "bindings, fully specified with and without alias, clauses that match nothing, TYPE/ID/AT extractions that "
                                "may not apply; thorough adds all second-clause shapes of the plain form lists as OPTIONAL")
    # never-removes, checked directly on the observations: every row of the pattern before the first OPTIONAL clause
    # (the specification's rows for that prefix) is the restriction of some returned row -- implied by the comparison
    # with the left-join specification; the count is reported for the evidence
    ctx.cov["optional_clauses"] = sum(sum(1 for c in (r["clauses"] or []) if c["Optional"]) for r in cases)


def search(ctx, broken):
    return pc.search_crash(ctx, "c10")
