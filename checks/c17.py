"""C17 — every alternative of every BQL grammar rule is live and chosen by one token."""
import json, os
import vcheck
from vcheck import sh, BIN, REPO

GO_CMDS = ["gengrammar", "h_parse"]
TRANSLATORS = ["gengrammar"]
COQ_PROJECTS = ["Grammar"]

TRUSTED = vcheck.STD_TRUSTED + [
    "translator harness/cmd/gengrammar (reads grammar.BQL()/SemanticBQL() values by reflection, writes GrammarGen.v)",
    "witness search is untrusted: every witness is re-checked by the model parser inside Coq and by the real parser",
]


def hparse(args):
    rc, out = sh([os.path.join(BIN, "h_parse")] + args, cwd=REPO, env=vcheck.goenv(), timeout=900)
    if rc != 0:
        raise vcheck.Broken("h_parse failed", out[-3000:])
    return [json.loads(l) for l in out.splitlines() if l.startswith("{")]


def obs_term(r):
    toks = "[" + ";".join(str(t) for t in r["lexed"]) + "]"
    tr = "[" + ";".join("(%d,%d%%nat)" % (a, b) for a, b in (r["trace"] or [])) + "]"
    return "(%s, %s, %s)" % (toks, "true" if r["accepted"] else "false", tr)


HEADER = """From Coq Require Import List NArith.
Import ListNotations.
From BWGrammar Require Import Grammar Corr.
From BWGrammar.Gen Require Import GrammarGen.
Open Scope N_scope.
"""


def model_mismatches(ctx, name, rows):
    """indices of observations on which the Coq parser model disagrees with the real parser"""
    bad = []
    shard = 1500
    for k in range(0, len(rows), shard):
        part = rows[k:k + shard]
        v = HEADER + "Definition cases : list obs := [\n" + ";\n".join(obs_term(r) for r in part) + "].\n"
        v += "Definition M := Eval vm_compute in mismatches_from bql START tok_eof 0 cases.\nPrint M.\n"
        out = vcheck.coq_eval(ctx.work, "%s_%d" % (name, k), v)
        bad += [k + i for i in vcheck.parse_nat_list(out, "M")]
    return bad


def run(ctx):
    info = vcheck.coq_props("Grammar", "C17")
    ctx.add_obligations(info)
    ctx.cov["checker_cmd"] = "coqc -Q coq/Grammar BWGrammar coq/Grammar/Props/C17.v (after bin/setup regenerates Gen/GrammarGen.v)"
    rows = hparse(["-mode", "witness"])
    if ctx.tier == "thorough":
        rows += hparse(["-mode", "seqs", "-n", "20000", "-seed", str(ctx.seed)])
    else:
        rows += hparse(["-mode", "seqs", "-n", "300", "-seed", str(ctx.seed)])
    wit = [r for r in rows if r["kind"] == "witness"]
    # every alternative has a witness that the REAL parser accepts taking that alternative
    nonempty = 0
    for r in wit:
        if r["lexed"][:-1] != r["intended"]:
            # the token-level witness has no textual form the real lexer turns into these tokens (the search prefers
            # lexable sentences over all contexts it tries): no concrete STATEMENT is known that takes this alternative
            ctx.violation({"kind": "alternative-without-textual-witness", "case": r,
                           "explain": "the parser model takes this alternative on the token sentence, but its rendering does not "
                                      "lex to those tokens: no statement text was found that the real lexer + parser accept by "
                                      "taking alternative %d of rule %d" % (r["alt"], r["sym"])})
            continue
        if not r["accepted"]:
            ctx.violation({"kind": "witness-rejected-by-real-parser", "case": r})
        if r["fired"]:
            nonempty += 1
    for r in [r for r in rows if r.get("panic")][:3]:
        ctx.violation({"kind": "real-parser-panics", "case": r, "explain": "grammar.Parser over BQL() panicked: " + r["panic"]})
    bad = model_mismatches(ctx, "cases_c17", rows)
    for i in bad[:5]:
        ctx.violation({"kind": "parser-model-vs-real-parser", "case": rows[i],
                       "explain": "model parse (Coq, vm_compute) and grammar.Parser disagree on acceptance or on the alternatives taken"})
    ctx.cov["evaluations"] = len(rows)
    seen = set()
    for r in rows:
        if r["accepted"] or len(r["trace"] or []) >= 2:
            seen.add(vcheck.case_hash(r["lexed"]))
    ctx.cov["distinct_nontrivial"] = len(seen)
    ctx.cov["rule"] = ("one generated witness statement per alternative (all %d alternatives of the live grammar) plus "
                       "mutated/random token sequences, each rendered to text, lexed and parsed by the real parser with "
                       "ProcessStart probes; non-trivial = accepted or at least two alternatives entered; distinct by "
                       "lexed token sequence" % len(wit))
    ctx.cov["samples"] = [{"text": r["text"], "accepted": r["accepted"], "trace": r["trace"]} for r in rows[:3]]
    ctx.cov["alternatives"] = len(wit)
    ctx.cov["alternatives_observed_firing_in_real_parser"] = nonempty
    ctx.cov["exhaustive"] = True
    ctx.cov["kinds"] = {k: sum(1 for r in rows if r["kind"] == k) for k in sorted(set(r["kind"] for r in rows))}
    ctx.assumptions += ["empty alternatives cannot be probed in the real parser (no hook runs); they are compared through "
                        "acceptance and through equality of the non-empty part of the trace"]


def search(ctx, broken):
    """failing-input search when the obligation breaks: a dead alternative / a shape difference"""
    try:
        rows = hparse(["-mode", "dead"])
    except Exception:
        return None
    if rows and (rows[0].get("dead") or rows[0].get("shape")):
        return rows[0]
    return None
