"""C15 — text parsers return a well-formed value or an error for every input string; accept-stable; reader prefix."""
import json, os, re
import vcheck
import values_common as vc

GO_CMDS = vc.GO_CMDS
TRANSLATORS = []
COQ_PROJECTS = vc.COQ_PROJECTS
TRUSTED = vcheck.STD_TRUSTED + vc.TRUSTED_VALUES

KINDS = ["node", "pred", "lit", "obj", "triple"]
ALLK = KINDS + ["blit"]   # blit = literal.NewBoundedBuilder(2).Parse


# ---------------------------------------------------------------- property on the implementation's observations
def failures_of(r, ill=False):
    """list of {class, ...} describing how this observation violates C15 (empty = fine)"""
    out = []
    k = r["kind"]
    if k == "parse":
        for p in ALLK:
            o = r["out"][p]
            if o["c"] == "panic":
                out.append({"class": "panic", "parser": p, "input": vc.show(r["in"]), "in": r["in"]})
            elif o["c"] == "nilnil":
                out.append({"class": "nil-value-nil-error", "parser": p, "input": vc.show(r["in"]), "in": r["in"]})
            elif o["c"] == "ok":
                v = o["v"]
                ob = v if p == "obj" else (v.get("o") if p == "triple" else None)
                if ob is not None and ob.get("k") == "x":
                    out.append({"class": "invalid-object-nil-error", "parser": p, "input": vc.show(r["in"]), "in": r["in"]})
        if ill and not out:
            out.append({"class": "ill-formed-value-accepted", "input": vc.show(r["in"]), "in": r["in"], "out": r["out"]})
    elif k == "value" and r.get("src") in ("accepted", "replay"):
        if r.get("printpanic"):
            out.append({"class": "print-panic", "parser": r["vk"]})
        elif r["parsed"]["c"] != "ok" or r["parsed"]["v"] != r["v"]:
            out.append({"class": "accept-unstable", "parser": r["vk"], "value": r["v"], "printed": vc.show(r["text"]),
                        "text": r["text"], "reparsed": r["parsed"]})
    elif k == "read":
        if r["err"] == "panic":
            out.append({"class": "reader-panic", "text": vc.show(r["text"]), "in": r["text"]})
        elif r.get("src") == "long":
            # a valid line that does not fit bufio.Scanner's 64 KiB buffer counts as the first malformed line
            rawlen = r["linelen"] + (1 if r["tail"] == "0d0a" else 0)
            exp = (1, "err") if rawlen >= 65536 else (r["expect_cnt"], "nil")
            if (r["cnt"], r["err"]) != exp:
                out.append({"class": "reader-silent-stop" if r["err"] == "nil" else "reader-long-line", "linelen": r["linelen"],
                            "cnt": r["cnt"], "err": r["err"], "expected": list(exp)})
        else:
            per = r.get("per_line") or []
            kbad = next((i for i, e in enumerate(per) if e["c"] != "ok"), None)
            pre = per if kbad is None else per[:kbad]
            exp_err = "nil" if kbad is None else "err"
            byu = {}
            for e in pre:
                byu[e["u"]] = e["s"]
            exp_lines = sorted(byu.values(), key=lambda h: bytes.fromhex(h))
            if r["cnt"] != len(pre) or r["err"] != exp_err or r["lines"] != exp_lines:
                out.append({"class": "reader-prefix", "text": vc.show(r["text"]), "in": r["text"], "cnt": r["cnt"], "err": r["err"],
                            "expected_cnt": len(pre), "expected_err": exp_err,
                            "loaded": [vc.show(h) for h in r["lines"]], "expected": [vc.show(h) for h in exp_lines]})
    return out


# ---------------------------------------------------------------- classifiers of the known findings (narrow)
def cls_triple_pred_id_respaced(f):
    """triple.Parse accepted a predicate id containing ']' spaces '/' (only reachable through an escape such as \\x20):
    the printed form has the object split inside the id"""
    if f["class"] != "accept-unstable" or f["parser"] != "triple":
        return False
    pid = bytes.fromhex(f["value"]["p"]["id"])
    return re.search(rb"\] +[/\"]", pid) is not None


def cls_zone_2460(f):
    """time.Parse accepts a zone of +/-24:60 (= 25:00); Time.Format prints +/-25:00, which time.Parse rejects"""
    if f["class"] != "accept-unstable" or f["parser"] not in ("pred", "obj", "triple"):
        return False
    offs = re.findall(r'"off": (-?\d+)', json.dumps(f["value"]))
    return any(abs(int(o)) == 90000 for o in offs) and f["reparsed"]["c"] == "err"


CLASSIFIERS = {"triple_pred_id_respaced": cls_triple_pred_id_respaced, "zone_2460": cls_zone_2460}


def replay_rows(witness):
    """run a finding's witness on the implementation"""
    w = json.loads(witness)
    if "parse" in w:
        return [json.loads(l) for l in vc.hvalues(["-mode", "stdin"], inp="parse %s\n" % w["parse"].encode().hex()).splitlines()]
    if "long" in w:
        return long_rows()
    return []


def long_rows():
    rows = vc.hrows(["-mode", "long"])
    for r in rows:
        r["expect_cnt"] = 3 if r["tail"] != "" else 2
    return rows


def run(ctx):
    info = vcheck.coq_props("Values", "C15")
    ctx.add_obligations(info)
    ctx.cov["checker_cmd"] = "coqc -Q coq/Values BWValues coq/Values/Props/C15.v ; work/bin/h_values -mode parse|reader ; model evaluated by coqc (vm_compute) on the generated cases"
    thorough = ctx.tier == "thorough"
    seed = str(ctx.seed)
    rows = vc.hrows(["-mode", "parse", "-seed", seed, "-n", "12000" if thorough else "900", "-maxlen", "5" if thorough else "3"])
    if thorough:
        rows += vc.hrows(["-mode", "parse", "-seed", seed, "-n", "0", "-maxlen", "4", "-alpha", "/<>_\"@[]^:a1 "])
        rows += vc.hrows(["-mode", "parse", "-seed", seed, "-n", "0", "-maxlen", "6", "-alpha", "]> \"/"])
        rows += vc.hrows(["-mode", "parse", "-seed", seed, "-n", "0", "-maxlen", "3", "-alpha", "\"^type:blofx[]1 "])
    else:
        rows += vc.hrows(["-mode", "parse", "-seed", seed, "-n", "0", "-maxlen", "2", "-alpha", "/<>_\"@[]^:a1 \t"])
    # dedupe parse inputs across the runs
    seen, uniq = set(), []
    for r in rows:
        h = vcheck.case_hash(vc.strip(r))
        if h not in seen:
            seen.add(h)
            uniq.append(r)
    rows = uniq
    rows += vc.hrows(["-mode", "reader", "-seed", seed, "-n", "2500" if thorough else "150"])
    sweeps = [r for r in rows if r["kind"] == "intsweep"]
    rows = [r for r in rows if r["kind"] != "intsweep"]
    for r in sweeps[:1]:
        ctx.cov["integer_sweep"] = {k: v for k, v in r.items() if k != "examples"}
        if r["bad"] > 0:
            ctx.violation({"kind": "property-violated-by-implementation", "class": "integer-sweep",
                           "explain": "a well-formed int64 literal (dense sweep -1100..1100, +-2^k, +-(2^k+-1), every spelling ParseInt accepts) through both builders, ParseObject, triple.Parse and ReadIntoGraph: a value or an error, never (nil, nil), never a panic, and the value written",
                           "failing_input": {"bad": r["bad"], "calls": r["calls"], "examples": r["examples"]}})
    second = [r for r in rows if r["kind"] == "secondpass"]
    rows = [r for r in rows if r["kind"] != "secondpass"]
    for r in second:
        if r["different"] > 0:
            ctx.violation({"kind": "property-violated-by-implementation", "class": "parse-depends-on-earlier-calls",
                           "explain": "the same input parsed again later in the same process gave a different outcome",
                           "failing_input": {"count": r["different"], "inputs": [vc.show(h) for h in r.get("examples") or []]}})
    ctx.cov["second_pass"] = [{k: v for k, v in r.items() if k != "examples"} for r in second]
    pc = vc.hrows(["-mode", "parseconc", "-seed", seed, "-n", "3000" if thorough else "400"])
    for r in pc:
        if r["wrong"] > 0:
            ctx.violation({"kind": "property-violated-by-implementation", "class": "parse-differs-under-concurrency",
                           "failing_input": {"calls": r["calls"], "wrong": r["wrong"], "inputs": [vc.show(h) for h in r.get("examples") or []]}})
    ctx.cov["concurrent_parse"] = [{k: v for k, v in r.items() if k != "examples"} for r in pc]
    big = [r for r in rows if r.get("nomodel")]      # reader texts > 4 KiB / > 64 KiB: checked on the observations only
    rows = [r for r in rows if not r.get("nomodel")]
    bad, dom, ill = vc.model_eval(ctx, "cases_c15", rows, shard=2500 if thorough else 600)
    rows = rows + big
    for i in bad[:5]:
        ctx.violation({"kind": "model-vs-implementation", "case": vc.strip(rows[i]),
                       "explain": "the Gallina parsers (evaluated in Coq with the library answers shipped by the harness) and the Go code disagree"})
    rows_long = long_rows()
    lawcnt, lawfails = vc.check_laws(rows)
    for f in lawfails[:3]:
        ctx.violation({"kind": "oracle-law-fails", "explain": "a law of the Go library assumed by C15_accept_stable (accept_laws) does not hold on this sample",
                       "failing_input": f})
    ctx.cov["oracle_law_samples"] = lawcnt
    # the property itself, on the implementation's observations
    findings = vcheck.known_findings("C15")
    fails = []
    illset = set(ill)
    for i, r in enumerate(rows + rows_long):
        fails += failures_of(r, i in illset)
    unexplained, explained = [], {}
    for f in fails:
        hit = None
        for kf in findings:
            c = CLASSIFIERS.get(kf.get("class"))
            if c and c(f):
                hit = kf
                break
        if hit is None:
            unexplained.append(f)
        else:
            explained.setdefault(hit["id"], []).append(f)
    byclass = {}
    for f in unexplained:
        byclass.setdefault((f["class"], f.get("parser")), []).append(f)
    for (c, p), fs in sorted(byclass.items(), key=lambda kv: str(kv[0])):
        fs.sort(key=lambda f: len(json.dumps(f)))
        ctx.violation({"kind": "property-violated-by-implementation", "class": c, "parser": p, "count": len(fs),
                       "failing_input": fs[0], "more": fs[1:4]})
    # replay of the open findings
    for kf in findings:
        c = CLASSIFIERS.get(kf.get("class"))
        try:
            rr = replay_rows(kf["witness"])
        except Exception as e:
            ctx.notes.append("replay of %s failed: %s" % (kf["id"], e))
            continue
        ff = [f for r in rr for f in failures_of(r)]
        if c and any(c(f) for f in ff):
            ctx.known("id=%s site=%s class=%s witness=%s still fails" % (kf["id"], kf.get("site"), kf.get("class"), kf["witness"]))
        else:
            ctx.notes.append("finding %s no longer reproduces" % kf["id"])
    # coverage
    allrows = rows + rows_long
    ctx.cov["evaluations"] = len(allrows)
    nt = set()
    for r in rows:
        if r["kind"] == "parse":
            if any(r["out"][p]["c"] != "err" for p in KINDS) or len(r["in"]) >= 8:
                nt.add(vcheck.case_hash(r["in"]))
        elif r["kind"] == "value":
            nt.add(vcheck.case_hash([r["vk"], r["text"]]))
        elif r["kind"] == "read":
            if len(r.get("per_line") or []) >= 1:
                nt.add(vcheck.case_hash(r["text"]))
    ctx.cov["distinct_nontrivial"] = len(nt)
    ctx.cov["rule"] = ("parse case (one input through node/predicate/literal/object/triple Parse) is non-trivial when some parser "
                       "does something other than return an error or the input has at least 4 bytes; accepted values followed up "
                       "as print/re-parse cases always count; reader texts count when they have at least one non-blank line; "
                       "distinct by input bytes")
    srcs = {}
    for r in allrows:
        key = "%s/%s" % (r["kind"], r.get("src"))
        srcs[key] = srcs.get(key, 0) + 1
    ctx.cov["sources"] = srcs
    oc = {}
    for r in rows:
        if r["kind"] == "parse":
            for p in KINDS:
                key = "%s:%s" % (p, r["out"][p]["c"])
                oc[key] = oc.get(key, 0) + 1
    ctx.cov["outcome_classes"] = oc
    ctx.cov["reader"] = {"texts": sum(1 for r in rows if r["kind"] == "read"),
                         "with_error": sum(1 for r in rows if r["kind"] == "read" and r["err"] == "err"),
                         "long_line_cases": len(rows_long)}
    ctx.cov["model_mismatches"] = len(bad)
    ctx.cov["property_failures_unexplained"] = len(unexplained)
    ctx.cov["property_failures_in_known_classes"] = {k: len(v) for k, v in explained.items()}
    ctx.cov["samples"] = [vc.strip(r) for r in rows[40:43]]
    ctx.cov["exhaustive"] = ("all strings of length <= %d over the alphabet / < > _ \" @ [ ] ^ through all five parsers" % (5 if thorough else 3))
    ctx.assumptions += ["library answers (Unquote, time.Parse, ParseFloat, Quote, Format, %v) are taken from the running Go library per case",
                        "panic sites are compared as a class (Panic), not by site"]


def search(ctx, broken):
    """obligation broke: look for an input on which the implementation itself violates C15"""
    try:
        rows = vc.hrows(["-mode", "parse", "-seed", str(ctx.seed), "-n", "3000", "-maxlen", "4"])
        rows += vc.hrows(["-mode", "reader", "-seed", str(ctx.seed), "-n", "300"])
    except Exception:
        return None
    findings = vcheck.known_findings("C15")
    for r in rows:
        for f in failures_of(r):
            if not any(CLASSIFIERS.get(k.get("class"), lambda f: False)(f) for k in findings):
                return f
    return None
