"""Shared by c05.py / c06.py / c15.py (Values family): run h_values, render its JSON lines as Coq terms, evaluate the
Gallina model inside Coq on them (vm_compute) and report the indices that disagree."""
import json, os, subprocess
import vcheck
from vcheck import sh, BIN, REPO

GO_CMDS = ["h_values"]
COQ_PROJECTS = ["Values"]

TRUSTED_VALUES = [
    "oracle tables: strconv.Quote/Unquote, time.Format/Parse(RFC3339Nano), strconv.ParseFloat and %v of float64 are not "
    "modelled; the harness ships Go's answers for every substring of the input a parser can pass on (absent = failure)",
    "strings.TrimSpace / bufio.ScanLines / the two regular expressions of triple.Parse / strconv.ParseInt, ParseUint, "
    "ParseBool, FormatInt are hand-written Gallina, tied by the differential run only",
    "SHA-1 (uuid.NewSHA1) is an oracle: UUID := byte pre-image; the harness hashes the model's pre-image with the same Go function",
]


def hvalues(args, inp=None, timeout=900):
    p = subprocess.run([os.path.join(BIN, "h_values")] + args, cwd=REPO, env=vcheck.goenv(), input=inp,
                       stdout=subprocess.PIPE, stderr=subprocess.PIPE, timeout=timeout * vcheck.TSCALE, text=True)
    if p.returncode != 0:
        raise vcheck.Broken("h_values failed", (p.stdout[-1500:] + p.stderr[-1500:]))
    return p.stdout


def hrows(args):
    return [json.loads(l) for l in hvalues(args).splitlines() if l.startswith("{")]


# ---------------------------------------------------------------- rendering
def cb(h):
    return vcheck.coq_bytes(bytes.fromhex(h))


def cz(n):
    n = int(n)
    return "(%d)%%Z" % n


def c_node(j):
    return "(mkNode %s %s)" % (cb(j["t"]), cb(j["id"]))


def c_time(j):
    return "(mkTime %s %s)" % (cz(j["ns"]), cz(j["off"]))


def c_pred(j):
    return "(mkPred %s %s)" % (cb(j["id"]), "None" if j["a"] is None else "(Some %s)" % c_time(j["a"]))


def c_lit(j):
    ty, v = j["ty"], j.get("v")
    if ty == "bool":
        return "(LBool %s)" % ("true" if v else "false")
    if ty == "int64":
        return "(LInt %s)" % cz(v)
    if ty == "float64":
        return "(LFloat %d%%N)" % int(v)
    if ty == "text":
        return "(LText %s)" % cb(v)
    if ty == "blob":
        return "(LBlob %s)" % cb(v)
    raise ValueError(ty)


def c_obj(j):
    k = j["k"]
    if k == "n":
        return "(ONode %s)" % c_node(j["n"])
    if k == "p":
        return "(OPred %s)" % c_pred(j["p"])
    if k == "l":
        return "(OLit %s)" % c_lit(j["l"])
    return "OInvalid"


def c_triple(j):
    return "(mkTriple %s %s %s)" % (c_node(j["s"]), c_pred(j["p"]), c_obj(j["o"]))


RENDER = {"node": c_node, "pred": c_pred, "lit": c_lit, "obj": c_obj, "triple": c_triple}
VCON = {"node": "VNode", "pred": "VPred", "lit": "VLit", "obj": "VObj", "triple": "VTriple"}


def c_value(kind, j):
    return "(%s %s)" % (VCON[kind], RENDER[kind](j))


def c_outcome(j, render):
    c = j["c"]
    if c == "ok":
        return "(Ok %s)" % render(j["v"])
    if c == "err":
        return "Err"
    if c == "panic":
        return "(Panic S_node_raw0)"
    return "NilNil"


def c_status(s):
    return {"nil": "RNil", "err": "RErr", "panic": "RPanic"}[s]


def c_strs(hs):
    return "[" + "; ".join(cb(h) for h in hs) + "]"


def c_case(r):
    k = r["kind"]
    if k == "parse":
        o = r["out"]
        return "CParse %s %s %s %s %s %s %s" % (cb(r["in"]), c_outcome(o["node"], c_node), c_outcome(o["pred"], c_pred),
                                                c_outcome(o["lit"], c_lit), c_outcome(o["obj"], c_obj),
                                                c_outcome(o["triple"], c_triple), c_outcome(o["blit"], c_lit))
    if k == "value":
        vk = r["vk"]
        ret = "(Some %s)" % cb(r["retext"]) if r.get("retext") is not None else "None"
        return "CValue %s %s %s %s" % (c_value(vk, r["v"]), cb(r["text"]),
                                       c_outcome(r["parsed"], lambda j: c_value(vk, j)), ret)
    if k == "read":
        return "CRead %s %s %s %s" % (cb(r["text"]), cz(r["cnt"]), c_status(r["err"]), c_strs(r["lines"]))
    if k == "graph" and r.get("addpanic"):
        return "CGraphPanic [%s]" % "; ".join(c_triple(t) for t in r["triples"] or [])
    if k == "graph":
        rd = r["read"]
        return "CGraph [%s] %s %s %s %s %s %s" % ("; ".join(c_triple(t) for t in r["triples"] or []), c_strs(r["stored"]),
                                                cz(r["wcnt"]), cb(r["wtext"]), cz(rd["cnt"]), c_status(rd["err"]),
                                                c_strs(rd["lines"]))
    raise ValueError(k)


def merged_tables(rows):
    t = {"unq": {}, "quote": {}, "ptime": {}, "pfloat": {}, "ftime": {}, "ffloat": {}}
    for r in rows:
        tb = r.get("tables") or {}
        for name in t:
            for k, v in tb.get(name, []):
                t[name][json.dumps(k, sort_keys=True)] = (k, v)
    def lst(name, fk, fv):
        return "[" + "; ".join("(%s, %s)" % (fk(k), fv(v)) for k, v in t[name].values()) + "]"
    return "(mkTables %s %s %s %s %s %s)" % (
        lst("unq", cb, cb), lst("quote", cb, cb), lst("ptime", cb, c_time), lst("ftime", c_time, cb),
        lst("pfloat", cb, lambda v: "%d%%N" % int(v)), lst("ffloat", lambda k: "%d%%N" % int(k), cb))


HEADER = """From Coq Require Import List NArith ZArith.
From Coq.Strings Require Import Byte.
Import ListNotations.
From BWValues Require Import Bytes Values Codec Uuid Io Dom Corr.
"""


def model_eval(ctx, name, rows, shard=600, quote_instance=None):
    """returns (mismatch indices, in-domain indices, indices with an ill-formed observed value) over rows, the model
    evaluated inside Coq"""
    bad, dom, ill = [], [], []
    for k in range(0, len(rows), shard):
        part = rows[k:k + shard]
        v = HEADER + "Definition T : tables := %s.\nDefinition O := table_oracles T.\n" % merged_tables(part)
        v += "Definition cases : list case := [\n" + ";\n".join(c_case(r) for r in part) + "].\n"
        v += "Definition M := Eval vm_compute in mismatches_from O 0%N cases.\nPrint M.\n"
        v += "Definition D := Eval vm_compute in in_domain_from 0%N cases.\nPrint D.\n"
        v += "Definition W := Eval vm_compute in illformed_from 0%N cases.\nPrint W.\n"
        if quote_instance is not None:
            v += "From BWValues Require Import Instance.\n"
            v += "Definition QM := Eval vm_compute in quote_g_mismatches 0%N (Corr.t_quote T).\nPrint QM.\n"
            v += "Definition QN := Eval vm_compute in [ascii_entries (Corr.t_quote T)].\nPrint QN.\n"
        out = vcheck.coq_eval(ctx.work, "%s_%d" % (name, k), v)
        if quote_instance is not None:
            quote_instance["mismatches"] = quote_instance.get("mismatches", 0) + len(vcheck.parse_nat_list(out, "QM"))
            quote_instance["ascii_entries"] = quote_instance.get("ascii_entries", 0) + sum(vcheck.parse_nat_list(out, "QN"))
        bad += [k + i for i in vcheck.parse_nat_list(out, "M")]
        dom += [k + i for i in vcheck.parse_nat_list(out, "D")]
        ill += [k + i for i in vcheck.parse_nat_list(out, "W")]
    return bad, dom, ill


def strip(r):
    """a case without its tables (for reports)"""
    return {k: v for k, v in r.items() if k != "tables"}


def show(h):
    try:
        return bytes.fromhex(h).decode("utf-8")
    except Exception:
        return "hex:" + h


def check_laws(rows):
    """sample the oracle laws assumed by the C05 theorems on the library answers shipped with the cases.
    returns (counts, list of failures)"""
    cnt = {"unquote_quote": 0, "quote_shape": 0, "quote_ws": 0, "time_roundtrip": 0, "time_alphabet": 0, "float_roundtrip": 0}
    fails = []
    alpha = set(b"0123456789T:.Z+-")
    for r in rows:
        tb = r.get("tables") or {}
        unq = {k: v for k, v in tb.get("unq", [])}
        ptime = {k: v for k, v in tb.get("ptime", [])}
        pfloat = {k: v for k, v in tb.get("pfloat", [])}
        for s, q in tb.get("quote", []):
            bs, bq = bytes.fromhex(s), bytes.fromhex(q)
            cnt["quote_shape"] += 1
            if len(bq) < 2 or bq[0] != 0x22 or bq[-1] != 0x22:
                fails.append({"law": "quote_shape", "s": s, "q": q})
            # every double quote inside the body is escaped, no escape left open (law_quote_shape / escaped_ok)
            body, i, okb = bq[1:-1], 0, True
            while i < len(body):
                if body[i] == 0x22:
                    okb = False
                    break
                if body[i] == 0x5c:
                    if i + 1 >= len(body):
                        okb = False
                        break
                    i += 2
                else:
                    i += 1
            cnt["quote_escaped"] = cnt.get("quote_escaped", 0) + 1
            if not okb:
                fails.append({"law": "quote_escaped", "s": s, "q": q})
            cnt["quote_ws"] += 1
            if any(c in bq for c in b"\t\n\x0c\r") or (b" " in bq and b" " not in bs):
                fails.append({"law": "quote_ws", "s": s, "q": q})
            if q in unq:
                cnt["unquote_quote"] += 1
                if unq[q] != s:
                    fails.append({"law": "unquote_quote", "s": s, "q": q, "unquoted": unq[q]})
        parsed_times = [json.dumps(v, sort_keys=True) for v in ptime.values()]
        parsed_floats = set(int(v) for v in pfloat.values())
        for t, ft in tb.get("ftime", []):
            bft = bytes.fromhex(ft)
            off = int(t["off"])
            local = int(t["ns"]) // 1000000000 + off
            in_dom = -62167219200 <= local < 253402300800 and off % 60 == 0 and -86400 < off < 86400
            from_parser = json.dumps(t, sort_keys=True) in parsed_times
            if not in_dom and not from_parser:
                continue
            if not in_dom and abs(off) >= 90000:
                # time.Parse accepts "+24:60" (= +25:00), which Format prints in a form Parse rejects: outside the accept law
                cnt["time_accepted_unprintable_zone"] = cnt.get("time_accepted_unprintable_zone", 0) + 1
                continue
            which = "time(domain)" if in_dom else "time(accepted)"
            cnt["time_alphabet"] += 1
            if len(bft) == 0 or any(c not in alpha for c in bft):
                fails.append({"law": which + " alphabet", "t": t, "text": ft})
            cnt["time_roundtrip"] += 1
            if ptime.get(ft) != t:
                fails.append({"law": which + " roundtrip", "t": t, "text": ft, "parsed": ptime.get(ft)})
            if from_parser:
                cnt["time_accepted"] = cnt.get("time_accepted", 0) + 1
                if off % 60 != 0:
                    fails.append({"law": "time.Parse returned a zone offset with seconds", "t": t})
        for b, ff in tb.get("ffloat", []):
            bi = int(b)
            nan = (bi >> 52) & 0x7FF == 0x7FF and (bi & ((1 << 52) - 1)) != 0
            from_parser = bi in parsed_floats
            if nan and not from_parser:
                continue
            if b"\n" in bytes.fromhex(ff):
                fails.append({"law": "float text has a newline", "bits": b, "text": ff})
            cnt["float_roundtrip"] += 1
            if ff not in pfloat or int(pfloat[ff]) != bi:
                fails.append({"law": "float roundtrip" + (" (accepted)" if from_parser else ""), "bits": b, "text": ff, "parsed": pfloat.get(ff)})
            if from_parser:
                cnt["float_accepted"] = cnt.get("float_accepted", 0) + 1
    return cnt, fails


THEADER = """From Coq Require Import List NArith ZArith.
From Coq.Strings Require Import Byte.
Import ListNotations.
From BWValues Require Import Bytes Values TimeCodec.
"""


def time_eval(ctx, name, rows, shard=4000):
    """rows of h_values -mode time; returns indices on which the Gallina RFC3339Nano codec (TimeCodec.v, evaluated in Coq)
    disagrees with Go's Time.Format / time.Parse.  Format rows outside the codec's domain are skipped."""
    use = [r for r in rows if r["kind"] == "tparse" or (r["kind"] == "tfmt" and r["dom"])]
    bad = []
    for k in range(0, len(use), shard):
        part = use[k:k + shard]
        items = []
        for r in part:
            if r["kind"] == "tfmt":
                items.append("TFmt %s %s" % (c_time(r["t"]), cb(r["text"])))
            else:
                items.append("TParse %s %s" % (cb(r["in"]), "None" if r["res"] is None else "(Some %s)" % c_time(r["res"])))
        v = THEADER + "Definition cases : list tcase := [\n" + ";\n".join(items) + "].\n"
        v += "Definition M := Eval vm_compute in tmismatches_from 0%N cases.\nPrint M.\n"
        out = vcheck.coq_eval(ctx.work, "%s_%d" % (name, k), v)
        bad += [use[k + i] for i in vcheck.parse_nat_list(out, "M")]
    return use, bad
