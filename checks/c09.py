"""C09 — lookup options: time window, filter functions and paging select as defined."""
import store_common as sc
import vcheck

GO_CMDS = sc.GO_CMDS
TRANSLATORS = []
COQ_PROJECTS = sc.COQ_PROJECTS
TRUSTED = sc.TRUSTED


def lo_class(lo):
    return (lo.get("lower") is not None, lo.get("upper") is not None, bool(lo.get("latest")),
            tuple(lo["filter"]) if lo.get("filter") else None, lo["max"], lo["offset"])


def run(ctx):
    try:
        run_checked(ctx)
    except sc.KeyUnfaithful as e:
        sc.unfaithful_violation(ctx, e)


def run_checked(ctx):
    ctx.add_obligations(vcheck.coq_props("Store", "C09"))
    ctx.cov["checker_cmd"] = ("coqc -Q coq/Store BWStore coq/Store/Props/C09.v; work/bin/h_store -mode hist -c09 | "
                              "coqc work/C09/cases_*.v (digests of query x options products per state, vm_compute)")
    n = 60 if ctx.quick() else 1200
    hargs = ["-maxops", 30, "-usize", 24, "-bigmax", 1100 if ctx.quick() else 5000, "-longchurn", 0 if ctx.quick() else 110]
    if ctx.replay and sc.replay(ctx, ["-c09"], hargs, (False, False, True)):
        return
    hists = sc.hstore(["-mode", "hist", "-n", n, "-seed", ctx.seed, "-c09"] + hargs)
    hists += sc.single_proc_histories(ctx.seed, ["-c09"], hargs, 8 if ctx.quick() else 100)
    bad = sc.model_mismatches(ctx, "cases_c09", hists, False, False, True, shard=100)
    sc.report(ctx, ctx.seed, hargs, hists, bad)
    sc.oracle_check(ctx, ctx.seed, hargs, hists, *(False, False, True))
    # page concatenation, checked on the implementation by the harness itself
    pages = 0
    for h in hists:
        pages += h["pages_checked"]
        for b in h["pages_bad"][:2]:
            b = dict(b)
            b["q"] = sc.describe_query(b["q"], h)
            ctx.violation({"kind": "pages-do-not-partition-the-unpaged-result", "history": h["idx"], "detail": b,
                           "universe": h["strs"], "operations": [s["op"] for s in h["steps"]]})
    # callers sharing one LookupOptions value (the lookups must not write to it)
    sh = sc.hstore(["-mode", "shared", "-n", 60 if ctx.quick() else 600])[0]
    if sh["errors"] or sh["wrong"] or not sh["options_restored"]:
        ctx.violation({"kind": "lookup-writes-to-the-callers-LookupOptions", "detail": sh,
                       "explain": "goroutines sharing one LookupOptions{LatestAnchor:true} value get errors or wrong results"})
    ctx.cov["shared_options_calls"] = sh["calls"]
    # regression of the repaired defect C09-page-overflow (fix e5e0649): MaxElements = Offset = 2^32 on a one-triple graph;
    # page number 2^32 must be empty (the control MaxElements=3, Offset=2^40 never overflowed)
    ov = sc.hstore(["-mode", "overflow"])[0]
    if ov["page_elements"] != 0 or ov["control_elements"] != 0:
        ctx.violation({"kind": "page-beyond-the-end-not-empty", "detail": ov,
                       "explain": "MaxElements*Offset overflows int: a page far beyond the end returns elements"})
    dist = sc.distribution(hists)
    ctx.cov.update(dist)
    st = [sum(h["lookup_stats"][i] for h in hists) for i in range(4)]
    ctx.cov["distinct_nonempty_lookups"] = sum(h["lookup_distinct_nonempty"] for h in hists)
    ctx.cov["lookup_results"] = {"empty": st[0], "non_empty": st[1], "error": st[2], "elements_returned": st[3]}
    ctx.cov["evaluations"] = sum(h["lookups"] for h in hists)
    ctx.cov["page_concatenations_checked"] = pages
    seen, classes, errs = set(), {}, 0
    for h in hists:
        for s in h["steps"]:
            for e in s["obs"]["c09"]:
                for lo in e["los"]:
                    c = lo_class(lo)
                    classes[c] = classes.get(c, 0) + 1
                    if lo != {"max": 0, "lower": None, "upper": None, "latest": False, "filter": None, "offset": 0}:
                        for q in e["qs"]:
                            seen.add(vcheck.case_hash([h["strs"], [x["op"] for x in h["steps"]], q, lo]))
    ctx.cov["distinct_query_option_pairs"] = len(seen)
    ctx.cov["distinct_nontrivial"] = sum(h["lookup_distinct_nonempty"] for h in hists)
    ctx.cov["option_classes"] = len(classes)
    ctx.cov["options_with_window"] = sum(v for k, v in classes.items() if k[0] or k[1])
    ctx.cov["options_with_filter"] = sum(v for k, v in classes.items() if k[3])
    ctx.cov["options_with_latest_anchor"] = sum(v for k, v in classes.items() if k[2])
    ctx.cov["options_with_paging"] = sum(v for k, v in classes.items() if k[4] != 0)
    ctx.cov["options_invalid_filter"] = sum(v for k, v in classes.items() if k[3] and (k[3][0] == 3 or k[3][1] in (0, 3)))
    ctx.cov["rule"] = ("one evaluation = one lookup with options on one graph object in one state; per state 3-6 queries "
                       "(all eleven methods, stored and non-stored arguments) x 4-8 option values: window bounds drawn from "
                       "stored anchors +-1 ns or absent (so anchor = bound and lower > upper occur), filter operation "
                       "latest/isImmutable/isTemporal/unsupported x field subject/predicate/object/undefined, LatestAnchor, "
                       "(MaxElements, Offset) in {-1,0,1,2,3}^2; digests compared per state. distinct_nontrivial = lookups "
                       "with a NON-EMPTY result, distinct by (universe, content of the graph object, method, arguments, options), "
                       "measured by the harness. Page concatenation (n = 1..3, all pages, page past the "
                       "end) is checked on the implementation for two lookups per state")
    ctx.cov["samples"] = [{"universe": h["strs"][:3], "operations": [s["op"] for s in h["steps"][:3]],
                           "c09_first": (h["steps"][0]["obs"]["c09"] or [None])[0]} for h in hists[:2]]
    if not ctx.quick():
        options_exhaustive(ctx)


def search(ctx, broken):
    """failing-input search when an obligation or the build breaks: the implementation against the Python reading of
    the SPEC (checks/store_oracle.py) on fresh histories"""
    return sc.oracle_search(ctx, ["-c09"], ["-maxops", 30, "-usize", 24], (False, False, True))


def options_exhaustive(ctx):
    """thorough: a finite grid of ALL options values x 8 queries on EVERY sub-graph of a 6-triple universe (two anchors
    1 ns apart, a tie for latest written in two zones, an immutable triple, a predicate-valued object)"""
    d = sc.hstore(["-mode", "options"], timeout=3000)[0]
    v = sc.HEADER + "Definition U := %s.\n" % sc.c_universe(d["universe"])
    v += "Definition QS := [%s].\n" % ";".join(sc.c_query(q, d["pools"]) for q in d["qs"])
    v += "Definition BS : list (option Z) := [%s].\n" % ";".join(sc.c_optz(b) for b in d["bounds"])
    v += "Definition PGS : list Z := [%s].\n" % ";".join(sc.z(x) for x in d["pgs"])
    v += "Definition D := Eval vm_compute in options_digests U QS (all_lopts BS PGS).\nPrint D.\n"
    out = vcheck.coq_eval(ctx.work, "options_exhaustive", v, timeout=3000)
    model = sc.parse_nlist(out, "D")
    n = len(d["universe"])
    # subsets in the order of Corr.subsets: subsets(x :: r) = subsets r ++ map (cons x) (subsets r)
    def subsets(l):
        if not l:
            return [[]]
        s = subsets(l[1:])
        return s + [[l[0]] + x for x in s]
    subs = subsets(list(range(n)))
    bad = [i for i in range(len(d["digests"])) if i >= len(model) or model[i] != d["digests"][i]]
    ctx.cov["options_exhaustive"] = {"graphs": d["graphs"], "options": d["options"], "queries": len(d["qs"]),
                                     "lookups": d["lookups"], "universe": d["strs"],
                                     "results": dict(zip(["empty", "non_empty", "error", "elements"], d["lookup_stats"]))}
    ctx.cov["evaluations"] += d["lookups"]
    ctx.cov["distinct_nontrivial"] += d["lookup_distinct_nonempty"]
    for i in bad[:3]:
        v = {"kind": "exhaustive-options-digest", "stored_triples": [d["strs"][r] for r in subs[i]], "queries": d["qs"],
             "explain": "model and implementation disagree on some (query, options) of the full grid on this graph"}
        v["failing_lookup"] = options_bisect(ctx, d, subs[i])
        ctx.violation(v)


def options_bisect(ctx, d, sub):
    """find one (query, options) of the grid on which the implementation differs from the Python reading of the SPEC"""
    import store_oracle as so
    modes = [(False, None)] + [(False, [op, f]) for op in range(3) for f in (1, 2)] + \
            [(False, [0, 0]), (False, [3, 1]), (False, [2, 3]), (True, None), (True, [0, 1])]
    los = [{"max": m, "lower": l, "upper": u, "latest": la, "filter": f, "offset": o}
           for l in d["bounds"] for u in d["bounds"] for (la, f) in modes for m in d["pgs"] for o in d["pgs"]]
    h = {"universe": d["universe"], "pools": d["pools"], "names": 1}
    ops = [["new", 0], ["add", 0, sub]]

    def differs(qs, ls):
        case = dict(h, ops=ops, c09={"1": {"qs": qs, "los": ls, "d": 0}})
        r = sc.run_case(ctx, case, False, True)
        return so.check_history(r, False, False, True) is not None
    for q in d["qs"]:
        ls = los
        if not differs([q], ls):
            continue
        while len(ls) > 1:
            half = ls[:len(ls) // 2]
            ls = half if differs([q], half) else ls[len(ls) // 2:]
        sp = so.Spec(dict(h, steps=[]))
        for o in ops:
            sp.step(o)
        return {"query": q, "options": ls[0], "spec": sp.lookup(q, ls[0], sp.heap[0])}
    return None
