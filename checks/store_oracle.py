"""Executable reading of the Store family SPEC in Python (name -> set of triples; lookup = filter of the listing).
Used (a) as the failing-input search when the Coq side is broken (no model available), (b) as an independent
cross-check of the digest machinery on every run. It mirrors coq/Store/StoreSpec.v and LookupSpec.v, not memory.go:
no indexes, no counters."""

MASK = (1 << 64) - 1
P = 1000003


def dmix(h, x):
    return (P * h + x + 1) & MASK


def dlist(h, l):
    for x in l:
        h = dmix(h, x)
    return h


def wrap64(z):
    return (z + (1 << 63)) % (1 << 64) - (1 << 63)


def zenc(z):
    return 2 * z if z >= 0 else 2 * (-z) + 1


def pkey(p):
    """identity of a predicate = what Predicate.UUID hashes: id and Go's UnixNano() (p[4]); None = immutable"""
    return (p[0], p[4] if len(p) > 1 else None)


def inst(p):
    """the anchor instant of a temporal predicate in ns since the epoch (unbounded)"""
    return p[1] * 10**9 + p[2]


def pmatch(q, p):
    """same id, same kind, same instant when temporal"""
    return q[0] == p[0] and (len(q) > 1) == (len(p) > 1) and (len(q) == 1 or inst(q) == inst(p))


def okey(o):
    return ("n", o[1]) if o[0] == 0 else ("l", o[1]) if o[0] == 1 else ("p",) + pkey(o[1:])


def tkey(t):
    return (t["s"], pkey(t["p"]), okey(t["o"]))


def enc_pred(p):
    return [p[0], 0] if len(p) == 1 else [p[0], 1, zenc(p[1]), p[2], zenc(p[3])]


def enc_obj(o):
    return [o[0], o[1]] if o[0] < 2 else [2] + enc_pred(o[1:])


class Spec:
    """the state of the specification after a prefix of a history"""

    def __init__(self, hist):
        self.U = hist["universe"]
        self.pools = hist["pools"]
        self.nn = hist["names"]
        self.binds = {}
        self.heap = []          # one dict key -> rank per graph object

    def step(self, op):
        k = op[0]
        if k == "new":
            if op[1] in self.binds:
                return 1
            self.binds[op[1]] = len(self.heap)
            self.heap.append({})
            return 2 + self.binds[op[1]]
        if k == "get":
            return 2 + self.binds[op[1]] if op[1] in self.binds else 1
        if k == "drop":
            if op[1] in self.binds:
                del self.binds[op[1]]
                return 0
            return 1
        if k == "names":
            return 0
        if op[1] >= len(self.heap):
            return 99
        g = self.heap[op[1]]
        for r in op[2]:
            if k == "add":
                g[tkey(self.U[r])] = r
            else:
                g.pop(tkey(self.U[r]), None)
        return 0

    def observe(self, res):
        graphs = []
        for g in self.heap:
            mask = 0
            for i, t in enumerate(self.U):
                if tkey(t) in g:
                    mask |= 1 << i
            graphs.append([mask, sorted(g.values())])
        return {"res": res, "names": sorted(self.binds), "gets": [1 + self.binds[n] if n in self.binds else 0 for n in range(self.nn)],
                "graphs": graphs}

    # ------------------------------------------------------------ lookups
    def args(self, q):
        sorts = [("n", "p"), ("p", "o"), ("n", "o"), ("n",), ("o",), ("n",), ("p",), ("o",), ("n", "p"), ("p", "o"), ()][q["k"]]
        out = {}
        for s, ix in zip(sorts, (q["a"], q["b"])):
            out[s] = self.pools[{"n": "nodes", "p": "preds", "o": "objs"}[s]][ix]
        return out

    def lookup(self, q, lo, g):
        a = self.args(q)
        cands = []
        for r in sorted(g.values()):
            t = self.U[r]
            if "n" in a and a["n"] != t["s"]:
                continue
            if "p" in a and not pmatch(a["p"], t["p"]):
                continue
            if "o" in a and okey(a["o"]) != okey(t["o"]):
                continue
            cands.append(r)
        lower, upper = lo.get("lower"), lo.get("upper")
        lower = None if lower is None else lower[0] * 10**9 + lower[1]
        upper = None if upper is None else upper[0] * 10**9 + upper[1]

        def in_window(p):
            if len(p) == 1:
                return True
            return (lower is None or lower <= inst(p)) and (upper is None or inst(p) <= upper)
        w = [r for r in cands if in_window(self.U[r]["p"])]
        flt = lo.get("filter")
        if lo.get("latest"):
            if flt:
                return [1, 1]
            flt = [0, 1]
        if flt:
            op, field = flt
            if op == 3:
                return [1, 3]
            if field not in (1, 2):
                return [1, 2]

            def sel(r):
                t = self.U[r]
                if field == 1:
                    return t["p"]
                return t["o"][1:] if t["o"][0] == 2 else None
            if op in (1, 2):
                w = [r for r in w if sel(r) is not None and (len(sel(r)) > 1) == (op == 2)]
            else:
                best = {}
                for r in w:
                    p = sel(r)
                    if p is not None and len(p) > 1:
                        best[p[0]] = max(best.get(p[0], inst(p)), inst(p))
                w = [r for r in w if sel(r) is not None and len(sel(r)) > 1 and inst(sel(r)) == best[sel(r)[0]]]
        n, k = lo.get("max", 0), lo.get("offset", 0)
        # LookupSpec.spec_page / skip_count: the product of two positive ints saturates at MaxInt (every real result is
        # shorter); the other sign combinations are characterised with Go's wrapping int arithmetic
        skip = min(n * k, (1 << 63) - 1) if n > 0 and k > 0 else max(wrap64(n * k), 0)
        w = w[skip:skip + n] if n > 0 else w[skip:]
        body = []
        for r in w:
            t = self.U[r]
            if q["k"] == 0:
                body += [2] + enc_obj(t["o"])
            elif q["k"] == 1:
                body += [0, t["s"]]
            elif q["k"] in (2, 3, 4):
                body += [1] + enc_pred(t["p"])
            else:
                body += [3, t["s"]] + enc_pred(t["p"]) + enc_obj(t["o"]) + [r]
        return [0, len(w)] + body

    def all_queries(self):
        ns, ps, os_ = len(self.pools["nodes"]), len(self.pools["preds"]), len(self.pools["objs"])
        qs = []
        prod = lambda k, na, nb: [qs.append({"k": k, "a": a, "b": b}) for a in range(na) for b in range(nb)]
        one = lambda k, na: [qs.append({"k": k, "a": a, "b": 0}) for a in range(na)]
        prod(0, ns, ps); prod(1, ps, os_); prod(2, ns, os_); one(3, ns); one(4, os_); one(5, ns); one(6, ps); one(7, os_)
        prod(8, ns, ps); prod(9, ps, os_)
        qs.append({"k": 10, "a": 0, "b": 0})
        return qs

    def digest_state(self, qs, los, nonempty_only=False):
        h = 0
        for g in self.heap:
            if nonempty_only and not g:
                continue
            for q in qs:
                for lo in los:
                    h = dlist(h, self.lookup(q, lo, g))
        return h


DEFAULT_LO = {"max": 0, "lower": None, "upper": None, "latest": False, "filter": None, "offset": 0}


def check_history(h, c01=True, c02=False, c09=False):
    """first disagreement between the observations of one history and the spec: (step, component, detail) or None"""
    sp = Spec(h)
    allq = sp.all_queries() if c02 else None
    for i, s in enumerate(h["steps"]):
        res = sp.step(s["op"])
        ob = s["obs"]
        if c01:
            mine = sp.observe(res)
            for k in ("res", "names", "gets", "graphs"):
                if mine[k] != ob[k]:
                    return (i, k, {"spec": mine[k], "implementation": ob[k]})
        if c02 and sp.heap and sp.digest_state(allq, [DEFAULT_LO]) != ob["c02"]:
            return (i, "c02", None)
        if c09:
            for e in ob["c09"]:
                if sp.digest_state(e["qs"], e["los"], nonempty_only=True) != e["d"]:
                    return (i, "c09", e)
    return None


def state_at(h, step):
    sp = Spec(h)
    for s in h["steps"][:step + 1]:
        sp.step(s["op"])
    return sp
