"""C08 — any statement text yields a table or an error: no crash, hang or leak (partial: runtime)."""
import collections, json, os
import vcheck
from vcheck import sh, BIN, REPO
import c17, c18

GO_CMDS = ["gengrammar", "genlex", "h_parse", "h_crash", "h_query"]
TRANSLATORS = ["gengrammar", "genlex"]
COQ_PROJECTS = ["Grammar", "Lexer", "Engine"]
TRUSTED = vcheck.STD_TRUSTED + [
    "channel/goroutine semantics of the Go runtime as modelled in coq/Engine/Chan.v (FIFO buffered channel, close, range)",
    "planning and execution are NOT modelled for this property: panics, hangs and leaks there are only observed by the "
    "crash-mode run (in-process recover, child processes for panics in engine goroutines, 5 s watchdog whose hits are confirmed alone with a 60 s watchdog, "
    "goroutines left behind judged by the goroutine dump)",
]

BAD = ("panic", "killed", "hang", "leak", "nil_table_nil_error")


def crash(args, procs=None):
    env = vcheck.goenv()
    if procs:
        env["GOMAXPROCS"] = str(procs)
    rc, out = sh([os.path.join(BIN, "h_crash")] + args, cwd=REPO, env=env, timeout=3000)
    if rc != 0:
        raise vcheck.Broken("h_crash failed", out[-3000:])
    return [json.loads(l) for l in out.splitlines() if l.startswith("{")]


def run(ctx):
    info = vcheck.coq_props("Engine", "C08")
    ctx.add_obligations(info)
    ctx.cov["checker_cmd"] = "coqc -Q coq/Engine BWEngine -Q coq/Grammar BWGrammar coq/Engine/Props/C08.v"
    thorough = ctx.tier == "thorough"
    # statements with real join structure (OPTIONAL, anchor bindings, bounds, aliases) over their own graphs come from the
    # planner family's statement generator; here only the outcome class matters
    gen_broken = []
    extra = os.path.join(ctx.work, "extra.jsonl")
    with open(extra, "w") as f:
        for fam, n in (("c03", 2500 if thorough else 250), ("c10", 2500 if thorough else 300), ("c14", 600 if thorough else 60)):
            if any("did not finish" in o for _, o in gen_broken):
                break                  # one stuck generator is enough of a symptom; do not wait for the others
            try:
                rc, out = sh([os.path.join(BIN, "h_query"), "-mode", "gen", "-family", fam, "-n", str(n), "-seed", str(ctx.seed)],
                             cwd=REPO, env=vcheck.goenv(), timeout=600 / vcheck.TSCALE)
            except Exception as e:     # the generator executes its statements on the engine: a hang there is a symptom
                rc, out = 1, "h_query -mode gen did not finish: %r" % e
            if rc != 0:
                gen_broken.append((fam, out[-1500:]))
                continue
            for l in out.splitlines():
                if l.startswith("{"):
                    d = json.loads(l)
                    if d.get("query"):
                        f.write(json.dumps({"query": d["query"], "from": d.get("from"), "graph_texts": d.get("graph_texts")}) + "\n")
    rows = crash(["-seed", str(ctx.seed), "-n", "40000" if thorough else "500", "-exhaust", "3" if thorough else "2", "-extra", extra])
    # the same corpus, templates and witnesses on ONE processor (worker pools sized by GOMAXPROCS, producers and consumers that
    # need each other to run: C07-seed5-m2 deadlocked every join there and nowhere else)
    rows += [dict(r, kind=r["kind"] + "@1cpu") for r in crash(["-seed", str(ctx.seed), "-n", "0", "-exhaust", "0"], procs=1)]
    known = vcheck.known_findings("C08")
    hits = collections.Counter()
    reported = 0
    for r in rows:
        if r["outcome"] not in BAD:
            continue
        fid = None
        for k in known:
            if k.get("class") == r["outcome"] and k.get("site", "\0") in r.get("detail", ""):
                fid = k["id"]
                break
        if fid:
            hits[fid] += 1
        else:
            reported += 1
            if reported <= 6:
                ctx.violation({"kind": "engine-" + r["outcome"], "case": r,
                               "explain": "executing this text did not end in a table or an error"})
    if gen_broken and reported == 0:
        ctx.broken("the statement generator of the planner family (h_query -mode gen, which executes its statements) failed or hung "
                   "and the crash-mode run found no bad outcome itself", json.dumps(gen_broken)[:3000])
    for k in known:
        if hits[k["id"]]:
            ctx.known("%s: %s at %s (%d texts in this run, e.g. witness %s)" % (k["id"], k["class"], k["site"], hits[k["id"]], k.get("witness", "")))
    # tie to the parser model: whatever gets past parsing must be accepted by the model parser
    passed = [r for r in rows if r["outcome"] not in ("parse_error",) and r.get("lexed")]
    obs = [{"lexed": r["lexed"], "accepted": True, "trace": [], "text": r["text"]} for r in passed]
    bad = []
    for k in range(0, len(obs), 1500):
        part = obs[k:k + 1500]
        v = c17.HEADER + "Definition cases : list (list N) := [\n" + ";\n".join(
            "[" + ";".join(str(t) for t in o["lexed"]) + "]" for o in part) + "].\n"
        v += ("Definition M := Eval vm_compute in (fix go (i : N) (l : list (list N)) : list N := match l with [] => [] | "
              "c :: r => if accepts bql START tok_eof c then go (i + 1) r else i :: go (i + 1) r end) 0 cases.\nPrint M.\n")
        out = vcheck.coq_eval(ctx.work, "cases_c08_%d" % k, v)
        bad += [k + i for i in vcheck.parse_nat_list(out, "M")]
    for i in bad[:3]:
        ctx.violation({"kind": "executed-but-model-parser-rejects", "case": passed[i]})
    # tie of C08_llk_no_index_panic: the window model of llk.go against the real grammar.LLk (same run as in C18, fewer cases)
    lrows = c18.llk_corr(ctx, 400 if thorough else 20, name="cases_c08_llk")
    ctx.cov["llk_runs"] = len(lrows)
    ctx.cov["evaluations"] = len(rows) + len(lrows)
    seen = set()
    for r in rows:
        if r["outcome"] != "parse_error":
            seen.add(vcheck.case_hash([r["text"], r["store"], r.get("cfg")]))
    ctx.cov["distinct_nontrivial"] = len(seen)
    ctx.cov["rule"] = ("texts: hand-written corpus (incl. every known crash shape), one grammar witness per alternative, token-level and "
                       "byte-level mutations, odd-value substitutions, random bytes, random lexeme sequences, and exhaustively all "
                       "token-kind sequences up to length %d over all kinds; template products (CONSTRUCT/DECONSTRUCT value kinds, "
                       "SELECT modifier x LIMIT boundaries, every driver lookup shape x LIMIT, tokens whose text contains the delimiters "
                       "the hooks split on); each against an empty and a populated store; corpus, templates and witnesses also under "
                       "planner.New(chanSize, bulkSize) = (0,0), (1,1), (3,1000) besides (0,10); "
                       "non-trivial = gets past parsing (reaches planning/execution); distinct by (text, store)" % (3 if thorough else 2))
    ctx.cov["outcomes"] = dict(collections.Counter(r["outcome"] for r in rows))
    ctx.cov["kinds"] = dict(collections.Counter(r["kind"] for r in rows))
    ctx.cov["samples"] = [r for r in rows if r["outcome"] == "table"][:2] + [r for r in rows if r["outcome"] == "exec_error"][:1]
    ctx.cov["exhaustive"] = True
    ctx.assumptions += ["partial: goroutine liveness, hangs inside the Go runtime and panics in goroutines not reachable from the "
                        "modelled front end are runtime behaviour; they are observed by the crash-mode run, not proved absent"]
