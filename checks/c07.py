"""C07 — concurrent use of the in-memory store: linearizable, race-free, deadlock-free; lookups close their result
channel exactly once and never modify the caller's LookupOptions.

Deciding part: the theorems of coq/Conc/Props/C07.v (generic, for any method table with discipline_ok = true, all
thread counts / programs / interleavings / meanings of the micro-operations) instantiated on the lock facts that the
translator genlocks regenerates from storage/memory/memory.go (and bql/table/table.go) on every run.
Supporting part (never deciding, but the failing-input search and the validation of the translator): h_conc runs
the real store under the race detector, checks recorded concurrent histories for linearizability (porcupine +
brute force on small ones), watches for hangs, double/missing close and modified options.

State handling: the table either contains writes through the options pointer (defect F7, `memory_has_wrparam =
true`: Props/C07_unfixed.v holds the refutation witnesses, replayed on the real store) or not (Props/C07_fixed.v
holds the full instances).  The unfixed state is excused only while findings/C07.txt lists F7 as an open finding.
"""
import json, os, re
import vcheck
from vcheck import sh, BIN, REPO, VERIF, WORK

GO_CMDS = ["genlocks", "h_conc"]
TRANSLATORS = ["genlocks"]
COQ_PROJECTS = ["Conc"]

TRUSTED = vcheck.STD_TRUSTED + [
    "translator harness/cmd/genlocks (go/ast over storage/memory/memory.go and bql/table/table.go: decides which lock, "
    "field, parameter and channel micro-operations each path performs; field granularity = everything reachable from "
    "the struct field; loops taken 0/1 times; aliasing through locals not tracked)",
    "Conc.v semantics of sync.RWMutex (holder sets, no writer preference: a superset of Go's schedules), of defer "
    "(LIFO at return) and of channel sends (enabled while the caller's consumer receives: stated hypothesis "
    "sends_ready of C07_deadlock_free)",
    "partial: the Go memory model, word tearing, sync.Pool reuse and the scheduler are runtime; data races proper are "
    "only observed by the race detector run of h_conc, not proved absent",
    "h_conc sequential reference model of the store (validated by its selftest mode on every run) and porcupine v1.3.0",
]

GEN = os.path.join(vcheck.COQ, "Conc", "Gen", "LockFactsGen.v")
F7_ID = "F7-options-mutated"

FACTS_V = """From Coq Require Import List Bool String.
Import ListNotations.
From BWConc Require Import Conc ConcStruct.
From BWConc.Gen Require Import LockFactsGen.
Definition bad (chk : method -> bool) : list string :=
  map m_name (filter (fun m => negb (chk m)) (mt_methods memory_methods)).
Definition gd := mt_guard memory_methods.
Definition F_locks := Eval vm_compute in
  (locks_ok memory_methods, bad (fun m => forallb (path_locks_ok gd) (m_paths m))).
Definition F_close := Eval vm_compute in
  (close_ok memory_methods, bad (fun m => forallb (path_close_ok (m_chan m)) (m_paths m))).
Definition F_params := Eval vm_compute in
  (forallb (fun m => forallb path_params_ok (m_paths m)) (mt_methods memory_methods),
   bad (fun m => forallb path_params_ok (m_paths m))).
(* methods whose structured body fails although all its listed 0/1 paths pass: a loop body that does not return to its
   entry state (lock / channel / deferred state), i.e. the discipline breaks from the second iteration on *)
Definition F_body := Eval vm_compute in
  (true, bad (fun m => negb (forallb (path_locks_ok gd) (m_paths m) && forallb (path_close_ok (m_chan m)) (m_paths m))
                      || match interp gd (m_body m) (ast_init (m_chan m)) [] with Some _ => true | None => false end)).
Definition F_hash := Eval vm_compute in (all_same_hash memory_lookup_hashes, List.length memory_lookup_hashes).
Definition F_sect := Eval vm_compute in
  (forallb (one_section_method memory_methods)
     ("memory.AddTriples" :: "memory.RemoveTriples" :: "memory.Exist" :: "memoryStore.NewGraph" :: "memoryStore.Graph" ::
      "memoryStore.DeleteGraph" :: "memoryStore.GraphNames" :: memory_lookup_names) &&
   forallb (fun n => match find_method n (mt_methods memory_methods) with
                     | Some m => match max_acq (m_body m) with Some k => Nat.leb k 1 | None => false end
                     | None => false end)
     ("memory.AddTriples" :: "memory.Exist" :: memory_lookup_names)).
Definition F_counts := Eval vm_compute in
  (List.length (mt_methods memory_methods), fold_right plus 0 (map (fun m => List.length (m_paths m)) (mt_methods memory_methods))).
Print F_locks. Print F_close. Print F_params. Print F_body. Print F_hash. Print F_sect. Print F_counts.
"""


def gen_state():
    txt = open(GEN).read()
    m = re.search(r"Definition memory_has_wrparam : bool := (true|false)\.", txt)
    if not m:
        raise vcheck.Broken("generated lock facts lack memory_has_wrparam", txt[:500])
    return m.group(1) == "true"


def facts(ctx):
    out = vcheck.norm(vcheck.coq_eval(ctx.work, "facts_c07", FACTS_V, timeout=300))
    res = {}
    for key in ("locks", "close", "params", "body"):
        m = re.search(r"F_%s = \((true|false), (\[.*?\]|nil)\)" % key, out)
        if not m:
            raise vcheck.Broken("could not read F_%s from Coq" % key, out[-1500:])
        res[key] = (m.group(1) == "true", re.findall(r'"([^"]+)"', m.group(2)))
    m = re.search(r"F_hash = \((true|false), (\d+)\)", out)
    res["hash"] = (m.group(1) == "true", int(m.group(2))) if m else (False, 0)
    m = re.search(r"F_sect = (true|false)", out)
    res["sections"] = bool(m and m.group(1) == "true")
    m = re.search(r"F_counts = \((\d+), (\d+)\)", out)
    res["methods"], res["paths"] = (int(m.group(1)), int(m.group(2))) if m else (0, 0)
    return res


# ---------------------------------------------------------------- harness plumbing
def build_race():
    """second build of h_conc with the race detector (same module / replace target as vcheck.go_build)"""
    with vcheck.Lock("gobuild"):
        h = os.path.join(VERIF, "harness")
        args = ["go", "build", "-race", "-tags", "verif"]
        if REPO != "/repo":
            args += ["-modfile=" + os.path.join(WORK, "go.alt.mod")]
        rc, out = sh(args + ["-o", os.path.join(BIN, "h_conc_race"), "./cmd/h_conc"], cwd=h, env=vcheck.goenv(),
                     timeout=900)
        if rc != 0:
            raise vcheck.Broken("go build -race of h_conc failed", out[-3000:])


def hconc(args, race=False, timeout=3600):
    env = vcheck.goenv()
    exe = os.path.join(BIN, "h_conc_race" if race else "h_conc")
    if race:
        env["GORACE"] = "halt_on_error=0 exitcode=0"
    rc, out = sh([exe] + args, cwd=REPO, env=env, timeout=timeout)
    rows = []
    for l in out.splitlines():
        if l.startswith("{"):
            try:
                rows.append(json.loads(l))
            except ValueError:
                pass
    races = parse_races(out) if race else []
    if rc not in (0, 3) or not rows:
        # the harness process died: a Go runtime fatal error (concurrent map access, unlock of unlocked RWMutex, all
        # goroutines asleep) is itself a failing input; anything else is a broken harness
        m = re.search(r"^(fatal error: .*|panic: .*)$", out, flags=re.M)
        if m:
            CRASHES.append({"kind": "store-crashes-under-concurrent-use", "error": m.group(1)[:200], "mode": " ".join(args[:2]),
                            "seed": args[args.index("-seed") + 1] if "-seed" in args else None,
                            "stack_head": [l.strip() for l in out[m.end():].splitlines() if "badwolf" in l][:6]})
            return rows or [{"result": "crashed"}], races
        raise vcheck.Broken("h_conc %s failed (exit %d)" % (" ".join(args), rc), out[-3000:])
    return rows, races


CRASHES = []


FRAME = re.compile(r"^\s+(/\S+\.go):(\d+)")


def parse_races(out):
    """race detector reports -> list of {accesses:[(kind, file, line, func)]}"""
    reps = []
    for blk in out.split("WARNING: DATA RACE")[1:]:
        blk = blk.split("==================")[0]
        acc = []
        lines = blk.splitlines()
        for i, l in enumerate(lines):
            m = re.match(r"^(Write|Read|Previous write|Previous read|Atomic \w+|Previous atomic \w+) at ", l)
            if m:
                # first frame: function name line, then file:line
                fn, fl, ln = "", "", 0
                for j in range(i + 1, min(i + 4, len(lines))):
                    fm = FRAME.match(lines[j])
                    if fm:
                        fl, ln = fm.group(1), int(fm.group(2))
                        fn = lines[j - 1].strip()
                        break
                acc.append({"kind": m.group(1), "file": fl, "line": ln, "func": fn.split("(")[0]})
        reps.append({"accesses": acc})
    return reps


def f7_race(rep):
    """classifier: exactly the F7 defect = both accesses are in storage/memory/memory.go, on a source line that touches
    FilterOptions / filterOptions (the lookups' test, assignment, reset, or the filter functions reading the struct
    that was published through the caller's options)."""
    src = os.path.join(REPO, "storage", "memory", "memory.go")
    try:
        lines = open(src).read().splitlines()
    except OSError:
        return False
    if len(rep["accesses"]) < 2:
        return False
    for a in rep["accesses"][:2]:
        if not a["file"].endswith("storage/memory/memory.go"):
            return False
        if not (0 < a["line"] <= len(lines)):
            return False
        if "ilterOptions" not in lines[a["line"] - 1]:
            return False
    return True


def open_f7():
    return [k for k in vcheck.known_findings("C07") if k.get("id") == F7_ID]


def dynamic(ctx, state_unfixed, record=True):
    """the supporting runs; returns a list of problems (dicts) that are NOT excused, plus measurements"""
    quick = ctx.quick()
    seed = str(ctx.seed)
    problems, meas = [], {}
    f7_seen = []
    del CRASHES[:]
    build_race()
    # 0. the sequential reference of the harness agrees with the store (otherwise the linearizability runs mean nothing)
    st, _ = hconc(["-mode", "selftest", "-n", "1500" if quick else "20000", "-seed", seed])
    meas["selftest"] = {k: st[-1].get(k) for k in ("ops", "mismatches", "lookups", "nonempty_lookups")}
    if st[-1].get("result") == "hang":
        problems.append({"kind": "hang-or-deadlock", "where": "selftest (a single goroutine blocks on the store)",
                         "goroutines": str(st[-1].get("goroutines"))[:1500]})
    elif st[-1].get("result") != "crashed" and st[-1].get("mismatches", 1) != 0:
        problems.append({"kind": "sequential-reference-mismatch", "first": st[-1].get("first"),
                         "explain": "single-goroutine run: the store and h_conc's reference model disagree"})
    # 1. linearizability of recorded concurrent histories
    lin_rows = []
    runs = [(["-n", "250"], False)] if quick else [(["-n", "4000", "-exhaustive"], False), (["-n", "3000", "-exhaustive"], False),
                                                   (["-n", "600"], True)]
    for k, (extra, race) in enumerate(runs):
        rows, races = hconc(["-mode", "lin", "-seed", str(ctx.seed + 1000 * k)] + extra, race=race, timeout=3000)
        lin_rows += [r for r in rows if not r.get("summary")]
        for r in rows:
            if r.get("summary"):
                meas.setdefault("lin_summaries", []).append(r)
                if r.get("brute_disagree"):
                    problems.append({"kind": "porcupine-vs-bruteforce-disagree", "summary": r})
        for rp in races:
            problems.append({"kind": "data-race", "where": "lin", "report": rp})
    lin_rows = [r for r in lin_rows if "round" in r]
    for r in lin_rows:
        if r["result"] == "illegal":
            problems.append({"kind": "non-linearizable-history", "history": r.get("history"), "round": r["round"],
                             "explain": "no sequential order of the recorded operations consistent with real time explains "
                                        "the observed results (AddTriples atomic per batch, RemoveTriples per triple)"})
        elif r["result"] == "hang":
            problems.append({"kind": "hang", "where": "lin", "detail": r})
    meas["lin_rows"] = lin_rows
    # 2. stress under the race detector, with callers sharing LookupOptions values (also a shared LatestAnchor one)
    for shared in (False, True):
        args = ["-mode", "stress", "-threads", "8", "-n", "800" if quick else "20000", "-seed", seed, "-timeout", "900"]
        if shared:
            args.append("-sharedlatest")
        rows, races = hconc(args, race=True, timeout=3000)
        r = rows[-1]
        meas.setdefault("stress", []).append({k: r.get(k) for k in (
            "result", "ops", "shared_latest", "panics", "panic_kinds", "not_closed", "error_not_closed", "value_after_close",
            "options_modified", "options_modified_in_flight", "latest_and_filter_on_shared", "nil_channel_ok", "errors")}
            | {"race_reports": len(races)})
        if r.get("result") == "crashed":
            continue
        if r.get("result") != "done":
            problems.append({"kind": "hang-or-deadlock", "where": "stress", "detail": {k: r.get(k) for k in ("result", "deadlock_confirmed", "why", "goroutines")}})
            continue
        excus = shared and state_unfixed   # only the run that shares a LatestAnchor options value can show F7
        for rp in races:
            if excus and f7_race(rp):
                f7_seen.append({"kind": "data-race", "report": rp})
            else:
                problems.append({"kind": "data-race", "where": "stress", "report": rp})
        for key in ("not_closed", "error_not_closed", "value_after_close"):
            if r.get(key):
                problems.append({"kind": "channel-discipline", "counter": key, "count": r[key]})
        if not r.get("nil_channel_ok", False):
            problems.append({"kind": "nil-channel-not-rejected", "detail": r.get("nil_channel_detail")})
        for key in ("options_modified", "options_modified_in_flight", "latest_and_filter_on_shared"):
            if r.get(key):
                (f7_seen if state_unfixed else problems).append({"kind": "options-modified", "counter": key, "count": r[key]})
        if r.get("panics"):
            kinds = r.get("panic_kinds") or {}
            if excus and set(kinds) <= {"nil_deref"}:
                f7_seen.append({"kind": "panic", "kinds": kinds})
            else:
                problems.append({"kind": "panic", "kinds": kinds})
    # 3. the F7 experiment and the deterministic replay of the model's witness interleaving
    rows, races = hconc(["-mode", "sharedlo", "-threads", "8", "-n", "250" if quick else "4000", "-seed", seed], race=True)
    r = rows[-1]
    meas["sharedlo"] = {k: r.get(k) for k in ("calls", "failed_latest_and_filter", "other_errors", "wrong_results", "panics",
                                             "options_after")} | {"race_reports": len(races)}
    bad = r.get("failed_latest_and_filter", 0) + r.get("wrong_results", 0) + r.get("panics", 0) + len(races)
    if r.get("other_errors") or r.get("not_closed"):
        problems.append({"kind": "shared-options-run", "detail": meas["sharedlo"]})
    if bad:
        unexpected = [rp for rp in races if not f7_race(rp)]
        if state_unfixed and not unexpected:
            f7_seen.append({"kind": "shared-options", "detail": meas["sharedlo"]})
        else:
            problems.append({"kind": "callers-sharing-LookupOptions-interfere", "detail": meas["sharedlo"],
                             "unclassified_races": unexpected[:2],
                             "explain": "goroutines sharing one LookupOptions{LatestAnchor:true} got errors / wrong results / races"})
    # 3b. targeted probe: one writer adds a 40-triple batch to a fresh graph while readers list the graph
    rows, _ = hconc(["-mode", "batch", "-threads", "4", "-n", "60" if quick else "1500", "-seed", seed])
    r = rows[-1]
    meas["batch"] = {k: r.get(k) for k in ("rounds", "readers", "batch_size", "reads", "empty_reads", "full_reads", "torn", "errors")}
    if r.get("torn") or r.get("errors"):
        problems.append({"kind": "lookup-observed-partial-batch", "detail": meas["batch"], "first": r.get("first_torn"),
                         "explain": "Triples() returned more than 0 and fewer than all triples of a single AddTriples call on a fresh graph"})
    # 3c. statement level: goroutines parse + plan + execute INSERT / DELETE / SELECT / join statements on one store
    #     (disjoint name spaces => every outcome and the final contents must equal the sequential run of the same
    #     lists and the set model); under the race detector, and once under GOMAXPROCS=1 (the planner's own fan-out
    #     must not deadlock on a one-processor machine)
    meas["stmt"] = []
    stmt_runs = [(["-threads", "6", "-n", "40" if quick else "400"], True),
                 (["-threads", "4", "-n", "30" if quick else "300", "-procs", "1"], False)]
    if not quick:
        stmt_runs += [(["-threads", "8", "-n", "200", "-seed", str(ctx.seed + 7)], True),
                      (["-threads", "3", "-n", "200", "-procs", "1", "-seed", str(ctx.seed + 7)], True)]
    for extra, race in stmt_runs:
        args = ["-mode", "stmt"] + extra + ([] if "-seed" in extra else ["-seed", seed])
        rows, races = hconc(args, race=race)
        r = rows[-1]
        meas["stmt"].append({k: r.get(k) for k in ("result", "threads", "gomaxprocs", "statements", "by_kind", "failed_stages",
                                                   "result_mismatches", "final_size", "final_missing", "final_foreign",
                                                   "sequential_matches_model", "select_rows", "join_rows", "deadlock_confirmed")}
                            | {"race_reports": len(races), "race": race})
        where = "stmt " + " ".join(extra)
        if r.get("result") == "hang":
            problems.append({"kind": "statements-deadlock", "where": where, "deadlock_confirmed": r.get("deadlock_confirmed"),
                             "gomaxprocs": r.get("gomaxprocs"), "why": r.get("why"), "goroutines": str(r.get("goroutines"))[:2500],
                             "explain": "BQL statements (INSERT/DELETE/SELECT/two-clause join) run from several goroutines on one "
                                        "store never finish: every goroutine is blocked, nothing is runnable"})
            continue
        if r.get("result") == "crashed":
            continue
        for rp in races:
            problems.append({"kind": "data-race", "where": where, "report": rp})
        if r.get("result_mismatches") or r.get("final_missing") or r.get("final_foreign") or r.get("final_error"):
            problems.append({"kind": "concurrent-statements-differ-from-sequential", "where": where, "first": r.get("first"),
                             "failed_stages": r.get("failed_stages"), "missing": r.get("missing_sample"),
                             "foreign": r.get("foreign_sample"),
                             "explain": "statements of different goroutines touch disjoint nodes, so each outcome and the final "
                                        "graph must be those of running the same lists one after the other"})
        if r.get("sequential_failures") or not r.get("sequential_matches_model", True):
            problems.append({"kind": "sequential-statement-run-disagrees-with-set-model", "where": where,
                             "detail": meas["stmt"][-1]})
    # 3d. sized read-only run: a dozen subjects of 600 triples, overlapping TriplesForSubject / Objects /
    #     PredicatesForSubject / TriplesForPredicate with tiny channels and slow consumers, more goroutines than
    #     processors; every delivered listing (order included) must equal the single-goroutine listing
    meas["sized"] = []
    for race in (True, False):
        rows, races = hconc(["-mode", "sized", "-threads", "8", "-n", "10" if quick else "150", "-procs", "2", "-seed", seed],
                            race=race)
        r = rows[-1]
        meas["sized"].append({k: r.get(k) for k in ("result", "threads", "gomaxprocs", "calls", "mismatches", "nil_elements",
                                                    "panics", "errors", "subjects", "triples_per_subject")}
                             | {"race_reports": len(races), "race": race})
        if r.get("result") == "hang":
            problems.append({"kind": "hang-or-deadlock", "where": "sized", "deadlock_confirmed": r.get("deadlock_confirmed"),
                             "goroutines": str(r.get("goroutines"))[:2500]})
            continue
        if r.get("result") == "crashed":
            continue
        for rp in races:
            problems.append({"kind": "data-race", "where": "sized", "report": rp})
        if r.get("mismatches") or r.get("nil_elements") or r.get("panics") or r.get("errors"):
            problems.append({"kind": "overlapping-large-lookups-corrupt-each-other", "detail": meas["sized"][-1],
                             "first": r.get("first"),
                             "explain": "a lookup of >= 512 results delivered nil / foreign / missing elements or panicked while "
                                        "another large lookup ran at the same time (read-only graph)"})
    # 3e. CONSTRUCT / DECONSTRUCT into ?dst (60 rows, bulk size 2) while another goroutine drops / re-creates ?dst
    #     (gated rounds: the DROP lands exactly between graph resolution and the first bulk): every statement returns
    rows, _ = hconc(["-mode", "construct", "-n", "20" if quick else "400", "-seed", seed])
    r = rows[-1]
    meas["construct"] = {k: r.get(k) for k in ("result", "rounds", "rows", "bulk_size", "outcomes", "gated_returned_error",
                                               "gated_returned_ok", "deadlock_confirmed")}
    if r.get("result") == "hang":
        problems.append({"kind": "statements-deadlock", "where": "construct vs DROP GRAPH of the output graph",
                         "deadlock_confirmed": r.get("deadlock_confirmed"), "why": r.get("why"),
                         "goroutines": str(r.get("goroutines"))[:2500],
                         "explain": "a CONSTRUCT/DECONSTRUCT whose output graph is dropped by a concurrent statement never returns"})
    elif r.get("result") != "crashed" and any(k.endswith(("panic", "parse", "plan")) for k in (r.get("outcomes") or {})):
        problems.append({"kind": "construct-under-concurrent-drop", "detail": meas["construct"]})
    # 3f. long RemoveTriples batches sharing a pair key (S+P / P+O / S+O) vs remove-last + add-same-pair-key by another
    #     goroutine, then the quiescent audit: every pair lookup contains every triple the scan lists
    rows, _ = hconc(["-mode", "pairidx", "-n", "300" if quick else "6000", "-seed", seed])
    r = rows[-1]
    meas["pairidx"] = {k: r.get(k) for k in ("result", "rounds", "batch_len", "interleavings_run", "rounds_with_index_holes",
                                             "rounds_with_wrong_contents")}
    if r.get("result") == "hang":
        problems.append({"kind": "hang-or-deadlock", "where": "pairidx", "deadlock_confirmed": r.get("deadlock_confirmed"),
                         "goroutines": str(r.get("goroutines"))[:2500]})
    elif r.get("result") != "crashed" and (r.get("rounds_with_index_holes") or r.get("rounds_with_wrong_contents")):
        problems.append({"kind": "pair-index-loses-stored-triples", "detail": meas["pairidx"], "first": r.get("first_missing"),
                         "explain": "after concurrent RemoveTriples / AddTriples on one pair key, a triple that Triples() and Exist "
                                    "report is missing from the S+P / P+O / S+O lookups: no serial order of the single-triple "
                                    "updates gives that state"})
    rows, _ = hconc(["-mode", "replay"])
    rep = rows[-1]
    meas["replay"] = {k: rep.get(k) for k in ("reproduced", "b_error", "a_error", "b_closed", "b_equals_a", "options_after")}
    rows, _ = hconc(["-mode", "replay", "-variant", "writer"])
    meas["replay_writer"] = {k: rows[-1].get(k) for k in ("writer_blocked_while_consumer_idle", "writer_completed_after_drain")}
    if rows[-1].get("result") != "crashed" and not rows[-1].get("writer_completed_after_drain", False):
        problems.append({"kind": "writer-never-completes", "detail": meas["replay_writer"]})
    if rep.get("reproduced") and not state_unfixed:
        problems.append({"kind": "translator-missed-a-parameter-write", "detail": meas["replay"],
                         "explain": "the generated facts contain no WrParam but on the real store a second caller sharing the "
                                    "options of a blocked lookup fails with latest_and_filter"})
    if rep.get("reproduced") and state_unfixed:
        f7_seen.append({"kind": "witness-replayed", "detail": meas["replay"]})
    if state_unfixed and not rep.get("reproduced"):
        ctx.notes.append("model witness (two lookups sharing one options value) did not reproduce on the real store: "
                         "the translator reports a parameter write that has no effect at run time")
    meas["f7_seen"] = f7_seen
    problems = CRASHES + problems
    return problems, meas


def fill_cov(ctx, meas, fx):
    lin_rows = meas.get("lin_rows", [])
    seen = set()
    for r in lin_rows:
        if r.get("overlap", 0) >= 1 and (r.get("nonempty_lookups", 0) >= 1 or r.get("flavour") == "store"):
            seen.add(r.get("digest") or vcheck.case_hash(r))
    stress_ops = sum((s.get("ops") or 0) for s in meas.get("stress", []))
    ctx.cov["evaluations"] = len(lin_rows) + stress_ops + (meas.get("sharedlo", {}).get("calls") or 0) + \
        (meas.get("selftest", {}).get("ops") or 0) + (meas.get("batch", {}).get("reads") or 0) + \
        sum((x.get("statements") or 0) for x in meas.get("stmt", [])) + sum((x.get("calls") or 0) for x in meas.get("sized", [])) + \
        (meas.get("construct", {}).get("rounds") or 0) + (meas.get("pairidx", {}).get("rounds") or 0)
    ctx.cov["distinct_nontrivial"] = len(seen)
    ctx.cov["rule"] = ("evaluations = recorded concurrent histories (lin rounds) + stress operations under the race detector + "
                       "shared-options calls + sequential self-test operations + batch-probe reads + concurrently executed BQL statements + sized lookups; distinct_nontrivial counts lin histories only: "
                       "distinct by sha1 of the per-goroutine operation sequences, non-trivial = at least one pair of operations "
                       "of different goroutines overlaps in real time AND (a lookup returned a non-empty result OR the history "
                       "contains store-level operations)")
    ctx.cov["samples"] = [{"ops": r.get("ops"), "threads": r.get("threads"), "overlap": r.get("overlap"),
                           "history": r.get("history")} for r in lin_rows[:2]]
    ctx.cov["lin"] = {"rounds": len(lin_rows),
                      "results": {k: sum(1 for r in lin_rows if r["result"] == k) for k in ("ok", "illegal", "unknown")},
                      "flavours": {k: sum(1 for r in lin_rows if r.get("flavour") == k) for k in ("graph", "store")},
                      "overlap_total": sum(r.get("overlap", 0) for r in lin_rows),
                      "ops_total": sum(r.get("ops", 0) for r in lin_rows),
                      "lookups": sum(r.get("lookups", 0) for r in lin_rows),
                      "nonempty_lookups": sum(r.get("nonempty_lookups", 0) for r in lin_rows),
                      "error_classes": merge_counts(r.get("errors") or {} for r in lin_rows),
                      "summaries": meas.get("lin_summaries")}
    for k in ("selftest", "stress", "sharedlo", "batch", "stmt", "sized", "construct", "pairidx", "replay", "replay_writer"):
        ctx.cov[k] = meas.get(k)
    ctx.cov["generated_table"] = fx
    ctx.cov["checker_cmd"] = ("work/bin/genlocks -o coq/Conc/Gen/LockFactsGen.v (cwd=/repo); coqc -Q coq/Conc BWConc "
                              "coq/Conc/Props/C07.v and Props/C07_fixed.v (or C07_unfixed.v); work/bin/h_conc[_race] -mode "
                              "selftest|lin|stress|sharedlo|replay")
    ctx.cov["exhaustive"] = "brute-force linearization search over all recorded histories with <= 8 operations (thorough tier)"


def merge_counts(dicts):
    out = {}
    for d in dicts:
        for k, v in d.items():
            out[k] = out.get(k, 0) + v
    return out


def run(ctx):
    unfixed = gen_state()
    fx = facts(ctx)
    fx["state"] = "unfixed (paths write through the options pointer)" if unfixed else "fixed (no parameter writes)"
    broken = []
    if fx["locks"][1]:
        broken.append("lock discipline fails in: " + ", ".join(fx["locks"][1]))
    if fx["close"][1]:
        broken.append("close-exactly-once fails in: " + ", ".join(fx["close"][1]))
    if fx["body"][1]:
        broken.append("loop body does not return to its entry lock/channel/defer state in: " + ", ".join(fx["body"][1]))
    if not broken and not (fx["locks"][0] and fx["close"][0]):
        broken.append("locks_ok / close_ok is false on the structured bodies")
    if not fx["hash"][0] or fx["hash"][1] != 11:
        broken.append("the eleven lookups are no longer copies of one function (normalised-body hashes differ / count %d)" % fx["hash"][1])
    if not fx["sections"]:
        broken.append("AddTriples / Exist / a lookup is no longer ONE critical section per call (a lock is taken inside a loop, "
                      "or several sections on one path): a batch can be observed partially")
    if fx["params"][0] == unfixed:
        broken.append("translator inconsistency: memory_has_wrparam=%s but params_ok=%s" % (unfixed, fx["params"][0]))
    problems, meas = dynamic(ctx, unfixed)
    fill_cov(ctx, meas, fx)
    if broken:
        # a generated obligation fails: the dynamic runs above are the failing-input search
        found = problems[0] if problems else None
        ctx.broken("generated obligation on storage/memory/memory.go no longer checks: " + "; ".join(broken),
                   json.dumps(fx, default=str), found)
        for p in problems[1:3]:
            ctx.violation(p)
        return
    ctx.add_obligations(vcheck.coq_props("Conc", "C07"))
    ctx.add_obligations(vcheck.coq_props("Conc", "C07_unfixed" if unfixed else "C07_fixed"))
    for p in problems[:5]:
        ctx.violation(p)
    if unfixed:
        wit = {"theorem": "C07_options_untouched_refuted / C07_mutual_exclusion_refuted",
               "methods_writing_options": fx["params"][1], "observed_on_real_store": meas.get("f7_seen", [])[:4]}
        if open_f7():
            ctx.known("id=%s lookups write lo.FilterOptions of the caller's LookupOptions under the read lock "
                      "(model race + real-store replay reproduced=%s, shared-options failures=%s)" % (
                          F7_ID, meas["replay"].get("reproduced"), meas["sharedlo"].get("failed_latest_and_filter")))
        else:
            ctx.violation({"kind": "lookup-modifies-callers-LookupOptions", "witness": wit,
                           "explain": "the regenerated lock facts contain writes through the options pointer (params_ok = false): "
                                      "C07_options_untouched and C07_mutual_exclusion are refuted on this tree, and no open "
                                      "finding excuses it"})
    ctx.assumptions += [
        "C07_deadlock_free assumes sends_ready: every lookup's consumer keeps receiving (replay -variant writer shows the "
        "hypothesis is needed: a writer blocks while a lookup's consumer is idle)",
        "paths are chosen up front in the model (any path of the method); the real code chooses by the values it reads, "
        "which are the same in the serial execution by the theorem",
        "loops are taken 0/1 times in the skeletons; the theorems are generic in the method table, so longer unrollings "
        "satisfy the same discipline",
    ]


def search(ctx, broken):
    """failing-input search when the translator aborts or the build breaks: run the supporting runs on the real store"""
    try:
        problems, meas = dynamic(ctx, False)
        fill_cov(ctx, meas, {})
    except Exception as e:   # noqa
        return {"search": "h_conc could not run", "error": str(e)[:500]}
    return problems[0] if problems else None
