"""C01 — a store is a map from graph names to independent sets of triples."""
import store_common as sc
import vcheck

GO_CMDS = sc.GO_CMDS
TRANSLATORS = []
COQ_PROJECTS = sc.COQ_PROJECTS
TRUSTED = sc.TRUSTED


def nontrivial(h):
    kinds = [s["op"][0] for s in h["steps"]]
    adds = [s for s in h["steps"] if s["op"][0] == "add" and s["op"][2] and s["obs"]["res"] == 0]
    return bool(adds) and any(k in ("rem", "drop") for k in kinds)


def exhaustive(ctx, length, with_lookups=False, name="exh"):
    rows = sc.hstore(["-mode", "exhaustive", "-len", length] + (["-c02"] if with_lookups else []), timeout=3000)
    e = rows[0]
    v = sc.HEADER + "Definition U := %s.\nDefinition PL := %s.\n" % (sc.c_universe(e["universe"]), sc.c_pools(e["pools"]))
    v += "Definition ALPHA := [%s].\n" % ";".join(sc.c_xop(o) for o in e["alphabet"])
    v += "Definition D := Eval vm_compute in exhaustive_digests U PL %d%%nat %s ALPHA %d%%nat.\nPrint D.\n" % (
        e["names"], "true" if with_lookups else "false", length)
    out = vcheck.coq_eval(ctx.work, name, v, timeout=3000)
    model = sc.parse_nlist(out, "D")
    bad = [i for i, (a, b) in enumerate(zip(model, e["digests"])) if a != b]
    if len(model) != len(e["digests"]):
        bad = list(range(len(e["digests"])))
    return e, bad


def exhaustive_locate(ctx, e, g, length, with_lookups):
    """the first history of group g on which the implementation's observations differ from the Python reading of
    the SPEC (same digest function as Corr.hist_digest), with both observations"""
    import itertools, store_oracle as so
    rows = sc.hstore(["-mode", "exhaustive", "-len", length, "-group", g] + (["-c02"] if with_lookups else []), timeout=3000)
    per = rows[0]["history_digests"]
    al = e["alphabet"]
    base = {"universe": e["universe"], "pools": e["pools"], "names": e["names"]}
    for i, rest in enumerate(itertools.product(al, repeat=length - 1)):
        ops = [al[g]] + list(rest)
        sp = so.Spec(dict(base, steps=[]))
        allq = sp.all_queries() if with_lookups else None
        h = 0
        for o in ops:
            ob = sp.observe(sp.step(o))
            h = so.dmix(h, ob["res"])
            h = so.dlist(h, ob["names"])
            h = so.dlist(so.dmix(h, 77), ob["gets"])
            for mask, ranks in ob["graphs"]:
                h = so.dlist(so.dmix(so.dmix(h, 78), mask), ranks)
            if with_lookups:
                h = so.dmix(h, sp.digest_state(allq, [so.DEFAULT_LO]))
        if i >= len(per) or per[i] != h:
            r = sc.run_case(ctx, dict(base, ops=ops, c09={}), with_lookups, False)
            sp = so.Spec(dict(base, steps=[]))
            spec_obs = [sp.observe(sp.step(o)) for o in ops]
            return {"operations": ops, "implementation": [s["obs"] for s in r["steps"]], "spec": spec_obs}
    return None


def run(ctx):
    try:
        run_checked(ctx)
    except sc.KeyUnfaithful as e:
        sc.unfaithful_violation(ctx, e)


def run_checked(ctx):
    ctx.add_obligations(vcheck.coq_props("Store", "C01"))
    ctx.cov["checker_cmd"] = ("coqc -Q coq/Store BWStore coq/Store/Props/C01.v; work/bin/h_store -mode hist | "
                              "coqc work/C01/cases_*.v (BWStore.Corr.mismatches_from, vm_compute)")
    n = 96 if ctx.quick() else 3000
    hargs = ["-maxops", 40, "-usize", 24, "-bigmax", 1100 if ctx.quick() else 5000, "-longchurn", 0 if ctx.quick() else 110]
    if ctx.replay and sc.replay(ctx, [], hargs, (True, False, False)):
        return
    hists = sc.hstore(["-mode", "hist", "-n", n, "-seed", ctx.seed] + hargs)
    hists += sc.single_proc_histories(ctx.seed, [], hargs, 8 if ctx.quick() else 100)
    bad = sc.model_mismatches(ctx, "cases_c01", hists, True, False, False)
    sc.report(ctx, ctx.seed, hargs, hists, bad)
    sc.oracle_check(ctx, ctx.seed, hargs, hists, *(True, False, False))
    dist = sc.distribution(hists)
    ctx.cov.update(dist)
    ctx.cov["evaluations"] = dist["steps"]
    seen = set()
    for h in hists:
        if nontrivial(h):
            seen.add(vcheck.case_hash([h["strs"], [s["op"] for s in h["steps"]]]))
    ctx.cov["distinct_nontrivial"] = len(seen)
    ctx.cov["rule"] = ("one evaluation = one step of a history: the operation's result, GraphNames, Graph(name) for every "
                       "name, Exist over the whole universe and Triples(DefaultLookup) of EVERY graph object ever created "
                       "(also dropped ones, through the old handle) compared with the model evaluated in Coq; histories are "
                       "distinct by (universe, operation list); non-trivial = contains a successful non-empty add and a "
                       "remove or a drop")
    ctx.cov["samples"] = [{"universe": h["strs"][:4], "operations": [s["op"] for s in h["steps"][:6]],
                           "observed_after_last": h["steps"][-1]["obs"]["graphs"]} for h in hists[:2]]
    # concurrent creators / droppers of one name: exactly one NewGraph (DeleteGraph) succeeds and Graph(name) is the
    # winner's graph (the store stays a map from names to graphs under concurrent creation)
    bu = sc.hstore(["-mode", "burst", "-n", 300 if ctx.quick() else 5000])[0]
    ctx.cov["concurrent_create_drop_rounds"] = bu["rounds"]
    if bu["bad_create"] or bu["bad_delete"] or bu["bad_handle"]:
        ctx.violation({"kind": "concurrent-NewGraph-DeleteGraph-on-one-name", "detail": bu,
                       "explain": "8 goroutines create (then drop) the same new name: not exactly one call succeeded, or "
                                  "Graph(name) is not the graph of the successful creator"})
    # graphs are independent also while they are loaded at the same time: 24 goroutines load one graph each, then every
    # graph is audited sequentially (each added triple exists, the listing has exactly the distinct added triples)
    pl = sc.hstore(["-mode", "parload", "-n", 1 if ctx.quick() else 20], timeout=3000)[0]
    ctx.cov["parallel_load"] = {k: pl[k] for k in ("rounds", "graphs_per_round", "triples_per_graph")}
    if pl["bad_graphs"]:
        ctx.violation({"kind": "graphs-loaded-concurrently-do-not-hold-their-own-triples", "detail": pl})
    length = 3 if ctx.quick() else 4
    e, ebad = exhaustive(ctx, length)
    ctx.cov["exhaustive"] = {"histories": e["histories"], "length": length, "alphabet": len(e["alphabet"]),
                             "universe": e["strs"], "steps_observed": e["histories"] * length}
    ctx.cov["evaluations"] += e["histories"] * length
    for g in ebad[:3]:
        v = {"kind": "exhaustive-history-digest", "first_operation": e["alphabet"][g], "length": length,
             "explain": "the digest of all observations along every history starting with this operation differs "
                        "between model and implementation", "universe": e["strs"], "alphabet": e["alphabet"]}
        try:
            v["failing_history"] = exhaustive_locate(ctx, e, g, length, False)
        except Exception as ex:
            v["failing_history"] = "search failed: %s" % ex
        ctx.violation(v)
    ctx.assumptions += ["triple identity is compared on keys (UUID pre-images); key <-> UUID faithfulness is asserted by the "
                        "harness on each generated universe (C06 owns UUID collisions)"]


def search(ctx, broken):
    """failing-input search when an obligation or the build breaks: the implementation against the Python reading of
    the SPEC (checks/store_oracle.py) on fresh histories"""
    return sc.oracle_search(ctx, [], ["-maxops", 30, "-usize", 24], (True, False, False))
