"""C02 — every indexed lookup returns exactly what a scan of the graph would return."""
import store_common as sc
import vcheck
import c01

GO_CMDS = sc.GO_CMDS
TRANSLATORS = []
COQ_PROJECTS = sc.COQ_PROJECTS
TRUSTED = sc.TRUSTED


def nontrivial(h):
    # at least one state with a non-empty graph after a remove (stale index entries can only show then) or with
    # two triples whose predicates share an id
    seen_rem = False
    for s in h["steps"]:
        if s["op"][0] == "rem":
            seen_rem = True
        if seen_rem and any(g[1] for g in s["obs"]["graphs"]):
            return True
    return False


def run(ctx):
    try:
        run_checked(ctx)
    except sc.KeyUnfaithful as e:
        sc.unfaithful_violation(ctx, e)


def run_checked(ctx):
    ctx.add_obligations(vcheck.coq_props("Store", "C02"))
    ctx.cov["checker_cmd"] = ("coqc -Q coq/Store BWStore coq/Store/Props/C02.v; work/bin/h_store -mode hist -c02 | "
                              "coqc work/C02/cases_*.v (digest of all_queries x default options per state, vm_compute)")
    n = 30 if ctx.quick() else 600
    hargs = ["-maxops", 30, "-usize", 24, "-bigmax", 1100 if ctx.quick() else 5000, "-longchurn", 0 if ctx.quick() else 110]
    if ctx.replay and sc.replay(ctx, ["-c02"], hargs, (False, True, False)):
        return
    hists = sc.hstore(["-mode", "hist", "-n", n, "-seed", ctx.seed, "-c02"] + hargs)
    hists += sc.single_proc_histories(ctx.seed, ["-c02"], hargs, 8 if ctx.quick() else 100)
    bad = sc.model_mismatches(ctx, "cases_c02", hists, False, True, False, shard=100)
    sc.report(ctx, ctx.seed, hargs, hists, bad)
    sc.oracle_check(ctx, ctx.seed, hargs, hists, *(False, True, False))
    # updates under contexts that turn cancelled in the middle of the call: whatever AddTriples / RemoveTriples return, the
    # graph must still satisfy lookup = scan (audited on the implementation against its own Triples())
    fc = sc.hstore(["-mode", "faultctx", "-n", 400 if ctx.quick() else 6000, "-seed", ctx.seed])[0]
    ctx.cov["fault_context_calls"] = {"calls": fc["calls"], "returned_errors": fc["errors"]}
    if fc["bad"]:
        ctx.violation({"kind": "indexes-out-of-step-after-an-interrupted-update", "detail": fc})
    dist = sc.distribution(hists)
    ctx.cov.update(dist)
    st = [sum(h["lookup_stats"][i] for h in hists) for i in range(4)]
    ctx.cov["distinct_nonempty_lookups"] = sum(h["lookup_distinct_nonempty"] for h in hists)
    ctx.cov["lookup_results"] = {"empty": st[0], "non_empty": st[1], "error": st[2], "elements_returned": st[3]}
    lookups = sum(h["lookups"] for h in hists)
    ctx.cov["evaluations"] = lookups
    seen = set()
    for h in hists:
        if nontrivial(h):
            seen.add(vcheck.case_hash([h["strs"], [s["op"] for s in h["steps"]]]))
    ctx.cov["distinct_histories_with_remove_then_nonempty"] = len(seen)
    ctx.cov["distinct_nontrivial"] = sum(h["lookup_distinct_nonempty"] for h in hists)
    ctx.cov["states_compared"] = dist["steps"]
    ctx.cov["rule"] = ("one evaluation = one lookup (ten indexed methods and Triples(), default options) on one graph object "
                       "in one state; after EVERY step of a history all methods are called with every argument tuple from "
                       "pools of stored and non-stored nodes, predicates (immutable and temporal sharing an id, the same "
                       "instant in two zones, neighbours at 1 ns) and objects (nodes, literals, predicates), on every graph "
                       "object; results are digested on both sides and the digests compared per state. distinct_nontrivial = "
                       "lookups with a NON-EMPTY result, distinct by (universe, content of the graph object, method, argument "
                       "tuple), measured by the harness")
    ctx.cov["samples"] = [{"universe": h["strs"][:4], "operations": [s["op"] for s in h["steps"][:5]],
                           "lookups": h["lookups"], "digest_after_last_step": h["steps"][-1]["obs"]["c02"]} for h in hists[:2]]
    if not ctx.quick():
        e, ebad = c01.exhaustive(ctx, 3, with_lookups=True, name="exh02")
        ctx.cov["exhaustive"] = {"histories": e["histories"], "length": 3, "alphabet": len(e["alphabet"]),
                                 "with_lookups": True}
        for g in ebad[:3]:
            v = {"kind": "exhaustive-history-digest-with-lookups", "first_operation": e["alphabet"][g],
                 "universe": e["strs"], "alphabet": e["alphabet"]}
            try:
                v["failing_history"] = c01.exhaustive_locate(ctx, e, g, 3, True)
            except Exception as ex:
                v["failing_history"] = "search failed: %s" % ex
            ctx.violation(v)


def search(ctx, broken):
    """failing-input search when an obligation or the build breaks: the implementation against the Python reading of
    the SPEC (checks/store_oracle.py) on fresh histories"""
    return sc.oracle_search(ctx, ["-c02"], ["-maxops", 30, "-usize", 24], (False, True, False))
