"""C04 — data and graph statements change the store exactly as stated, nothing else."""
import collections, json, os
import vcheck, execlib as X
from vcheck import sh, BIN, REPO

GO_CMDS = ["h_exec"]
TRANSLATORS = []
COQ_PROJECTS = ["Exec"]

TRUSTED = vcheck.STD_TRUSTED + [
    "solution rows of the WHERE pattern are an input of the model: the harness obtains them by running "
    "`SELECT <all pattern bindings> FROM <inputs> WHERE {pattern}` on the real engine against the same store "
    "immediately before the statement (the query engine is another family's property)",
    "blank-node supply (uuid.NewRandom) is an oracle: theorems assume fresh draws; the comparison renames new blank ids",
    "triples are identified structurally in the model; the memory driver identifies them by SHA-1 of the printed "
    "components (injectivity is C06); the harness vocabulary is collision free and uses UTC anchors only",
    "each statement is parsed with a fresh grammar.SemanticBQL() value (hook-closure state across statements is C18)",
]


def hexec(args):
    return X.run_harness(os.path.join(BIN, "h_exec"), args, REPO, vcheck.goenv(), 1500)


def steps_of(seqs):
    """flatten to (bulk, prev listing, stmt) steps"""
    out = []
    for s in seqs:
        prev = s.get("prev") or {}
        for i, st in enumerate(s["stmts"]):
            out.append({"seq": s["id"], "idx": i, "bulk": s["bulk"], "prev": prev, "stmt": st})
            prev = st["obs"]["after"]
    return out


def store_ref(listing, defs):
    """stores recur along a sequence (previous = last after; many statements change nothing): bind each once"""
    key = json.dumps(listing, sort_keys=True)
    if key not in defs:
        defs[key] = ("st_%d" % len(defs), X.store(listing))
    return defs[key][0]


def case_term(c, defs):
    st, o = c["stmt"], c["stmt"]["obs"]
    show = "None"
    if st["kind"] == "show" and o["class"] == "ok":
        show = "(Some %s)" % X.strs(o.get("show") or [])
    return "(%s, %d%%nat, %s, (fun draw => %s), mkObs %s %s %s)" % (
        X.cbool(X.det_rows(st)), c["bulk"], store_ref(c["prev"], defs), X.stmt(st), X.oclass(o["class"]), show,
        store_ref(o["after"], defs))


def model_mismatches(ctx, name, cases):
    bad = []
    shard = 1500
    for k in range(0, len(cases), shard):
        part = cases[k:k + shard]
        defs = {}
        terms = [case_term(c, defs) for c in part]
        v = X.HEADER + "".join("Definition %s : store := %s.\n" % d for d in defs.values())
        v += "Definition cases : list case := [\n" + ";\n".join(terms) + "].\n"
        v += "Definition M := Eval vm_compute in mismatches_from 0 cases.\nPrint M.\n"
        out = vcheck.coq_eval(ctx.work, "%s_%d" % (name, k), v)
        bad += [k + i for i in vcheck.parse_nat_list(out, "M")]
    return bad


# ---- independent evaluation of the single-clause patterns (cross-check of the "rows from SELECT" input) ----
def _cell_of_obj(o):
    if o.get("n") is not None:
        return {"n": o["n"]}
    if o.get("p") is not None:
        return {"p": o["p"]}
    return {"l": o["l"]}


SIMPLE = {
    '?s ?p ?o': lambda t: {"?s": {"n": t["s"]}, "?p": {"p": t["p"]}, "?o": _cell_of_obj(t["o"])},
    '?s "p"@[] ?o': lambda t: {"?s": {"n": t["s"]}, "?o": _cell_of_obj(t["o"])} if t["p"]["id"] == "p" and t["p"]["a"] is None else None,
    '?s "r"@[?t] ?o': lambda t: {"?s": {"n": t["s"]}, "?t": {"t": t["p"]["a"]}, "?o": _cell_of_obj(t["o"])} if t["p"]["id"] == "r" and t["p"]["a"] is not None else None,
    '/u<a> ?p ?o': lambda t: {"?p": {"p": t["p"]}, "?o": _cell_of_obj(t["o"])} if t["s"] == {"t": "/u", "i": "a"} else None,
    '?s ?p /u<b>': lambda t: {"?s": {"n": t["s"]}, "?p": {"p": t["p"]}} if t["o"].get("n") == {"t": "/u", "i": "b"} else None,
    '?s "_subject"@[] ?o': lambda t: {"?s": {"n": t["s"]}, "?o": _cell_of_obj(t["o"])} if t["p"]["id"] == "_subject" and t["p"]["a"] is None else None,
}


def rows_crosscheck(cases):
    """(compared, list of disagreeing cases): solutions computed here from the listing vs. rows the real engine returned"""
    n, bad = 0, []
    for c in cases:
        st = c["stmt"]
        f = SIMPLE.get(st.get("note") or "")
        q = st.get("q")
        if st["kind"] != "construct" or f is None or not q or not q.get("ok") or st.get("having"):
            continue
        if any(g not in c["prev"] for g in st["ins"]):
            continue
        mine = []
        for g in st["ins"]:
            for t in c["prev"][g]:
                r = f(t)
                if r is not None:
                    mine.append(r)
        canon = lambda rows: sorted(json.dumps(r, sort_keys=True) for r in rows)
        n += 1
        if canon(mine) != canon(q.get("rows") or []):
            bad.append({"text": st["text"], "engine_rows": len(q.get("rows") or []), "own_rows": len(mine)})
    return n, bad


def nontrivial(c):
    st = c["stmt"]
    return st["obs"]["class"] != "reject" and (c["prev"] != st["obs"]["after"] or st["obs"]["class"] == "error")


def run(ctx):
    ctx.add_obligations(vcheck.coq_props("Exec", "C04"))
    ctx.cov["checker_cmd"] = "coqc -Q coq/Exec BWExec coq/Exec/Props/C04.v; work/bin/h_exec -seed S -n N | model evaluated by vm_compute (coq/Exec/Corr.v step_agrees)"
    n = 3000 if ctx.tier == "thorough" else 130
    seqs = hexec(["-seed", str(ctx.seed), "-n", str(n)] + (["-big"] if ctx.tier == "thorough" else []))
    # exhaustive small scope: every sequence of at most 2 (quick) / 3 (thorough) statements of the fixed 12-statement pool
    pool = hexec(["-mode", "pool", "-len", "3" if ctx.tier == "thorough" else "2"])
    for q in pool:
        q["id"] += 1000000
    ctx.cov["pool_sequences"] = len(pool)
    ctx.cov["exhaustive"] = "all sequences of <= %d statements from the 12-statement pool (harness/internal/execgen Pool)" % (3 if ctx.tier == "thorough" else 2)
    seqs += pool
    if ctx.replay:
        # re-run exactly the sequence of a recorded violation (same seed => same statements), print impl / model verdicts
        rp = json.load(open(ctx.replay))
        want = (rp.get("violation") or {}).get("case", {}).get("seq")
        seqs = [q for q in seqs if q["id"] == want]
        for q in seqs:
            for st in q["stmts"]:
                print("REPLAY impl: %-7s %s" % (st["obs"]["class"], st["text"]))
    # concurrent bursts (CREATE GRAPH ?n + INSERT of an own triple from 8 goroutines): exactly the named graph appears
    # once, and it holds every triple whose INSERT reported success
    bursts = [q for q in seqs if q.get("burst")]
    seqs = [q for q in seqs if not q.get("burst")]
    nb = 0
    for q in bursts:
        bu = q["burst"]
        key = lambda t: json.dumps(t, sort_keys=True)
        want, got = {key(t) for t in (bu.get("insert_ok") or [])}, {key(t) for t in (bu.get("final") or [])}
        if bu["create_ok"] != 1 or not bu["graph_seen"] or want != got:
            nb += 1
            if nb <= 3:
                ctx.violation({"kind": "concurrent-create-burst", "case": {
                    "statements": "8 goroutines, each: CREATE GRAPH ?n; INSERT DATA INTO ?n { /u<wK> \"p\"@[] /u<b> };",
                    "creates_reporting_success": bu["create_ok"], "inserts_reporting_success": len(want),
                    "triples_in_graph_afterwards": len(got), "lost": sorted(want - got)[:8]},
                    "explain": "CREATE adds exactly the named graph (one of the concurrent CREATEs succeeds, the others fail "
                               "with `already exists`), and every INSERT that reported success must be in the graph"})
    ctx.cov["concurrent_bursts"] = len(bursts)
    cases = steps_of(seqs)
    classes = collections.Counter()
    for c in cases:
        o = c["stmt"]["obs"]
        classes["%s/%s" % (c["stmt"]["kind"], o["class"])] += 1
        if o["class"] in ("panic", "hang"):
            ctx.violation({"kind": "statement-" + o["class"], "case": slim(c)})
    bad = model_mismatches(ctx, "cases_c04", cases)
    if ctx.replay:
        for i, c in enumerate(cases):
            print("REPLAY step %d: model %s the implementation (outcome class + every graph listing)" % (i, "DIFFERS from" if i in bad else "agrees with"))
    by_id = {q["id"]: q for q in seqs}
    for i in bad[:5]:
        ctx.violation({"kind": "executor-model-vs-real-engine", "case": failing_input(cases[i], by_id),
                       "explain": "outcome class or the listing of some graph after the statement differs from "
                                  "exec (Coq, vm_compute) run on the observed previous store, modulo renaming of new blank nodes"})
    nx, badx = rows_crosscheck(cases)
    ctx.cov["rows_crosschecked"] = nx
    ctx.cov["rows_crosscheck_disagreements"] = badx[:5]
    if badx:
        ctx.notes.append("%d/%d single-clause patterns: the rows returned by the engine's SELECT differ from the solutions "
                         "computed from the listing (query engine = other family's property; not a C04 violation)" % (len(badx), nx))
    ctx.cov["evaluations"] = len(cases)
    ctx.cov["distinct_nontrivial"] = len({vcheck.case_hash([c["bulk"], c["prev"], c["stmt"]["text"]]) for c in cases if nontrivial(c)})
    ctx.cov["rule"] = ("one evaluation = one statement of a generated sequence (1-8 statements, 3 graphs + one unknown "
                       "name) executed by the real parser/planner on storage/memory and by the model from the observed "
                       "previous store; non-trivial = reached a plan and changed some graph or failed at execution; "
                       "distinct by (bulk size, previous store, statement text)")
    ctx.cov["samples"] = [slim(c) for c in cases if nontrivial(c)][:3]
    ctx.cov["sequences"] = len(seqs)
    ctx.cov["kinds_by_outcome"] = dict(sorted(classes.items()))
    ctx.cov["rows_per_construct"] = dict(sorted(collections.Counter(
        min(len((c["stmt"].get("q") or {}).get("rows") or []), 10) for c in cases if c["stmt"]["kind"] == "construct").items()))
    ctx.cov["reified_constructs"] = sum(1 for c in cases if c["stmt"]["kind"] == "construct" and c["stmt"]["obs"]["class"] == "ok"
                                        and any(len(cl["pairs"]) > 1 for cl in c["stmt"]["tmpl"]) and (c["stmt"].get("q") or {}).get("rows"))
    with_rows = sum(1 for c in cases if c["stmt"]["kind"] == "construct" and (c["stmt"].get("q") or {}).get("rows"))
    ctx.cov["constructs_with_rows"] = with_rows
    if not ctx.replay and (ctx.cov["reified_constructs"] < 3 or with_rows < 20):
        ctx.broken("generator degenerate: %d successful reifying constructs, %d constructs with solution rows"
                   % (ctx.cov["reified_constructs"], with_rows))
    nerr = sum(v for k, v in classes.items() if not k.endswith("/ok"))
    if cases and nerr > 0.45 * len(cases):
        ctx.notes.append("generator produced %d/%d non-ok statements" % (nerr, len(cases)))


def _node_text(n):
    return "/_<blank#%d>" % n["b"] if n.get("b") is not None else "%s<%s>" % (n.get("t", ""), n.get("i", ""))


def _pred_text(p):
    return '"%s"@[%s]' % (p["id"], "" if p.get("a") is None else "%dns" % p["a"])


def _triple_text(t):
    o = t["o"]
    ot = _node_text(o["n"]) if o.get("n") is not None else _pred_text(o["p"]) if o.get("p") is not None else o["l"]
    return "%s %s %s" % (_node_text(t["s"]), _pred_text(t["p"]), ot)


def _listing_text(l):
    return {g: sorted(_triple_text(t) for t in ts) for g, ts in l.items()}


def failing_input(c, seqs_by_id):
    """the concrete failing input: the statements executed so far, the store before, the statement, the rows the
    engine's own SELECT gave, and the observed store after"""
    st = c["stmt"]
    d = slim(c)
    q = seqs_by_id.get(c["seq"])
    if q is not None:
        d["statements_before"] = [x["text"] for x in q["stmts"][:c["idx"]]]
    d["store_before"] = _listing_text(c["prev"])
    d["store_after_observed"] = _listing_text(st["obs"]["after"])
    d["solution_rows"] = (st.get("q") or {}).get("rows")
    return d


def slim(c):
    st = c["stmt"]
    return {"seq": c["seq"], "idx": c["idx"], "bulk": c["bulk"], "text": st["text"], "class": st["obs"]["class"],
            "err": st["obs"].get("err", "")[:200], "rows": len((st.get("q") or {}).get("rows") or []),
            "prev": {g: len(v) for g, v in c["prev"].items()}, "after": {g: len(v) for g, v in st["obs"]["after"].items()}}


def oracle_violation(c):
    """SPEC vs implementation without Coq (used when the Coq side is broken): frame condition for every statement,
    exact set semantics for INSERT / DELETE / CREATE / DROP, no effect for rejected statements"""
    st, o = c["stmt"], c["stmt"]["obs"]
    prev, after = c["prev"], o["after"]
    def key(t):
        t = json.loads(json.dumps(t))
        t["p"].pop("z", None)                       # the zone an anchor was spelled in is not part of the value
        if t["o"].get("p"):
            t["o"]["p"].pop("z", None)
        return json.dumps(t, sort_keys=True)
    sets = lambda l: {g: {key(t) for t in ts} for g, ts in l.items()}
    P, A = sets(prev), sets(after)
    kind = st["kind"]
    targets = st.get("gs") or st.get("outs") or []
    if kind in ("select", "show", "bad") or o["class"] == "reject":
        return None if P == A else "store changed by a statement that must not write"
    for g in set(P) | set(A):
        if g not in targets and P.get(g) != A.get(g):
            return "graph %s is not a target but changed" % g
    if kind in ("insert", "delete"):
        ts = {key(t) for t in st["ts"]}
        for g in targets:
            if g in P:
                want = P[g] | ts if kind == "insert" else P[g] - ts
                if A.get(g) != want:
                    return "graph %s is not old %s listed triples" % (g, "+" if kind == "insert" else "-")
    if kind == "create":
        for g in targets:
            if g not in P and A.get(g) != set():
                return "created graph %s missing or not empty" % g
    if kind == "drop":
        for g in targets:
            if g in A:
                return "dropped graph %s still there" % g
    return None


def search(ctx, broken):
    """failing-input search when an obligation or the build breaks: SPEC (python oracle) against the implementation"""
    try:
        seqs = hexec(["-seed", str(ctx.seed), "-n", "300"]) + hexec(["-mode", "pool", "-len", "2"])
    except Exception:
        return None
    for c in steps_of(seqs):
        why = oracle_violation(c)
        if why:
            d = failing_input(c, {q["id"]: q for q in seqs})
            d["why"] = why
            return d
    return None
