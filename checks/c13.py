"""C13 — HAVING keeps exactly the rows satisfying its boolean expression."""
import collections, json
import vcheck
import tablelib as T
from c12 import float_in_domain

GO_CMDS = T.GO_CMDS
TRANSLATORS = T.TRANSLATORS
COQ_PROJECTS = T.COQ_PROJECTS
TRUSTED = T.TRUSTED + ["literal.Parse and time.Parse of the constants in a HAVING expression are oracles: the harness ships the "
                       "parsed value / comparable string with each literal and time token"]

KINDS = {"binding": "KBinding", "literal": "KLiteral", "node": "KNode", "time": "KTime", "predicate": "KPredicate", "not": "KNot",
         "and": "KAnd", "or": "KOr", "eq": "KEq", "lt": "KLt", "gt": "KGt", "lpar": "KLPar", "rpar": "KRPar", "other": "KOther"}
OPS = {"<": "OLt", ">": "OGt", "=": "OEq"}
TRIM = b" \t\n\v\f\r"


def litval_term(t, c):
    ty = c["t"]
    if ty == "int64":
        return "VInt %s" % T.zlit(c["v"])
    if ty == "float64":
        return "VFloat %s" % T.sf_term(c["v"])
    if ty == "bool":
        return "VBool %s" % c["v"]
    if ty == "text":
        return "VText %s" % t.s(c.get("v"))
    return "VBlob %s" % t.s(c.get("v"))


def const_term(t, c):
    if c is None or c["parsed"] == "error" or c["parsed"] == "panic":
        return "PCError"
    if c["parsed"] == "nil":
        return "PCNil"
    return "(PC (%s) %s)" % (litval_term(t, c["cell"]), t.s(c["cell"].get("cmp")))


def bind_id(ids, hexname):
    name = bytes.fromhex(hexname).strip(TRIM).decode("latin1")
    if name not in ids:
        ids[name] = len(ids) + 1
    return ids[name]


def tok_term(t, tk, ids):
    b = bind_id(ids, tk["text"]) if tk["k"] == "binding" else 0
    tm = "None" if tk.get("time") is None else "(Some %s)" % T.zlit(tk["time"])
    return "(mkTok %s %s %d%%N %s %s)" % (KINDS[tk["k"]], t.s(tk["text"]), b, const_term(t, tk.get("lit")), tm)


def tree_term(t, n, ids):
    k = n["n"]
    if k == "not":
        return "(ENot %s)" % tree_term(t, n["a"], ids)
    if k in ("and", "or"):
        return "(%s %s %s)" % ("EAnd" if k == "and" else "EOr", tree_term(t, n["a"], ids), tree_term(t, n["b"], ids))
    op, l = OPS[n["op"]], bind_id(ids, n["l"])
    if k == "bind":
        return "(EBind %s %d%%N %d%%N)" % (op, l, bind_id(ids, n["r"]))
    if k == "lit":
        return "(ELit %s %d%%N %s)" % (op, l, const_term(t, n["c"]))
    if k == "time":
        return "(ETime %s %d%%N %s)" % (op, l, "None" if n.get("ns") is None else "(Some %s)" % T.zlit(n["ns"]))
    if k in ("node", "pred"):
        return "(%s %s %d%%N %s)" % ("ENode" if k == "node" else "EPred", op, l, t.s(n["r"]))
    raise ValueError(k)


def toks_term(t, toks, ids):
    return "[" + "; ".join(tok_term(t, x, ids) for x in toks) + "]"


def expr_item(c):
    def f(t):
        ids = T.binding_ids([c["rows"]])
        toks = toks_term(t, c["tokens"], ids)
        tree = "None" if c.get("tree") is None else "(Some %s)" % tree_term(t, c["tree"], ids)
        oc = {"ok": 0, "err": 1, "panic": 2}[c["build"]]
        res = "[" + "; ".join("%d%%N" % {"f": 0, "t": 1, "e": 2, "p": 3}[x] for x in c["results"]) + "]"
        rows = t.rowlist(c["rows"], ids) if c["build"] == "ok" else "[]"
        return "expr_verdict " + T.VM + " %s %d%%N %s %s %s" % (toks, oc, tree, rows, res)
    return f


def e2e_item(c):
    def f(t):
        base, res = c["base"], c["res"]
        ids = T.binding_ids([base.get("rows") or [], res.get("rows") or []], extra=base.get("bindings") or [])
        toks = toks_term(t, c["extra"]["tokens"], ids)
        bs = "[" + "; ".join("%d%%N" % ids[b] for b in (base.get("bindings") or [])) + "]"
        oc = {"ok": 0, "parse": 1, "exec": 2, "panic": 3}.get(res["outcome"], 9)
        # CONSTRUCT / DECONSTRUCT: the kept solutions are read back from a graph, their order means nothing
        exact = "false" if c["shape"] in ("construct", "deconstruct") else "true"
        return "e2e13_verdict " + T.VM + " %s %s %s %s %d%%N %s" % (toks, bs, t.rowlist(base.get("rows") or [], ids), exact, oc,
                                                          t.rowlist(res.get("rows") or [], ids))
    return f


def tail_classes(c):
    """an alias that is also the name of a pattern binding projected LATER in the same SELECT"""
    ps = c["extra"]["projs"]
    return {"alias_shadows_later_projection"} if any(ps[i]["alias"] and ps[i]["alias"] == ps[j]["bind"] and ps[i]["bind"] != ps[j]["bind"]
                                                     for i in range(len(ps)) for j in range(i + 1, len(ps))) else set()


def tail_item(c):
    def f(t):
        ex, base, res = c["extra"], c["base"], c["res"]
        names = list(base.get("bindings") or []) + list(res.get("bindings") or []) + (ex["group_by"] or []) + [k["b"] for k in ex["keys"] or []]
        for p in ex["projs"]:
            names += [p["bind"]] + ([p["alias"]] if p["alias"] else [])
        ids = T.binding_ids([base.get("rows") or [], res.get("rows") or []], extra=names)
        lst = lambda bs: "[" + "; ".join("%d%%N" % ids[b] for b in bs) + "]"
        projs = "[" + "; ".join("mkProj %d%%N %s %s %s" % (
            ids[p["bind"]], "(Some %d%%N)" % ids[p["alias"]] if p["alias"] else "None",
            {"": "OpNone", "count": "OpCount", "sum": "OpSum"}[p["op"]], "true" if p["distinct"] else "false") for p in ex["projs"]) + "]"
        lim = "None" if ex.get("limit") is None else "(Some %s)" % T.zlit(ex["limit"])
        oc = {"ok": 0, "parse": 1, "exec": 2, "panic": 3}.get(res["outcome"], 9)
        return "tail_verdict " + T.VM + " %s %s %s %s %s %s %s %d%%N %s %s" % (
            lst(ex["group_by"] or []), projs, T.keys_term(ex["keys"] or [], ids), toks_term(t, ex["tokens"], ids), lim,
            lst(base.get("bindings") or []), t.rowlist(base.get("rows") or [], ids), oc,
            lst(res.get("bindings") or []), t.rowlist(res.get("rows") or [], ids))
    return f


# ---------------------------------------------------------------- classifiers
def compare_classes(tokens, rows):
    """known string-comparison defects that can make a HAVING comparison differ from the comparison of the values"""
    cl = set()
    cells = [c for r in rows for c in r.values()]
    consts = [tk["lit"]["cell"] for tk in tokens if tk.get("lit") and tk["lit"].get("cell")]
    for c in cells + consts:
        if c["k"] == "l" and c["t"] == "int64" and int(c["v"]) < 0:
            cl.add("negative_int_compare")
        if c["k"] == "l" and c["t"] == "float64":
            f = T.float_of_bits(c["v"])
            if f < 0:
                cl.add("float_negative_compare")
            if f >= 1e25 or f != f:
                cl.add("float_width_compare")
        if c["k"] == "l" and c["t"] == "text" and any(b <= 0x22 for b in bytes.fromhex(c.get("v", ""))):
            cl.add("text_quote_compare")
        if c["k"] == "s" and any(b <= 0x22 for b in bytes.fromhex(c.get("s", ""))):
            cl.add("text_quote_compare")
    # precision: only when two DIFFERENT float64 values involved have the same six-decimal rendering
    fls = {c["v"] for c in cells + consts if c["k"] == "l" and c["t"] == "float64"}
    k6 = {}
    for b in fls:
        f = T.float_of_bits(b)
        if f == f and f not in (float("inf"), float("-inf")):
            k6.setdefault(T.float_key6(b), set()).add(b)
    if any(len(v) > 1 for v in k6.values()):
        cl.add("float_precision_compare")
    times = [c for c in cells if c["k"] == "t"]
    if len({c.get("off", 0) for c in times}) > 1 or len({len(c["str"]) for c in times}) > 1:
        cl.add("anchor_string_compare_bindings")
    return cl


def nested_paren_reject(tokens):
    ks = [t["k"] for t in tokens]
    return any(ks[i] == "rpar" and ks[i + 1] == "rpar" and i + 2 < len(ks) for i in range(len(ks) - 1))


def same_tokens(a, b):
    a, b = a or [], b or []
    if len(a) != len(b):
        return False
    for x, y in zip(a, b):
        if x["k"] != y["k"]:
            return False
        # the lexer leaves trailing white space in time tokens; every consumer trims it
        if x["k"] in ("binding", "literal", "node", "time", "predicate") and \
                bytes.fromhex(x["text"]).strip(TRIM) != bytes.fromhex(y["text"]).strip(TRIM):
            return False
    return True


def run(ctx):
    if ctx.replay:
        return T.replay(ctx)
    ctx.add_obligations(vcheck.coq_props("Table", "C13"))
    ctx.cov["checker_cmd"] = ("coqc -Q coq/Table BWTable coq/Table/Props/C13.v; work/bin/h_table -mode expr|e2e13|replay13; "
                              "Corr.expr_verdict / e2e13_verdict evaluated by vm_compute")
    mult = 20 if ctx.tier == "thorough" else 1
    open_classes = {f.get("class") for f in vcheck.known_findings("C13")}
    found, dist = collections.Counter(), collections.Counter()

    def excuse(case, classes, what):
        ok = [c for c in classes if c in open_classes]
        if not ok:
            ctx.violation({"kind": what, "classes_tried": sorted(classes), "case": case})
        for c in ok:
            found[c] += 1

    def judge(c, v, tokens, rows, what):
        if v == 2:
            ctx.violation({"kind": what + " disagrees with the model", "case": c})
        elif v == 3:
            ctx.violation({"kind": "formatted string differs from the Gallina formatter", "case": c})
        elif v == 9:
            ctx.violation({"kind": "the evaluator built is not the tree of the grammar's derivation", "case": c})
        elif v == 7:
            excuse(c, {"nested_parentheses_rejected"} if nested_paren_reject(tokens) else set(),
                   "a HAVING expression with a boolean meaning is rejected")
        elif v == 4:
            excuse(c, compare_classes(tokens, rows), "a HAVING comparison differs from the comparison of the values")

    exprs = T.htable(["-mode", "expr", "-n", 400 * mult, "-seed", ctx.seed])
    xc = T.coq_verdicts(ctx, "c13_expr", [expr_item(c) for c in exprs], imports="Expr ExprSpec")
    for c, v in zip(exprs, xc):
        dist["expr:%s:%s:%d" % (c["gen"], c["build"], v)] += 1
        judge(c, v, c["tokens"], c["rows"], "NewEvaluator / Evaluate")
    e2e = T.htable(["-mode", "e2e13", "-n", 200 * mult, "-seed", ctx.seed])
    ec = T.coq_verdicts(ctx, "c13_e2e", [e2e_item(c) for c in e2e], imports="Expr ExprSpec", shard=300)
    for c, v in zip(e2e, ec):
        dist["e2e:%s:%s:%d" % (c["shape"], c["res"]["outcome"], v)] += 1
        if c["base"]["outcome"] != "ok":
            ctx.violation({"kind": "base statement failed", "case": c})
            continue
        if c["res"]["outcome"] != "parse" and not same_tokens(c["extra"]["tokens"], c["extra"].get("tokens_seen")):
            ctx.violation({"kind": "the havingExpression hook collected other tokens than the statement contains", "case": c})
        judge(c, v, c["extra"]["tokens"], c["base"].get("rows") or [], "HAVING through the planner")
    # all clauses together (GROUP BY, ORDER BY, HAVING, LIMIT): the order of the steps of Execute (C13_after_grouping)
    tails = T.htable(["-mode", "e2etail", "-n", 150 * mult, "-seed", ctx.seed])
    tc = T.coq_verdicts(ctx, "c13_tail", [tail_item(c) for c in tails], imports="Reduce ReduceSpec Expr ExprSpec Exec", shard=300)
    for c, v in zip(tails, tc):
        dist["tail:%s:%s:%d" % (c["shape"], c["res"]["outcome"], v)] += 1
        if c["base"]["outcome"] != "ok":
            ctx.violation({"kind": "base statement failed", "case": c})
        elif v == 4:
            excuse(c, tail_classes(c), "a projected column does not hold the value of its binding in the solution")
        elif v != 0:
            ctx.violation({"kind": "GROUP BY + ORDER BY + HAVING + LIMIT through the planner disagrees with Exec.execute_tail", "case": c})
    es = T.htable(["-mode", "e2esweep", "-n", 2 if ctx.tier == "thorough" else 1, "-seed", ctx.seed], timeout=1800)
    ctx.cov["statement_size_sweep"] = T.check_e2e_sweep(ctx, es, ("having", "having_lt", "having_notlast"))
    ctx.cov["statement_size_sweep_note"] = "statements over graphs of 13..4099 (thorough: ..16385) triples, result compared with the spec in Python, not evaluated in Coq"
    ctx.cov["cells_rendering_checked"] = T.check_renderings(
        ctx, [c["rows"] for c in exprs] + [c["base"].get("rows") for c in e2e] + [c["res"].get("rows") for c in e2e] +
        [[{"c": tk["lit"]["cell"]} for tk in c["tokens"] if tk.get("lit") and tk["lit"].get("cell")] for c in exprs] +
        [[{"c": tk["lit"]["cell"]} for tk in c["extra"]["tokens"] if tk.get("lit") and tk["lit"].get("cell")] for c in e2e], "C13")
    T.replay_findings(ctx, "C13", "replay13")
    seen = set()
    for c in exprs:
        if c["build"] == "ok" and len(c["tokens"]) > 3:
            seen.add(vcheck.case_hash(["x", [(t["k"], t["text"]) for t in c["tokens"]], c["rows"]]))
    for c in e2e:
        if c["res"]["outcome"] == "ok" and (c["base"].get("rows")):
            seen.add(vcheck.case_hash(["e", c["q"], c["triples"]]))
    ctx.cov["evaluations"] = len(exprs) + len(e2e) + len(tails)
    ctx.cov["row_evaluations"] = sum(len(c["results"]) for c in exprs)
    ctx.cov["distinct_nontrivial"] = len(seen)
    ctx.cov["rule"] = ("expr: the builder accepted a token list of more than one comparison-free... i.e. more than three tokens; e2e: the statement "
                       "ran on a non-empty base table; distinct by hash of tokens and rows / statement and graph")
    ctx.cov["verdicts"] = dict(sorted(dist.items()))
    ctx.cov["finding_classes_met_in_random_cases"] = dict(found)
    ctx.cov["samples"] = [{"having": c["extra"]["having"], "shape": c["shape"], "kept": len(c["res"].get("rows") or []),
                           "of": len(c["base"].get("rows") or [])} for c in e2e[:4]]
    ctx.cov["depth"] = {"max_tokens": max(len(c["tokens"]) for c in exprs)}
    errs = sum(1 for c in e2e if c["res"]["outcome"] != "ok")
    if errs > 0.3 * len(e2e):
        ctx.violation({"kind": "generator unhealthy: more than 30% of the HAVING statements fail", "errors": errs})
    ctx.assumptions += ["the model is fed with the token list the generator wrote; the tokens collected by the havingExpression hook are "
                        "compared with it separately"]
    ctx.assumptions += ["_partial domain of C13_compare_partial: int64 >= 0 on both sides; text / extracted ids without bytes <= 0x22; outside it a "
                        "comparison that differs from the comparison of the values must be accepted by the classifier of an OPEN finding"]

def search(ctx, broken):
    try:
        for r in T.htable(["-mode", "replay13"]):
            if r["fails"] and r["id"] not in {f.get("id") for f in vcheck.known_findings("C13")}:
                return r
    except Exception:
        return None
    return None
