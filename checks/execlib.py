"""Rendering of h_exec / h_fault JSON values as Gallina terms of coq/Exec (shared by c04.py and c20.py)."""
import vcheck


def cstr(s):
    return vcheck.coq_bytes(s.encode("utf-8"))


def cbool(b):
    return "true" if b else "false"


def clist(items):
    return "[" + "; ".join(items) + "]"


def cz(n):
    return "(%d)%%Z" % n


def node(n):
    if n.get("b") is not None:
        return "(Blank %d)" % n["b"]
    return "(Node %s %s)" % (cstr(n.get("t", "")), cstr(n.get("i", "")))


def pred(p):
    a = p.get("a")
    return "(mkPred %s %s)" % (cstr(p["id"]), "None" if a is None else "(Some %s)" % cz(a))


def obj(o):
    if o.get("n") is not None:
        return "(ONode %s)" % node(o["n"])
    if o.get("p") is not None:
        return "(OPred %s)" % pred(o["p"])
    return "(OLit %s)" % cstr(o["l"])


def triple(t):
    return "(%s, %s, %s)" % (node(t["s"]), pred(t["p"]), obj(t["o"]))


def cell(c):
    if c.get("n") is not None:
        return "(CNode %s)" % node(c["n"])
    if c.get("p") is not None:
        return "(CPred %s)" % pred(c["p"])
    if c.get("l") is not None:
        return "(CLit %s)" % cstr(c["l"])
    if c.get("t") is not None:
        return "(CTime %s)" % cz(c["t"])
    if c.get("s") is not None:
        return "(CStr %s)" % cstr(c["s"])
    return "CNull"


def row(r, wb):
    return clist(["(%s, %s)" % (cstr(b), cell(r[b])) for b in wb if b in r])


def opt(x, f):
    return "None" if x is None else "(Some %s)" % f(x)


def pop(p):
    return "(mkPop %s %s %s %s %s %s %s %s %s %s)" % (
        opt(p["P"], pred), cstr(p["PB"]), cstr(p["PID"]), cstr(p["PAB"]), cbool(p["PT"]),
        opt(p["O"], obj), cstr(p["OB"]), cstr(p["OID"]), cstr(p["OAB"]), cbool(p["OT"]))


def cclause(c):
    ps = c["pairs"]
    return "(mkCC %s %s %s %s)" % (opt(c.get("S"), node), cstr(c.get("SB", "")), pop(ps[0]), clist([pop(p) for p in ps[1:]]))


def strs(l):
    return clist([cstr(x) for x in (l or [])])


def qinput(q, wb, reads=None):
    q = q or {"ok": False, "rows": []}
    return "(mkQ %s %s %s)" % (strs(reads or []), cbool(q["ok"]), clist([row(r, wb) for r in (q.get("rows") or [])]))


def stmt(s, draw="draw", reads=None):
    """Gallina term of type stmt; the blank supply is the variable named by `draw`."""
    k = s["kind"]
    if k == "create":
        return "(SCreate %s)" % strs(s["gs"])
    if k == "drop":
        return "(SDrop %s)" % strs(s["gs"])
    if k == "insert":
        return "(SInsert %s %s)" % (strs(s["gs"]), clist([triple(t) for t in s["ts"]]))
    if k == "delete":
        return "(SDelete %s %s)" % (strs(s["gs"]), clist([triple(t) for t in s["ts"]]))
    if k == "construct":
        return "(SConstruct %s %s %s %s %s %s %s)" % (
            cbool(s.get("add", False)), clist([cclause(c) for c in s["tmpl"]]), strs(s["outs"]), strs(s["ins"]),
            strs(s["wb"]), qinput(s.get("q"), s["wb"], reads), draw)
    if k == "select":
        return "(SSelect %s %s %s %s)" % (strs(s["ins"]), strs(s["vars"]), strs(s["wb"]), qinput(s.get("q"), s["wb"], reads))
    if k == "show":
        return "SShow"
    return "SBad"


def store(listing):
    return clist(["(%s, %s)" % (cstr(n), clist([triple(t) for t in listing[n]])) for n in sorted(listing)])


CLASS = {"ok": "OOk", "reject": "OReject", "error": "OError", "nilnil": "ONilNil"}


def oclass(c):
    return CLASS.get(c, "OOther")


HEADER = """From Coq Require Import List NArith ZArith Bool.
From Coq.Strings Require Import Byte.
Import ListNotations.
From BWExec Require Import Base Values Store Driver Exec Fault Corr.
Open Scope N_scope.
"""


def det_rows(st):
    """row order inside the engine is determined when the WHERE pattern has a single clause (lookups are sorted by the
    driver); several clauses run through an errgroup"""
    note = st.get("note") or ""
    return st["kind"] != "construct" or (" . " not in note and "OPTIONAL" not in note)


def run_harness(exe, args, cwd, env, timeout):
    """run a harness binary; stdout = JSON lines, stderr kept apart (a Go panic trace must not drown in the data);
    one retry (shared, heavily loaded machine: kills, 5 s watchdog on a prefix statement); a deterministic failure fails twice"""
    import subprocess, json
    last = None
    for attempt in (1, 2):
        p = subprocess.run([exe] + args, cwd=cwd, env=env, stdout=subprocess.PIPE, stderr=subprocess.PIPE, timeout=timeout * vcheck.TSCALE,
                           text=True, errors="replace")
        if p.returncode == 0:
            return [json.loads(l) for l in p.stdout.splitlines() if l.startswith("{")]
        last = "exit status %d (attempt %d)\nstderr:\n%s\nlast stdout:\n%s" % (p.returncode, attempt, p.stderr[-3000:], p.stdout[-600:])
    raise vcheck.Broken("%s failed" % exe.rsplit("/", 1)[-1], last)
