"""C03 — SELECT returns exactly the solutions of its graph pattern (conjunctive fragment)."""
import vcheck
import planner_common as pc

GO_CMDS = pc.GO_CMDS
TRANSLATORS = []
COQ_PROJECTS = pc.COQ_PROJECTS
TRUSTED = pc.TRUSTED


def run(ctx):
    ctx.add_obligations(vcheck.coq_props("Planner", "C03"))
    ctx.cov["checker_cmd"] = "coqc -Q coq/Planner BWPlanner coq/Planner/Props/C03.v; h_query -mode gen -family c03; model and spec evaluated by vm_compute (coq/Planner/Corr.v)"
    n = 2000 if ctx.tier == "thorough" else 800
    args = ["-family", "c03", "-n", str(n)] + (["-exhaustive"] if ctx.tier == "thorough" else [])
    pc.run_family(ctx, "C03", args,
                  "all one-clause shapes (thorough) / a seeded sample (quick) of the subject x predicate x object form lists, "
                  "one-clause shapes with repeated names, seeded two-clause shapes, 2-4 clause chains, malformed statements; "
                  "constants anchored in the data; 1-3 FROM graphs with overlapping contents; global BEFORE/AFTER/BETWEEN")
    ctx.assumptions += ["D3 (domain of C03_select_is_solutions_partial) is a boolean predicate over (clauses, graphs); outside D3 the "
                        "deviations are the listed findings"]


def search(ctx, broken):
    return pc.search_crash(ctx, "c03")
