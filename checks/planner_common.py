"""Shared by the Planner family checks (C03, C10, C14): harness driver, JSON -> Coq terms, evaluation of the model and
of the specification inside Coq, classification of model/spec/implementation differences."""
import json, os, re
import vcheck
from vcheck import sh, BIN, REPO

GO_CMDS = ["h_query"]
COQ_PROJECTS = ["Planner"]

TRUSTED = vcheck.STD_TRUSTED + [
    "storage lookups are taken as their specification (all stored triples whose fixed components match; kind/instant "
    "sensitivity as probed on the live store: h_query -mode probe); graphs are read back from the store before modelling",
    "collision-free vocabulary (node type/id concatenation, untagged literal bytes: property C06)",
    "time.Time modelled as (UnixNano, zone offset); reflect.DeepEqual on parsed times = equality of both",
    "the model is fed from the WRITTEN statement (planner_common.intended: an independent reader of the generator's text format); "
    "the parsed semantic.GraphClause / projections / global bounds, serialised field by field by h_query (jClause), must be identical",
]

HEADER = """From Coq Require Import List ZArith NArith Bool.
From Coq.Strings Require Import Byte.
Import ListNotations.
From BWPlanner Require Import Terms Rows Clause Store Fetch Plan PatternSpec Current Domain Corr.
Open Scope N_scope.
"""


def hquery(args, timeout=6000):
    rc, out = sh([os.path.join(BIN, "h_query")] + args, cwd=REPO, env=vcheck.goenv(), timeout=timeout)
    if rc != 0:
        raise vcheck.Broken("h_query failed", out[-3000:])
    return [json.loads(l) for l in out.splitlines() if l.startswith("{")]


def probe():
    p = hquery(["-mode", "probe"])[0]
    a, b = p["immutable_query_matches_temporal"], p["temporal_query_matches_immutable"]
    if a > 0 and b > 0:
        ks = False
    elif a == 0 and b == 0:
        ks = True
    else:
        raise vcheck.Broken("the store matches predicate kinds in a way the lookup specification does not describe", json.dumps(p))
    return {"ks": ks, "strlit_invalid": bool(p["unknown_literal_type_nil_nil"]), "raw": p}


# ---------------------------------------------------------------- JSON -> Coq
# Every distinct sub-term (string, time, node, predicate, literal, object, triple, graph, cell, clause) becomes one typed
# Definition that later terms refer to by name: Coq elaborates large literal terms slowly, and the vocabulary is small.
class Terms:
    def __init__(self):
        self.names = {}
        self.defs = []

    def name(self, prefix, typ, term):
        key = (typ, term)
        n = self.names.get(key)
        if n is None:
            n = "%s%d" % (prefix, len(self.defs))
            self.names[key] = n
            self.defs.append("Definition %s : %s := %s." % (n, typ, term))
        return n

    def text(self):
        return "\n".join(self.defs) + "\n"


def cb(b):
    return "true" if b else "false"


def clist(items):
    return "[" + "; ".join(items) + "]"


class Enc:
    def __init__(self):
        self.T = Terms()

    def s(self, s):
        if s == "":
            return "[]"
        return self.T.name("s", "str", vcheck.coq_bytes(s.encode("utf-8")))

    def time(self, t):
        return self.T.name("tm", "time", "mkTime (%d)%%Z (%d)%%Z" % (t["ns"], t["z"]))

    def otime(self, t):
        return "None" if t is None else "(Some %s)" % self.time(t)

    def node(self, n):
        return self.T.name("n", "node", "mkNode %s %s" % (self.s(n["t"]), self.s(n["id"])))

    def pred(self, p):
        return self.T.name("p", "pred", "mkPred %s %s" % (self.s(p["id"]), self.otime(p["a"])))

    def lit(self, l):
        k, v = l["k"], l.get("v")
        if k == "bool":
            t = "LBool %s" % cb(v)
        elif k == "int64":
            t = "LInt (%s)%%Z" % v
        elif k == "float64":
            t = "LFloat %s%%N" % v
        elif k == "text":
            t = "LText %s" % self.s(v)
        elif k == "blob":
            t = "LBlob %s" % (vcheck.coq_bytes(bytes(v)) if v else "[]")
        else:
            raise ValueError("literal kind " + k)
        return self.T.name("l", "lit", t)

    def obj(self, o):
        if "n" in o:
            t = "ONode %s" % self.node(o["n"])
        elif "p" in o:
            t = "OPred %s" % self.pred(o["p"])
        elif "l" in o:
            t = "OLit %s" % self.lit(o["l"])
        else:
            raise ValueError("object")
        return self.T.name("o", "obj", t)

    def triple(self, t):
        return self.T.name("t", "triple", "mkTriple %s %s %s" % (self.node(t["s"]), self.pred(t["p"]), self.obj(t["o"])))

    def graph(self, g):
        return self.T.name("g", "graph", clist([self.triple(t) for t in g]))

    def cell(self, c):
        if "missing" in c:
            return "None"
        if "null" in c:
            t = "Some CNull"
        elif "s" in c:
            t = "Some (CStr %s)" % self.s(c["s"])
        elif "n" in c:
            t = "Some (CNode %s)" % self.node(c["n"])
        elif "p" in c:
            t = "Some (CPred %s)" % self.pred(c["p"])
        elif "l" in c:
            t = "Some (CLit %s)" % self.lit(c["l"])
        elif "t" in c:
            t = "Some (CTime %s)" % self.time(c["t"])
        else:
            raise ValueError("cell %r" % c)
        return self.T.name("c", "option cell", t)

    def opt(self, f, v):
        return "None" if v is None else "(Some %s)" % f(v)

    def clause(self, c):
        s = self.s
        f = [cb(c["Optional"]),
             self.opt(self.node, c["S"]), s(c["SBinding"]), s(c["SAlias"]), s(c["STypeAlias"]), s(c["SIDAlias"]),
             self.opt(self.pred, c["P"]), s(c["PID"]), s(c["PBinding"]), s(c["PAlias"]), s(c["PIDAlias"]), s(c["PAnchorBinding"]),
             s(c["PAnchorAlias"]), self.otime(c["PLowerBound"]), self.otime(c["PUpperBound"]), s(c["PLowerBoundAlias"]),
             s(c["PUpperBoundAlias"]), cb(c["PTemporal"]),
             self.opt(self.obj, c["O"]), s(c["OBinding"]), s(c["OAlias"]), s(c["OID"]), s(c["OTypeAlias"]), s(c["OIDAlias"]),
             s(c["OAnchorBinding"]), s(c["OAnchorAlias"]), self.otime(c["OLowerBound"]), self.otime(c["OUpperBound"]),
             s(c["OLowerBoundAlias"]), s(c["OUpperBoundAlias"]), cb(c["OTemporal"])]
        return self.T.name("cl", "clause", "mkClause " + " ".join(f))

    def obs(self, res):
        k = res["kind"]
        if k == "ok":
            rows = [self.T.name("r", "orow", clist([self.cell(c) for c in row])) for row in res["rows"]]
            return "(ObsOk %s %s)" % (clist([self.s(o) for o in res["outs"]]), clist(rows))
        if k == "err":
            return "ObsErr"
        if k in ("panic", "crash"):
            return "ObsPanic"
        raise ValueError("result kind " + k)

    def case(self, case, env):
        graphs = clist([self.graph(g) for g in case["graphs"]])
        clauses = clist([self.clause(c) for c in case["clauses"] or []])
        lo = "(mkLopts %s %s)" % (self.otime(case["lo"]["lower"]), self.otime(case["lo"]["upper"]))
        outs = clist([self.s(o) for o in case["outs"] or []])
        projs = clist(["(%s, %s)" % (self.s(p["b"]), self.s(p["a"])) for p in case["projs"] or []])
        q = "mkCase (%s %s %s) %s %s %s %s %s" % (env.get("cfgname", "current"), cb(env["ks"]), cb(env["strlit_invalid"]),
                                                  graphs, clauses, lo, outs, projs)
        return self.T.name("q", "qcase * obs", "(%s, %s)" % (q, self.obs(case["result"])))


def modelable(case):
    """cases the Coq model is evaluated on: the statement parsed, is a plain SELECT, and the run produced a result"""
    r = case["result"]["kind"]
    return (r in ("ok", "err", "panic", "crash") and case.get("clauses") is not None and case.get("nfilters", 0) == 0
            and case.get("extras", 0) == 0 and not case.get("limit_set") and case["result"].get("stage") != "plan"
            and all(f in (case.get("graph_names") or ["?g%d" % i for i in range(len(case["graphs"]))]) for f in case.get("from") or []))


def evaluate(ctx, name, cases, env, shard=1500, workers=4):
    """verdicts (model agrees, spec code, spec rows, repair mask, in D3) for every case, evaluated inside Coq
    (shards of `shard` cases, up to `workers` coqc processes at a time)"""
    from concurrent.futures import ThreadPoolExecutor

    def one(k):
        part = cases[k:k + shard]
        enc = Enc()
        names = [enc.case(c, env) for c in part]
        v = HEADER + enc.T.text() + "Definition cases : list (qcase * obs) := " + clist(names) + ".\n"
        v += "Definition V := Eval vm_compute in verdicts cases.\nPrint V.\n"
        o = vcheck.coq_eval(ctx.work, "%s_%d" % (name, k), v)
        m = re.search(r"V\s*=\s*(.*?)\s*:\s*list", vcheck.norm(o))
        if not m:
            raise vcheck.Broken("could not find verdicts in Coq output", o[-2000:])
        trip = re.findall(r"\(\s*(\d+),\s*(\d+),\s*(\d+),\s*(\d+),\s*(\d+)\s*\)", m.group(1))
        if len(trip) != len(part):
            raise vcheck.Broken("verdict count mismatch (%d for %d cases)" % (len(trip), len(part)), o[-2000:])
        return [(int(a), int(b), int(c), int(d), int(f)) for a, b, c, d, f in trip]

    ks = list(range(0, len(cases), shard))
    if len(ks) <= 1:
        parts = [one(k) for k in ks]
    else:
        with ThreadPoolExecutor(max_workers=workers) as ex:
            parts = list(ex.map(one, ks))
    return [v for p in parts for v in p]


def debug_case(ctx, case, env, name="debug"):
    enc = Enc()
    n = enc.case(case, env)
    v = HEADER + enc.T.text()
    v += "Eval vm_compute in run_model (fst %s).\nEval vm_compute in run_spec (fst %s).\nEval vm_compute in verdict %s.\n" % (n, n, n)
    return vcheck.coq_eval(ctx.work, name, v)


# ---------------------------------------------------------------- classification of deviations from the specification
# bit of the repair mask -> finding id.  A deviation is attributed to a defect when switching exactly that repair on in
# the model makes the model coincide with the specification on that very case.
MASK_BITS = [(1, "C03-kind"), (2, "C10-disjoint-empty"), (4, "C03-join-kind"), (8, "C03-bound-alias-nil"),
             (16, "C03-oid"), (32, "C03-string-object"), (128, "C03-spec3-global-bounds"), (256, "C03-zone-binding"), (512, "C03-spec3-after-bound"), (1024, "C10-optional-unbound")]
ALL_BIT = 64


def clause_interval(c):
    return (c["PID"] != "" and c["PAnchorBinding"] == "") or (c["OID"] != "" and c["OAnchorBinding"] == "")


def clause_spec3(c):
    return c["S"] is not None and c["P"] is not None and c["O"] is not None


def clause_has_alias(c):
    return any(c[k] != "" for k in ("SAlias", "STypeAlias", "SIDAlias", "PAlias", "PAnchorAlias", "PIDAlias", "PLowerBoundAlias",
                                    "PUpperBoundAlias", "OAlias", "OAnchorAlias", "OIDAlias", "OTypeAlias", "OLowerBoundAlias",
                                    "OUpperBoundAlias"))


def clause_names(c):
    ks = ("SBinding", "SAlias", "STypeAlias", "SIDAlias", "PAlias", "PAnchorBinding", "PBinding", "PLowerBoundAlias",
          "PUpperBoundAlias", "PIDAlias", "PAnchorAlias", "OBinding", "OAlias", "OTypeAlias", "OIDAlias", "OAnchorAlias",
          "OAnchorBinding", "OLowerBoundAlias", "OUpperBoundAlias")
    return set(c[k] for k in ks if c[k] != "")


BINDER_KEYS = ("SBinding", "SAlias", "STypeAlias", "SIDAlias", "PBinding", "PAlias", "PIDAlias", "PAnchorBinding", "PAnchorAlias",
               "OBinding", "OAlias", "OTypeAlias", "OIDAlias", "OAnchorBinding", "OAnchorAlias")


def static_classes(case):
    """syntactic defect classes of a statement (classes whose repair is not modelled as a flag)"""
    out = set()
    cls = case["clauses"] or []
    bound = False
    for i, c in enumerate(cls):
        if clause_interval(c):
            out.add("C03-interval")
        if c["OIDAlias"] != "" and sum(1 for k in BINDER_KEYS if c[k] == c["OIDAlias"]) > 1:
            out.add("C03-oid-unchecked")
        if clause_interval(c) and (c["PLowerBoundAlias"] != "" or c["PUpperBoundAlias"] != ""):
            out.add("C03-interval-alias")
        if c["Optional"] and not bound and not clause_spec3(c):
            out.add("C10-optional-unbound")
        if clause_spec3(c) and c["P"]["a"] is not None and (case["lo"]["lower"] is not None or case["lo"]["upper"] is not None):
            out.add("C03-spec3-global-bounds")
        if clause_spec3(c):
            if c["Optional"] and clause_has_alias(c):
                out.add("C10-spec3-alias")
            elif not c["Optional"] and bound:
                out.add("C03-spec3-after-bound")
        if clause_names(c):
            bound = True
    return out


def nozone(x):
    if isinstance(x, dict):
        return {k: nozone(v) for k, v in x.items() if k != "z"}
    if isinstance(x, list):
        return [nozone(v) for v in x]
    return x


def multiplicity_open(case):
    """The property leaves multiplicities open when the same triple is stored in more than one listed graph.  The planner
    collapses them in exactly one place: a fully specified clause without alias is an existence test (one unit, however many
    graphs hold the triple), while the reference counts one match per graph."""
    seen, dup = set(), set()
    for g in case["graphs"]:
        for t in set(json.dumps(nozone(t), sort_keys=True) for t in g):
            (dup if t in seen else seen).add(t)
    for c in case["clauses"] or []:
        if clause_spec3(c) and not clause_has_alias(c):
            t = json.dumps(nozone({"s": c["S"], "p": c["P"], "o": c["O"]}), sort_keys=True)
            if t in dup:
                return True
    return False


def classify(case, verdict):
    """None when the implementation meets the specification on this case; otherwise (finding id | None, explanation)"""
    a, b, n, mask = verdict[:4]
    if b == 2:
        return None
    if b == 1 and multiplicity_open(case):
        return None
    st = static_classes(case)
    res = case["result"]["kind"]
    singles = [fid for bit, fid in MASK_BITS if mask & bit]
    if singles:
        return singles[0], "switching on the repair of %s alone makes the model equal to the specification" % singles[0]
    if "C03-spec3-after-bound" in st and res == "err":
        return "C03-spec3-after-bound", "fully specified clause after bound ones: AppendTable error"
    if "C10-spec3-alias" in st and (res == "err" or (res == "ok" and len(case["result"]["rows"]) < n)):
        return "C10-spec3-alias", "fully specified OPTIONAL clause with alias: error or rows dropped"
    if "C03-spec3-global-bounds" in st and res == "ok" and len(case["result"]["rows"]) > n:
        return "C03-spec3-global-bounds", "fully specified clause with a temporal predicate: the existence test ignores the global time bounds"
    if "C03-oid-unchecked" in st and res == "ok":
        return "C03-oid-unchecked", "ID alias on a node object reuses a name of the clause: written without the validBinding test"
    if "C10-optional-unbound" in st and res == "ok" and len(case["result"]["rows"]) < n:
        return "C10-optional-unbound", "OPTIONAL clause processed while the table has no bindings: appended, not left-joined"
    if "C03-interval" in st and (res in ("ok", "panic", "crash") or "C03-interval-alias" in st):
        if b == 1:
            return "C03-interval-dup", "interval clause without anchor binding: one row per triple (same set of rows)"
        return "C03-interval", "interval clause `\"id\"@[lb,ub]` without anchor binding"
    if mask & ALL_BIT:
        return "combination", "only all repairs together make the model equal to the specification"
    return None, "unexplained"


def open_findings(prop):
    return {f["id"]: f for f in vcheck.known_findings(prop)}


def load_corpus(prop):
    path = os.path.join(vcheck.VERIF, "corpus", prop, "witnesses.jsonl")
    if not os.path.exists(path):
        return [], []
    meta = [json.loads(l) for l in open(path) if l.strip() and not l.startswith("#")]
    rows = hquery(["-mode", "replay", "-file", path])
    return meta, rows


def run_family(ctx, prop, gen_args, describe):
    """shared body of c03 / c10: obligations are added by the caller"""
    env = probe()
    ctx.cov["store_probe"] = env["raw"]
    findings = open_findings(prop)
    # corpus (refutation witnesses) first
    meta, crow = load_corpus(prop)
    rows = hquery(["-mode", "gen", "-seed", str(ctx.seed)] + gen_args)
    allrows = crow + rows
    cases = use_written(ctx, [r for r in allrows if modelable(r)])
    verd = evaluate(ctx, "cases_" + prop.lower(), cases, env)
    byid = {}
    nviol = 0
    excused = {}
    reproduced = set()
    for r, v in zip(cases, verd):
        if v[0] == 0:
            nviol += 1
            if nviol <= 5:
                ctx.violation({"kind": "model-vs-implementation", "query": r["query"], "graph_texts": r["graph_texts"],
                               "observed": r["result"], "explain": "the Coq planner model (vm_compute) and planner.Execute disagree"})
            continue
        cl = classify(r, v)
        if cl is None:
            continue
        if v[4] >= 1:
            # inside D3 / D10 the theorems C03_select_is_solutions_partial / C10_select_is_left_join_partial say model = specification; the model agrees with the
            # implementation on this case, so a deviation here contradicts the theorem's reading of the case
            nviol += 1
            if nviol <= 5:
                ctx.violation({"kind": "deviation-inside-D3-or-D10", "query": r["query"], "graph_texts": r["graph_texts"], "observed": r["result"]})
            continue
        fid, why = cl
        if fid == "combination":
            excused[fid] = excused.get(fid, 0) + 1
            continue
        if fid is None or fid not in findings:
            nviol += 1
            if nviol <= 5:
                ctx.violation({"kind": "implementation-vs-specification", "class": fid, "why": why, "query": r["query"],
                               "graph_texts": r["graph_texts"], "observed": r["result"], "spec_rows": v[2]})
            continue
        excused[fid] = excused.get(fid, 0) + 1
        if r.get("kind") == "corpus":
            reproduced.add(fid)
    # known findings: replayed witnesses that still deviate from the specification
    for m, r in zip(meta, crow):
        fid = m["finding"]
        if fid in findings and fid in reproduced:
            pass
    for fid, f in sorted(findings.items()):
        if fid in reproduced or excused.get(fid, 0) > 0:
            ctx.known("%s site=%s class=%s (%d cases in this run)" % (fid, f.get("site", "?"), f.get("class", "?"), excused.get(fid, 0)))
        else:
            ctx.notes.append("finding %s no longer reproduces" % fid)
    # FILTER pairs (FILTER is not in the Coq model): a filter on a binding of a non-optional clause applies to that clause only,
    # so the filtered statement returns exactly the rows of the unfiltered one (which IS modelled) whose value of that binding
    # is a temporal / immutable predicate - whatever clauses, OPTIONAL or not, follow
    pairs = {}
    for r in rows:
        if r.get("kind") == "filter-pair":
            pairs.setdefault(r["pair"], {})[r["role"]] = r
    npairs = 0
    for pid, pr in sorted(pairs.items()):
        a, b = pr.get("plain"), pr.get("filtered")
        if not a or not b or a["result"]["kind"] != "ok":
            continue
        npairs += 1
        want_temporal = b["filter_fn"] == "isTemporal"
        ok = b["result"]["kind"] == "ok" and a["result"]["outs"] == b["result"]["outs"]
        if ok:
            i = a["result"]["outs"].index(b["filter_binding"])

            def keep(row):
                c = row[i]
                return "p" in c and ((c["p"]["a"] is not None) == want_temporal)
            exp = sorted(json.dumps(row, sort_keys=True) for row in a["result"]["rows"] if keep(row))
            got = sorted(json.dumps(row, sort_keys=True) for row in b["result"]["rows"])
            ok = exp == got
        if not ok:
            nviol += 1
            if nviol <= 5:
                ctx.violation({"kind": "filter-leaks-into-other-clauses", "plain_query": a["query"], "filtered_query": b["query"],
                               "graph_texts": a["graph_texts"], "plain_result": a["result"], "filtered_result": b["result"],
                               "explain": "the filtered result is not the unfiltered result restricted to rows whose filtered binding has the required kind"})
    ctx.cov["filter_pairs_checked"] = npairs
    # generator health and coverage
    okc = [r for r in rows if r["result"]["kind"] == "ok"]
    empty = sum(1 for r in okc if not r["result"]["rows"])
    errs = sum(1 for r in rows if r["result"]["kind"] not in ("ok",))
    ctx.cov["evaluations"] = len(cases)
    seen = set()
    for r, v in zip(cases, verd):
        if r["result"]["kind"] == "ok" and r["result"]["rows"]:
            seen.add(vcheck.case_hash([r["query"], r["graphs"]]))
    ctx.cov["distinct_nontrivial"] = len(seen)
    ctx.cov["rule"] = ("one case = (graphs, SELECT text) executed by planner.Execute and by the Coq model and specification; "
                       "non-trivial = the implementation returned at least one row; distinct by (statement text, graph contents)")
    ctx.cov["samples"] = [{"query": r["query"], "graphs": r["graph_texts"], "rows": len(r["result"].get("rows") or [])} for r in rows[:3]]
    ctx.cov["distribution"] = {
        "generated": len(rows), "corpus": len(crow), "modelled": len(cases),
        "by_kind": {k: sum(1 for r in rows if r.get("kind") == k) for k in sorted(set(r.get("kind") for r in rows))},
        "outcomes": {k: sum(1 for r in rows if r["result"]["kind"] == k) for k in sorted(set(r["result"]["kind"] for r in rows))},
        "empty_results": empty, "clauses": {str(n): sum(1 for r in cases if len(r["clauses"] or []) == n) for n in range(1, 6)},
        "meets_spec": sum(1 for v in verd if v[1] == 2), "deviations_by_finding": excused,
        "inside_D3": sum(1 for v in verd if v[4] == 2),
        "inside_D3_with_rows": sum(1 for r, v in zip(cases, verd) if v[4] == 2 and r["result"].get("rows")),
        "inside_D10_only": sum(1 for v in verd if v[4] == 1),
        "inside_D10_only_with_rows": sum(1 for r, v in zip(cases, verd) if v[4] == 1 and r["result"].get("rows")),
        "max_rows": max([len(r["result"].get("rows") or []) for r in rows] + [0]),
    }
    if rows and (errs > 0.3 * len(rows)):
        ctx.broken("generator health: more than 30% of the generated statements end in an error", json.dumps(ctx.cov["distribution"]))
    ctx.cov["describe"] = describe
    return cases, verd


# ---------------------------------------------------------------- the WRITTEN statement, independently of the BQL front end
# The generator writes statements in a small fixed format.  intended() reads that text back with its own reader (BQL
# documentation semantics, not bql/semantic/hooks.go) into the same structure the harness serialises from the PARSED
# semantic.Statement.  The model is fed from the written structure; any difference between the two is reported as
# "parsed-clause-differs-from-written-clause" (a WHERE / projection / global-bound hook storing something in the wrong place
# would otherwise be invisible: model and engine would both see the wrong clause).
import calendar, struct


class NotInFormat(Exception):
    pass


def w_time(s):
    m = re.fullmatch(r"(\d{4})-(\d\d)-(\d\d)T(\d\d):(\d\d):(\d\d)(\.\d{1,9})?(Z|[+-]\d\d:\d\d)", s)
    if not m:
        raise NotInFormat("time " + s)
    y, mo, d, h, mi, sec = (int(x) for x in m.groups()[:6])
    frac = int((m.group(7) or ".0")[1:].ljust(9, "0"))
    z = m.group(8)
    off = 0 if z == "Z" else (1 if z[0] == "+" else -1) * (int(z[1:3]) * 3600 + int(z[4:6]) * 60)
    return {"ns": (calendar.timegm((y, mo, d, h, mi, sec)) - off) * 10**9 + frac, "z": off}


def w_node(tok):
    m = re.fullmatch(r"(/[^<>\s]+)<([^<>]*)>", tok)
    if not m:
        raise NotInFormat("node " + tok)
    return {"t": m.group(1), "id": m.group(2)}


def w_literal(tok):
    m = re.fullmatch(r'"(.*)"\^\^type:(\w+)', tok, flags=re.S)
    if not m:
        raise NotInFormat("literal " + tok)
    v, k = m.group(1), m.group(2)
    if k == "bool":
        return {"k": "bool", "v": v == "true"}
    if k == "int64":
        return {"k": "int64", "v": str(int(v))}
    if k == "float64":
        return {"k": "float64", "v": str(struct.unpack("<Q", struct.pack("<d", float(v)))[0])}
    if k == "text":
        return {"k": "text", "v": v}
    if k == "blob":
        return {"k": "blob", "v": [int(x) for x in v.strip("[]").split()]}
    raise NotInFormat("literal type " + k)


def w_tokens(s):
    toks, i = [], 0
    while i < len(s):
        ch = s[i]
        if ch.isspace():
            i += 1
        elif ch == '"':
            j = i + 1
            while True:
                j = s.index('"', j)
                if s.startswith('"@[', j):
                    e = s.index("]", j) + 1
                    break
                if s.startswith('"^^type:', j):
                    e = j + 8
                    while e < len(s) and (s[e].isalnum()):
                        e += 1
                    break
                j += 1
            toks.append(s[i:e])
            i = e
        elif ch == "/":
            e = s.index(">", i) + 1
            toks.append(s[i:e])
            i = e
        elif ch in "{}.,;":
            toks.append(ch)
            i += 1
        else:
            e = i
            while e < len(s) and not s[e].isspace() and s[e] not in "{},;":
                e += 1
            # a clause separator is " . ": a dot inside a word (times) stays
            toks.append(s[i:e])
            i = e
    return toks


EMPTY_CLAUSE = {"Optional": False, "S": None, "SBinding": "", "SAlias": "", "STypeAlias": "", "SIDAlias": "",
                "P": None, "PID": "", "PBinding": "", "PAlias": "", "PIDAlias": "", "PAnchorBinding": "", "PAnchorAlias": "",
                "PLowerBound": None, "PUpperBound": None, "PLowerBoundAlias": "", "PUpperBoundAlias": "", "PTemporal": False,
                "O": None, "OBinding": "", "OAlias": "", "OID": "", "OTypeAlias": "", "OIDAlias": "", "OAnchorBinding": "",
                "OAnchorAlias": "", "OLowerBound": None, "OUpperBound": None, "OLowerBoundAlias": "", "OUpperBoundAlias": "",
                "OTemporal": False}


def w_predicate(tok, c, pos):
    """pos = 'P' or 'O': fills the predicate-shaped part of the clause from a token "id"@[...]"""
    m = re.fullmatch(r'"(.+)"@\[(.*)\]', tok)
    if not m:
        raise NotInFormat("predicate " + tok)
    pid, inner = m.group(1), m.group(2)
    if inner == "":
        p = {"id": pid, "a": None}
    elif "," in inner:
        lo, up = inner.split(",")
        c[pos + "ID"], c[pos + "Temporal"] = pid, True
        for part, bound, alias in ((lo, pos + "LowerBound", pos + "LowerBoundAlias"), (up, pos + "UpperBound", pos + "UpperBoundAlias")):
            if part.startswith("?"):
                c[alias] = part
            elif part != "":
                c[bound] = w_time(part)
        return
    elif inner.startswith("?"):
        c[pos + "ID"], c[pos + "AnchorBinding"], c[pos + "Temporal"] = pid, inner, True
        return
    else:
        p = {"id": pid, "a": w_time(inner)}
    c[pos + "Temporal"] = p["a"] is not None
    c[pos] = p if pos == "P" else {"p": p}


def w_clause(toks, optional):
    c = dict(EMPTY_CLAUSE)
    c["Optional"] = optional
    i = 0

    def mods(allowed):
        nonlocal i
        while i + 1 < len(toks) and toks[i] in allowed:
            if not toks[i + 1].startswith("?"):
                raise NotInFormat("modifier")
            c[allowed[toks[i]]] = toks[i + 1]
            i += 2
    # subject
    if toks[i].startswith("/"):
        c["S"] = w_node(toks[i])
    elif toks[i].startswith("?"):
        c["SBinding"] = toks[i]
    else:
        raise NotInFormat("subject")
    i += 1
    mods({"AS": "SAlias", "TYPE": "STypeAlias", "ID": "SIDAlias"})
    # predicate
    if toks[i].startswith('"'):
        w_predicate(toks[i], c, "P")
    elif toks[i].startswith("?"):
        c["PBinding"] = toks[i]
    else:
        raise NotInFormat("predicate")
    i += 1
    mods({"AS": "PAlias", "ID": "PIDAlias", "AT": "PAnchorAlias"})
    # object
    t = toks[i]
    if t.startswith("/"):
        c["O"] = {"n": w_node(t)}
    elif t.startswith('"') and '"^^type:' in t:
        c["O"] = {"l": w_literal(t)}
    elif t.startswith('"'):
        w_predicate(t, c, "O")
    elif t.startswith("?"):
        c["OBinding"] = t
    else:
        raise NotInFormat("object")
    i += 1
    mods({"AS": "OAlias", "TYPE": "OTypeAlias", "ID": "OIDAlias", "AT": "OAnchorAlias"})
    if i != len(toks):
        raise NotInFormat("trailing tokens in clause")
    return c


def intended(text):
    """the statement as written: clauses, global bounds, projections, outputs, FROM graphs"""
    m = re.fullmatch(r"SELECT (.*?) FROM (.*?) WHERE \{ (.*) \}( (BEFORE|AFTER|BETWEEN) (.*))?;", text, flags=re.S)
    if not m:
        raise NotInFormat("statement")
    projs, outs = [], []
    for p in m.group(1).split(", "):
        pm = re.fullmatch(r"(\?\w+)( AS (\?\w+))?", p)
        if not pm:
            raise NotInFormat("projection " + p)
        projs.append({"b": pm.group(1), "a": pm.group(3) or "", "op": 0})
        outs.append(pm.group(3) or pm.group(1))
    frm = m.group(2).split(", ")
    toks = w_tokens(m.group(3))
    clauses, cur, optional, depth = [], [], False, 0
    k = 0
    while k < len(toks):
        t = toks[k]
        if t == "OPTIONAL":
            if toks[k + 1] != "{":
                raise NotInFormat("OPTIONAL")
            optional, depth = True, 1
            k += 2
            continue
        if t == "}":
            clauses.append(w_clause(cur, True))
            cur, optional, depth = [], False, 0
            k += 1
            if k < len(toks) and toks[k] == ".":
                k += 1
            continue
        if t == "." and depth == 0:
            clauses.append(w_clause(cur, False))
            cur = []
            k += 1
            continue
        cur.append(t)
        k += 1
    if cur:
        clauses.append(w_clause(cur, False))
    lo = {"lower": None, "upper": None, "max": 0}
    if m.group(5) == "BEFORE":
        lo["upper"] = w_time(m.group(6))
    elif m.group(5) == "AFTER":
        lo["lower"] = w_time(m.group(6))
    elif m.group(5) == "BETWEEN":
        a, b = m.group(6).split(", ")
        lo["lower"], lo["upper"] = w_time(a), w_time(b)
    return {"clauses": clauses, "lo": lo, "projs": projs, "outs": outs, "from": frm}


def written_vs_parsed(case):
    """None when the parsed statement is the written one; otherwise a description of the first difference.
    Returns "unreadable" when the text is outside the generator's format (malformed stream)."""
    try:
        w = intended(case["query"])
    except (NotInFormat, ValueError, IndexError):
        return "unreadable", None
    diffs = []
    pc_ = case.get("clauses") or []
    if len(pc_) != len(w["clauses"]):
        diffs.append("number of clauses: written %d, parsed %d" % (len(w["clauses"]), len(pc_)))
    for i, (a, b) in enumerate(zip(w["clauses"], pc_)):
        for k in EMPTY_CLAUSE:
            if a[k] != b.get(k):
                diffs.append("clause %d field %s: written %r, parsed %r" % (i, k, a[k], b.get(k)))
    for k in ("lower", "upper"):
        if w["lo"][k] != case["lo"][k]:
            diffs.append("global bound %s: written %r, parsed %r" % (k, w["lo"][k], case["lo"][k]))
    pp = [{"b": p["b"], "a": p["a"]} for p in (case.get("projs") or [])]
    if [{"b": p["b"], "a": p["a"]} for p in w["projs"]] != pp:
        diffs.append("projections: written %r, parsed %r" % (w["projs"], pp))
    if any(p.get("op", 0) != 0 for p in (case.get("projs") or [])):
        diffs.append("projection carries an aggregate that was not written")
    if w["outs"] != (case.get("outs") or []):
        diffs.append("output bindings: written %r, parsed %r" % (w["outs"], case.get("outs")))
    if w["from"] != (case.get("from") or []):
        diffs.append("FROM graphs: written %r, parsed %r" % (w["from"], case.get("from")))
    return (diffs[0] if diffs else None), w


def use_written(ctx, cases):
    """replace the parsed structure by the written one (the model's input); report differences"""
    out, nbad, nread = [], 0, 0
    for c in cases:
        d, w = written_vs_parsed(c)
        if d == "unreadable":
            ctx.notes.append("statement outside the generator format, modelled from the parsed structure: " + c["query"][:120])
            out.append(c)
            continue
        nread += 1
        if d is not None:
            nbad += 1
            if nbad <= 5:
                ctx.violation({"kind": "parsed-clause-differs-from-written-clause", "difference": d, "query": c["query"]})
        c2 = dict(c)
        c2["parsed"] = {k: c.get(k) for k in ("clauses", "lo", "projs", "outs")}
        c2["clauses"], c2["lo"], c2["projs"], c2["outs"] = w["clauses"], w["lo"], w["projs"], w["outs"]
        out.append(c2)
    ctx.cov["written_vs_parsed"] = {"statements_read_back_from_text": nread, "differences": nbad}
    return out


def search_crash(ctx, family):
    """failing-input search used when an obligation or a build step breaks: a statement on which the implementation panics,
    crashes or on which the harness itself fails (otherwise None: the replay then names what no longer checks)"""
    try:
        rows = hquery(["-mode", "gen", "-family", family, "-n", "200", "-seed", str(ctx.seed)])
    except Exception:
        return None
    for r in rows:
        if r["result"]["kind"] in ("panic", "crash", "harness", "parse_panic"):
            return {"query": r["query"], "graph_texts": r.get("graph_texts"), "observed": r["result"]}
    return None
