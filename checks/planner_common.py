"""Shared by the Planner family checks (C03, C10, C14): harness driver, JSON -> Coq terms, evaluation of the model and
of the specification inside Coq, classification of model/spec/implementation differences."""
import json, os, re
import vcheck
from vcheck import sh, BIN, REPO

GO_CMDS = ["h_query"]
COQ_PROJECTS = ["Planner"]

TRUSTED = vcheck.STD_TRUSTED + [
    "storage lookups are taken as their specification (all stored triples whose fixed components match; kind/instant "
    "sensitivity as probed on the live store: h_query -mode probe); graphs are read back from the store before modelling",
    "collision-free vocabulary (node type/id concatenation, untagged literal bytes: property C06)",
    "time.Time modelled as (UnixNano, zone offset); reflect.DeepEqual on parsed times = equality of both",
    "the serialisation of semantic.GraphClause through its exported fields (harness/cmd/h_query/main.go: jClause)",
]

HEADER = """From Coq Require Import List ZArith NArith Bool.
From Coq.Strings Require Import Byte.
Import ListNotations.
From BWPlanner Require Import Terms Rows Clause Store Fetch Plan PatternSpec Current Corr.
Open Scope N_scope.
"""


def hquery(args, timeout=1500):
    rc, out = sh([os.path.join(BIN, "h_query")] + args, cwd=REPO, env=vcheck.goenv(), timeout=timeout)
    if rc != 0:
        raise vcheck.Broken("h_query failed", out[-3000:])
    return [json.loads(l) for l in out.splitlines() if l.startswith("{")]


def probe():
    p = hquery(["-mode", "probe"])[0]
    a, b = p["immutable_query_matches_temporal"], p["temporal_query_matches_immutable"]
    if a > 0 and b > 0:
        ks = False
    elif a == 0 and b == 0:
        ks = True
    else:
        raise vcheck.Broken("the store matches predicate kinds in a way the lookup specification does not describe", json.dumps(p))
    return {"ks": ks, "strlit_invalid": bool(p["unknown_literal_type_nil_nil"]), "raw": p}


# ---------------------------------------------------------------- JSON -> Coq
# Every distinct sub-term (string, time, node, predicate, literal, object, triple, graph, cell, clause) becomes one typed
# Definition that later terms refer to by name: Coq elaborates large literal terms slowly, and the vocabulary is small.
class Terms:
    def __init__(self):
        self.names = {}
        self.defs = []

    def name(self, prefix, typ, term):
        key = (typ, term)
        n = self.names.get(key)
        if n is None:
            n = "%s%d" % (prefix, len(self.defs))
            self.names[key] = n
            self.defs.append("Definition %s : %s := %s." % (n, typ, term))
        return n

    def text(self):
        return "\n".join(self.defs) + "\n"


def cb(b):
    return "true" if b else "false"


def clist(items):
    return "[" + "; ".join(items) + "]"


class Enc:
    def __init__(self):
        self.T = Terms()

    def s(self, s):
        if s == "":
            return "[]"
        return self.T.name("s", "str", vcheck.coq_bytes(s.encode("utf-8")))

    def time(self, t):
        return self.T.name("tm", "time", "mkTime (%d)%%Z (%d)%%Z" % (t["ns"], t["z"]))

    def otime(self, t):
        return "None" if t is None else "(Some %s)" % self.time(t)

    def node(self, n):
        return self.T.name("n", "node", "mkNode %s %s" % (self.s(n["t"]), self.s(n["id"])))

    def pred(self, p):
        return self.T.name("p", "pred", "mkPred %s %s" % (self.s(p["id"]), self.otime(p["a"])))

    def lit(self, l):
        k, v = l["k"], l.get("v")
        if k == "bool":
            t = "LBool %s" % cb(v)
        elif k == "int64":
            t = "LInt (%s)%%Z" % v
        elif k == "float64":
            t = "LFloat %s%%N" % v
        elif k == "text":
            t = "LText %s" % self.s(v)
        elif k == "blob":
            t = "LBlob %s" % (vcheck.coq_bytes(bytes(v)) if v else "[]")
        else:
            raise ValueError("literal kind " + k)
        return self.T.name("l", "lit", t)

    def obj(self, o):
        if "n" in o:
            t = "ONode %s" % self.node(o["n"])
        elif "p" in o:
            t = "OPred %s" % self.pred(o["p"])
        elif "l" in o:
            t = "OLit %s" % self.lit(o["l"])
        else:
            raise ValueError("object")
        return self.T.name("o", "obj", t)

    def triple(self, t):
        return self.T.name("t", "triple", "mkTriple %s %s %s" % (self.node(t["s"]), self.pred(t["p"]), self.obj(t["o"])))

    def graph(self, g):
        return self.T.name("g", "graph", clist([self.triple(t) for t in g]))

    def cell(self, c):
        if "missing" in c:
            return "None"
        if "null" in c:
            t = "Some CNull"
        elif "s" in c:
            t = "Some (CStr %s)" % self.s(c["s"])
        elif "n" in c:
            t = "Some (CNode %s)" % self.node(c["n"])
        elif "p" in c:
            t = "Some (CPred %s)" % self.pred(c["p"])
        elif "l" in c:
            t = "Some (CLit %s)" % self.lit(c["l"])
        elif "t" in c:
            t = "Some (CTime %s)" % self.time(c["t"])
        else:
            raise ValueError("cell %r" % c)
        return self.T.name("c", "option cell", t)

    def opt(self, f, v):
        return "None" if v is None else "(Some %s)" % f(v)

    def clause(self, c):
        s = self.s
        f = [cb(c["Optional"]),
             self.opt(self.node, c["S"]), s(c["SBinding"]), s(c["SAlias"]), s(c["STypeAlias"]), s(c["SIDAlias"]),
             self.opt(self.pred, c["P"]), s(c["PID"]), s(c["PBinding"]), s(c["PAlias"]), s(c["PIDAlias"]), s(c["PAnchorBinding"]),
             s(c["PAnchorAlias"]), self.otime(c["PLowerBound"]), self.otime(c["PUpperBound"]), s(c["PLowerBoundAlias"]),
             s(c["PUpperBoundAlias"]), cb(c["PTemporal"]),
             self.opt(self.obj, c["O"]), s(c["OBinding"]), s(c["OAlias"]), s(c["OID"]), s(c["OTypeAlias"]), s(c["OIDAlias"]),
             s(c["OAnchorBinding"]), s(c["OAnchorAlias"]), self.otime(c["OLowerBound"]), self.otime(c["OUpperBound"]),
             s(c["OLowerBoundAlias"]), s(c["OUpperBoundAlias"]), cb(c["OTemporal"])]
        return self.T.name("cl", "clause", "mkClause " + " ".join(f))

    def obs(self, res):
        k = res["kind"]
        if k == "ok":
            rows = [self.T.name("r", "orow", clist([self.cell(c) for c in row])) for row in res["rows"]]
            return "(ObsOk %s %s)" % (clist([self.s(o) for o in res["outs"]]), clist(rows))
        if k == "err":
            return "ObsErr"
        if k in ("panic", "crash"):
            return "ObsPanic"
        raise ValueError("result kind " + k)

    def case(self, case, env):
        graphs = clist([self.graph(g) for g in case["graphs"]])
        clauses = clist([self.clause(c) for c in case["clauses"] or []])
        lo = "(mkLopts %s %s)" % (self.otime(case["lo"]["lower"]), self.otime(case["lo"]["upper"]))
        outs = clist([self.s(o) for o in case["outs"] or []])
        projs = clist(["(%s, %s)" % (self.s(p["b"]), self.s(p["a"])) for p in case["projs"] or []])
        q = "mkCase (%s %s %s) %s %s %s %s %s" % (env.get("cfgname", "current"), cb(env["ks"]), cb(env["strlit_invalid"]),
                                                  graphs, clauses, lo, outs, projs)
        return self.T.name("q", "qcase * obs", "(%s, %s)" % (q, self.obs(case["result"])))


def modelable(case):
    """cases the Coq model is evaluated on: the statement parsed, is a plain SELECT, and the run produced a result"""
    r = case["result"]["kind"]
    return (r in ("ok", "err", "panic", "crash") and case.get("clauses") is not None and case.get("nfilters", 0) == 0
            and case.get("extras", 0) == 0 and not case.get("limit_set") and case["result"].get("stage") != "plan"
            and all(f in ["?g%d" % i for i in range(len(case["graphs"]))] for f in case.get("from") or []))


def evaluate(ctx, name, cases, env, shard=1500):
    """verdict triples (model agrees, spec code, spec rows) for every case, evaluated inside Coq"""
    out = []
    for k in range(0, len(cases), shard):
        part = cases[k:k + shard]
        enc = Enc()
        names = [enc.case(c, env) for c in part]
        v = HEADER + enc.T.text() + "Definition cases : list (qcase * obs) := " + clist(names) + ".\n"
        v += "Definition V := Eval vm_compute in verdicts cases.\nPrint V.\n"
        o = vcheck.coq_eval(ctx.work, "%s_%d" % (name, k), v)
        m = re.search(r"V\s*=\s*(.*?)\s*:\s*list", vcheck.norm(o))
        if not m:
            raise vcheck.Broken("could not find verdicts in Coq output", o[-2000:])
        trip = re.findall(r"\(\s*(\d+),\s*(\d+),\s*(\d+)\s*\)", m.group(1))
        if len(trip) != len(part):
            raise vcheck.Broken("verdict count mismatch (%d for %d cases)" % (len(trip), len(part)), o[-2000:])
        out += [(int(a), int(b), int(c)) for a, b, c in trip]
    return out


def debug_case(ctx, case, env, name="debug"):
    enc = Enc()
    n = enc.case(case, env)
    v = HEADER + enc.T.text()
    v += "Eval vm_compute in run_model (fst %s).\nEval vm_compute in run_spec (fst %s).\nEval vm_compute in verdict %s.\n" % (n, n, n)
    return vcheck.coq_eval(ctx.work, name, v)
