"""C14 — query results depend only on data and query meaning, not on naming, sizes, scheduling, partitioning, clause order.
(partial: scheduler and GOMAXPROCS are only exercised by the correspondence run)"""
import collections, json, re
import vcheck
import planner_common as pc

GO_CMDS = pc.GO_CMDS
TRANSLATORS = []
COQ_PROJECTS = pc.COQ_PROJECTS
TRUSTED = pc.TRUSTED + ["goroutine scheduling, channel and bulk sizes, GOMAXPROCS: not modelled; compared across runs of the implementation only"]


def rename(n):
    return "?r" + n[1:] + "x"


def nozone(x):
    """anchors are compared by instant: the store identifies triples that differ only in the zone of an anchor, so adding or
    moving data may change the zone in which an instant is printed"""
    if isinstance(x, dict):
        return {k: nozone(v) for k, v in x.items() if k != "z"}
    if isinstance(x, list):
        return [nozone(v) for v in x]
    return x


def rows_by_name(res, names, exact=False):
    """multiset of rows with columns reordered to `names` (None when a column is missing)"""
    outs = res["outs"]
    try:
        idx = [outs.index(n) for n in names]
    except ValueError:
        return None
    f = (lambda x: x) if exact else nozone
    return collections.Counter(json.dumps(f([row[i] for i in idx]), sort_keys=True) for row in res["rows"])


def relation_holds(base, var):
    """the metamorphic relation between the base run and a variant, on the observed results"""
    b, v = base["result"], var["result"]
    what = var["variant"].split(":")[0]
    if base.get("ordered"):
        # the ORDER BY of these statements is a total order over the result: the row SEQUENCE must be the same in every
        # configuration, repetition, renaming, partition of the data and clause order
        return b["kind"] == "ok" and v["kind"] == "ok" and b.get("seq") == v.get("seq")
    if b["kind"] != "ok" or v["kind"] != "ok":
        if what == "superset":
            return b["kind"] != "ok" or v["kind"] == "ok" or True  # errors are compared by the model correspondence
        return b["kind"] == v["kind"] or (b["kind"] in ("panic", "crash") and v["kind"] in ("panic", "crash"))
    if what == "rename":
        names = b["outs"]
        bm = rows_by_name(b, names)
        vm = rows_by_name(v, [rename(n) for n in names])
        return vm is not None and bm == vm
    exact = what in ("cfg", "rep")
    bm = rows_by_name(b, b["outs"], exact)
    vm = rows_by_name(v, b["outs"], exact)
    if vm is None:
        return False
    if what == "superset":
        return all(vm[k] >= c for k, c in bm.items())
    return bm == vm


def run(ctx):
    ctx.add_obligations(vcheck.coq_props("Planner", "C14"))
    ctx.cov["checker_cmd"] = ("coqc -Q coq/Planner BWPlanner coq/Planner/Props/C14.v; h_query -mode gen -family c14 "
                              "(each query under chan {0,1,16} x bulk {1,2,1000} x GOMAXPROCS {1,4}, 3 repetitions, renaming, "
                              "2- and 3-way data partitions (random and adversarial round-robin in every rotation), a data superset, all "
                              "clause permutations; every 4th query has an ORDER BY that is a total order over sub-second-distinct anchors "
                              "and its row SEQUENCE is compared exactly across all variants)")
    env = pc.probe()
    findings = pc.open_findings("C14")
    n = 400 if ctx.tier == "thorough" else 45
    rows = pc.hquery(["-mode", "gen", "-family", "c14", "-n", str(n), "-seed", str(ctx.seed)])
    ev = pc.use_written(ctx, [r for r in rows if r.get("eval") and pc.modelable(r)])
    verd = pc.evaluate(ctx, "cases_c14", ev, env)
    cls = {}
    nviol = 0
    excused = collections.Counter()
    for r, v in zip(ev, verd):
        if v[0] == 0:
            nviol += 1
            if nviol <= 5:
                ctx.violation({"kind": "model-vs-implementation", "query": r["query"], "graph_texts": r["graph_texts"],
                               "observed": r["result"], "variant": r["variant"]})
        cls[r["id"]] = pc.classify(r, v)
    groups = collections.defaultdict(list)
    for r in rows:
        groups[r["group"]].append(r)
    rel_checked = collections.Counter()
    nontrivial = set()
    for g, rs in sorted(groups.items()):
        base = [r for r in rs if r["variant"] == "base"][0]
        if base["result"]["kind"] == "ok" and base["result"]["rows"]:
            nontrivial.add(vcheck.case_hash([base["query"], base["graph_texts"]]))
        sup = [r for r in rs if r["variant"] == "superset"]
        for r in rs:
            if r is base:
                continue
            what = r["variant"].split(":")[0]
            if what == "seqadd":
                # query, INSERT, query again: the same final data as the superset run, hence the same result
                rel_checked[what] += 1
                a, b = sup[0]["result"], r["result"]
                same = (a["kind"] == b["kind"] and (a["kind"] != "ok" or rows_by_name(a, a["outs"]) == rows_by_name(b, a["outs"])))
                if not same:
                    nviol += 1
                    if nviol <= 5:
                        ctx.violation({"kind": "metamorphic-relation", "relation": r["variant"] + " (query, INSERT, query) vs superset",
                                       "query": r["query"], "pre": r.get("pre"), "graphs": r["graph_texts"],
                                       "superset_result": a, "sequence_result": b})
                continue
            if what == "superset" and base.get("has_optional"):
                continue
            rel_checked[what] += 1
            if relation_holds(base, r):
                continue
            # the relation fails: excused only if the base or the variant deviates from the specification by a listed finding
            why = [c for c in (cls.get(base["id"]), cls.get(r["id"])) if c is not None]
            fids = [c[0] for c in why if c[0] is not None]
            if what == "perm" and base.get("clauses") and "C03-interval-alias" in pc.static_classes(base):
                # a window given by bindings (`"id"@[?lo,?hi]`) reads its bounds from the row built SO FAR: placed before the
                # clause that binds ?lo / ?hi it is unrestricted - clause order matters (listed finding C03-interval)
                fids.append("C03-interval")
            if what in ("cfg", "rep") or not fids or any(f != "combination" and f not in findings for f in fids):
                nviol += 1
                if nviol <= 5:
                    ctx.violation({"kind": "metamorphic-relation", "relation": r["variant"], "base_query": base["query"],
                                   "variant_query": r["query"], "base_graphs": base["graph_texts"], "variant_graphs": r["graph_texts"],
                                   "base_result": base["result"], "variant_result": r["result"], "classes": why})
                continue
            for f in fids:
                excused[f] += 1
    # the refutation witness of C14_clause_order_refuted, replayed: same clauses, two orders, error vs rows
    meta, crow = pc.load_corpus("C14")
    if len(crow) == 2 and crow[0]["result"]["kind"] == "err" and crow[1]["result"]["kind"] == "ok" and crow[1]["result"]["rows"]:
        excused["C03-spec3-after-bound"] += 1
    for fid, f in sorted(findings.items()):
        if excused.get(fid, 0) > 0:
            ctx.known("%s site=%s class=%s (%d metamorphic relations fail because of it in this run)" % (fid, f.get("site", "?"), f.get("class", "?"), excused[fid]))
        else:
            ctx.notes.append("finding %s: no metamorphic relation failed because of it in this run" % fid)
    ctx.cov["evaluations"] = len(rows)
    ctx.cov["distinct_nontrivial"] = len(nontrivial)
    ctx.cov["rule"] = ("evaluations = executions of planner.Execute (base queries and all their variants); distinct_nontrivial = base "
                       "(statement, data) pairs with at least one result row, each compared with all its variants")
    ctx.cov["samples"] = [{"query": r["query"], "variant": r["variant"], "rows": len(r["result"].get("rows") or [])} for r in rows[:3]]
    ctx.cov["distribution"] = {"queries": len(groups), "ordered_total_order_queries": sum(1 for g, rs in groups.items() if rs[0].get("ordered")), "relations_checked": dict(rel_checked), "modelled": len(ev),
                               "meets_spec": sum(1 for v in verd if v[1] == 2), "inside_D3": sum(1 for v in verd if v[4] == 2), "inside_D10_only": sum(1 for v in verd if v[4] == 1),
                               "relations_failing_by_finding": dict(excused),
                               "with_optional": sum(1 for g, rs in groups.items() if rs[0].get("has_optional"))}
    ctx.assumptions += ["partial: goroutine scheduling and GOMAXPROCS are exercised by the correspondence run only; the model states "
                        "scheduler independence as permutation invariance of the per-row fan-out (C14_completion_order)"]


def search(ctx, broken):
    return pc.search_crash(ctx, "c14")
