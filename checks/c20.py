"""C20 — storage driver failures surface as errors: never success, hang or leak (partial: time/goroutines observed)."""
import collections, json, os
import vcheck, execlib as X
from vcheck import sh, BIN, REPO

GO_CMDS = ["h_fault"]
TRANSLATORS = []
COQ_PROJECTS = ["Exec"]

TRUSTED = vcheck.STD_TRUSTED + [
    "fault-injecting storage.Store/Graph wrapper in harness/cmd/h_fault (keeps the driver contract: a failing "
    "streaming call still closes its channel); call identity = (kind, graph, occurrence within the statement)",
    "the lookups a statement makes (q_reads), its solution rows and whether the query engine itself fails are inputs "
    "of the model, measured on the fault-free run of the same statement over the same store",
    "bounded time and goroutine exit are OBSERVED (5 s watchdog, runtime.NumGoroutine after return vs before), not proved",
]

KIND = {"graph": "KGraph", "newgraph": "KNewGraph", "deletegraph": "KDeleteGraph", "graphnames": "KGraphNames",
        "add": "KAdd", "remove": "KRemove", "read": "KRead"}


def hfault(args):
    return X.run_harness(os.path.join(BIN, "h_fault"), args, REPO, vcheck.goenv(), 3000)


def call(c):
    return "(%s, %s, %d%%nat)" % (KIND[c["k"]], X.cstr(c["g"]), c["n"])


def fault(e):
    if e["mode"] == "delay":
        return "FOk"      # a slow call, not a failure
    if e["mode"] in ("before", "empty", "typednil"):
        return "FBefore"
    if e["mode"] in ("after", "late"):
        return "(FAfter %d)" % e["j"]
    return "FWrite"


def case_term(r, defs):
    """the store and the statement are shared by all runs of one case: bound once (defs) and referred to by name"""
    key = "c%d" % r["case"]
    if key not in defs:
        defs[key] = "Definition prev_%s : store := %s.\nDefinition stmt_%s (draw : nat -> N) : stmt := %s.\n" % (
            key, X.store(r["prev"]), key, X.stmt(r["stmt"], reads=r.get("reads") or []))
    tbl = X.clist(["(%s, %s)" % (call(e), fault(e)) for e in (r.get("sched") or [])])
    after = "prev_%s" % key if r["after"] == r["prev"] else X.store(r["after"])
    return "(%s, %d%%nat, prev_%s, stmt_%s, %s, mkFObs %s %s %s)" % (
        X.cbool(X.det_rows(r["stmt"])), r["bulk"], key, key, tbl, X.oclass(r["class"]), X.clist([call(c) for c in r["calls"]]), after)


def model_mismatches(ctx, name, runs):
    bad = []
    shard = 1200
    for k in range(0, len(runs), shard):
        part = runs[k:k + shard]
        defs = {}
        terms = [case_term(r, defs) for r in part]
        v = X.HEADER + "".join(defs.values()) + "Definition cases : list fcase := [\n" + ";\n".join(terms) + "].\n"
        v += "Definition M := Eval vm_compute in fmismatches_from 0 cases.\nPrint M.\n"
        out = vcheck.coq_eval(ctx.work, "%s_%d" % (name, k), v)
        bad += [k + i for i in vcheck.parse_nat_list(out, "M")]
    return bad


def consumed(r):
    keys = {(c["k"], c["g"], c["n"]) for c in r["calls"]}
    return [e for e in (r.get("sched") or []) if e["mode"] != "delay" and (e["k"], e["g"], e["n"]) in keys]


# ---- classifiers of the known findings (narrow: exactly that defect) ----
def is_show_nilnil(r):
    """F12: SHOW GRAPHS, the failing call is GraphNames, the statement returns (nil, nil)"""
    cf = consumed(r)
    return r["stmt"]["kind"] == "show" and cf and all(e["k"] == "graphnames" for e in cf) and r["class"] == "nilnil"


def is_construct_write_dropped(r):
    """F13: CONSTRUCT/DECONSTRUCT whose failing calls all belong to the write phase (AddTriples/RemoveTriples, or a
    Graph() lookup made by update(), i.e. not one of Statement.Init's) and which reports success"""
    cf = consumed(r)
    if r["stmt"]["kind"] != "construct" or r["class"] != "ok" or not cf:
        return False
    ninit = collections.Counter(r["stmt"]["ins"] + r["stmt"]["outs"])
    return all(e["k"] in ("add", "remove") or (e["k"] == "graph" and e["n"] >= ninit[e["g"]]) for e in cf)


TEMPLATE_ERRS = ("requires a", "invalid cell", "misses binding", "triple.New", "cannot create an object")


def is_template_error(r):
    return r["stmt"]["kind"] == "construct" and r["class"] == "error" and any(t in r.get("err", "") for t in TEMPLATE_ERRS)


def is_construct_writer_left(r):
    """F13 (second half): CONSTRUCT/DECONSTRUCT returning an error from template instantiation leaves its writer goroutine"""
    return r["stmt"]["kind"] == "construct" and r["class"] == "error" and r["goroutines_left"] > 0 \
        and is_template_error(r)


CLASSIFIERS = {"show_nilnil_on_graphnames_error": is_show_nilnil,
               "construct_write_error_dropped": is_construct_write_dropped,
               "construct_writer_left_on_template_error": is_construct_writer_left}


GRAPH_METHODS = ["Objects", "Subjects", "PredicatesForSubject", "PredicatesForObject", "PredicatesForSubjectAndObject",
                 "TriplesForSubject", "TriplesForPredicate", "TriplesForObject", "TriplesForSubjectAndPredicate",
                 "TriplesForPredicateAndObject", "Exist", "Triples", "AddTriples", "RemoveTriples"]
STORE_METHODS = ["NewGraph", "Graph", "DeleteGraph", "GraphNames"]


def reachable_methods():
    """driver entry points that have a call site in bql/planner or bql/semantic (non-test files), found at check time"""
    import glob, re
    src = ""
    for f in glob.glob(os.path.join(REPO, "bql", "planner", "*.go")) + glob.glob(os.path.join(REPO, "bql", "semantic", "*.go")):
        if not f.endswith("_test.go"):
            src += open(f, errors="replace").read()
    out = []
    for m in GRAPH_METHODS:
        if re.search(r"\b(g|ig|og)\.%s\(" % m, src):
            out.append("Graph." + m)
    for m in STORE_METHODS:
        if re.search(r"\b(store|st|s)\.%s\(" % m, src):
            out.append("Store." + m)
    return out


def method_coverage(runs):
    called, failed = collections.Counter(), collections.Counter()
    for r in runs:
        meth = {}
        for c in r["calls"]:
            called[c.get("m", "?")] += 1
            meth[(c["k"], c["g"], c["n"])] = c.get("m", "?")
        for e in r.get("sched") or []:
            m = meth.get((e["k"], e["g"], e["n"]))
            if m:
                failed[m] += 1
    return called, failed


def slim(r):
    return {"case": r["case"], "bulk": r["bulk"], "prefix": r["prefix"], "text": r["stmt"]["text"], "sched": r.get("sched"),
            "class": r["class"], "err": r.get("err", "")[:200], "calls": r["calls"], "goroutines_left": r["goroutines_left"], "ms": r["ms"]}


def run(ctx):
    ctx.add_obligations(vcheck.coq_props("Exec", "C20"))
    ctx.cov["checker_cmd"] = "coqc -Q coq/Exec BWExec coq/Exec/Props/C20.v; work/bin/h_fault -seed S -n N | model evaluated by vm_compute (coq/Exec/Corr.v fault_agrees)"
    n = 600 if ctx.tier == "thorough" else 49
    runs = hfault(["-seed", str(ctx.seed), "-n", str(n)] + (["-deep"] if ctx.tier == "thorough" else ["-maxids", "20"]))
    if ctx.replay:
        rp = json.load(open(ctx.replay))
        want = (rp.get("violation") or {}).get("case", {}).get("case")
        runs = [r for r in runs if r["case"] == want]
        for r in runs:
            print("REPLAY impl: %-7s goroutines_left=%d ms=%d sched=%s  %s" % (r["class"], r["goroutines_left"], r["ms"],
                  [(e["k"], e["g"], e["n"], e["mode"]) for e in (r.get("sched") or [])], r["stmt"]["text"]))
    open_findings = {f.get("class"): f for f in vcheck.known_findings("C20")}
    reproduced = collections.Counter()
    stats = collections.Counter()
    reported = 0
    for r in runs:
        cf = consumed(r)
        stats["%s/%s/%s" % (r["stmt"]["kind"], "failure-consumed" if cf else "no-failure", r["class"])] += 1
        problems = []
        if r["class"] in ("hang", "panic"):
            problems.append("statement-" + r["class"])
        if cf and r["class"] != "error":
            problems.append("driver-failure-not-surfaced")
        if r["goroutines_left"] > 0:
            problems.append("goroutines-left-after-return")
        if r["ms"] >= 5000:
            problems.append("not-bounded-time")
        if not problems:
            continue
        cls = [name for name, f in CLASSIFIERS.items() if f(r)]
        if cls and all(c in open_findings for c in cls) and len(problems) == 1:
            reproduced[cls[0]] += 1
            continue
        if reported < 5:
            ctx.violation({"kind": "+".join(problems), "classified_as": cls, "case": slim(r)})
        reported += 1
    for c, f in open_findings.items():
        if reproduced[c]:
            ctx.known("id=%s site=%s class=%s reproduced_in=%d_runs" % (f.get("id"), f.get("site"), c, reproduced[c]))
        else:
            ctx.notes.append("finding %s no longer reproduces in this run" % f.get("id"))
    # while the early-return finding is open the store after such a run is racy (the abandoned writer is still writing)
    # runs through the memoizer are judged by the property only (the model has no cache)
    cmp_runs = [r for r in runs if not r.get("memo") and not ("construct_writer_left_on_template_error" in open_findings and is_template_error(r))]
    bad = model_mismatches(ctx, "cases_c20", cmp_runs)
    for i in bad[:5]:
        ctx.violation({"kind": "fault-model-vs-real-engine", "case": slim(cmp_runs[i]),
                       "explain": "outcome class, the driver calls made (other than lookups), or the store afterwards differ from "
                                  "fexec (Coq, vm_compute) under the same schedule"})
    called, failed = method_coverage(runs)
    need = reachable_methods()
    allm = ["Graph." + m for m in GRAPH_METHODS] + ["Store." + m for m in STORE_METHODS]
    ctx.cov["driver_methods"] = {m: {"calls": called[m], "runs_with_this_call_failing": failed[m],
                                     "call_site_in_planner": m in need} for m in allm}
    ctx.cov["driver_methods_without_call_site"] = [m for m in allm if m not in need]
    missing = [m for m in need if called[m] == 0 or failed[m] == 0]
    if missing and not ctx.replay:
        ctx.broken("fault corpus does not reach (or never fails) driver entry points the planner calls: %s" % ", ".join(missing))
    ctx.cov["evaluations"] = len(runs)
    ctx.cov["distinct_nontrivial"] = len({vcheck.case_hash([r["prefix"], r["stmt"]["text"], r["sched"], r["bulk"]]) for r in runs if consumed(r)})
    ctx.cov["rule"] = ("one evaluation = one execution of a statement over the recording/failing driver: the fault-free run "
                       "plus one run per (driver call made, mode in before / after-1 / write / late-1 = close, linger, then report; thorough also after-2 / after-0; quick injects at most 20 evenly spread calls of a statement, thorough all) plus one run with two failures; join SELECTs also through memoization.New(failing driver); "
                       "non-trivial = a failure entry was consumed; distinct by (store prefix, statement, schedule, bulk)")
    ctx.cov["samples"] = [slim(r) for r in runs if consumed(r)][:3]
    ctx.cov["statements"] = len({r["case"] for r in runs})
    ctx.cov["runs_failing_after_256_or_more_elements"] = sum(1 for r in runs if any(e["mode"] in ("after", "late") and e["j"] >= 257 for e in (r.get("sched") or [])))
    ctx.cov["runs_with_empty_error_message"] = sum(1 for r in runs if any(e["mode"] in ("empty", "typednil") for e in (r.get("sched") or [])))
    ctx.cov["runs_under_gomaxprocs_1"] = sum(1 for r in runs if r.get("procs") == 1)
    ctx.cov["runs_with_slow_twin_call"] = sum(1 for r in runs if any(e["mode"] == "delay" for e in (r.get("sched") or [])))
    ctx.cov["runs_failing_after_limit_elements"] = sum(1 for r in runs if "LIMIT" in r["stmt"]["text"]
                                                      and any(e["mode"] in ("after", "late") and e["j"] >= 2 for e in (r.get("sched") or [])))
    ctx.cov["runs_through_memoizer"] = sum(1 for r in runs if r.get("memo"))
    ctx.cov["runs_with_lingering_driver"] = sum(1 for r in runs if any(e["mode"] == "late" for e in (r.get("sched") or [])))
    ctx.cov["write_calls_in_multi_triple_statements"] = sum(1 for r in runs if not r.get("sched") and r["stmt"]["kind"] in ("insert", "delete")
                                                          and len(r["stmt"].get("ts") or []) >= 5)
    ctx.cov["by_kind_failure_outcome"] = dict(sorted(stats.items()))
    ctx.cov["driver_calls_per_statement"] = dict(sorted(collections.Counter(
        min(len(r["calls"]), 20) for r in runs if not r.get("sched")).items()))
    ctx.cov["max_ms"] = max([r["ms"] for r in runs] or [0])
    ctx.cov["goroutines_left_runs"] = sum(1 for r in runs if r["goroutines_left"] > 0)
    ctx.assumptions += ["partial: bounded time and goroutine exit are observed by the harness watchdog, not proved"]


def search(ctx, broken):
    """failing-input search when an obligation or the build breaks: the property itself against the implementation"""
    try:
        runs = hfault(["-seed", str(ctx.seed), "-n", "30"])
    except Exception:
        return None
    for r in runs:
        if (consumed(r) and r["class"] != "error") or r["goroutines_left"] > 0 or r["class"] in ("hang", "panic"):
            return slim(r)
    return None
