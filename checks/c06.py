"""C06 — UUID equal exactly when values are equal; UUID defined and deterministic for every value."""
import json, os, re
import vcheck
import values_common as vc

GO_CMDS = vc.GO_CMDS
TRANSLATORS = []
COQ_PROJECTS = vc.COQ_PROJECTS
TRUSTED = vcheck.STD_TRUSTED + vc.TRUSTED_VALUES


HEADER = vc.HEADER + "From Coq Require Import String.\nOpen Scope string_scope.\n"


def model_preimages(ctx, name, vals, shard=1500):
    """vals: list of (kind, json value); returns list of None (model: UUID() panics) | list of byte strings"""
    res = []
    for k in range(0, len(vals), shard):
        part = vals[k:k + shard]
        v = HEADER + "Definition vals : list value := [\n" + ";\n".join(vc.c_value(kd, j) for kd, j in part) + "].\n"
        v += "Definition P := Eval vm_compute in preimages_text vals.\nPrint P.\n"
        out = vcheck.coq_eval(ctx.work, "%s_%d" % (name, k), v)
        lines = [l.strip() for l in re.findall(r'"(:[^"]*)"', out)]
        if len(lines) != len(part):
            raise vcheck.Broken("pre-image list has the wrong length (%d for %d values)" % (len(lines), len(part)), out[-1000:])
        for l in lines:
            assert l[0] == ":"
            res.append(None if l[1:] == "!" else [bytes.fromhex(c) for c in l[1:].split(",")])
    return res


def go_hash(pres):
    """uuid.NewSHA1(uuid.NIL, pre-image) by the harness (Go); triples: hash of the three component UUIDs"""
    lines = []
    for p in pres:
        if p is None:
            lines.append("")                     # answered with "none"
        else:
            l = ",".join(c.hex() for c in p)
            lines.append(l if l != "" else "-")  # an empty pre-image is a legitimate input (empty text literal)
    inp = "\n".join(lines) + "\n"
    out = vc.hvalues(["-mode", "hash"], inp=inp).splitlines()
    return out


def has_nan(v):
    """a float64 NaN somewhere in the value (NaN payloads do not survive printing: C05 finding nan-payload)"""
    for m in re.finditer(r'"ty": "float64", "v": "(\d+)"', json.dumps(v)):
        b = int(m.group(1))
        if (b >> 52) & 0x7FF == 0x7FF and (b & ((1 << 52) - 1)) != 0:
            return True
    return False


def instants_equal(a, b):
    if a is None or b is None:
        return a is None and b is None
    return int(a["ns"]) == int(b["ns"])


def val_equal(kind, a, b):
    """same kind and equal components, time anchors compared as instants regardless of zone"""
    if kind == "node":
        return a == b
    if kind == "pred":
        return a["id"] == b["id"] and instants_equal(a["a"], b["a"])
    if kind == "lit":
        return a == b
    if kind == "obj":
        if a["k"] != b["k"]:
            return False
        return {"n": lambda: val_equal("node", a["n"], b["n"]), "p": lambda: val_equal("pred", a["p"], b["p"]),
                "l": lambda: val_equal("lit", a["l"], b["l"]), "x": lambda: True}[a["k"]]()
    return (val_equal("node", a["s"], b["s"]) and val_equal("pred", a["p"], b["p"]) and val_equal("obj", a["o"], b["o"]))


# ---------------------------------------------------------------- classifiers of the known findings (narrow)
def comp_pairs(kind, a, b):
    """the component pairs in which two values differ"""
    if kind != "triple":
        return [(kind, a, b)] if not val_equal(kind, a, b) else []
    out = []
    for k2, f in (("node", "s"), ("pred", "p"), ("obj", "o")):
        if not val_equal(k2, a[f], b[f]):
            out.append((k2, a[f], b[f]))
    return out


def is_node_concat(kind, a, b):
    return kind == "node" and a != b and bytes.fromhex(a["t"] + a["id"]) == bytes.fromhex(b["t"] + b["id"])


def is_literal_untyped(kind, a, b):
    return kind == "lit" and a["ty"] != b["ty"]


def is_object_kind(kind, a, b):
    return kind == "obj" and a["k"] != b["k"]


def is_instant_wrap(kind, a, b):
    return (kind == "pred" and a["id"] == b["id"] and a["a"] is not None and b["a"] is not None
            and int(a["a"]["ns"]) != int(b["a"]["ns"]) and (int(a["a"]["ns"]) - int(b["a"]["ns"])) % (1 << 64) == 0)


def unwrap_obj(kind, a, b):
    if kind == "obj" and a["k"] == b["k"] and a["k"] != "x":
        k2 = {"n": "node", "p": "pred", "l": "lit"}[a["k"]]
        return k2, a[a["k"]], b[b["k"]]
    return kind, a, b


def mk_cls(pred):
    def c(f):
        if f["class"] != "collision":
            return False
        cps = comp_pairs(f["vk"], f["a"], f["b"])
        return len(cps) > 0 and all(pred(*unwrap_obj(*cp)) for cp in cps)
    return c


CLASSIFIERS = {
    "node_concat_collision": mk_cls(is_node_concat),
    "literal_untyped_collision": mk_cls(is_literal_untyped),
    "object_kind_collision": mk_cls(is_object_kind),
    "instant_wrap_collision": mk_cls(is_instant_wrap),
}


def failures_of(r):
    out = []
    if r.get("unparsable"):
        return out
    if r["kind"] == "uuid":
        if r["uuid"] in ("panic", "nondeterministic"):
            out.append({"class": "uuid-" + r["uuid"], "vk": r["vk"], "value": r["v"]})
    elif r["kind"] == "pair":
        if r["vk"] != r["vkb"]:
            return out
        for u in (r["ua"], r["ub"]):
            if u in ("panic", "nondeterministic"):
                out.append({"class": "uuid-" + u, "vk": r["vk"], "a": r["a"], "b": r["b"]})
                return out
        eq = val_equal(r["vk"], r["a"], r["b"])
        same = r["ua"] == r["ub"]
        if same and not eq:
            out.append({"class": "collision", "vk": r["vk"], "a": r["a"], "b": r["b"], "uuid": r["ua"],
                        "texts": [vc.show(r["texta"]), vc.show(r["textb"])], "triple_equal": r.get("equal"), "exist": r.get("exist"),
                        "graph_size_after_adding_both": r.get("size_after_both")})
        elif eq and not same:
            out.append({"class": "equal-values-different-uuid", "vk": r["vk"], "a": r["a"], "b": r["b"],
                        "texts": [vc.show(r["texta"]), vc.show(r["textb"])]})
        if "equal" in r and r["equal"] != "panic" and "exist" in r:
            if r["equal"] != same or r["exist"] != same:
                if r["vk"] in ("node", "pred", "triple", "lit", "obj"):
                    out.append({"class": "equal-or-exist-disagrees-with-uuid", "vk": r["vk"], "a": r["a"], "b": r["b"],
                                "equal": r["equal"], "exist": r["exist"], "uuid_same": same})
        if r.get("equal") == "panic":
            out.append({"class": "equal-panics", "vk": r["vk"], "a": r["a"], "b": r["b"]})
    return out


def replay_rows(witness):
    w = json.loads(witness)
    if "pair" in w:
        k, a, b = w["pair"]
        inp = "pair %s %s %s\n" % (k, a.encode().hex(), b.encode().hex())
    elif "uuid" in w:
        k, a = w["uuid"]
        inp = "uuid %s %s\n" % (k, a.encode().hex())
    else:
        return []
    return [json.loads(l) for l in vc.hvalues(["-mode", "stdin"], inp=inp).splitlines() if l.startswith("{")]


def run(ctx):
    info = vcheck.coq_props("Values", "C06")
    ctx.add_obligations(info)
    ctx.cov["checker_cmd"] = "coqc -Q coq/Values BWValues coq/Values/Props/C06.v ; work/bin/h_values -mode uuid ; pre-images computed by coqc (vm_compute), hashed by h_values -mode hash"
    thorough = ctx.tier == "thorough"
    rows = vc.hrows(["-mode", "uuid", "-seed", str(ctx.seed), "-tier", ctx.tier, "-n", "40000" if thorough else "1500"])
    for r in [r for r in rows if r["kind"] == "ctor"][:3]:
        ctx.violation({"kind": "property-violated-by-implementation", "class": "constructor-getter-mismatch", "explain": r["what"],
                       "failing_input": {"id": vc.show(r["id"]), "anchor": r["anchor"], "printed": vc.show(r["printed"])}})
    rows = [r for r in rows if r["kind"] != "ctor"]
    # the same instant written in a zone and in UTC, both PARSED, and built by the constructor: one UUID
    extra = [r for r in rows if r["kind"] in ("sameinstant", "uuidstable", "uuidhelper")]
    rows = [r for r in rows if r["kind"] not in ("sameinstant", "uuidstable", "uuidhelper")]
    for r in extra:
        if r["kind"] == "sameinstant":
            if not r["ok"] or not (r["ua"] == r["ub"] == r["uc"]):
                ctx.violation({"kind": "property-violated-by-implementation", "class": "same-instant-different-uuid",
                               "explain": "a predicate parsed from an anchor written in a zone, the one parsed from its UTC spelling and the one built by the constructor for that instant must have one UUID",
                               "failing_input": {"a": vc.show(r["texta"]), "b": vc.show(r["textb"]), "ua": r.get("ua"), "ub": r.get("ub"), "constructor": r.get("uc")}})
        elif r["kind"] == "uuidstable":
            ctx.cov["uuid_stability_recheck"] = {"values": r["values"], "changed": r["changed"]}
            if r["changed"] > 0:
                ctx.violation({"kind": "property-violated-by-implementation", "class": "uuid-not-stable-across-calls",
                               "explain": "after the exported UUID helpers of storage/memory and a memory graph were used, UUID() of earlier values changed",
                               "failing_input": {"changed": r["changed"], "of": r["values"], "examples": r["examples"]}})
        else:
            ctx.violation({"kind": "property-violated-by-implementation", "class": "uuid-helper", "failing_input": r})
    # the UUID survives the text round trip (String, Parse, UUID)
    nrep, badrep = 0, []
    for r in rows:
        if r["kind"] == "uuid" and r.get("uuid_reparsed") not in (None, "unparsable"):
            nrep += 1
            if r["uuid_reparsed"] != r["uuid"] and not has_nan(r["v"]):
                badrep.append(r)
    for r in badrep[:3]:
        ctx.violation({"kind": "property-violated-by-implementation", "class": "uuid-changes-through-text",
                       "explain": "UUID of Parse(String(v)) differs from UUID of v", "failing_input": r})
    ctx.cov["uuid_after_text_round_trip"] = {"compared": nrep, "different": len(badrep)}
    vals, owner = [], []
    for i, r in enumerate(rows):
        if r["kind"] == "uuid":
            vals.append((r["vk"], r["v"]))
            owner.append((i, "uuid"))
        else:
            vals.append((r["vk"], r["a"]))
            owner.append((i, "ua"))
            vals.append((r["vkb"], r["b"]))
            owner.append((i, "ub"))
    # text / blob literals of more than 6 000 bytes are too large for Coq's list notation: for them the model pre-image is
    # written down here (Uuid.pre_literal (LText s) = Ok s, (LBlob b) = Ok b: the identity), everything else is evaluated in Coq
    def big(kd, j):
        return kd == "lit" and j.get("ty") in ("text", "blob") and len(j["v"]) > 12000
    small_idx = [i for i, (kd, j) in enumerate(vals) if not big(kd, j)]
    small_pres = model_preimages(ctx, "cases_c06", [vals[i] for i in small_idx])
    pres = [None] * len(vals)
    for i, p in zip(small_idx, small_pres):
        pres[i] = p
    nbig = 0
    for i, (kd, j) in enumerate(vals):
        if big(kd, j):
            pres[i] = [bytes.fromhex(j["v"])]
            nbig += 1
    ctx.cov["large_literals_preimage_by_identity"] = nbig
    hashed = go_hash(pres)
    mism = 0
    for (i, fld), p, h in zip(owner, pres, hashed):
        obs = rows[i][fld]
        exp = "panic" if p is None else h.strip()
        if obs != exp:
            mism += 1
            if mism <= 5:
                ctx.violation({"kind": "model-vs-implementation", "case": rows[i], "field": fld, "model_preimage": None if p is None else [c.hex() for c in p],
                               "hash_of_model_preimage": exp, "observed_uuid": obs,
                               "explain": "uuid.NewSHA1(NIL, pre-image computed by the Gallina model) differs from the implementation's UUID()"})
    # pre-image equality must predict UUID equality on pairs (the SHA-1 oracle law, sampled)
    findings = vcheck.known_findings("C06")
    fails = [f for r in rows for f in failures_of(r)]
    unexplained, explained = [], {}
    for f in fails:
        hit = None
        for kf in findings:
            c = CLASSIFIERS.get(kf.get("class"))
            if c and c(f):
                hit = kf
                break
        if hit is None:
            unexplained.append(f)
        else:
            explained.setdefault(hit["id"], []).append(f)
    byclass = {}
    for f in unexplained:
        byclass.setdefault((f["class"], f.get("vk")), []).append(f)
    for (c, p), fs in sorted(byclass.items(), key=lambda kv: str(kv[0])):
        fs.sort(key=lambda f: len(json.dumps(f)))
        ctx.violation({"kind": "property-violated-by-implementation", "class": c, "value_kind": p, "count": len(fs),
                       "failing_input": fs[0], "more": fs[1:3]})
    for kf in findings:
        c = CLASSIFIERS.get(kf.get("class"))
        try:
            rr = replay_rows(kf["witness"])
        except Exception as e:
            ctx.notes.append("replay of %s failed: %s" % (kf["id"], e))
            continue
        ff = [f for r in rr for f in failures_of(r)]
        if c and any(c(f) for f in ff):
            ctx.known("id=%s site=%s class=%s witness=%s still fails" % (kf["id"], kf.get("site"), kf.get("class"), kf["witness"]))
        else:
            ctx.notes.append("finding %s no longer reproduces" % kf["id"])
    # runtime part: same UUID in every process - the same generated values in a second harness process
    os.environ["TZ"] = "Asia/Kolkata"      # and in another local time zone: the UUID must not depend on it
    try:
        rows2 = vc.hrows(["-mode", "uuid", "-seed", str(ctx.seed), "-tier", ctx.tier, "-n", "4000" if thorough else "600"])
    finally:
        os.environ.pop("TZ", None)
    rows2 = [r for r in rows2 if r["kind"] in ("uuid", "pair")]
    cross, crossbad = 0, 0
    for a, b in zip(rows, rows2):
        if a["kind"] != b["kind"] or a.get("v") != b.get("v") or a.get("a") != b.get("a"):
            break   # the shorter second run has ended its common prefix of values
        for fld in ("uuid", "ua", "ub"):
            if fld in a:
                cross += 1
                if a[fld] != b.get(fld):
                    crossbad += 1
                    if crossbad <= 3:
                        ctx.violation({"kind": "property-violated-by-implementation", "class": "uuid-differs-across-processes",
                                       "failing_input": {"value": a.get("v") or a.get("a"), "first_process": a[fld], "second_process": b.get(fld)}})
    ctx.cov["cross_process_uuid_comparisons"] = cross
    # runtime part: same UUID on every call, in every goroutine (sequential answers vs 64 goroutines at once)
    conc = vc.hrows(["-mode", "uuidconc", "-seed", str(ctx.seed), "-n", "400" if thorough else "40"])
    for r in conc:
        if r.get("fresh_wrong", 0) > 0:
            ctx.violation({"kind": "property-violated-by-implementation", "class": "uuid-differs-on-concurrent-first-call",
                           "explain": "%d goroutines released together on a fresh value: some first call reports another UUID than a later sequential call" % r.get("fresh_goroutines", 0),
                           "failing_input": {"fresh_values": r["fresh_values"], "wrong": r["fresh_wrong"], "examples": r["fresh_examples"]}})
        if r["wrong"] > 0:
            ctx.violation({"kind": "property-violated-by-implementation", "class": "uuid-differs-under-concurrency",
                           "explain": "UUID() re-computed from %d goroutines at once differs from the sequentially computed UUID of the same value" % r["goroutines"],
                           "failing_input": {"calls": r["calls"], "wrong": r["wrong"], "examples": r["examples"]}})
    ctx.cov["concurrent_uuid"] = [{k: v for k, v in r.items() if k not in ("examples", "fresh_examples")} for r in conc]
    if True:
        # a lighter concurrent run under the race detector (16 goroutines, literals up to 32 KiB)
        import subprocess
        h = os.path.join(vcheck.VERIF, "harness")
        exe = os.path.join(vcheck.BIN, "h_values_race")
        args = ["go", "build", "-race", "-tags", "verif", "-o", exe]
        if vcheck.REPO != "/repo":
            args += ["-modfile=" + os.path.join(vcheck.WORK, "go.alt.mod")]
        rc, out = vcheck.sh(args + ["./cmd/h_values"], cwd=h, env=vcheck.goenv(), timeout=900)
        if rc != 0:
            ctx.notes.append("race-enabled harness could not be built: " + out[-300:])
        else:
            p = subprocess.run([exe, "-mode", "uuidconc", "-n", "40", "-light"], cwd=vcheck.REPO, env=vcheck.goenv(), stdout=subprocess.PIPE,
                               stderr=subprocess.PIPE, timeout=900 * vcheck.TSCALE, text=True)
            races = p.stderr.count("WARNING: DATA RACE")
            ctx.cov["race_detector"] = {"data_races": races, "exit": p.returncode}
            if races > 0:
                ctx.violation({"kind": "property-violated-by-implementation", "class": "data-race-in-uuid",
                               "failing_input": {"data_races": races, "first_report": p.stderr[:1500]}})
    ctx.cov["evaluations"] = len(vals)
    nt = set()
    for (kd, j), p in zip(vals, pres):
        if p is not None and sum(len(c) for c in p) >= 3:
            nt.add(vcheck.case_hash([kd, j]))
    ctx.cov["distinct_nontrivial"] = len(nt)
    ctx.cov["rule"] = ("one evaluation = one value whose model pre-image is hashed and compared with UUID(); non-trivial = pre-image of at "
                       "least 3 bytes; distinct by value")
    ctx.cov["pairs"] = sum(1 for r in rows if r["kind"] == "pair")
    ctx.cov["pairs_same_uuid"] = sum(1 for r in rows if r["kind"] == "pair" and r["ua"] == r["ub"])
    ctx.cov["kinds"] = {k: sum(1 for kd, _ in vals if kd == k) for k in ("node", "pred", "lit", "obj", "triple")}
    ctx.cov["model_mismatches"] = mism
    ctx.cov["collisions_in_known_classes"] = {k: len(v) for k, v in explained.items()}
    ctx.cov["property_failures_unexplained"] = len(unexplained)
    ctx.cov["samples"] = [rows[0], rows[30], rows[-1]]
    ctx.assumptions += ["SHA-1 collision resistance: UUID equality is predicted by pre-image equality",
                        "determinism is sampled: every UUID() is called twice (with unrelated calls in between, pooled buffers) and once from another goroutine; "
                        "plus a concurrent run (64 goroutines, ~70000 calls over values with 4 KiB..1 MiB text/blob literals) compared with sequential answers - a runtime observation, not a theorem"]


def search(ctx, broken):
    try:
        rows = vc.hrows(["-mode", "uuid", "-seed", str(ctx.seed), "-n", "6000"])
    except Exception:
        return None
    findings = vcheck.known_findings("C06")
    for r in rows:
        for f in failures_of(r):
            if not any(CLASSIFIERS.get(k.get("class"), lambda f: False)(f) for k in findings):
                return f
    return None
