"""C11 — GROUP BY yields one row per group with correct count, distinct count and sum."""
import collections, json
import vcheck
import tablelib as T

GO_CMDS = T.GO_CMDS
TRANSLATORS = T.TRANSLATORS
COQ_PROJECTS = T.COQ_PROJECTS
TRUSTED = T.TRUSTED

ACC = {"none": "AccNone", "count": "AccCount", "distinct": "AccCountDistinct", "sumint": "AccSumInt", "sumfloat": "AccSumFloat"}
OPS = {"": "OpNone", "none": "OpNone", "count": "OpCount", "sum": "OpSum"}
TRIM = b" \t\n\v\f\r"


def grouping_classes(rows, cols):
    """narrow classifiers: which known grouping defects can explain split / merged groups over these key columns"""
    cl = set()
    for b in cols:
        cells = [r[b] for r in rows if b in r]
        if len({c["k"] for c in cells}) > 1:
            cl.add("mixed_kind_grouping")
        fl = [c for c in cells if c["k"] == "l" and c["t"] == "float64"]
        by_cmp = collections.defaultdict(set)
        for c in fl:
            by_cmp[c["cmp"]].add(c["v"])
        if any(len(v) > 1 for v in by_cmp.values()):
            cl.add("float_group_precision")
        ss = [bytes.fromhex(c.get("s", "")) for c in cells if c["k"] == "s"]
        by_trim = collections.defaultdict(set)
        for s in ss:
            by_trim[s.strip(TRIM)].add(s)
        if any(len(v) > 1 for v in by_trim.values()):
            cl.add("string_trimspace_grouping")
    return cl


def reduce_item(c):
    def f(t):
        names = list(c["bindings"]) + [a["out"] for a in c["aaps"]] + [a["in"] for a in c["aaps"]] + [k["b"] for k in c["cfg"] or []]
        ids = T.binding_ids([c["in"], c["out"] or []], extra=names + (c["out_bindings"] or []))
        bs = "[" + "; ".join("%d%%N" % ids[b] for b in c["bindings"]) + "]"
        cfg = "None" if c["nilcfg"] else "(Some %s)" % T.keys_term(c["cfg"] or [], ids)
        aaps = "[" + "; ".join("mkAap %d%%N %d%%N %s" % (ids[a["in"]], ids[a["out"]], ACC[a["acc"]]) for a in c["aaps"]) + "]"
        oc = {"ok": 0, "err": 1, "panic": 2}[c["outcome"]]
        obs = "[" + "; ".join("%d%%N" % ids[b] for b in (c["out_bindings"] or [])) + "]"
        return "reduce_verdict " + T.VM + " %s %s %s %s %d%%N %s %s" % (bs, cfg, aaps, t.rowlist(c["in"], ids), oc, obs,
                                                            t.rowlist(c["out"] or [], ids))
    return f


def e2e_item(c):
    def f(t):
        ex = c["extra"]
        base, res = c["base"], c["res"]
        names = list(base.get("bindings") or []) + list(res.get("bindings") or []) + ex["group_by"]
        for p in ex["projs"]:
            names += [p["bind"]] + ([p["alias"]] if p["alias"] else [])
        ids = T.binding_ids([base.get("rows") or [], res.get("rows") or []], extra=names)
        lst = lambda bs: "[" + "; ".join("%d%%N" % ids[b] for b in bs) + "]"
        projs = "[" + "; ".join("mkProj %d%%N %s %s %s" % (
            ids[p["bind"]], "(Some %d%%N)" % ids[p["alias"]] if p["alias"] else "None", OPS[p["op"]],
            "true" if p["distinct"] else "false") for p in ex["projs"]) + "]"
        oc = {"ok": 0, "exec": 1, "panic": 2}.get(res["outcome"], 9)
        exact = "false" if c["shape"] in ("by-object", "by-two") else "true"
        return "e2e11_verdict " + T.VM + " %s %s %s %s %s %d%%N %s %s" % (
            lst(ex["group_by"]), projs, lst(base.get("bindings") or []), t.rowlist(base.get("rows") or [], ids), exact, oc,
            lst(res.get("bindings") or []), t.rowlist(res.get("rows") or [], ids))
    return f


def run(ctx):
    if ctx.replay:
        return T.replay(ctx)
    ctx.add_obligations(vcheck.coq_props("Table", "C11"))
    ctx.cov["checker_cmd"] = ("coqc -Q coq/Table BWTable coq/Table/Props/C11.v; work/bin/h_table -mode reduce|e2e11|replay11; "
                              "Corr.reduce_verdict / e2e11_verdict evaluated by vm_compute")
    mult = 20 if ctx.tier == "thorough" else 1
    open_classes = {f.get("class") for f in vcheck.known_findings("C11")}
    found = collections.Counter()
    dist = collections.Counter()

    def excuse(case, classes, what):
        ok = [c for c in classes if c in open_classes]
        if not ok:
            ctx.violation({"kind": what, "classes_tried": sorted(classes), "case": case})
        for c in ok:
            found[c] += 1

    reds = T.htable(["-mode", "reduce", "-n", 250 * mult, "-seed", ctx.seed])
    rc = T.coq_verdicts(ctx, "c11_reduce", [reduce_item(c) for c in reds], imports="Reduce ReduceSpec")
    for c, v in zip(reds, rc):
        dist["reduce:%s:%s:%d" % (c["class"], c["outcome"], v)] += 1
        if v in (2, 3):
            ctx.violation({"kind": "Table.Reduce disagrees with the model" if v == 2 else "formatted string differs from the Gallina formatter", "case": c})
        elif v == 4:
            excuse(c, grouping_classes(c["in"], [k["b"] for k in c["cfg"] or []]), "Reduce: not one row per distinct key / wrong aggregate")
    e2e = T.htable(["-mode", "e2e11", "-n", 200 * mult, "-seed", ctx.seed])
    ec = T.coq_verdicts(ctx, "c11_e2e", [e2e_item(c) for c in e2e], imports="Reduce ReduceSpec", shard=300)
    for c, v in zip(e2e, ec):
        dist["e2e:%s:%s:%d" % (c["shape"], c["res"]["outcome"], v)] += 1
        ex = c["extra"]
        if c["base"]["outcome"] != "ok":
            ctx.violation({"kind": "base statement failed", "case": c})
        elif v in (2, 3):
            ctx.violation({"kind": "GROUP BY through the planner disagrees with the model" if v == 2 else "formatted string differs", "case": c})
        elif v == 4:
            cols = []
            for g in ex["group_by"]:
                cols += [p["bind"] for p in ex["projs"] if (p["alias"] or p["bind"]) == g]
            excuse(c, grouping_classes(c["base"].get("rows") or [], cols), "GROUP BY: not one row per distinct key / wrong aggregate")
        elif v == 7:
            cl = set()
            nrows = len(c["base"].get("rows") or [])
            if c["res"]["outcome"] == "panic" and nrows == 0 and any(p["op"] == "sum" for p in ex["projs"]):
                cl.add("empty_sum_panic")
            if c["res"]["outcome"] == "panic" and nrows >= 2 and \
                    all(any(p["alias"] == g and p["bind"] != g for p in ex["projs"]) for g in ex["group_by"]):
                cl.add("group_by_alias_panic")
            excuse(c, cl, "GROUP BY failed where the property demands a result")
        elif v == 8:
            excuse(c, {"reduce_error_discarded"} if any(p["op"] == "sum" for p in ex["projs"]) else set(),
                   "GROUP BY returned a table although the requested sum is undefined")
    # size sweep of Table.Reduce (row counts around powers of two and typical thresholds), against the spec in Python
    sweep = T.htable(["-mode", "sweep", "-n", 2 if ctx.tier == "thorough" else 1, "-seed", ctx.seed], timeout=1800)
    ctx.cov["size_sweep"] = T.check_sweep(ctx, sweep, ("reduce",))
    ctx.cov["size_sweep_note"] = ("tables of the sweep are compared with the spec in Python (one row per distinct key in key order, count, "
                                  "wrapped sum); they are not evaluated by the Gallina model inside Coq (quick: up to 5003 rows, thorough: up to 65537)")
    es = T.htable(["-mode", "e2esweep", "-n", 2 if ctx.tier == "thorough" else 1, "-seed", ctx.seed], timeout=1800)
    ctx.cov["statement_size_sweep"] = T.check_e2e_sweep(ctx, es, ("groupby",))
    ctx.cov["statement_size_sweep_note"] = "statements over graphs of 13..4099 (thorough: ..16385) triples, result compared with the spec in Python, not evaluated in Coq"
    ctx.cov["cells_rendering_checked"] = T.check_renderings(
        ctx, [c["in"] for c in reds] + [c["out"] for c in reds if c["outcome"] == "ok"] +
        [c["base"].get("rows") for c in e2e] + [c["res"].get("rows") for c in e2e], "C11")
    # two operations on different tables at the same time give what each gives alone
    for cc in T.htable(["-mode", "conc", "-n", 25 * mult, "-seed", ctx.seed]):
        if cc["op"] in ("reduce",):
            ctx.cov.setdefault("concurrent_pairs", {})[cc["op"]] = cc["trials"]
            if cc["mismatches"]:
                ctx.violation({"kind": "two concurrent operations on different tables disturb each other", "case": cc})
    T.replay_findings(ctx, "C11", "replay11")
    seen = set()
    for c, v in zip(reds, rc):
        if len(c["in"]) >= 2 and c["outcome"] == "ok":
            seen.add(vcheck.case_hash(["r", c["cfg"], c["aaps"], c["in"]]))
    for c, v in zip(e2e, ec):
        if len(c["base"].get("rows") or []) >= 2 and c["res"]["outcome"] == "ok":
            seen.add(vcheck.case_hash(["e", c["q"], c["triples"]]))
    ctx.cov["evaluations"] = len(reds) + len(e2e)
    ctx.cov["distinct_nontrivial"] = len(seen)
    ctx.cov["rule"] = "non-trivial = at least two input rows and the operation returned a table; distinct by hash of configuration and input"
    ctx.cov["verdicts"] = dict(sorted(dist.items()))
    ctx.cov["finding_classes_met_in_random_cases"] = dict(found)
    ctx.cov["samples"] = [{"q": c["q"], "rows_in": len(c["base"].get("rows") or []), "rows_out": len(c["res"].get("rows") or [])} for c in e2e[:3]]
    ctx.cov["sizes"] = {"reduce_rows_max": max(len(c["in"]) for c in reds),
                        "groups_singleton_cases": sum(1 for c in reds if c["outcome"] == "ok" and len(c["out"] or []) == len(c["in"]) and c["in"]),
                        "empty_inputs": sum(1 for c in reds if not c["in"]) + sum(1 for c in e2e if not c["base"].get("rows"))}
    empties = sum(1 for c in e2e if not c["base"].get("rows"))
    if empties > 0.3 * len(e2e):
        ctx.violation({"kind": "generator unhealthy: more than 30% empty inputs", "empties": empties})
    ctx.assumptions += ["the spec groups rows by the printed forms of the grouping cells; a disagreement with the spec must be accepted "
                        "by the classifier of an OPEN finding (mixed kinds, float precision, trimmed strings), otherwise it is a violation"]
    ctx.assumptions += ["_partial domain D11 (GroupProofs.d11): every grouping column holds one cell kind AND two rows have the same printed group id "
                        "exactly when rowLess cannot tell them apart; evaluated per case inside Coq (verdict 1 = inside D11)"]

def search(ctx, broken):
    try:
        for r in T.htable(["-mode", "replay11"]):
            if r["fails"] and r["id"] not in {f.get("id") for f in vcheck.known_findings("C11")}:
                return r
    except Exception:
        return None
    return None
