"""C19 — the memoizing store is observationally identical to the store it wraps."""
import json, os, re
import vcheck
from vcheck import sh, BIN, REPO

GO_CMDS = ["h_memo"]
TRANSLATORS = []
COQ_PROJECTS = ["Values", "Memo"]

TRUSTED = vcheck.STD_TRUSTED + [
    "the wrapped store is abstract in the theorems (Section variable inner_step); its operations are assumed atomic "
    "(storage/memory holds its RWMutex for a whole call) and reads are assumed not to change it",
    "SHA-1 oracle: a cache key is modelled by its pre-image (operation, LookupOptions.String() bytes, offset, argument UUIDs)",
    "the gating/recording inner store of harness/cmd/h_memo (pure storage.Store implementation over storage/memory) and "
    "its controller: a logical thread is attributed to a forwarded call through the context value it carries",
    "anchors and filter options enter the model through their renderings (time.Format(RFC3339Nano), fmt %+v) shipped by the harness; "
    "the concatenation of LookupOptions.String is re-computed in Coq and compared with the observed string",
]

OPS = ["Objects", "Subjects", "PredicatesForSubject", "PredicatesForObject", "PredicatesForSubjectAndObject",
       "TriplesForSubject", "TriplesForPredicate", "TriplesForObject", "TriplesForSubjectAndPredicate",
       "TriplesForPredicateAndObject", "Exist", "Triples"]

HEADER = """From Coq Require Import List NArith ZArith Bool.
From Coq.Strings Require Import Byte.
Import ListNotations.
From BWMemo Require Import Memo Corr.
Open Scope N_scope.
"""


def hmemo(args, inp=None, timeout=900):
    rc, out = sh([os.path.join(BIN, "h_memo")] + args, cwd=REPO, env=vcheck.goenv(), timeout=timeout, inp=inp)
    if rc != 0:
        raise vcheck.Broken("h_memo failed", out[-3000:])
    return [json.loads(l) for l in out.splitlines() if l.startswith("{")]


# ------------------------------------------------------------------------------------------ rendering to Coq
def zlit(n):
    return "(%d)%%Z" % n


def nlist(l):
    return "[" + ";".join(str(x) for x in l) + "]"


class Intern:
    def __init__(self):
        self.d = {}

    def __call__(self, s):
        if s not in self.d:
            self.d[s] = len(self.d)
        return self.d[s]


class SeqRenderer:
    """Turns observed sequential histories into a Coq file (strings / options / requests are shared definitions)."""

    def __init__(self):
        self.strs, self.los, self.qs = Intern(), Intern(), Intern()
        self.elems, self.args, self.trip = Intern(), Intern(), Intern()
        self.defs = []
        self.lo_table = {}

    def s(self, text):
        n = len(self.strs.d)
        k = self.strs(text)
        if k == n:
            self.defs.append("Definition s%d : str := %s." % (k, vcheck.coq_bytes(text.encode())))
        return "s%d" % k

    def lo(self, lo):
        key = json.dumps(lo, sort_keys=True)
        n = len(self.los.d)
        k = self.los(key)
        if k == n:
            o = lambda x: "None" if x is None else "(Some %s)" % self.s(x)
            self.defs.append("Definition lo%d : lopts := mkLO %s %s %s %s %s %s." % (
                k, zlit(lo["max"]), o(lo["lower"]), o(lo["upper"]), "true" if lo["latest"] else "false",
                o(lo["filter"]), zlit(lo["offset"])))
        return "lo%d" % k

    def q(self, q):
        key = json.dumps(q, sort_keys=True)
        n = len(self.qs.d)
        k = self.qs(key)
        if k == n:
            self.defs.append("Definition q%d : rq := mkQ O%s %s %s." % (
                k, q["op"], self.lo(q["lo"]), nlist([self.args(a) for a in q["args"]])))
        return "q%d" % k

    def err(self, e):
        return "e1" if e else "e0"

    def ans(self, op, a, isread_op=None):
        if op in ("open",):
            return "aK e0"
        if op in ("add", "remove"):
            return "aK %s" % self.err(a["err"])
        if isread_op == "Exist":
            return "aB %s %s" % ("true" if a["bool"] else "false", self.err(a["err"]))
        return "aL %s %s" % (nlist([self.elems(e) for e in a["elems"]]), self.err(a["err"]))

    def gid(self, g):
        return {"?a": 0, "?b": 1, "?g": 0}[g]

    def fwd(self, ev):
        if ev["kind"] == "read":
            return "lR %d %s (%s)" % (self.gid(ev["g"]), self.q(ev["q"]), self.ans("read", ev["a"], ev["q"]["op"]))
        return "lW %d %d %s (aK %s)" % (self.gid(ev["g"]), 0 if ev["kind"] == "add" else 1,
                                       nlist([self.trip(t) for t in ev["triples"] or []]), self.err(ev["a"]["err"]))

    def case(self, c):
        ops, obs, lg = [], [], []
        for o in c["ops"]:
            if o["k"] == "open":
                ops.append("rO %d" % o["g"])
                obs.append("aK e0")
            elif o["k"] in ("add", "remove"):
                ops.append("rWr %d %d %s" % (o["h"], 0 if o["k"] == "add" else 1, nlist([self.trip(t) for t in o["triples"]])))
                obs.append(self.ans(o["k"], o["memo"]))
            else:
                if o.get("cancel") is not None:
                    ops.append("rC %d %s %d" % (o["h"], self.q(o["q"]), o["cancel"]))
                else:
                    ops.append("rR %d %s" % (o["h"], self.q(o["q"])))
                obs.append(self.ans("read", o["memo"], o["q"]["op"]))
                if o["q"]["op"] != "Exist":
                    self.lo_table[self.lo(o["q"]["lo"])] = self.s(o["lostr"])
            lg += [self.fwd(e) for e in o["fwd"]]
        leak = any(o.get("leak") for o in c["ops"])
        return "mkRC [%s]\n  [%s]\n  %s [%s]" % ("; ".join(ops), "; ".join(obs), "true" if leak else "false", "; ".join(lg))


def seq_model_mismatches(ctx, name, cases):
    """indices of histories on which the Coq model (replay instance, vm_compute) disagrees with the real memoizer"""
    bad, lobad = [], []
    shard = 600 if len(cases) <= 1200 else 1000
    for k in range(0, len(cases), shard):
        part = cases[k:k + shard]
        r = SeqRenderer()
        body = [r.case(c) for c in part]
        v = HEADER + "\n".join(r.defs) + "\nDefinition cases : list rcase := [\n" + ";\n".join(body) + "].\n"
        v += "Definition M := Eval vm_compute in r_mismatches cases.\nPrint M.\n"
        lt = sorted(r.lo_table.items())
        v += "Definition lotab : list (lopts * str) := [%s].\n" % "; ".join("(%s, %s)" % p for p in lt)
        v += "Definition L := Eval vm_compute in lo_mismatches lotab.\nPrint L.\n"
        out = vcheck.coq_eval(ctx.work, "%s_%d" % (name, k), v)
        bad += [k + i for i in vcheck.parse_nat_list(out, "M")]
        lobad += [lt[i] for i in vcheck.parse_nat_list(out, "L")]
    return bad, lobad


# ---- tiny histories / scenarios
def t_req(o):
    if o["k"] == "add":
        return "tAdd %s" % nlist(o["ids"])
    if o["k"] == "remove":
        return "tRem %s" % nlist(o["ids"])
    if o["k"] == "list":
        return "tList %s %s" % (zlit(o.get("max", 0)), zlit(o.get("off", 0)))
    return "tEx %d" % o["id"]


def t_ans(o, a):
    e = "e1" if a["err"] else "e0"
    if o["k"] in ("open", "add", "remove"):
        return "aK %s" % e
    if o["k"] == "exist":
        return "aB %s %s" % ("true" if a["bool"] else "false", e)
    return "aL %s %s" % (nlist(a["list"]), e)


def tiny_case(res):
    h = res["hist"]
    ops = []
    for o in h["ops"]:
        ops.append("tO" if o["k"] == "open" else "tD %d (%s)" % (o.get("h", 0), t_req(o)))
    obs = [t_ans(o, a) for o, a in zip(h["ops"], res["memo"])]
    obsp = [t_ans(o, a) for o, a in zip(h["ops"], res["plain"])]
    return "mkTC %s [%s] [%s] [%s]" % (nlist(h["init"]), "; ".join(ops), "; ".join(obs), "; ".join(obsp))


class Batch:
    """Collects independent evaluation blocks and runs them in as few coqc invocations as possible
    (starting coqc and loading the libraries costs seconds on a busy machine)."""

    def __init__(self, ctx, name, limit=1200000):
        self.ctx, self.name, self.limit = ctx, name, limit
        self.blocks = []      # (text, [markers])
        self.results = {}

    def add(self, text, markers):
        self.blocks.append((text, markers))

    def run(self):
        files, cur, size = [], [], 0
        for b in self.blocks:
            if cur and size + len(b[0]) > self.limit:
                files.append(cur)
                cur, size = [], 0
            cur.append(b)
            size += len(b[0])
        if cur:
            files.append(cur)
        for i, f in enumerate(files):
            out = vcheck.coq_eval(self.ctx.work, "%s_%d" % (self.name, i), HEADER + "\n".join(b[0] for b in f))
            for _, ms in f:
                for m in ms:
                    self.results[m] = vcheck.parse_nat_list(out, m)
        return self.results


def tiny_block(batch, tag, results):
    v = "Definition cases_%s : list tcase := [\n" % tag + ";\n".join(tiny_case(r) for r in results) + "].\n"
    v += "Definition M_%s := Eval vm_compute in t_mismatches cases_%s.\nPrint M_%s.\n" % (tag, tag, tag)
    batch.add(v, ["M_" + tag])


def scn_term(scn):
    ths = "; ".join("mkTh %d [%s]" % (t["h"], "; ".join(t_req(o) for o in t["ops"])) for t in scn["threads"])
    return "mkScn %s %d [%s]" % (nlist(scn["init"]), scn["handles"], ths)


def sobs_term(scn, r):
    outs = []
    for t, recs in zip(scn["threads"], r["threads"]):
        outs.append("[" + "; ".join(t_ans(o, rec["a"]) for o, rec in zip(t["ops"], recs)) + "]")
    return "mkSO %s [%s] %s" % (nlist(r["sched"]), "; ".join(outs), nlist(r["final"]))


def sched_block(batch, tag, scn, results, count):
    """Coq: every observed schedule is a complete run of the model with the same outcome; the model enumerates
    exactly `count` complete schedules (so the sets of schedules coincide).  Markers: M_<tag>_<k>, CNT_<tag>."""
    markers = []
    shard = 3000
    for k in range(0, max(len(results), 1), shard):
        part = results[k:k + shard]
        v = "Definition scn_%s_%d : scenario := %s.\n" % (tag, k, scn_term(scn))
        v += "Definition obs_%s_%d : list sobs := [\n" % (tag, k) + ";\n".join(sobs_term(scn, r) for r in part) + "].\n"
        v += "Definition M_%s_%d := Eval vm_compute in s_mismatches scn_%s_%d obs_%s_%d.\nPrint M_%s_%d.\n" % (
            tag, k, tag, k, tag, k, tag, k)
        ms = ["M_%s_%d" % (tag, k)]
        if k == 0 and count:
            v += "Definition CNT_%s := Eval vm_compute in [scn_count scn_%s_0].\nPrint CNT_%s.\n" % (tag, tag, tag)
            ms.append("CNT_" + tag)
        batch.add(v, ms)
        markers.append(("M_%s_%d" % (tag, k), k))
    return markers


# ------------------------------------------------------------------------------------------ property-level classification
def same_key(a, b, fixed_offset):
    """same cache key: operation, LookupOptions.String(), argument UUIDs (before fix F16), plus Offset (after it).
    Exist takes no options: the memoizer keys it with storage.DefaultLookup, whatever options value the harness has at hand
    (`lostr` is the rendering of that value and must not take part in the comparison)."""
    if a["q"]["op"] != b["q"]["op"] or a["q"]["args"] != b["q"]["args"]:
        return False
    if a["q"]["op"] == "Exist":
        return True
    return a["lostr"] == b["lostr"] and (not fixed_offset or a["q"]["lo"]["offset"] == b["q"]["lo"]["offset"])


def same_but_offset(a, b):
    qa, qb = json.loads(json.dumps(a["q"])), json.loads(json.dumps(b["q"]))
    if qa["lo"]["offset"] == qb["lo"]["offset"]:
        return False
    qa["lo"]["offset"] = qb["lo"]["offset"] = 0
    return qa == qb


def complete_read(o):
    """the whole answer was delivered: not cancelled, or cancelled only after the channel had been closed"""
    if o.get("cancel") is None:
        return True
    if o["memo"]["err"]:
        return False
    return o["cancel"] > len(o["memo"]["elems"]) or bool(o["fwd"])


def classify_seq(ops, i, fixed_offset):
    """Why does read i of a (fault-free) history differ from the plain store?  Returns a finding class or None."""
    x = ops[i]
    kx = x.get("cancel")
    j = i - 1
    other_write = False
    while j >= 0:
        o = ops[j]
        if o["k"] in ("add", "remove"):
            if o["h"] == x["h"]:
                return None           # own write cleared the cache: nothing older can explain a stale answer
            if o["g"] == x["g"]:
                other_write = True
        elif o["k"] == "read" and o["h"] == x["h"] and same_key(o, x, fixed_offset) and complete_read(o):
            # (earlier lookups that were cancelled by their caller delivered a prefix only: they are skipped; when x itself
            # was cancelled after kx elements it is compared with the first kx elements of the earlier answer)
            oe = o["memo"]["elems"] if kx is None else o["memo"]["elems"][:kx]
            if oe == x["memo"]["elems"] and o["memo"]["bool"] == x["memo"]["bool"] and not x["memo"]["err"]:
                qo, qx = o["q"], x["q"]
                if qo == qx:
                    if other_write:
                        return "second_handle_stale"
                    # same request, same answer, nothing written in between: look further back
                elif same_but_offset(o, x):
                    return "offset_key"
                else:
                    return None
            else:
                return None
        j -= 1
    return None


def classify_fault(ops, i, fixed_offset):
    """fault-injection histories: an error-free answer that differs from the plain store because the read that
    filled the cache entry (the nearest earlier same-key MISS on this handle) had failed mid-stream"""
    x = ops[i]
    j = i - 1
    while j >= 0:
        o = ops[j]
        if o["k"] in ("add", "remove") and o["h"] == x["h"]:
            return None
        if o["k"] == "read" and o["h"] == x["h"] and same_key(o, x, fixed_offset) and o["fwd"]:
            if any(e.get("fault") for e in o["fwd"]) and o["memo"]["err"] and x["memo"]["elems"] and \
               o["memo"]["elems"] == x["memo"]["elems"]:
                return "truncated_result_cached"
            return None
        j -= 1
    return None


def thread_steps(scn, r):
    """Reconstruct from schedule + park points: for every thread, per request, the positions of its atomic steps.
    Returns ops[t][k] = {"kind": hit|miss|write, "pos": [...]}"""
    n = len(scn["threads"])
    status = ["op-start"] * n
    cur = [None] * n
    done = [[] for _ in range(n)]
    for pos, (t, after) in enumerate(zip(r["sched"], r["points"])):
        before = status[t]
        if before == "op-start":
            cur[t] = {"pos": [pos]}
            if after == "read-entry":
                cur[t]["kind"] = "miss"
            elif after == "write-entry":
                cur[t]["kind"] = "write"
            else:
                cur[t]["kind"] = "hit"
                done[t].append(cur[t])
        else:
            cur[t]["pos"].append(pos)
            if before in ("read-exit", "write-entry"):
                done[t].append(cur[t])
        status[t] = after
    return done


def t_key(o, fixed_offset):
    if o["k"] == "exist":
        return ("exist", o["id"])
    return ("list", o.get("max", 0), o.get("off", 0) if fixed_offset else 0)


def classify_sched(scn, r, fixed_offset):
    """property-level reading of one complete schedule.  Returns a list of (thread, op index, class or None) for
    every read whose answer is none of the wrapped store's answers during the read's own interval."""
    steps = thread_steps(scn, r)
    out = []
    for t, th in enumerate(scn["threads"]):
        for k, (o, rec) in enumerate(zip(th["ops"], r["threads"][t])):
            if o["k"] not in ("list", "exist"):
                continue
            if rec["a"] == rec["ref"]:
                continue
            if any(rec["a"] == rec["refs"][v] for v in range(rec["start_v"], rec["end_v"] + 1)):
                continue
            cls = None
            me = steps[t][k]
            if me["kind"] == "hit":
                p = me["pos"][0]
                h = th["h"]
                # the store that put the entry this hit was served from: latest same-key store on this handle before p
                best = None
                for t2, th2 in enumerate(scn["threads"]):
                    if th2["h"] != h:
                        continue
                    for k2, o2 in enumerate(th2["ops"]):
                        if k2 >= len(steps[t2]):
                            continue
                        st2 = steps[t2][k2]
                        if st2["kind"] == "miss" and len(st2["pos"]) == 3 and st2["pos"][2] < p and \
                           o2["k"] in ("list", "exist") and t_key(o2, fixed_offset) == t_key(o, fixed_offset):
                            if best is None or st2["pos"][2] > best[0]["pos"][2]:
                                best = (st2, o2)
                if best is not None:
                    r1, r2, r3 = best[0]["pos"]
                    for t3, th3 in enumerate(scn["threads"]):
                        for k3, o3 in enumerate(th3["ops"]):
                            if o3["k"] not in ("add", "remove") or k3 >= len(steps[t3]):
                                continue
                            w = steps[t3][k3]["pos"]
                            if len(w) < 2 or not (w[1] < p):
                                continue
                            w1, w2 = w
                            if th3["h"] != h:
                                if r2 < w2:
                                    cls = cls or "second_handle_stale"
                            elif w1 < r2 < w2:
                                cls = cls or "stale_after_write"
                            elif r2 < w1 < r3:
                                cls = cls or "late_store"
                    if cls is None and best[1] != o and not fixed_offset:
                        cls = "offset_key"
            out.append((t, k, cls))
    return out


# ------------------------------------------------------------------------------------------ scenarios
def L(max=0, off=0):
    return {"k": "list", "max": max, "off": off}


def E(i):
    return {"k": "exist", "id": i}


def A(*ids):
    return {"k": "add", "ids": list(ids)}


def R(*ids):
    return {"k": "remove", "ids": list(ids)}


def scenarios(tier):
    s = [
        {"name": "w1_r2", "init": [1], "handles": 1, "threads": [{"h": 0, "ops": [A(2)]}, {"h": 0, "ops": [L(), L()]}]},
        {"name": "w1_r2_r1", "init": [1], "handles": 1,
         "threads": [{"h": 0, "ops": [A(2)]}, {"h": 0, "ops": [L(), L()]}, {"h": 0, "ops": [L()]}]},
        {"name": "rm_exist", "init": [1, 2], "handles": 1,
         "threads": [{"h": 0, "ops": [R(1)]}, {"h": 0, "ops": [E(1), E(1), E(2)]}]},
        {"name": "add_exist2", "init": [1], "handles": 1,
         "threads": [{"h": 0, "ops": [A(2)]}, {"h": 0, "ops": [E(2)]}, {"h": 0, "ops": [E(2)]}]},
        {"name": "two_handles", "init": [1], "handles": 2,
         "threads": [{"h": 0, "ops": [A(2), L()]}, {"h": 1, "ops": [L(), L()]}]},
        {"name": "w2_r2", "init": [], "handles": 1,
         "threads": [{"h": 0, "ops": [A(1), A(2)]}, {"h": 0, "ops": [L(), E(2), L()]}]},
        {"name": "pages", "init": [1, 2, 3], "handles": 1,
         "threads": [{"h": 0, "ops": [R(1)]}, {"h": 0, "ops": [L(1, 0), L(1, 1), L(1, 0), L(1, 1)]}]},
    ]
    if tier == "thorough":
        s += [
            {"name": "two_handles3", "init": [1], "handles": 2,
             "threads": [{"h": 0, "ops": [A(2)]}, {"h": 1, "ops": [L(), L()]}, {"h": 0, "ops": [L()]}]},
            {"name": "rm_exist3", "init": [1, 2], "handles": 1,
             "threads": [{"h": 0, "ops": [R(1)]}, {"h": 0, "ops": [E(1), E(1)]}, {"h": 0, "ops": [E(1)]}]},
            {"name": "pages3", "init": [1, 2, 3], "handles": 1,
             "threads": [{"h": 0, "ops": [R(1)]}, {"h": 0, "ops": [L(1, 0), L(1, 1)]}, {"h": 0, "ops": [L(1, 1)]}]},
            {"name": "w1_r3_r1", "init": [1], "handles": 1,
             "threads": [{"h": 0, "ops": [A(2)]}, {"h": 0, "ops": [L(), L(), E(2)]}, {"h": 0, "ops": [L()]}]},
            {"name": "three_handles", "init": [1], "handles": 3,
             "threads": [{"h": 0, "ops": [A(2)]}, {"h": 1, "ops": [L(), L()]}, {"h": 2, "ops": [L()]}]},
            {"name": "w2_r4", "init": [1], "handles": 1,
             "threads": [{"h": 0, "ops": [A(2), R(1)]}, {"h": 0, "ops": [L(), E(1), L(), L()]}]},
        ]
    return s


# ------------------------------------------------------------------------------------------ findings
def witness_of(f):
    try:
        return json.loads(f.get("witness", "{}"))
    except Exception:
        return {}


def fixed_ids():
    path = os.path.join(vcheck.VERIF, "findings", "C19.txt")
    txt = open(path).read() if os.path.exists(path) else ""
    return txt


def run(ctx):
    info = vcheck.coq_props("Memo", "C19")
    ctx.add_obligations(info)
    ctx.cov["checker_cmd"] = "coqc -Q coq/Memo BWMemo coq/Memo/Props/C19.v; work/bin/h_memo -mode seq|tiny|explore; model evaluated in Coq (vm_compute) on every observed history and schedule"
    thorough = ctx.tier == "thorough"
    findings = vcheck.known_findings("C19")
    open_classes = {f["class"]: f for f in findings}
    fixed_offset = "offset_key" not in open_classes   # the tree is expected to carry fix F16
    reproduced = {}

    # ---------------------------------------------------------------- 1. sequential lock-step histories
    nseq = 2000 if thorough else 220
    # -big: one sized history at the end (every streaming lookup has 1025..1500+ results and is asked twice)
    seq = hmemo(["-mode", "seq", "-n", str(nseq), "-seed", str(ctx.seed), "-big"])
    nflt = 600 if thorough else 80
    flt = hmemo(["-mode", "seq", "-n", str(nflt), "-seed", str(ctx.seed + 7919), "-faults"])
    ncan = 400 if thorough else 45
    can = hmemo(["-mode", "seq", "-n", str(ncan), "-seed", str(ctx.seed + 104729), "-cancels"], timeout=1500)
    allseq = seq + flt + can
    for c in allseq:
        for o in c["ops"]:
            o["fwd"] = o.get("fwd") or []
    bad, lobad = seq_model_mismatches(ctx, "cases_c19_seq", allseq)
    for i in bad[:4]:
        c = allseq[i]
        ctx.violation({"kind": "memoizer-model-vs-real-memoizer", "history": c,
                       "explain": "the Coq model (replay instance: same forwarded calls in the same order, same answers) and "
                                  "memoization.New(...) disagree on this history"})
    for lo, s in lobad[:2]:
        ctx.violation({"kind": "LookupOptions.String-differs-from-options_key", "lo": lo, "observed": s,
                       "explain": "the cache-key material printed by storage.LookupOptions.String is not what the model computes"})
    nreads = nhits = nerr = nempty = ndiff = ncancel = nleak = 0
    opmix, seen = {}, set()
    unexplained = []
    for c in allseq:
        ops = c["ops"]
        nontriv = False
        for i, o in enumerate(ops):
            if o["k"] != "read":
                continue
            nreads += 1
            opmix[o["q"]["op"]] = opmix.get(o["q"]["op"], 0) + 1
            hit = not o["fwd"]
            nhits += hit
            nerr += o["memo"]["err"]
            nempty += (not o["memo"]["elems"] and not o["memo"]["err"] and o["q"]["op"] != "Exist")
            if hit:
                nontriv = True
            same = (o["memo"]["elems"] == o["plain"]["elems"] and o["memo"]["bool"] == o["plain"]["bool"]
                    and o["memo"]["err"] == o["plain"]["err"])
            if o.get("cancel") is not None:
                ncancel += 1
                # the caller stopped after k elements: it is entitled to the first k elements of the wrapped store's answer
                want = o["plain"]["elems"][:o["cancel"]]
                if o["memo"]["elems"] != want and classify_seq(ops, i, fixed_offset) not in open_classes:
                    unexplained.append({"class": "cancelled-lookup-delivered-other-elements", "history": c, "op": i})
                if o.get("leak"):
                    nleak += 1
                    # narrow: a miss, cancelled with at least two elements of the answer not yet handed over
                    if "cancelled_miss_not_drained" in open_classes and o["fwd"] and \
                       len(o["plain"]["elems"]) >= o["cancel"] + 2:
                        reproduced.setdefault("cancelled_miss_not_drained", {"history": c["id"], "seed": c["seed"], "op": i})
                    else:
                        unexplained.append({"class": "forwarded-lookup-left-blocked", "history": c, "op": i})
                continue
            if same:
                continue
            if c["faults"]:
                if o["memo"]["err"] and any(e.get("fault") for e in o["fwd"]):
                    continue   # the injected failure surfaced as an error: not a disagreement
                cls = classify_seq(ops, i, fixed_offset) or classify_fault(ops, i, fixed_offset)
            else:
                cls = classify_seq(ops, i, fixed_offset)
            ndiff += 1
            if cls in open_classes:
                reproduced.setdefault(cls, {"history": c["id"], "seed": c["seed"], "op": i})
            else:
                unexplained.append({"class": cls, "history": c, "op": i})
        if nontriv:
            seen.add(vcheck.case_hash([(o["k"], o.get("q"), o.get("triples"), o["h"]) for o in ops]))
    for u in unexplained[:4]:
        ops = u["history"]["ops"]
        ctx.violation({"kind": "memoizer-answer-differs-from-wrapped-store", "class": u["class"], "op_index": u["op"],
                       "op": ops[u["op"]], "history": u["history"],
                       "explain": "a read through memoization.New(store) returned something else than the same read on a plain "
                                  "store driven in lock-step, and no open finding's classifier covers it"})

    # ---------------------------------------------------------------- 2. witness histories of the findings + corpus
    tiny_in, sched_in = [], []
    for f in findings:
        w = witness_of(f)
        if "ops" in w:
            tiny_in.append((f, {"name": f["id"], "init": w.get("init", []), "ops": w["ops"],
                                "read_faults": w.get("read_faults", {})}))
        elif "threads" in w:
            sched_in.append((f, {"scn": {"name": f["id"], "init": w.get("init", []), "handles": w.get("handles", 1),
                                         "threads": w["threads"]}, "sched": w["sched"]}))
    cdir = os.path.join(vcheck.VERIF, "corpus", "C19")
    corpus = []
    if os.path.isdir(cdir):
        for fn in sorted(os.listdir(cdir)):
            if fn.endswith(".json"):
                corpus.append((None, json.load(open(os.path.join(cdir, fn)))))
    batch = Batch(ctx, "cases_c19_small")
    tin = tiny_in + [(None, h) for _, h in corpus if "ops" in h]
    tres = hmemo(["-mode", "tiny"], inp="\n".join(json.dumps(h) for _, h in tin) + "\n") if tin else []
    def plain_tiny(r):
        return not r["hist"].get("read_faults") and not any(o.get("cancel") is not None for o in r["hist"]["ops"])
    tmodel = [r for r in tres if plain_tiny(r)]   # failures / cancellations are replayed in Coq through the seq histories
    if tmodel:
        tiny_block(batch, "tiny", tmodel)
    for (f, _), r in zip(tin, tres):
        differs = [i for i, (a, b) in enumerate(zip(r["memo"], r["plain"]))
                   if a != b and not (r["hist"].get("read_faults") and a["err"])
                   and not (r["hist"]["ops"][i].get("cancel") is not None and a["list"] == b["list"][:r["hist"]["ops"][i]["cancel"]])]
        if f is None and r["leak_at"] >= 0 and "cancelled_miss_not_drained" not in open_classes:
            ctx.violation({"kind": "corpus-history-leaves-lookup-blocked", "history": r})
        if f is not None and f["class"] == "cancelled_miss_not_drained":
            if r["leak_at"] >= 0 and r["write_blocked"]:
                ctx.known("%s (%s): after operation %d of the witness history (a listing cancelled by its caller after %d element) the "
                          "forwarded lookup stays blocked holding the wrapped graph's read lock: AddTriples through the wrapper did not "
                          "return within 2 s" % (f["id"], f["class"], r["leak_at"], r["hist"]["ops"][r["leak_at"]]["cancel"]))
                reproduced[f["class"]] = True
            else:
                ctx.notes.append("NOTE: finding %s no longer reproduces" % f["id"])
        elif f is not None:
            if differs:
                ctx.known("%s (%s): read %d of the witness history returns %s through the memoizer, %s from the wrapped store" % (
                    f["id"], f["class"], differs[0], json.dumps(r["memo"][differs[0]]["list"] or r["memo"][differs[0]]["bool"]),
                    json.dumps(r["plain"][differs[0]]["list"] or r["plain"][differs[0]]["bool"])))
                reproduced[f["class"]] = True
            else:
                ctx.notes.append("NOTE: finding %s no longer reproduces" % f["id"])
        elif differs:
            ctx.violation({"kind": "corpus-history-differs", "history": r})
    sres = hmemo(["-mode", "sched"], inp="\n".join(json.dumps(x) for _, x in sched_in) + "\n") if sched_in else []
    wit_marks = []
    for n, ((f, x), r) in enumerate(zip(sched_in, sres)):
        cl = classify_sched(x["scn"], r, fixed_offset) if r["complete"] else []
        wit_marks.append((sched_block(batch, "w%d" % n, x["scn"], [r], None), x, r))
        hit = [c for c in cl if c[2] == f["class"]]
        if hit:
            t, k, _ = hit[0]
            rec = r["threads"][t][k]
            ctx.known("%s (%s): under schedule %s thread %d's request %d returns %s after the write returned; the wrapped store says %s" % (
                f["id"], f["class"], r["sched"], t, k, json.dumps(rec["a"]["list"] or rec["a"]["bool"]),
                json.dumps(rec["ref"]["list"] or rec["ref"]["bool"])))
            reproduced[f["class"]] = True
        else:
            ctx.notes.append("NOTE: finding %s no longer reproduces" % f["id"])

    # ---------------------------------------------------------------- 3. every interleaving of small scenarios
    nsched = 0
    outcomes = {}
    stale_by_class = {}
    scn_marks = []
    for scn in scenarios(ctx.tier):
        rows = hmemo(["-mode", "explore"], inp=json.dumps(scn) + "\n", timeout=1500)
        summary = [r for r in rows if r["kind"] == "explored"][0]
        rs = [r for r in rows if r["kind"] == "sched"]
        hung = [r for r in rs if r["hang"]]
        if hung:
            r = hung[0]

            def stale_of(res):
                out = []
                for t, (th, recs) in enumerate(zip(scn["threads"], res["threads"])):
                    for k, (o, rec) in enumerate(zip(th["ops"], recs)):
                        if o["k"] in ("list", "exist") and rec["a"] != rec["ref"] and \
                           not any(rec["a"] == x for x in rec["refs"][rec["start_v"]:rec["end_v"] + 1]):
                            out.append({"thread": t, "request": k, "op": o, "observed": rec})
                return out
            stale = stale_of(r)
            if not stale:
                # failing-input search: the same steps in every other order, then the blocked thread's step
                import itertools
                cands = sorted(set(itertools.permutations(r["sched"][:-1])))[:16]
                tries = hmemo(["-mode", "sched"], inp="\n".join(
                    json.dumps({"scn": scn, "sched": list(c) + [r["sched"][-1]]}) for c in cands) + "\n", timeout=600)
                for t2 in tries:
                    if not t2["invalid"] and stale_of(t2):
                        r, stale = t2, stale_of(t2)
                        break
            ctx.violation({"kind": "request-blocks-on-another-request", "scenario": scn, "schedule": r["sched"],
                           "parked_at": r.get("status"), "ran_off_after_release": r.get("free_run"), "stale_reads_after_release": stale,
                           "explain": "under this schedule the stepped thread neither reached a yield point at the wrapped store's "
                                      "interface nor finished its request: in the real memoizer one request waits for another one, "
                                      "which the model (and the code the model was written from) never does. After releasing all threads "
                                      "the listed reads returned an answer the wrapped store gave at no moment of the read."})
            continue
        if not summary["exhausted"] or any(r["invalid"] or not r["complete"] for r in rs):
            ctx.violation({"kind": "interleaving-exploration-incomplete", "scenario": scn, "summary": summary,
                           "explain": "the schedule budget was exhausted or a schedule was invalid"})
            continue
        scn_marks.append((sched_block(batch, scn["name"], scn, rs, len(rs)), scn, rs))
        nsched += len(rs)
        outs = set()
        for r in rs:
            outs.add(json.dumps([[rec["a"] for rec in th] for th in r["threads"]]))
            for t, k, cls in classify_sched(scn, r, fixed_offset):
                if cls in open_classes:
                    stale_by_class[cls] = stale_by_class.get(cls, 0) + 1
                    reproduced.setdefault(cls, True)
                else:
                    if len([v for v in ctx.violations if v[0].get("kind") == "stale-read-under-interleaving"]) < 3:
                        ctx.violation({"kind": "stale-read-under-interleaving", "class": cls, "scenario": scn,
                                       "schedule": r["sched"], "thread": t, "request": k, "observed": r["threads"][t][k],
                                       "explain": "a read returned an answer the wrapped store did not give at any moment of the "
                                                  "read, and no open finding's classifier covers it"})
        outcomes[scn["name"]] = {"schedules": len(rs), "distinct_outcomes": len(outs)}

    # ---------------------------------------------------------------- evaluate the model on all of it (one or two coqc runs)
    res = batch.run()
    for i in res.get("M_tiny", [])[:3]:
        ctx.violation({"kind": "tiny-model-vs-real-memoizer", "history": tmodel[i],
                       "explain": "the Coq model over the numbered-triple store disagrees with the real memoizer or the real plain store"})
    for marks, x, r in wit_marks:
        if any(res[m] for m, _ in marks):
            ctx.violation({"kind": "interleaving-model-vs-real-memoizer", "scenario": x["scn"], "observed": r})
    for marks, scn, rs in scn_marks:
        sb = [k + i for m, k in marks for i in res[m]]
        for i in sb[:2]:
            ctx.violation({"kind": "interleaving-model-vs-real-memoizer", "scenario": scn, "observed": rs[i],
                           "explain": "the small-step model run on this schedule does not finish with the observed answers"})
        mcount = res["CNT_" + scn["name"]][0]
        outcomes[scn["name"]]["model_schedules"] = mcount
        if mcount != len(rs):
            ctx.violation({"kind": "interleaving-count", "scenario": scn, "model": mcount, "real": len(rs),
                           "explain": "the model enumerates a different number of complete schedules than the gated real memoizer allows"})

    # ---------------------------------------------------------------- coverage
    ctx.cov["evaluations"] = len(allseq) + len(tres) + len(sres) + nsched
    ctx.cov["distinct_nontrivial"] = len(seen) + sum(v["distinct_outcomes"] for v in outcomes.values())
    ctx.cov["rule"] = ("sequential histories: distinct by (operation, request, handle) sequence, non-trivial = at least one read "
                       "was served from the cache; interleavings: distinct observable outcomes per scenario (every complete "
                       "schedule is executed and compared, %d in total)" % nsched)
    ctx.cov["samples"] = [{"history": allseq[0]["id"], "ops": [{k: o.get(k) for k in ("h", "k", "q", "memo")} for o in allseq[0]["ops"][:4]]}]
    ctx.cov["distribution"] = {"histories": len(seq), "sized_history_results_per_lookup": max(c.get("big", 0) for c in seq), "fault_histories": len(flt), "cancel_histories": len(can),
                               "cancelled_reads": ncancel, "cancelled_reads_leaving_inner_lookup_blocked": nleak, "reads": nreads, "cache_hits": nhits,
                               "error_answers": nerr, "empty_answers": nempty, "reads_differing_from_plain_store": ndiff,
                               "op_mix": opmix, "interleaving_scenarios": outcomes, "stale_reads_by_class": stale_by_class}
    if nreads and (nerr > 0.3 * nreads or nempty > 0.4 * nreads):
        ctx.violation({"kind": "generator-degenerate", "errors": nerr, "empty": nempty, "reads": nreads})
    ctx.assumptions += [
        "sequential theorems: reads of the wrapped store do not change it; equal cache keys get equal answers from the wrapped "
        "store; an inner lookup that returns an error has delivered nothing (storage/memory satisfies this; a driver that fails "
        "mid-stream does not: finding truncated-result-cached)",
        "interleavings are those of the atomic steps between the yield points at the wrapped store's interface; the wrapped "
        "store's own operations are atomic",
    ]


def search(ctx, broken):
    """failing-input search when an obligation or the build breaks: look for a history on which the memoizer and the plain
    store disagree outside the open findings"""
    try:
        open_classes = {f["class"] for f in vcheck.known_findings("C19")}
        fixed_offset = "offset_key" not in open_classes
        for c in hmemo(["-mode", "seq", "-n", "400", "-seed", str(ctx.seed)]):
            for i, o in enumerate(c["ops"]):
                if o["k"] == "read" and (o["memo"]["elems"], o["memo"]["bool"], o["memo"]["err"]) != \
                        (o["plain"]["elems"], o["plain"]["bool"], o["plain"]["err"]):
                    if classify_seq(c["ops"], i, fixed_offset) not in open_classes:
                        return {"history": c, "op_index": i}
    except Exception:
        return None
    return None
