"""Shared helpers of the Table family checks (C11, C12, C13): running h_table, rendering cells / rows as Coq terms,
evaluating verdict functions of coq/Table/Corr.v inside Coq."""
import json, os, struct
import vcheck
from vcheck import sh, BIN, REPO

# coq/Table/GrammarTie.v proves that the HAVING derivation trees are derivations of the grammar table regenerated from
# grammar.SemanticBQL(): the Table project therefore needs the Grammar project and its translator
# Does the CURRENT tree compare cells by value (repairs F27 / F28) or by formatted strings (as found)?  The model side of every
# verdict is told which engine it describes; this is a constant of the tree, never probed at run time.
VALUE_MODE = True            # repo commits fd030b0 (ORDER BY / GROUP BY) and ca461fe (HAVING)
VM = "true" if VALUE_MODE else "false"

GO_CMDS = ["gengrammar", "h_table"]
TRANSLATORS = ["gengrammar"]
# coq/Table/TimeLaw.v instantiates the RFC3339Nano order law with the formatter and the order theorem of coq/Values
COQ_PROJECTS = ["Grammar", "Values", "Table"]

TRUSTED = vcheck.STD_TRUSTED + [
    "formatted strings (Node/Predicate/Literal String, %032f, RFC3339Nano) are shipped per cell by the harness; only "
    "%032d / %d of int64 and the text-literal form are Gallina functions (compared with Go's output on every int64 / "
    "text cell seen)",
    "sort.Sort is modelled by its contract (permutation; no inversion under a strict weak order); for tables of at "
    "most 12 rows additionally by Go's insertionSort (the branch pdqsort takes for short slices)",
    "strings.TrimSpace modelled for ASCII white space only (generated strings are ASCII)",
    "IEEE binary64 addition = Coq.Floats.SpecFloat.SFadd 53 1024",
]

HEADER = """From Coq Require Import List ZArith NArith Bool.
From Coq.Strings Require Import Byte.
From Coq.Floats Require Import SpecFloat.
Import ListNotations.
From BWTable Require Import Cells Fmt Sort ValueOrder SortSpec Limit %s Corr.
Open Scope Z_scope.
"""


def htable(args, timeout=900):
    rc, out = sh([os.path.join(BIN, "h_table")] + [str(a) for a in args], cwd=REPO, env=vcheck.goenv(), timeout=timeout)
    if rc != 0:
        raise vcheck.Broken("h_table %s failed" % " ".join(map(str, args)), out[-3000:])
    return [json.loads(l) for l in out.splitlines() if l.startswith("{")]


def hexbytes(h):
    return vcheck.coq_bytes(bytes.fromhex(h or ""))


def zlit(v):
    v = int(v)
    return "(%d)" % v if v < 0 else "%d" % v


def sf_term(bits):
    bits = int(bits)
    s, e, fr = bits >> 63, (bits >> 52) & 0x7FF, bits & ((1 << 52) - 1)
    sg = "true" if s else "false"
    if e == 0x7FF:
        return "(S754_infinity %s)" % sg if fr == 0 else "S754_nan"
    if e == 0:
        if fr == 0:
            return "(S754_zero %s)" % sg
        return "(S754_finite %s %d (-1074))" % (sg, fr)
    return "(S754_finite %s %d (%d))" % (sg, fr | (1 << 52), e - 1075)


def float_of_bits(bits):
    return struct.unpack(">d", struct.pack(">Q", int(bits)))[0]


class Terms:
    """Per-file tables of distinct strings / cells / rows so that the generated .v stays small."""

    def __init__(self):
        self.defs, self.strs, self.cells, self.rows = [], {}, {}, {}

    def s(self, h):
        h = h or ""
        if len(h) <= 8:
            return hexbytes(h)
        if h not in self.strs:
            n = "s%d" % len(self.strs)
            self.strs[h] = n
            self.defs.append("Definition %s : str := %s." % (n, hexbytes(h)))
        return self.strs[h]

    def cell(self, c):
        key = json.dumps(c, sort_keys=True)
        if key in self.cells:
            return self.cells[key]
        k = c["k"]
        if k == "null":
            t = "CNull"
        elif k in ("s", "n", "p"):
            t = "C%s %s" % (k.upper(), self.s(c.get("s")))
        elif k == "t":
            t = "CT (mkTim %s %s %s)" % (zlit(c["ns"]), zlit(c.get("off", 0)), self.s(c.get("str")))
        elif k == "l":
            ty = c["t"]
            if ty == "int64":
                v = "VInt %s" % zlit(c["v"])
            elif ty == "float64":
                v = "VFloat %s" % sf_term(c["v"])
            elif ty == "bool":
                v = "VBool %s" % c["v"]
            elif ty == "text":
                v = "VText %s" % self.s(c.get("v"))
            else:
                v = "VBlob %s" % self.s(c.get("v"))
            t = "CL (mkLit (%s) %s %s)" % (v, self.s(c.get("str")), self.s(c.get("cmp")))
        else:
            raise ValueError("cell kind " + k)
        n = "c%d" % len(self.cells)
        self.cells[key] = n
        self.defs.append("Definition %s : cell := %s." % (n, t))
        return n

    def row(self, r, ids):
        """r: {binding: cell}; ids: {binding: number}; entries in id order"""
        items = sorted(((ids[b], self.cell(c)) for b, c in r.items() if b in ids))
        key = tuple(items)
        if key not in self.rows:
            n = "r%d" % len(self.rows)
            self.rows[key] = n
            self.defs.append("Definition %s : row := [%s]." % (n, "; ".join("(%d%%N, %s)" % it for it in items)))
        return self.rows[key]

    def rowlist(self, rows, ids):
        return "[" + "; ".join(self.row(r, ids) for r in rows) + "]"


def binding_ids(rows_lists, extra=()):
    names = set(extra)
    for rows in rows_lists:
        for r in rows or []:
            names.update(r.keys())
    return {b: i + 1 for i, b in enumerate(sorted(names))}


def keys_term(ks, ids):
    return "[" + "; ".join("mkKey %d%%N %s" % (ids[k["b"]], "true" if k["desc"] else "false") for k in ks) + "]"


def opt(term):
    return "None" if term is None else "(Some %s)" % term


def coq_verdicts(ctx, name, items, imports="", shard=400):
    """items: list of (render(terms) -> Coq term of type N).  Returns the list of verdict codes."""
    codes = []
    for k in range(0, len(items), shard):
        t = Terms()
        exprs = [f(t) for f in items[k:k + shard]]
        v = HEADER % imports + "\n".join(t.defs) + "\n"
        v += "Definition V : list N := Eval vm_compute in [\n" + ";\n".join(exprs) + "].\nPrint V.\n"
        out = vcheck.coq_eval(ctx.work, "%s_%d" % (name, k), v)
        got = vcheck.parse_nat_list(out, "V")
        if len(got) != len(exprs):
            raise vcheck.Broken("Coq returned %d verdicts for %d cases (%s)" % (len(got), len(exprs), name), out[-2000:])
        codes += got
    return codes


def replay_findings(ctx, prop, mode):
    """Replays every open finding of findings/<prop>.txt on the implementation; prints KNOWN-FINDING lines."""
    res = {r["id"]: r for r in htable(["-mode", mode])}
    open_ids = set()
    for f in vcheck.known_findings(prop):
        fid = f.get("id")
        open_ids.add(fid)
        r = res.get(fid)
        if r is None:
            ctx.notes.append("finding %s has no replay" % fid)
            continue
        if r["fails"]:
            ctx.known("%s class=%s site=%s observed=%s" % (fid, f.get("class"), f.get("site"), json.dumps(r["observed"])))
        else:
            ctx.notes.append("NOTE: finding %s no longer reproduces" % fid)
            print("NOTE: finding %s no longer reproduces" % fid)
    return res, open_ids


VERDICT_TEXT = {
    0: "implementation agrees with the model (outside the partial domain)",
    1: "implementation agrees with the model, input inside the partial domain, spec holds",
    2: "implementation DISAGREES with the model (or contradicts a theorem inside the partial domain)",
    3: "a formatted string differs from the Gallina formatter",
    4: "implementation agrees with the model but NOT with the spec (value order / grouping / comparison by value)",
    5: "LIMIT kept the wrong rows (a dropped row is smaller by value than a kept one)",
    6: "number of rows differs from min(n, N)",
    7: "the implementation failed / rejected where the property demands a result",
    8: "a result was returned although the requested aggregate is undefined",
    9: "the evaluator built is not the tree of the grammar's derivation",
}


def replay(ctx):
    """bin/check Cxx --replay file: rebuild the recorded input, run the implementation again, evaluate model and spec."""
    import c11, c12, c13
    ctx.add_obligations(vcheck.coq_props("Table", ctx.prop))      # a replay re-checks the theorems too
    items = {"sort": c12.sort_item, "limit": c12.limit_item, "e2e12": c12.e2e_item, "reduce": c11.reduce_item,
             "e2e11": c11.e2e_item, "expr": c13.expr_item, "e2e13": c13.e2e_item, "e2etail": c13.tail_item}
    rows = htable(["-mode", "rerun", "-file", ctx.replay])
    if not rows:
        ctx.broken("replay: the harness could not rebuild the case", ctx.replay)
        return
    c = rows[0]
    code = coq_verdicts(ctx, "replay", [items[c["mode"]](c)], imports="Reduce ReduceSpec Expr ExprSpec Exec")[0]
    obs = c.get("outcome") or c.get("build") or (c.get("res") or {}).get("outcome")
    print("REPLAY mode=%s implementation=%s verdict=%d: %s" % (c["mode"], obs, code, VERDICT_TEXT.get(code, "?")))
    for k in ("q", "base_q", "cfg", "n", "aaps"):
        if k in c and c[k] is not None:
            print("  %s = %s" % (k, json.dumps(c[k])))
    out = c.get("out") if "out" in c else (c.get("res") or {}).get("rows")
    print("  implementation rows: %d%s" % (len(out or []), "" if "results" not in c else "  per-row results: %s" % c["results"]))
    ctx.cov["evaluations"] = 1
    ctx.cov.setdefault("obligations", 0)
    ctx.cov.setdefault("discharged", 0)
    ctx.cov["samples"] = [{"mode": c["mode"], "verdict": code}]
    if code not in (0, 1):
        ctx.violation({"kind": "replayed case: " + VERDICT_TEXT.get(code, "?"), "case": c})


def wrap64(z):
    return (z + 2 ** 63) % 2 ** 64 - 2 ** 63


def check_sweep(ctx, cases, ops):
    """Size sweep (tables of 0 .. 65537 rows, one int64 key column): the implementation against the SPEC, computed here in
    Python - these tables are NOT evaluated by the Gallina model inside Coq (too large); sort: permutation + value order,
    limit: prefix of min(n, N) rows, reduce: one row per distinct key, in key order, count = |group|, sum = wrapped sum."""
    done = collections_counter()
    for c in cases:
        if c["op"] not in ops:
            continue
        n, keys, vals = c["n"], c["keys"] or [], c["vals"] or []
        done["%s:%d" % (c["op"], n)] += 1
        bad = None
        if c["outcome"] != "ok":
            bad = "outcome " + c["outcome"]
        elif c["op"] == "sort":
            ids = c["out_ids"] or []
            if sorted(ids) != list(range(n)):
                bad = "output is not a permutation of the input rows (%d rows out of %d)" % (len(ids), n)
            else:
                ks = [keys[i] for i in ids]
                if any((a < b) if c["desc"] else (a > b) for a, b in zip(ks, ks[1:])):
                    bad = "output is not in value order"
        elif c["op"] == "limit":
            ids = c["out_ids"] or []
            if ids != list(range(min(n, c["limit"]))):
                bad = "LIMIT %d of %d rows kept %d rows / not the first rows" % (c["limit"], n, len(ids))
        elif c["op"] == "reduce":
            groups = {}
            for k, v in zip(keys, vals):
                g = groups.setdefault(k, [0, 0])
                g[0] += 1
                g[1] = wrap64(g[1] + v)
            want = [(k, groups[k][0], groups[k][1]) for k in sorted(groups)]
            got = list(zip(c["out_keys"] or [], c["out_cnt"] or [], c["out_sum"] or []))
            if got != want:
                bad = "GROUP BY over %d rows: %d result rows for %d groups, or wrong count / sum" % (n, len(got), len(want))
        if bad:
            small = {k: (v if not isinstance(v, list) or len(v) <= 40 else v[:40] + ["..."]) for k, v in c.items()}
            ctx.violation({"kind": "size sweep: " + bad, "case": small})
    return dict(done)


def collections_counter():
    import collections
    return collections.Counter()


def check_e2e_sweep(ctx, cases, ops):
    """Statements over graphs of up to 16385 triples through the planner, against the spec in Python (not evaluated in Coq)."""
    done = collections_counter()
    for c in cases:
        if c["op"] not in ops:
            continue
        done["%s:%d" % (c["op"], c["n"])] += 1
        base, out, bad = [tuple(x) for x in c["base"] or []], [tuple(x) for x in c["out"] or []], None
        if c["outcome"] != "ok" or len(base) != c["n"]:
            bad = "outcome %s, %d base rows for %d triples" % (c["outcome"], len(base), c["n"])
        elif c["op"] in ("having", "having_lt", "having_notlast"):
            last = base[-1][0] if base else None
            keep = {"having": lambda s, o: o > c["k"], "having_lt": lambda s, o: o < c["k"],
                    "having_notlast": lambda s, o: s != last}[c["op"]]
            want = [(s, o, 0) for s, o in base if keep(s, o)]
            if out != want:
                bad = "HAVING kept %d rows, the filter of the base rows has %d (or other rows / order)" % (len(out), len(want))
        elif c["op"] == "orderlimit":
            want = sorted(base, key=lambda r: (-r[1], "%03d" % r[0]))[:7]
            if [(s, o) for s, o, _ in out] != want:
                bad = "ORDER BY ?o DESC, ?s LIMIT 7 over %d rows returned other rows" % len(base)
        elif c["op"] == "groupby":
            g = {}
            for s, o in base:
                e = g.setdefault(s, [0, 0])
                e[0] += 1
                e[1] = wrap64(e[1] + o)
            want = sorted((s, v[0], v[1]) for s, v in g.items())
            if sorted(out) != want or len(out) != len(want):
                bad = "GROUP BY over %d rows: %d result rows for %d groups or wrong count / sum" % (len(base), len(out), len(want))
        if bad:
            ctx.violation({"kind": "statement size sweep: " + bad, "q": c["q"], "n": c["n"], "out_head": out[:10]})
    return dict(done)


# ---------------------------------------------------------------- reference renderings (independent of badwolf)
# The strings the model compares are shipped by the harness (they are produced by badwolf calling Go's fmt / time).  So that a change
# of the FORMATTING code itself (triple/literal/literal.go, Cell.String) cannot hide behind "model and implementation see the same
# string", every literal and anchor cell is re-rendered here from its VALUE and compared with the shipped strings.
import datetime as _dt
from decimal import Decimal as _D


def ref_float_cmp(bits):
    f = float_of_bits(bits)
    if f != f or f in (float("inf"), float("-inf")):
        return None                                   # fmt pads Inf / NaN with spaces; not generated as data
    return ('"%s"^^type:float64' % ("%032.6f" % f)).encode()


def ref_float_str(bits):
    f = float_of_bits(bits)
    if f != f or f in (float("inf"), float("-inf")):
        return None
    # Go %v of a float64 = strconv 'g' with the shortest representation: exponent form iff exp < -4 or exp >= 6
    r = repr(f)
    m, _, e = r.partition("e")
    d = _D(r)
    exp = d.adjusted()
    digits = "".join(map(str, d.as_tuple().digits)).rstrip("0") or "0"
    sign = "-" if (d.is_signed()) else ""
    if d == 0:
        body = "0"
    elif exp < -4 or exp >= 6:
        mant = digits[0] + ("." + digits[1:] if len(digits) > 1 else "")
        body = "%se%s%02d" % (mant, "-" if exp < 0 else "+", abs(exp))
    elif exp >= len(digits) - 1:
        body = digits + "0" * (exp - len(digits) + 1)
    elif exp >= 0:
        body = digits[:exp + 1] + "." + digits[exp + 1:]
    else:
        body = "0." + "0" * (-exp - 1) + digits
    return ('"%s%s"^^type:float64' % (sign, body)).encode()


def ref_time_str(ns, off):
    ns, off = int(ns), int(off)
    secs, frac = divmod(ns, 10 ** 9)
    t = _dt.datetime(1970, 1, 1) + _dt.timedelta(seconds=secs + off)
    s = "%04d-%02d-%02dT%02d:%02d:%02d" % (t.year, t.month, t.day, t.hour, t.minute, t.second)
    if frac:
        s += "." + ("%09d" % frac).rstrip("0")
    if off == 0:
        return (s + "Z").encode()
    sign = "+" if off > 0 else "-"
    a = abs(off)
    return (s + "%s%02d:%02d" % (sign, a // 3600, (a % 3600) // 60)).encode()


def cell_render_problem(c):
    """None, or a description of the first shipped string of the cell that differs from the reference rendering of its value"""
    if c["k"] == "t":
        want = ref_time_str(c["ns"], c.get("off", 0))
        if bytes.fromhex(c["str"]) != want:
            return "anchor printed as %r, reference RFC3339Nano %r" % (bytes.fromhex(c["str"]), want)
    if c["k"] == "l":
        got_s, got_c = bytes.fromhex(c.get("str", "")), bytes.fromhex(c.get("cmp", ""))
        t = c["t"]
        if t == "int64":
            v = int(c["v"])
            ws = ('"%d"^^type:int64' % v).encode()
            wc = ('"%s"^^type:int64' % ("%032d" % v)).encode()
        elif t == "float64":
            ws, wc = ref_float_str(c["v"]), ref_float_cmp(c["v"])
        elif t == "bool":
            ws = wc = ('"%s"^^type:bool' % c["v"]).encode()
        elif t == "text":
            ws = wc = b'"' + bytes.fromhex(c.get("v", "")) + b'"^^type:text'
        else:
            bs = bytes.fromhex(c.get("v", ""))
            ws = wc = ('"[%s]"^^type:blob' % " ".join(str(b) for b in bs)).encode()
        if ws is not None and got_s != ws:
            return "literal printed as %r, reference %r" % (got_s, ws)
        if wc is not None and got_c != wc:
            return "comparable string %r, reference %r" % (got_c, wc)
    return None


def check_renderings(ctx, row_lists, what):
    """row_lists: iterable of lists of rows (dicts binding -> cell); reports the first few cells whose strings are not the reference"""
    seen, bad = set(), 0
    for rows in row_lists:
        for r in rows or []:
            for c in r.values():
                key = json.dumps(c, sort_keys=True)
                if key in seen:
                    continue
                seen.add(key)
                p = cell_render_problem(c)
                if p:
                    bad += 1
                    if bad <= 3:
                        ctx.violation({"kind": "a cell is not rendered as the reference formatting of its value (%s): %s" % (what, p), "cell": c})
    return len(seen)


def float_key6(bits):
    """the value as %f shows it (six decimals, correctly rounded): what the known precision defect reduces a float64 to"""
    return _D("%.6f" % float_of_bits(bits))
