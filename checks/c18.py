"""C18 — the parser accepts exactly whole grammar statements and keeps no state between statements."""
import json, os, re
import vcheck
from vcheck import sh, BIN, REPO
import c17

GO_CMDS = ["gengrammar", "h_parse"]
TRANSLATORS = ["gengrammar"]
COQ_PROJECTS = ["Grammar"]
TRUSTED = c17.TRUSTED + [
    "closure machines of coq/Grammar/Hooks.v (dataAccumulator, collectGlobalBounds, whereSubjectClause) are hand-written, "
    "tied to the real closures by driving semantic.DataAccumulatorHook()/CollectGlobalBounds() directly",
    "hook attachment names come from runtime.FuncForPC over the closures of SemanticBQL() (depends on compiler naming)",
]

def orderby_repeats(txt):
    """classifier of C18-orderby-repeated-keys: the statement has an ORDER BY clause in which a binding occurs twice"""
    m = re.search(r"order\s+by\s+(.*?)(having|before|after|between|limit|;)", txt, flags=re.I | re.S)
    if not m:
        return False
    keys = re.findall(r"\?[A-Za-z0-9_]+", m.group(1))
    return len(keys) != len(set(keys))


def hook_term(r):
    w = 0 if r["hook"] == "dataAccumulator" else 1
    outs = {"none": 0, "emit": 1, "lower": 1, "upper": 2, "both": 3, "err": 2 if w == 0 else 4, "panic": 5}
    inp = "[" + ";".join("(%d,%s)" % (s["k"], "true" if s["ok"] else "false") for s in r["steps"]) + "]"
    out = "[" + ";".join(str(outs[s["out"]]) for s in r["steps"]) + "]"
    return "(%d, %s, %s)" % (w, inp, out)


def llk_corr(ctx, n, name="cases_c18_llk"):
    """the look-ahead window of llk.go (model: coq/Grammar/LLk.v) vs the real grammar.LLk driven directly"""
    lrows = c17.hparse(["-mode", "llk", "-n", str(n), "-seed", str(ctx.seed)])
    lbad = []
    for k in range(0, len(lrows), 150):
        part = lrows[k:k + 150]
        def nl(xs):
            return "[" + ";".join(str(x) for x in xs) + "]"
        def term(r):
            toks = "[" + ";".join("(%d,%d)" % (a, b) for a, b in r["toks"]) + "]"
            steps = "[" + ";".join("(%s,%s)" % ("true" if st["ok"] else "false", nl(st["win"])) for st in r["steps"]) + "]"
            return "(%s, %d%%nat, %s, %s, %s)" % (toks, r["k"], nl(r["win0"]), nl(r["tys"]), steps)
        v = c17.HEADER + "Definition cases : list llk_obs := [\n" + ";\n".join(term(r) for r in part) + "].\n"
        v += "Definition M := Eval vm_compute in llk_mismatches tok_eof 0 cases.\nPrint M.\n"
        out = vcheck.coq_eval(ctx.work, "%s_%d" % (name, k), v)
        lbad += [k + i for i in vcheck.parse_nat_list(out, "M")]
    for i in lbad[:5]:
        ctx.violation({"kind": "llk-window-model-vs-real-LLk", "case": {"text": lrows[i]["text"], "k": lrows[i]["k"], "tys": lrows[i]["tys"][:200],
                                                                      "steps": lrows[i]["steps"][:200]},
                       "explain": "Current/Peek/Consume of grammar.LLk differ from the window model over the lexer's token list"})
    for r in lrows:
        if not r["peek_ok"]:
            ctx.violation({"kind": "llk-peek-range", "case": {"text": r["text"], "k": r["k"]},
                           "explain": "Peek(j) failed for 1 <= j <= k, or succeeded for j = 0 or j = k+1"})
            break
    return lrows


def run(ctx):
    info = vcheck.coq_props("Grammar", "C18")
    ctx.add_obligations(info)
    ctx.cov["checker_cmd"] = "coqc -Q coq/Grammar BWGrammar coq/Grammar/Props/C18.v (after regenerating Gen/GrammarGen.v)"
    thorough = ctx.tier == "thorough"
    # 1. parser model vs real parser on token sequences (acceptance + alternatives taken), semantic subset on the real code
    rows = c17.hparse(["-mode", "seqs", "-n", "30000" if thorough else "2500", "-seed", str(ctx.seed)] +
                      (["-exhaust", "5"] if thorough else ["-exhaust", "3"]))
    for r in [r for r in rows if r.get("panic")][:3]:
        ctx.violation({"kind": "real-parser-panics", "case": r, "explain": "grammar.Parser over BQL() panicked: " + r["panic"]})
    bad = c17.model_mismatches(ctx, "cases_c18", rows)
    for i in bad[:5]:
        ctx.violation({"kind": "parser-model-vs-real-parser", "case": rows[i]})
    for r in rows:
        if r["sem_accepted"] and not r["accepted"]:
            ctx.violation({"kind": "semantic-accepts-more-than-syntactic", "case": r})
            break
    # 2. closure machines vs the real closures
    hrows = c17.hparse(["-mode", "hooks", "-n", "20000" if thorough else "1500", "-seed", str(ctx.seed)])
    hbad = []
    for k in range(0, len(hrows), 1500):
        part = hrows[k:k + 1500]
        v = c17.HEADER + "Definition cases : list hook_obs := [\n" + ";\n".join(hook_term(r) for r in part) + "].\n"
        v += "Definition M := Eval vm_compute in hook_mismatches 0 cases.\nPrint M.\n"
        out = vcheck.coq_eval(ctx.work, "cases_c18_hooks_%d" % k, v)
        hbad += [k + i for i in vcheck.parse_nat_list(out, "M")]
    for i in hbad[:5]:
        ctx.violation({"kind": "closure-machine-vs-real-hook", "case": hrows[i]})
    # 3. statelessness on the real parser: last statement of a history on one parser vs a fresh parser
    srows = c17.hparse(["-mode", "state", "-n", "20000" if thorough else "1500", "-seed", str(ctx.seed), "-exhaust", "1"])
    det = [r for r in srows if r["kind"] == "determinism"]
    srows = [r for r in srows if r["kind"] == "state"]
    nondet_known = 0
    for r in det:
        if r["same"]:
            continue
        if any(k["id"] == "C18-orderby-repeated-keys" for k in vcheck.known_findings("C18")) and orderby_repeats(r["seq"][0]):
            nondet_known += 1
        else:
            ctx.violation({"kind": "statement-meaning-not-a-function-of-its-text", "case": r,
                           "explain": "the same text parsed on fresh parsers gives different Statement meanings"})
    if nondet_known:
        ctx.known("C18-orderby-repeated-keys: ORDER BY with a repeated key is rewritten by ranging over a Go map, the extracted "
                  "order of keys changes from parse to parse (%d statements in this run)" % nondet_known)
    for r in [r for r in srows if r.get("earlier_changed")][:3]:
        ctx.violation({"kind": "earlier-statement-changed-by-a-later-parse", "case": r,
                       "explain": "a Statement built by an earlier Parse on the same parser reads differently after later statements "
                                  "were parsed (shared storage between the parser's hooks and the statements they built)"})
    diff = [r for r in srows if not r["same"]]
    known = vcheck.known_findings("C18")
    excused, unexplained = [], []
    kid = {k["id"] for k in known}
    for r in diff:
        if "C18-orderby-repeated-keys" in kid and orderby_repeats(r["seq"][-1]):
            nondet_hist = True          # the last statement is itself not a function of its text (reported above)
            continue
        (excused if ("C18-stale-lastnop" in kid and r.get("same_after_flush")) else unexplained).append(r)
    for r in unexplained[:5]:
        ctx.violation({"kind": "statement-meaning-depends-on-history", "case": r,
                       "explain": "the last statement parses differently on a parser that has parsed the earlier ones than on a fresh parser"})
    if known:
        # replay the finding's canonical witness
        wit = ["select ?o from ?a where { /u<joe> as ?j id ?i type", "select ?s from ?a where {?s \"parent_of\"@[] ?o};"]
        hit = [r for r in srows if r["seq"] == wit and not r["same"]]
        if hit or excused:
            ctx.known("C18-stale-lastnop: WHERE/VARS hook closures keep lastNopToken across statements on one grammar value "
                      "(%d of %d histories; e.g. %r then %r)" % (len(excused), len(srows), wit[0], wit[1]))
    # 4. the look-ahead window of llk.go (model: coq/Grammar/LLk.v) vs the real LLk driven directly
    lrows = llk_corr(ctx, 3000 if thorough else 150)
    allrows = len(rows) + len(hrows) + len(srows) + len(lrows)
    ctx.cov["evaluations"] = allrows
    seen = set()
    for r in rows:
        if r["accepted"] or len(r["trace"] or []) >= 2:
            seen.add(vcheck.case_hash(r["lexed"]))
    for r in hrows:
        if any(s["out"] != "none" for s in r["steps"]):
            seen.add(vcheck.case_hash(r))
    for r in srows:
        if r["fresh"] != "ERR":
            seen.add(vcheck.case_hash(r["seq"]))
    for r in lrows:
        if len(r["toks"]) > 2:
            seen.add(vcheck.case_hash([r["text"], r["k"], r["tys"]]))
    ctx.cov["distinct_nontrivial"] = len(seen)
    ctx.cov["rule"] = ("(1) grammar sentences, single-token mutations (insert/delete/replace/append after ';'/splice), random and "
                       "exhaustive short sequences over a 10-kind sub-alphabet, rendered to text, lexed and parsed by the real parser "
                       "with probes; non-trivial = accepted or >=2 alternatives entered. (2) random token sequences through the real "
                       "dataAccumulator / collectGlobalBounds closures, several statements' worth per closure; non-trivial = some step "
                       "emits/sets/errors. (3) histories of 2-4 statements (25 realistic statements, all their token prefixes, grammar "
                       "witnesses) on one parser vs a fresh one, all (prefix, statement) pairs systematically; non-trivial = the last "
                       "statement is accepted by a fresh parser. (4) grammar.NewLLk(text, k) for k = 1..3 over the statement corpus, grammar "
                       "witnesses, statements of 130-1400 tokens, lexical-error texts and random derivations: Consume attempts (5/6 of "
                       "the current type, 1/6 another type) until 3 steps past the end, window (Current, Peek(1..k): kind and text "
                       "hash) after every step vs the Coq window model over the separately lexed token list. Distinct by hash.")
    ctx.cov["samples"] = [{"text": rows[0]["text"], "accepted": rows[0]["accepted"]}, hrows[0], srows[0]]
    ctx.cov["kinds"] = {k: sum(1 for r in rows if r["kind"] == k) for k in sorted(set(r["kind"] for r in rows))}
    ctx.cov["histories"] = len(srows)
    ctx.cov["determinism_statements"] = len(det)
    ctx.cov["histories_differing_excused_by_known_finding"] = len(excused)
    ctx.cov["hook_runs"] = len(hrows)
    ctx.cov["llk_runs"] = len(lrows)
    ctx.cov["llk_longest_statement_tokens"] = max((len(r["toks"]) for r in lrows), default=0)
    ctx.assumptions += ["statement meaning is compared through the exported accessors of semantic.Statement rendered as text",
                        "C18_stateless is partial: proved for the data accumulator and global-bound closures; the lastNopToken "
                        "closures are a known finding; closures without variables depend only on the fresh Statement"]


def search(ctx, broken):
    """failing-input search when an obligation breaks: a history on which the real parser's meaning depends on earlier
    statements (typical cause: a new closure variable or parser field, flagged by C18_no_other_closure_state), else the
    grammar-level search of C17"""
    try:
        srows = c17.hparse(["-mode", "state", "-n", "3000", "-seed", str(ctx.seed), "-exhaust", "1"])
        for r in srows:
            if r.get("earlier_changed"):
                return {"kind": "earlier-statement-changed-by-a-later-parse", "case": r}
            if not r["same"]:
                return {"kind": "statement-meaning-depends-on-history" if r["kind"] == "state" else "statement-meaning-not-a-function-of-its-text",
                        "case": r}
    except Exception:
        pass
    try:
        # a statement the real parsers decide differently from the table-driven mirror of the model (same tables)
        rows = c17.hparse(["-mode", "seqs", "-n", "600", "-seed", str(ctx.seed)])
        for r in rows:
            if r["kind"] in ("derivation", "sentence-variant"):
                continue          # their text is re-rendered after the mirror ran
            if r["accepted"] != r["ref_accepted"]:
                return {"kind": "real-parser-vs-table-driven-reference", "case": r}
            if r["sem_accepted"] and not r["ref_accepted"]:
                return {"kind": "semantic-accepts-more-than-the-grammar", "case": r}
    except Exception:
        pass
    return c17.search(ctx, broken)
