"""C12 — ORDER BY returns a correctly sorted permutation; LIMIT its first n rows."""
import collections
import re, json
from fractions import Fraction
import vcheck
import tablelib as T

GO_CMDS = T.GO_CMDS
TRANSLATORS = T.TRANSLATORS
COQ_PROJECTS = T.COQ_PROJECTS
TRUSTED = T.TRUSTED

# ---------------------------------------------------------------- finding classifiers (narrow, on the JSON case)

def float_in_domain(bits):
    f = T.float_of_bits(bits)
    if f != f or f in (float("inf"), float("-inf")) or f < 0 or f >= 1e25:
        return False
    return (Fraction(f) * 10 ** 6).denominator == 1


def cell_sort_key(c, tolerant):
    """(fine kind, comparable python value): the VALUE order of the spec; tolerant = float64 reduced to six decimals"""
    k = c["k"]
    if k == "l":
        t = c["t"]
        if t == "int64":
            return ("l:int64", int(c["v"]))
        if t == "float64":
            f = T.float_of_bits(c["v"])
            if f != f:
                return ("l:float64", None)
            return ("l:float64", T.float_key6(c["v"]) if tolerant and f not in (float("inf"), float("-inf")) else Fraction(f) if f not in (float("inf"), float("-inf")) else f)
        if t in ("text", "blob"):
            return ("l:" + t, bytes.fromhex(c.get("v", "")))
        return ("l:" + t, bytes.fromhex(c.get("str", "")))
    if k == "t":
        return ("t", int(c["ns"]))
    if k == "null":
        return ("null", 0)
    return (k, bytes.fromhex(c.get("s", "")))


def tolerant_first_rows(base, out, cfg):
    """is [out] the first len(out) rows of SOME ordering of [base] by the keys when float64 values are reduced to six decimals?"""
    def cmp(a, b):
        for k in cfg:
            ka, kb = cell_sort_key(a[k["b"]], True), cell_sort_key(b[k["b"]], True)
            if ka[0] != kb[0] or ka[1] is None or kb[1] is None:
                return None
            if ka[1] != kb[1]:
                lt = ka[1] < kb[1]
                return -1 if lt != k["desc"] else 1
        return 0
    try:
        for a, b in zip(out, out[1:]):
            if cmp(a, b) not in (-1, 0):
                return False
        rest = list(base)
        for r in out:
            rest.remove(r)
        return all(cmp(d, o) in (0, 1) for d in rest for o in out[-1:])
    except (KeyError, ValueError):
        return False


def value_order_classes(rows, keys, out=None, cfg=None):
    """which known string-order defects can explain a table whose ORDER BY output is not in value order (narrow: each class
    names the feature of the key column that the defect needs)"""
    cl = set()
    for k in keys:
        cells = [r[k] for r in rows if k in r]
        lits = [c for c in cells if c["k"] == "l"]
        if any(c["t"] == "int64" and int(c["v"]) < 0 for c in lits):
            cl.add("negative_int_order")
        fl = [T.float_of_bits(c["v"]) for c in lits if c["t"] == "float64"]
        if any(f < 0 for f in fl):
            cl.add("float_negative_order")
        if any(f >= 1e25 or f != f for f in fl):
            cl.add("float_width_order")
        if any(c["t"] == "text" and any(b <= 0x22 for b in bytes.fromhex(c.get("v", ""))) for c in lits):
            cl.add("text_quote_order")
        times = [c for c in cells if c["k"] == "t"]
        if len({c.get("off", 0) for c in times}) > 1:
            cl.add("anchor_zone_order")
        if len({len(c["str"]) for c in times}) > 1:
            cl.add("anchor_precision_order")
        for c in cells:
            if c["k"] == "s":
                s = bytes.fromhex(c.get("s", ""))
                if s != s.strip(b" \t\n\v\f\r"):
                    cl.add("string_trimspace_order")
    # precision beyond the sixth decimal: excused only if the output IS in order once float64 values are reduced to six decimals
    if out is not None and cfg and tolerant_first_rows(rows, out, cfg):
        cl.add("float_precision_order")
    return cl


def has_dup_keys(cfg):
    bs = [k["b"] for k in cfg or []]
    return len(bs) != len(set(bs))


def pushdown_applies(c):
    """single clause that fixes neither subject, predicate nor object; positive LIMIT smaller than the graph"""
    return c.get("pd_mask") is not None and c.get("limit") is not None and 0 < c["limit"] < len(c["pd_mask"])


# ---------------------------------------------------------------- rendering cases as Corr.v calls

def sort_item(c):
    def f(t):
        ids = T.binding_ids([c["in"], c["out"] or []], extra=[k["b"] for k in c["cfg"] or []])
        cfg = "None" if c["nilcfg"] else "(Some %s)" % T.keys_term(c["cfg"] or [], ids)
        out = None if c["outcome"] != "ok" else t.rowlist(c["out"], ids)
        return "sort_verdict " + T.VM + " %s %s %s" % (cfg, t.rowlist(c["in"], ids), T.opt(out))
    return f


def limit_item(c):
    def f(t):
        ids = T.binding_ids([c["in"], c["out"] or []])
        out = None if c["outcome"] != "ok" else t.rowlist(c["out"], ids)
        return "limit_verdict %s %s %s" % (T.zlit(c["n"]), t.rowlist(c["in"], ids), T.opt(out))
    return f


def limtok_item(c):
    def f(t):
        p = c["parsed"]
        if p == "error":
            pl = "PLError"
        elif p == "nil":
            pl = "PLNil"
        elif p == "int64":
            pl = "(PL (VInt %s))" % T.zlit(c["int"])
        elif p == "float64":
            pl = "(PL (VFloat (S754_zero false)))"
        elif p == "bool":
            pl = "(PL (VBool true))"
        elif p == "text":
            pl = "(PL (VText []))"
        else:
            pl = "(PL (VBlob []))"
        oc = {"ok": 0, "parse": 1, "panic": 2}[c["outcome"]]
        return "limtok_verdict (mkLimTok true %s) %d%%N %s" % (pl, oc, T.zlit(c.get("limit") or 0))
    return f


def e2e_item(c):
    def f(t):
        base = c["base"].get("rows") or []
        res = c["res"]
        ids = T.binding_ids([base, res.get("rows") or []], extra=c["base"].get("bindings") or [])
        for k in (c.get("cfg") or []) + (c.get("cfg_seen") or []):
            ids.setdefault(k["b"], len(ids) + 1)
        outs = "[" + "; ".join("%d%%N" % ids[b] for b in (c["base"].get("bindings") or [])) + "]"
        keys = T.keys_term(c.get("cfg") or [], ids)
        seen = T.keys_term(c.get("cfg_seen") or [], ids)
        lim = "None" if c.get("limit") is None else "(Some %s)" % T.zlit(c["limit"])
        pd = "None" if c.get("pd_mask") is None else "(Some [%s])" % "; ".join("true" if b else "false" for b in c["pd_mask"])
        exact = "false" if c["shape"] == "two-clause" else "true"
        r = None if res["outcome"] != "ok" else t.rowlist(res.get("rows") or [], ids)
        return "e2e12_verdict " + T.VM + " %s %s %s %s %s %s %s %s" % (outs, keys, seen, lim, pd, exact, t.rowlist(base, ids), T.opt(r))
    return f


# ---------------------------------------------------------------- the check

def run(ctx):
    if ctx.replay:
        return T.replay(ctx)
    import time as _t
    t0 = _t.time()
    phases = {}

    def mark(name):
        nonlocal t0
        phases[name] = round(_t.time() - t0, 1)
        t0 = _t.time()
    ctx.add_obligations(vcheck.coq_props("Table", "C12"))
    mark("props")
    ctx.cov["checker_cmd"] = ("coqc -Q coq/Table BWTable coq/Table/Props/C12.v; work/bin/h_table -mode sort|limit|limtok|e2e12|replay12; "
                              "Corr.sort_verdict / limit_verdict / limtok_verdict / e2e12_verdict evaluated by vm_compute")
    mult = 20 if ctx.tier == "thorough" else 1
    seed = ctx.seed
    open_classes = {f.get("class") for f in vcheck.known_findings("C12")}
    found_classes = collections.Counter()

    def excuse(case, classes, what):
        """a property failure is excused only if an OPEN finding's classifier accepts the case"""
        ok = [c for c in classes if c in open_classes]
        if not ok:
            ctx.violation({"kind": what, "classes_tried": sorted(classes), "case": case})
        else:
            for c in ok:
                found_classes[c] += 1

    # ---- Table.Sort driven directly
    sorts = T.htable(["-mode", "sort", "-n", 150 * mult, "-seed", seed])
    codes = T.coq_verdicts(ctx, "c12_sort", [sort_item(c) for c in sorts])
    dist = collections.Counter()
    for c, v in zip(sorts, codes):
        dist["sort:%s:%d" % (c["class"], v)] += 1
        if v == 2:
            ctx.violation({"kind": "Table.Sort disagrees with the model (or a D12 table is not in value order)", "case": c})
        elif v == 3:
            ctx.violation({"kind": "formatted string differs from the Gallina formatter", "case": c})
        elif v == 4:
            excuse(c, value_order_classes(c["in"], [k["b"] for k in c["cfg"]], c["out"], c["cfg"]), "ORDER BY output not in value order")
    mark("sort")
    # ---- Table.Limit
    limits = T.htable(["-mode", "limit", "-n", 60 * mult, "-seed", seed])
    toks = T.htable(["-mode", "limtok"])
    both = T.coq_verdicts(ctx, "c12_limit", [limit_item(c) for c in limits] + [limtok_item(c) for c in toks])
    lcodes, tcodes = both[:len(limits)], both[len(limits):]
    for c, v in zip(limits, lcodes):
        dist["limit:%s:%d" % (c["outcome"], v)] += 1
        if v >= 2:
            ctx.violation({"kind": "Table.Limit disagrees with the model", "case": c})
    # ---- LIMIT tokens through the statement parser
    for c, v in zip(toks, tcodes):
        dist["limtok:%s:%d" % (c["outcome"], v)] += 1
        if v >= 2:
            ctx.violation({"kind": "limitCollection disagrees with the model", "case": c})
        # the property itself: anything but a non-negative int64 literal must be REJECTED (an error, not a panic)
        good = c["parsed"] == "int64" and int(c["int"]) >= 0
        if not good and c["outcome"] != "parse":
            excuse(c, {"negative_limit_panic"} if c["parsed"] == "int64" else set(), "LIMIT token not rejected")
        if good and c["outcome"] != "ok":
            ctx.violation({"kind": "valid LIMIT rejected", "case": c})
        # independent reading of the token text: an int64 literal is an optional sign and DECIMAL digits (leading zeros are decimal,
        # no base prefix, no underscore); the statement then returns min(value, 12) of the 12 solutions
        m = re.fullmatch(r'"([+-]?[0-9]+)"\^\^type:int64', c["text"])
        dec = int(m.group(1)) if m and -2 ** 63 <= int(m.group(1)) < 2 ** 63 else None
        if c["text"].endswith("^^type:int64") and c["text"].startswith('"'):
            if (dec is not None) != (c["parsed"] == "int64") or (dec is not None and int(c["int"]) != dec):
                ctx.violation({"kind": "int64 literal parser oracle does not read the token as the decimal int64 grammar does", "case": c, "decimal": dec})
        if dec is not None and dec >= 0 and c["outcome"] == "ok" and (int(c["limit"]) != dec or c["rows"] != min(dec, 12)):
            ctx.violation({"kind": "LIMIT is not the decimal value of its int64 literal", "case": c, "decimal": dec})
    mark("limit+limtok")
    # ---- end to end
    e2e = T.htable(["-mode", "e2e12", "-n", 100 * mult, "-seed", seed])
    # two statements parsed by ONE parser before either is executed: each must still mean what its own text says
    e2e += T.htable(["-mode", "seq12", "-n", 15 * mult, "-seed", seed])
    if ctx.tier == "thorough":
        # exhaustive small scope: every key list of length <= 2 x every direction x every limit none, 0..N+1 over four graphs
        e2e += T.htable(["-mode", "grid12"])
        ctx.cov["exhaustive"] = "ORDER BY key lists of length <= 2 over 2 outputs x directions x limits none,0..N+1 x 4 fixed graphs"
    ecodes = T.coq_verdicts(ctx, "c12_e2e", [e2e_item(c) for c in e2e], shard=300)
    bad_outcomes = 0
    for c, v in zip(e2e, ecodes):
        dist["e2e:%s:%s:%d" % (c["shape"], c["res"]["outcome"], v)] += 1
        if c["base"]["outcome"] != "ok" or c["res"]["outcome"] not in ("ok", "parse"):
            bad_outcomes += 1
            ctx.violation({"kind": "statement failed unexpectedly", "case": {k: c[k] for k in ("q", "base_q", "triples")},
                           "base": c["base"]["outcome"], "res": c["res"]})
            continue
        if v == 2:
            ctx.violation({"kind": "ORDER BY / LIMIT through the planner disagrees with the model", "case": c})
        elif v == 3:
            ctx.violation({"kind": "formatted string differs from the Gallina formatter", "case": c})
        elif v in (4, 5, 6):
            cl = value_order_classes(c["base"].get("rows") or [], [k["b"] for k in c.get("cfg") or []],
                                     c["res"].get("rows") or [], c.get("cfg")) if v != 6 else set()
            if v in (5, 6) and pushdown_applies(c):
                cl = {"limit_pushdown"}
            if has_dup_keys(c.get("cfg")) and [k["b"] for k in c.get("cfg_seen") or []] != \
                    list(dict.fromkeys(k["b"] for k in c["cfg"])):
                cl.add("repeated_keys_map_order")
            excuse(c, cl, "ORDER BY/LIMIT result not the first rows in value order")
    mark("e2e")
    # ---- ORDER BY / LIMIT combined with GROUP BY and HAVING (aggregate outputs as keys): Exec.execute_tail
    import c13
    tails = T.htable(["-mode", "e2etail", "-n", 40 * mult, "-seed", seed + 1])
    # two grouping keys, SELECT / GROUP BY / ORDER BY naming them in independent orders, ORDER BY mostly a prefix of GROUP BY
    tails += T.htable(["-mode", "e2etailg", "-n", 80 * mult, "-seed", seed + 2])
    tcodes = T.coq_verdicts(ctx, "c12_tail", [c13.tail_item(c) for c in tails], imports="Reduce ReduceSpec Expr ExprSpec Exec", shard=300)
    for c, v in zip(tails, tcodes):
        dist["tail:%s:%s:%d" % (c["shape"], c["res"]["outcome"], v)] += 1
        if v == 4:
            excuse(c, c13.tail_classes(c), "a projected column does not hold the value of its binding in the solution")
        elif c["base"]["outcome"] != "ok" or v != 0:
            ctx.violation({"kind": "GROUP BY + ORDER BY + HAVING + LIMIT through the planner disagrees with Exec.execute_tail", "case": c})
    mark("tail")
    # ---- every literal / anchor cell is rendered as the reference formatting of its value (catches changes of the formatting code)
    ctx.cov["cells_rendering_checked"] = T.check_renderings(
        ctx, [c["in"] for c in sorts] + [c["base"].get("rows") for c in e2e] + [c["res"].get("rows") for c in e2e], "C12")
    # ---- size sweep of Table.Sort / Table.Limit (row counts around powers of two and typical thresholds)
    sweep = T.htable(["-mode", "sweep", "-n", 2 if ctx.tier == "thorough" else 1, "-seed", seed], timeout=1800)
    ctx.cov["size_sweep"] = T.check_sweep(ctx, sweep, ("sort", "limit"))
    ctx.cov["size_sweep_note"] = ("tables of the sweep are compared with the spec in Python (permutation, value order, prefix); they are "
                                  "not evaluated by the Gallina model inside Coq (quick: up to 5003 rows, thorough: up to 65537)")
    es = T.htable(["-mode", "e2esweep", "-n", 2 if ctx.tier == "thorough" else 1, "-seed", seed], timeout=1800)
    ctx.cov["statement_size_sweep"] = T.check_e2e_sweep(ctx, es, ("orderlimit",))
    ctx.cov["statement_size_sweep_note"] = "statements over graphs of 13..4099 (thorough: ..16385) triples, result compared with the spec in Python, not evaluated in Coq"
    # two operations on different tables at the same time give what each gives alone
    for cc in T.htable(["-mode", "conc", "-n", 25 * mult, "-seed", seed]):
        if cc["op"] in ("sort", "statement"):
            ctx.cov.setdefault("concurrent_pairs", {})[cc["op"]] = cc["trials"]
            if cc["mismatches"]:
                ctx.violation({"kind": "two concurrent operations on different tables disturb each other", "case": cc})
    mark("sweep")
    # ---- the two ORACLE order laws (assumed by C12_sorted_time_partial / C12_sorted_time_float_partial), sampled on Go's renderings
    samples = T.htable(["-mode", "oracle", "-n", 2000 * mult, "-seed", seed])
    groups = collections.defaultdict(list)
    for x in samples:
        if x["kind"] == "time":
            sv = bytes.fromhex(x["str"])
            groups[("t", x.get("off", 0), len(sv))].append((int(x["ns"]), sv))
        elif float_in_domain(x["bits"]):
            groups[("f",)].append((Fraction(T.float_of_bits(x["bits"])), bytes.fromhex(x["cmp"])))
    law_pairs = 0
    for key, items in groups.items():
        items.sort()
        for (v1, s1), (v2, s2) in zip(items, items[1:]):
            law_pairs += 1
            if (v1 < v2) != (s1 < s2) or (v1 == v2) != (s1 == s2) or s1 != s1.strip(b" \t\n\v\f\r"):
                ctx.violation({"kind": "oracle order law refuted by Go's rendering", "group": list(map(str, key)),
                               "a": [str(v1), s1.decode("latin1")], "b": [str(v2), s2.decode("latin1")]})
                break
    ctx.cov["oracle_law_adjacent_pairs_checked"] = law_pairs
    ctx.cov["oracle_law_groups"] = len(groups)
    # ---- known findings: replay each open one on the implementation
    T.replay_findings(ctx, "C12", "replay12")
    mark("oracle+replay")
    ctx.cov["phase_seconds"] = phases
    # ---- coverage
    allc = [("sort", c, v) for c, v in zip(sorts, codes)] + [("e2e", c, v) for c, v in zip(e2e, ecodes)]
    seen = set()
    for kind, c, v in allc:
        rows = c["in"] if kind == "sort" else (c["base"].get("rows") or [])
        if len(rows) >= 2 and (c.get("cfg") or c.get("limit") is not None):
            seen.add(vcheck.case_hash([kind, c.get("cfg"), c.get("limit"), rows]))
    ctx.cov["evaluations"] = len(sorts) + len(limits) + len(toks) + len(e2e) + len(tails)
    ctx.cov["distinct_nontrivial"] = len(seen)
    ctx.cov["rule"] = ("sort / e2e cases counted; non-trivial = at least two input rows and an ORDER BY key or a LIMIT; distinct "
                       "by hash of (keys, limit, input rows)")
    ctx.cov["verdicts"] = dict(sorted(dist.items()))
    ctx.cov["in_D12"] = sum(1 for v in codes + ecodes if v == 1)
    ctx.cov["finding_classes_met_in_random_cases"] = dict(found_classes)
    ctx.cov["samples"] = [{"cfg": c["cfg"], "in": [r.get("?a", {}).get("v") for r in c["in"]][:6], "class": c["class"]} for c in sorts[:2]] + \
                         [{"q": c["q"], "rows": len(c["res"].get("rows") or [])} for c in e2e[:2]]
    ctx.cov["sizes"] = {"rows_max": max(len(c["in"]) for c in sorts), "rows_over_12": sum(1 for c in sorts if len(c["in"]) > 12)}
    if ecodes and sum(1 for c in e2e if not (c["base"].get("rows"))) > 0.3 * len(e2e):
        ctx.violation({"kind": "generator unhealthy: more than 30% empty base tables"})
    ctx.assumptions += ["value order is checked on every table whose key columns hold one kind each; outside D12 a failure "
                        "must be accepted by the classifier of an OPEN finding, otherwise it is a violation",
                        "mixed-kind key columns: only permutation (and exact agreement with Go's insertion sort up to 12 rows)"]
    ctx.assumptions += ["_partial domain D12 (SortSpec.d12_gen): one kind (and literal type) per key column; int64 >= 0 rendered as %032d; text without "
                        "bytes <= 0x22; bool/blob/node/predicate/string cells by printed form without outer white space; anchors of one zone and "
                        "one precision and float64 finite, 0 <= f < 10^25, at most six decimals under the two ORACLE order laws (sampled on Go's "
                        "renderings in every run: oracle_law_adjacent_pairs_checked); evaluated per case inside Coq (verdict 1 = inside D12)"]

def search(ctx, broken):
    """an obligation or the build broke: look for a concrete input on which the engine violates the property"""
    try:
        for r in T.htable(["-mode", "replay12"]):
            if r["fails"] and r["id"] not in {f.get("id") for f in vcheck.known_findings("C12")}:
                return r
    except Exception:
        return None
    return None
