// Package hookfacts extracts, with go/ast, which variables the semantic hook closures and the parser methods write that
// outlive one call: variables captured by a hook closure (or package-level variables) assigned inside the closure body,
// and fields of the Parser / Grammar values assigned by Parser methods.
package hookfacts

import (
	"fmt"
	"go/ast"
	"go/parser"
	"go/token"
	"sort"
)

// ClosureWrites maps each top-level function of hooks.go that builds a hook closure to the free variables (captured or
// package level) that the closure body assigns, increments, or assigns through (m[k] = v, x.f = v, *p = v).
func ClosureWrites(path string) (map[string][]string, error) {
	fset := token.NewFileSet()
	f, err := parser.ParseFile(fset, path, nil, 0)
	if err != nil {
		return nil, err
	}
	out := map[string][]string{}
	for _, d := range f.Decls {
		fd, ok := d.(*ast.FuncDecl)
		if !ok || fd.Body == nil || fd.Recv != nil {
			continue
		}
		hasLit := false
		writes := map[string]bool{}
		ast.Inspect(fd.Body, func(n ast.Node) bool {
			lit, ok := n.(*ast.FuncLit)
			if !ok {
				return true
			}
			hasLit = true
			local := declaredIn(lit)
			record := func(e ast.Expr) {
				if id := baseIdent(e); id != nil && !local[id.Name] && id.Name != "_" {
					// writes through a parameter of the literal (st.x = ..., c.S = ...) are not closure state: parameters and
					// locals are in `local`; what remains is captured or package level
					writes[id.Name] = true
				}
			}
			ast.Inspect(lit.Body, func(m ast.Node) bool {
				switch s := m.(type) {
				case *ast.AssignStmt:
					if s.Tok == token.DEFINE {
						return true
					}
					for _, l := range s.Lhs {
						record(l)
					}
				case *ast.IncDecStmt:
					record(s.X)
				case *ast.CallExpr:
					// delete(m, k) on a captured map
					if id, ok := s.Fun.(*ast.Ident); ok && id.Name == "delete" && len(s.Args) > 0 {
						record(s.Args[0])
					}
				}
				return true
			})
			return false // nested literals were visited by the inner Inspect
		})
		if hasLit {
			var ws []string
			for w := range writes {
				ws = append(ws, w)
			}
			sort.Strings(ws)
			out[fd.Name.Name] = ws
		}
	}
	return out, nil
}

// declaredIn returns the names a function literal declares itself: parameters, results, := definitions, var
// declarations, range variables (flow-insensitively; shadowing is not tracked).
func declaredIn(lit *ast.FuncLit) map[string]bool {
	d := map[string]bool{}
	addFields := func(fl *ast.FieldList) {
		if fl == nil {
			return
		}
		for _, f := range fl.List {
			for _, n := range f.Names {
				d[n.Name] = true
			}
		}
	}
	addFields(lit.Type.Params)
	addFields(lit.Type.Results)
	ast.Inspect(lit.Body, func(n ast.Node) bool {
		switch s := n.(type) {
		case *ast.AssignStmt:
			if s.Tok == token.DEFINE {
				for _, l := range s.Lhs {
					if id, ok := l.(*ast.Ident); ok {
						d[id.Name] = true
					}
				}
			}
		case *ast.GenDecl:
			for _, sp := range s.Specs {
				if vs, ok := sp.(*ast.ValueSpec); ok {
					for _, n := range vs.Names {
						d[n.Name] = true
					}
				}
			}
		case *ast.RangeStmt:
			if s.Tok == token.DEFINE {
				for _, e := range []ast.Expr{s.Key, s.Value} {
					if id, ok := e.(*ast.Ident); ok {
						d[id.Name] = true
					}
				}
			}
		case *ast.FuncLit:
			if s != lit {
				addFields(s.Type.Params)
			}
		}
		return true
	})
	return d
}

func baseIdent(e ast.Expr) *ast.Ident {
	for {
		switch x := e.(type) {
		case *ast.Ident:
			return x
		case *ast.SelectorExpr:
			e = x.X
		case *ast.IndexExpr:
			e = x.X
		case *ast.StarExpr:
			e = x.X
		case *ast.ParenExpr:
			e = x.X
		default:
			return nil
		}
	}
}

// ReceiverWrites lists, for the methods of type typeName in the file, the receiver fields (and package-level variables)
// they assign: "Method.field".
func ReceiverWrites(path, typeName string) ([]string, error) {
	fset := token.NewFileSet()
	f, err := parser.ParseFile(fset, path, nil, 0)
	if err != nil {
		return nil, err
	}
	pkgVars := map[string]bool{}
	for _, d := range f.Decls {
		if gd, ok := d.(*ast.GenDecl); ok && gd.Tok == token.VAR {
			for _, sp := range gd.Specs {
				for _, n := range sp.(*ast.ValueSpec).Names {
					pkgVars[n.Name] = true
				}
			}
		}
	}
	var out []string
	for _, d := range f.Decls {
		fd, ok := d.(*ast.FuncDecl)
		if !ok || fd.Body == nil {
			continue
		}
		recv := ""
		if fd.Recv != nil && len(fd.Recv.List) == 1 {
			t := fd.Recv.List[0].Type
			if st, ok := t.(*ast.StarExpr); ok {
				t = st.X
			}
			if id, ok := t.(*ast.Ident); ok && id.Name == typeName && len(fd.Recv.List[0].Names) == 1 {
				recv = fd.Recv.List[0].Names[0].Name
			}
		}
		record := func(e ast.Expr) {
			id := baseIdent(e)
			if id == nil {
				return
			}
			if recv != "" && id.Name == recv {
				if _, isIdent := e.(*ast.Ident); !isIdent {
					out = append(out, fmt.Sprintf("%s.%s", fd.Name.Name, exprString(e)))
				}
			} else if pkgVars[id.Name] {
				out = append(out, fmt.Sprintf("%s.%s", fd.Name.Name, id.Name))
			}
		}
		ast.Inspect(fd.Body, func(n ast.Node) bool {
			switch s := n.(type) {
			case *ast.AssignStmt:
				if s.Tok != token.DEFINE {
					for _, l := range s.Lhs {
						record(l)
					}
				}
			case *ast.IncDecStmt:
				record(s.X)
			}
			return true
		})
	}
	sort.Strings(out)
	return out, nil
}

func exprString(e ast.Expr) string {
	switch x := e.(type) {
	case *ast.Ident:
		return x.Name
	case *ast.SelectorExpr:
		return exprString(x.X) + "." + x.Sel.Name
	case *ast.IndexExpr:
		return exprString(x.X) + "[]"
	case *ast.StarExpr:
		return "*" + exprString(x.X)
	}
	return "?"
}
