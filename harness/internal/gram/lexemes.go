package gram

import (
	"strings"

	"github.com/google/badwolf/bql/lexer"
)

// one lexeme per token kind (chosen so that the lexer gives back the kind in the contexts the grammar allows)
func Lexeme(k int) string {
	switch lexer.TokenType(k) {
	case lexer.ItemError:
		return "\"unterminated"
	case lexer.ItemEOF:
		return ""
	case lexer.ItemQuery:
		return "select"
	case lexer.ItemInsert:
		return "insert"
	case lexer.ItemDelete:
		return "delete"
	case lexer.ItemCreate:
		return "create"
	case lexer.ItemConstruct:
		return "construct"
	case lexer.ItemDeconstruct:
		return "deconstruct"
	case lexer.ItemDrop:
		return "drop"
	case lexer.ItemGraph:
		return "graph"
	case lexer.ItemData:
		return "data"
	case lexer.ItemInto:
		return "into"
	case lexer.ItemFrom:
		return "from"
	case lexer.ItemWhere:
		return "where"
	case lexer.ItemAs:
		return "as"
	case lexer.ItemType:
		return "type"
	case lexer.ItemID:
		return "id"
	case lexer.ItemAt:
		return "at"
	case lexer.ItemIn:
		return "in"
	case lexer.ItemBefore:
		return "before"
	case lexer.ItemAfter:
		return "after"
	case lexer.ItemBetween:
		return "between"
	case lexer.ItemCount:
		return "count"
	case lexer.ItemDistinct:
		return "distinct"
	case lexer.ItemSum:
		return "sum"
	case lexer.ItemGroup:
		return "group"
	case lexer.ItemBy:
		return "by"
	case lexer.ItemOrder:
		return "order"
	case lexer.ItemHaving:
		return "having"
	case lexer.ItemAsc:
		return "asc"
	case lexer.ItemDesc:
		return "desc"
	case lexer.ItemLimit:
		return "limit"
	case lexer.ItemBinding:
		return "?x"
	case lexer.ItemNode:
		return "/u<a>"
	case lexer.ItemBlankNode:
		return "_:v"
	case lexer.ItemLiteral:
		return "\"1\"^^type:int64"
	case lexer.ItemPredicate:
		return "\"p\"@[]"
	case lexer.ItemPredicateBound:
		return "\"p\"@[,]"
	case lexer.ItemTime:
		return "2006-01-02T15:04:05Z"
	case lexer.ItemLBracket:
		return "{"
	case lexer.ItemRBracket:
		return "}"
	case lexer.ItemLPar:
		return "("
	case lexer.ItemRPar:
		return ")"
	case lexer.ItemDot:
		return "."
	case lexer.ItemSemicolon:
		return ";"
	case lexer.ItemComma:
		return ","
	case lexer.ItemLT:
		return "<"
	case lexer.ItemGT:
		return ">"
	case lexer.ItemEQ:
		return "="
	case lexer.ItemNot:
		return "not"
	case lexer.ItemAnd:
		return "and"
	case lexer.ItemOr:
		return "or"
	case lexer.ItemShow:
		return "show"
	case lexer.ItemGraphs:
		return "graphs"
	case lexer.ItemOptional:
		return "optional"
	case lexer.ItemFilter:
		return "filter"
	case lexer.ItemFilterFunction:
		return "latest"
	}
	return "@"
}

// variant lexemes with characters that only matter to code that looks INSIDE token texts (comment markers, separators,
// blanks, escaped quotes); each still lexes to the same kind
var variants = map[lexer.TokenType][]string{
	lexer.ItemLiteral:   {`"1"^^type:int64`, `"#tag"^^type:text`, `"a;b // c"^^type:text`, `"x  y"^^type:text`, `"say \\\"hi\\\" #1"^^type:text`},
	lexer.ItemNode:      {`/u<a>`, `/room<12#b>`, `/u<a;b>`, `/t<x y>`},
	lexer.ItemPredicate: {`"p"@[]`, `"see#also"@[]`, `"a;b"@[]`, `"p q"@[]`},
	lexer.ItemBinding:   {`?x`, `?y`, `?X`, `?x_1`},
}

// RenderVariant is Render with the k-th variant lexeme for the kinds that have variants (k = position + salt).
func RenderVariant(toks []int, salt int) string {
	var b strings.Builder
	for i, t := range toks {
		if vs, ok := variants[lexer.TokenType(t)]; ok {
			b.WriteString(vs[(i+salt)%len(vs)])
		} else {
			b.WriteString(Lexeme(t))
		}
		if i+1 < len(toks) && !(lexer.TokenType(t) == lexer.ItemFilterFunction && lexer.TokenType(toks[i+1]) == lexer.ItemLPar) {
			b.WriteString(" ")
		}
	}
	return b.String()
}

func Render(toks []int) string {
	var b strings.Builder
	for i, t := range toks {
		b.WriteString(Lexeme(t))
		// the lexer (lexFilterFunction) does not accept whitespace between a filter function name and "("
		if i+1 < len(toks) && !(lexer.TokenType(t) == lexer.ItemFilterFunction && lexer.TokenType(toks[i+1]) == lexer.ItemLPar) {
			b.WriteString(" ")
		}
	}
	return b.String()
}

func LexKinds(text string) []int {
	var out []int
	for t := range lexer.New(text, 0) {
		out = append(out, int(t.Type))
	}
	return out
}

// Lexable reports whether the rendering of toks lexes back to exactly toks followed by EOF.
func Lexable(toks []int) bool {
	got := LexKinds(Render(toks))
	if len(got) != len(toks)+1 || got[len(toks)] != EOF {
		return false
	}
	for i := range toks {
		if got[i] != toks[i] {
			return false
		}
	}
	return true
}
