// Package gram reads a badwolf grammar value into a plain table and provides a reference table-driven parser
// (same control flow as grammar.Parser.consume/expect) used for the untrusted witness search.
package gram

import (
	"reflect"
	"runtime"
	"sort"
	"strings"

	"github.com/google/badwolf/bql/grammar"
	"github.com/google/badwolf/bql/lexer"
)

type Elem struct {
	IsSym bool
	Sym   string
	Tok   int
}

type Alt struct {
	Elems                        []Elem
	HasStart, HasEnd, HasElem    bool
	StartName, EndName, ElemName string // Go function names of the hooks ("" when absent)
}

type G struct {
	Syms   []string // sorted
	SymIdx map[string]int
	Rules  map[string][]Alt
}

type AltID struct{ Sym, Alt int }

// FromBQL converts a grammar; Element.isSymbol is unexported and is read through reflection (read-only).
func FromBQL(g *grammar.Grammar) *G {
	r := &G{SymIdx: map[string]int{}, Rules: map[string][]Alt{}}
	for s := range *g {
		r.Syms = append(r.Syms, string(s))
	}
	sort.Strings(r.Syms)
	for i, s := range r.Syms {
		r.SymIdx[s] = i
	}
	for s, cls := range *g {
		var alts []Alt
		for _, c := range cls {
			a := Alt{HasStart: c.ProcessStart != nil, HasEnd: c.ProcessEnd != nil, HasElem: c.ProcessedElement != nil}
			a.StartName, a.EndName, a.ElemName = funcName(c.ProcessStart), funcName(c.ProcessEnd), funcName(c.ProcessedElement)
			for _, e := range c.Elements {
				isSym := reflect.ValueOf(e).FieldByName("isSymbol").Bool()
				a.Elems = append(a.Elems, Elem{IsSym: isSym, Sym: string(e.Symbol()), Tok: int(e.Token())})
			}
			alts = append(alts, a)
		}
		r.Rules[string(s)] = alts
	}
	return r
}

// TokenNames lists TokenType.String() for 0.. until the first "UNKNOWN".
func TokenNames() []string {
	var out []string
	for i := 0; i < 1000; i++ {
		n := lexer.TokenType(i).String()
		if n == "UNKNOWN" {
			break
		}
		out = append(out, n)
	}
	return out
}

const EOF = int(lexer.ItemEOF)

// Parse runs the table-driven reference parser (mirror of consume/expect) over token kinds, with infinite EOF
// padding, and returns acceptance, the alternatives taken, and the number of tokens consumed.
func (g *G) Parse(toks []int) (ok bool, trace []AltID, consumed int) {
	pos := 0
	cur := func() int {
		if pos < len(toks) {
			return toks[pos]
		}
		return EOF
	}
	var consume func(s string, depth int) bool
	consume = func(s string, depth int) bool {
		if depth > 10000 {
			return false
		}
		for i, a := range g.Rules[s] {
			if len(a.Elems) == 0 {
				trace = append(trace, AltID{g.SymIdx[s], i})
				return true
			}
			e := a.Elems[0]
			if e.IsSym {
				return false
			}
			if cur() == e.Tok {
				trace = append(trace, AltID{g.SymIdx[s], i})
				for _, el := range a.Elems {
					if el.IsSym {
						if !consume(el.Sym, depth+1) {
							return false
						}
					} else {
						if cur() != el.Tok {
							return false
						}
						pos++
					}
				}
				return true
			}
		}
		return false
	}
	ok = consume("START", 0)
	return ok, trace, pos
}

// minimal sentences per symbol (fixpoint), nil = not productive (yet)
func (g *G) minSentences() map[string][]int {
	min := map[string][]int{}
	has := map[string]bool{}
	for changed := true; changed; {
		changed = false
		for _, s := range g.Syms {
			for _, a := range g.Rules[s] {
				sent, ok := g.expand(a, min, has)
				if !ok {
					continue
				}
				if !has[s] || len(sent) < len(min[s]) {
					min[s], has[s] = sent, true
					changed = true
				}
			}
		}
	}
	for _, s := range g.Syms {
		if !has[s] {
			delete(min, s)
		}
	}
	return min
}

func (g *G) expand(a Alt, min map[string][]int, has map[string]bool) ([]int, bool) {
	sent := []int{}
	for _, e := range a.Elems {
		if e.IsSym {
			if !has[e.Sym] {
				return nil, false
			}
			sent = append(sent, min[e.Sym]...)
		} else {
			sent = append(sent, e.Tok)
		}
	}
	return sent, true
}

type ctx struct{ pre, post []int }

// Witnesses searches, for every alternative, a sentence of START whose reference parse takes that alternative.
// Candidate sentences: context(prefix/suffix) of the symbol x the alternative's expansion, over several
// contexts per symbol (BFS over occurrences, a few variants for the material that follows).
func Witnesses(g *G, lexable func([]int) bool) map[AltID][]int {
	good := map[AltID]bool{}
	min := g.minSentences()
	has := map[string]bool{}
	for s := range min {
		has[s] = true
	}
	// contexts: for each symbol a list of (pre, post) token sequences such that pre ++ <s> ++ post derives from START
	ctxs := map[string][]ctx{"START": {{nil, nil}}}
	queue := []string{"START"}
	seen := map[string]bool{"START": true}
	const maxCtx = 400
	for len(queue) > 0 {
		s := queue[0]
		queue = queue[1:]
		for _, a := range g.Rules[s] {
			for k, e := range a.Elems {
				if !e.IsSym {
					continue
				}
				// variants for the elements after position k: minimal, and each following symbol expanded with each of its alternatives
				pre := []int{}
				okp := true
				for _, x := range a.Elems[:k] {
					if x.IsSym {
						if !has[x.Sym] {
							okp = false
							break
						}
						pre = append(pre, min[x.Sym]...)
					} else {
						pre = append(pre, x.Tok)
					}
				}
				if !okp {
					continue
				}
				posts := g.postVariants(a.Elems[k+1:], min, has)
				added := 0
				for _, c := range ctxs[s] {
					for _, po := range posts {
						if len(ctxs[e.Sym]) >= maxCtx || added >= 8 {
							break
						}
						added++
						nc := ctx{append(append([]int{}, c.pre...), pre...), append(append([]int{}, po...), c.post...)}
						ctxs[e.Sym] = append(ctxs[e.Sym], nc)
					}
				}
				if !seen[e.Sym] {
					seen[e.Sym] = true
					queue = append(queue, e.Sym)
				}
			}
		}
	}
	res := map[AltID][]int{}
	for _, s := range g.Syms {
		for i, a := range g.Rules[s] {
			id := AltID{g.SymIdx[s], i}
			body, ok := g.expand(a, min, has)
			if !ok {
				continue
			}
			for _, c := range ctxs[s] {
				sent := append(append(append([]int{}, c.pre...), body...), c.post...)
				acc, tr, n := g.Parse(sent)
				if !acc || n != len(sent) {
					continue
				}
				found := false
				for _, t := range tr {
					if t == id {
						found = true
						break
					}
				}
				if found {
					lx := lexable == nil || lexable(sent)
					old, ok := res[id]
					if !ok || (lx && !good[id]) || (lx == good[id] && len(sent) < len(old)) {
						res[id] = sent
						good[id] = lx
					}
				}
			}
		}
	}
	return res
}

func (g *G) postVariants(rest []Elem, min map[string][]int, has map[string]bool) [][]int {
	base := []int{}
	for _, x := range rest {
		if x.IsSym {
			if !has[x.Sym] {
				return nil
			}
			base = append(base, min[x.Sym]...)
		} else {
			base = append(base, x.Tok)
		}
	}
	out := [][]int{base}
	// one variant per (following symbol, alternative): that symbol expanded through that alternative
	for j, x := range rest {
		if !x.IsSym {
			continue
		}
		for _, a := range g.Rules[x.Sym] {
			body, ok := g.expand(a, min, has)
			if !ok {
				continue
			}
			v := []int{}
			for jj, y := range rest {
				if jj == j {
					v = append(v, body...)
				} else if y.IsSym {
					v = append(v, min[y.Sym]...)
				} else {
					v = append(v, y.Tok)
				}
			}
			out = append(out, v)
		}
	}
	return out
}

// funcName returns the short name of the function that created a hook closure, e.g. "dataAccumulator".
func funcName(f interface{}) string {
	v := reflect.ValueOf(f)
	if !v.IsValid() || v.IsNil() {
		return ""
	}
	n := runtime.FuncForPC(v.Pointer()).Name() // github.com/google/badwolf/bql/semantic.dataAccumulator.func1
	if i := strings.LastIndex(n, "/"); i >= 0 {
		n = n[i+1:]
	}
	// with inlining the name reads grammar.SemanticBQL.<Exported>Hook.<creator>.func1: keep the creator
	parts := strings.Split(n, ".")
	for len(parts) > 0 && (strings.HasPrefix(parts[len(parts)-1], "func") || parts[len(parts)-1] == "") {
		parts = parts[:len(parts)-1]
	}
	if len(parts) > 0 {
		return parts[len(parts)-1]
	}
	return n
}

// RandomSentence expands START by a random derivation: random alternatives down to maxDepth, minimal sentences below.
// pick(n) must return a number in [0,n).
func (g *G) RandomSentence(pick func(int) int, maxDepth int) []int {
	min := g.minSentences()
	var out []int
	var rec func(s string, d int)
	rec = func(s string, d int) {
		alts := g.Rules[s]
		if len(alts) == 0 {
			return
		}
		if d >= maxDepth || len(out) > 400 {
			out = append(out, min[s]...)
			return
		}
		a := alts[pick(len(alts))]
		for _, e := range a.Elems {
			if e.IsSym {
				rec(e.Sym, d+1)
			} else {
				out = append(out, e.Tok)
			}
		}
	}
	rec("START", 0)
	return out
}
