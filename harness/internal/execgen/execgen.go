// Package execgen: statement generator, value encoding and engine driver shared by h_exec (C04) and h_fault (C20).
package execgen

import (
	"context"
	"fmt"
	"math/rand"
	"regexp"
	"sort"
	"strings"
	"time"

	"github.com/google/badwolf/bql/grammar"
	"github.com/google/badwolf/bql/planner"
	"github.com/google/badwolf/bql/semantic"
	"github.com/google/badwolf/bql/table"
	"github.com/google/badwolf/storage"
	"github.com/google/badwolf/triple"
	"github.com/google/badwolf/triple/node"
	"github.com/google/badwolf/triple/predicate"
)

// ---------------------------------------------------------------- value encoding shared with the check

type VNode struct {
	T string `json:"t,omitempty"`
	I string `json:"i,omitempty"`
	B *int   `json:"b,omitempty"`
}
type VPred struct {
	ID string `json:"id"`
	A  *int64 `json:"a"`
	// Z: zone offset in minutes used when the anchor is WRITTEN into a statement text; not part of the value (the
	// instant A identifies the anchor), never set on observed predicates
	Z int `json:"z,omitempty"`
}
type VObj struct {
	N *VNode  `json:"n,omitempty"`
	P *VPred  `json:"p,omitempty"`
	L *string `json:"l,omitempty"`
}
type VTriple struct {
	S VNode `json:"s"`
	P VPred `json:"p"`
	O VObj  `json:"o"`
}
type VCell struct {
	N    *VNode  `json:"n,omitempty"`
	P    *VPred  `json:"p,omitempty"`
	L    *string `json:"l,omitempty"`
	T    *int64  `json:"t,omitempty"`
	Null bool    `json:"null,omitempty"`
	S    *string `json:"s,omitempty"`
}
type VPop struct {
	P   *VPred `json:"P"`
	PB  string `json:"PB"`
	PID string `json:"PID"`
	PAB string `json:"PAB"`
	PT  bool   `json:"PT"`
	O   *VObj  `json:"O"`
	OB  string `json:"OB"`
	OID string `json:"OID"`
	OAB string `json:"OAB"`
	OT  bool   `json:"OT"`
}
type VClause struct {
	S     *VNode `json:"S"`
	SB    string `json:"SB"`
	Pairs []VPop `json:"pairs"`
}
type VQ struct {
	Ok   bool                `json:"ok"`
	Rows []map[string]*VCell `json:"rows"`
}
type VStmt struct {
	Kind string    `json:"kind"`
	Gs   []string  `json:"gs,omitempty"`
	Ts   []VTriple `json:"ts,omitempty"`
	Add  bool      `json:"add,omitempty"`
	Tmpl []VClause `json:"tmpl,omitempty"`
	Outs []string  `json:"outs,omitempty"`
	Ins  []string  `json:"ins,omitempty"`
	Vars []string  `json:"vars,omitempty"`
	WB   []string  `json:"wb,omitempty"`
	Q    *VQ       `json:"q,omitempty"`
	Text string    `json:"text"`
	Note string    `json:"note,omitempty"`
	Hav  string    `json:"having,omitempty"`
	Obs  *Observed `json:"obs,omitempty"`
}
type Observed struct {
	Class string               `json:"class"` // ok | reject | error | nilnil | panic | hang
	Err   string               `json:"err,omitempty"`
	Show  []string             `json:"show,omitempty"`
	NRows int                  `json:"nrows"`
	After map[string][]VTriple `json:"after"`
	Gor   int                  `json:"goroutines_delta"`
}
type Seq struct {
	ID    int                  `json:"id"`
	Bulk  int                  `json:"bulk"`
	Prev  map[string][]VTriple `json:"prev,omitempty"` // store the first reported statement starts from (default: empty)
	Stmts []VStmt              `json:"stmts"`
	Burst *Burst               `json:"burst,omitempty"`
}

// Burst: statements issued concurrently (CREATE GRAPH of one new name, then INSERT of an own triple, per goroutine)
type Burst struct {
	Workers   int       `json:"workers"`
	CreateOK  int       `json:"create_ok"`
	InsertOK  []VTriple `json:"insert_ok"` // triples whose INSERT reported success
	Final     []VTriple `json:"final"`     // listing of the graph afterwards
	GraphSeen bool      `json:"graph_seen"`
}

// ---------------------------------------------------------------- blank-node numbering

var uuidRe = regexp.MustCompile(`^[0-9a-f]{8}-[0-9a-f]{4}-[0-9a-f]{4}-[0-9a-f]{4}-[0-9a-f]{12}$`)

type Blanks struct {
	Num  map[string]int
	UUID []string
}

func (b *Blanks) of(id string) int {
	if k, ok := b.Num[id]; ok {
		return k
	}
	k := len(b.UUID)
	b.Num[id] = k
	b.UUID = append(b.UUID, id)
	return k
}

func (b *Blanks) node(n *node.Node) VNode {
	t, i := n.Type().String(), n.ID().String()
	if t == "/_" && uuidRe.MatchString(i) {
		k := b.of(i)
		return VNode{B: &k}
	}
	return VNode{T: t, I: i}
}

func (b *Blanks) pred(p *predicate.Predicate) VPred {
	v := VPred{ID: string(p.ID())}
	if p.Type() == predicate.Temporal {
		ta, _ := p.TimeAnchor()
		ns := ta.UnixNano()
		v.A = &ns
	}
	return v
}

func (b *Blanks) obj(o *triple.Object) VObj {
	if n, err := o.Node(); err == nil {
		v := b.node(n)
		return VObj{N: &v}
	}
	if p, err := o.Predicate(); err == nil {
		v := b.pred(p)
		return VObj{P: &v}
	}
	l, _ := o.Literal()
	s := l.String()
	return VObj{L: &s}
}

func (b *Blanks) triple(t *triple.Triple) VTriple {
	return VTriple{S: b.node(t.Subject()), P: b.pred(t.Predicate()), O: b.obj(t.Object())}
}

func (b *Blanks) cell(c *table.Cell) *VCell {
	switch {
	case c == nil:
		return &VCell{Null: true}
	case c.N != nil:
		v := b.node(c.N)
		return &VCell{N: &v}
	case c.P != nil:
		v := b.pred(c.P)
		return &VCell{P: &v}
	case c.L != nil:
		s := c.L.String()
		return &VCell{L: &s}
	case c.T != nil:
		ns := c.T.UnixNano()
		return &VCell{T: &ns}
	case c.S != nil:
		s := *c.S
		return &VCell{S: &s}
	}
	return &VCell{Null: true}
}

// ---------------------------------------------------------------- text rendering of model values

func (b *Blanks) nodeText(n VNode) string {
	if n.B != nil {
		return "/_<" + b.UUID[*n.B] + ">"
	}
	return n.T + "<" + n.I + ">"
}
func predText(p VPred) string {
	if p.A == nil {
		return fmt.Sprintf("%q@[]", p.ID)
	}
	t := time.Unix(0, *p.A).UTC()
	if p.Z != 0 {
		t = t.In(time.FixedZone("", p.Z*60))
	}
	return fmt.Sprintf("%q@[%s]", p.ID, t.Format(time.RFC3339Nano))
}

// zones in which the same instant gets spelled
var zones = []int{0, 0, 120, -330}

func (b *Blanks) objText(o VObj) string {
	switch {
	case o.N != nil:
		return b.nodeText(*o.N)
	case o.P != nil:
		return predText(*o.P)
	}
	return *o.L
}
func (b *Blanks) TripleText(t VTriple) string {
	return b.nodeText(t.S) + " " + predText(t.P) + " " + b.objText(t.O)
}

// ---------------------------------------------------------------- running the real engine

func Listing(ctx context.Context, st storage.Store, b *Blanks) map[string][]VTriple {
	out := map[string][]VTriple{}
	ch := make(chan string, 64)
	go st.GraphNames(ctx, ch)
	var names []string
	for n := range ch {
		names = append(names, n)
	}
	sort.Strings(names)
	for _, n := range names {
		g, err := st.Graph(ctx, n)
		if err != nil {
			continue
		}
		tc := make(chan *triple.Triple, 64)
		go g.Triples(ctx, storage.DefaultLookup, tc)
		var ts []*triple.Triple
		for t := range tc {
			ts = append(ts, t)
		}
		sort.Slice(ts, func(i, j int) bool { return ts[i].String() < ts[j].String() })
		vs := []VTriple{}
		for _, t := range ts {
			vs = append(vs, b.triple(t))
		}
		out[n] = vs
	}
	return out
}

type ExecResult struct {
	Class string
	Err   string
	Tbl   *table.Table
}

func NewBlanks() *Blanks { return &Blanks{Num: map[string]int{}} }

func Execute(ctx context.Context, st storage.Store, text string, bulk int) ExecResult {
	done := make(chan ExecResult, 1)
	go func() {
		defer func() {
			if r := recover(); r != nil {
				done <- ExecResult{Class: "panic", Err: fmt.Sprint(r)}
			}
		}()
		p, err := grammar.NewParser(grammar.SemanticBQL())
		if err != nil {
			done <- ExecResult{Class: "reject", Err: err.Error()}
			return
		}
		stm := &semantic.Statement{}
		if err := p.Parse(grammar.NewLLk(text, 1), stm); err != nil {
			done <- ExecResult{Class: "reject", Err: err.Error()}
			return
		}
		pln, err := planner.New(ctx, st, stm, 4, bulk, nil)
		if err != nil {
			done <- ExecResult{Class: "reject", Err: err.Error()}
			return
		}
		tbl, err := pln.Execute(ctx)
		switch {
		case err != nil:
			done <- ExecResult{Class: "error", Err: err.Error()}
		case tbl == nil:
			done <- ExecResult{Class: "nilnil"}
		default:
			done <- ExecResult{Class: "ok", Tbl: tbl}
		}
	}()
	select {
	case r := <-done:
		return r
	case <-time.After(5 * time.Second):
		return ExecResult{Class: "hang"}
	}
}

// ---------------------------------------------------------------- generators

type Gen struct {
	R *rand.Rand
	B *Blanks
	// graphs that received data so far (preferred as inputs, so that patterns have solutions)
	Filled []string
	// Wide: target lists of three graphs are frequent (sequences executed under GOMAXPROCS 1 or 2)
	Wide bool
}

// inputs: mostly graphs known to hold data
func (g *Gen) inputList() []string {
	if len(g.Filled) == 0 || g.R.Intn(6) == 0 {
		return g.graphList(true)
	}
	out := []string{g.pick(g.Filled)}
	if g.R.Intn(4) == 0 {
		out = append(out, g.pick(Graphs))
	}
	return out
}

var Graphs = []string{"?a", "?b", "?c"}

func (g *Gen) pick(xs []string) string { return xs[g.R.Intn(len(xs))] }

func (g *Gen) graphList(allowUnknown bool) []string {
	if g.Wide && g.R.Intn(2) == 0 {
		out := append([]string{}, Graphs...)
		g.R.Shuffle(len(out), func(i, j int) { out[i], out[j] = out[j], out[i] })
		return out
	}
	n := 1
	if g.R.Intn(3) == 0 {
		n = 2
	}
	var out []string
	for i := 0; i < n; i++ {
		if allowUnknown && g.R.Intn(30) == 0 {
			out = append(out, "?z")
		} else {
			out = append(out, g.pick(Graphs))
		}
	}
	return out
}

var constNodes = []VNode{{T: "/u", I: "a"}, {T: "/u", I: "b"}, {T: "/t", I: "c"}}
var litTexts = []string{`"1"^^type:int64`, `"x y"^^type:text`, `"true"^^type:bool`}
var anchors = []int64{1577836800000000000, 1622548800500000000}

func (g *Gen) constNode() VNode {
	if len(g.B.UUID) > 0 && g.R.Intn(6) == 0 {
		k := g.R.Intn(len(g.B.UUID))
		return VNode{B: &k}
	}
	return constNodes[g.R.Intn(len(constNodes))]
}
func (g *Gen) constPred() VPred {
	switch g.R.Intn(4) {
	case 0:
		a := anchors[g.R.Intn(len(anchors))]
		return VPred{ID: "r", A: &a, Z: zones[g.R.Intn(len(zones))]}
	case 1:
		return VPred{ID: "q"}
	}
	return VPred{ID: "p"}
}
func (g *Gen) constObj() VObj {
	switch g.R.Intn(8) {
	case 0:
		l := g.pick(litTexts)
		return VObj{L: &l}
	case 1:
		p := g.constPred()
		return VObj{P: &p}
	}
	n := g.constNode()
	return VObj{N: &n}
}
func (g *Gen) DataTriple() VTriple {
	s := constNodes[g.R.Intn(len(constNodes))]
	if len(g.B.UUID) > 0 && g.R.Intn(8) == 0 {
		k := g.R.Intn(len(g.B.UUID))
		s = VNode{B: &k}
	}
	return VTriple{S: s, P: g.constPred(), O: g.constObj()}
}

type pattern struct {
	text string
	wb   []string
}

var patterns = []pattern{
	{`?s ?p ?o`, []string{"?s", "?p", "?o"}},
	{`?s "p"@[] ?o`, []string{"?s", "?o"}},
	{`?s "r"@[?t] ?o`, []string{"?s", "?t", "?o"}},
	{`/u<a> ?p ?o`, []string{"?p", "?o"}},
	{`?s ?p /u<b>`, []string{"?s", "?p"}},
	{`?s "p"@[] ?o . ?o "q"@[] ?x`, []string{"?s", "?o", "?x"}},
	{`?s "p"@[] ?o . OPTIONAL { ?o "q"@[] ?x }`, []string{"?s", "?o", "?x"}},
	{`?s "_subject"@[] ?o`, []string{"?s", "?o"}},
	{`?s ?p ?o . ?s "q"@[] ?x`, []string{"?s", "?p", "?o", "?x"}},
	{`?s ID ?x "p"@[] ?o`, []string{"?s", "?x", "?o"}},
	{`?s "p"@[] ?o TYPE ?x`, []string{"?s", "?o", "?x"}},
}

func has(xs []string, x string) bool {
	for _, y := range xs {
		if x == y {
			return true
		}
	}
	return false
}

// binding of the wanted role if the pattern has it (mostly), otherwise any binding (exercises kind errors),
// rarely a binding the pattern does not have (rejected statement)
func (g *Gen) binding(wb []string, want string) string {
	if g.R.Intn(40) == 0 {
		return "?zz"
	}
	if has(wb, want) && g.R.Intn(8) != 0 {
		return want
	}
	return g.pick(wb)
}

func (g *Gen) tmplPop(wb []string, decon bool) (VPop, string) {
	var p VPop
	var pt, ot string
	form := g.R.Intn(6)
	// a pattern that binds ?t: exercise the anchor-binding forms often (one instantiation per row, each with its anchor)
	if has(wb, "?t") && g.R.Intn(2) == 0 {
		form = 5
	}
	// a predicate binding / anchor binding of the right kind exists only in some patterns: otherwise mostly a constant
	if (form == 3 || form == 4) && !has(wb, "?p") && g.R.Intn(6) != 0 {
		form = g.R.Intn(3)
	}
	if form == 5 && !has(wb, "?t") && g.R.Intn(4) != 0 {
		form = g.R.Intn(3)
	}
	switch form {
	case 0, 1:
		c := g.constPred()
		c.ID = c.ID + "2"
		p.P, p.PT = &c, c.A != nil
		pt = predText(c)
	case 2:
		c := g.constPred()
		p.P, p.PT = &c, c.A != nil
		pt = predText(c)
	case 3, 4:
		p.PB = g.binding(wb, "?p")
		pt = p.PB
	case 5:
		p.PID, p.PAB, p.PT = "w", g.binding(wb, "?t"), true
		pt = fmt.Sprintf("%q@[%s]", p.PID, p.PAB)
	}
	switch g.R.Intn(8) {
	case 0:
		o := g.constObj()
		p.O = &o
		ot = g.B.objText(o)
	case 1:
		if !decon || true {
			n := VNode{T: "/_", I: "v"}
			p.O = &VObj{N: &n}
			ot = "_:v"
		}
	case 2:
		if !has(wb, "?t") && g.R.Intn(4) != 0 {
			p.OB = g.binding(wb, "?o")
			ot = p.OB
			break
		}
		p.OID, p.OAB, p.OT = "w", g.binding(wb, "?t"), true
		ot = fmt.Sprintf("%q@[%s]", p.OID, p.OAB)
	case 3:
		l := g.pick(litTexts)
		p.O = &VObj{L: &l}
		ot = l
	default:
		p.OB = g.binding(wb, []string{"?o", "?o", "?s", "?x", "?p"}[g.R.Intn(5)])
		ot = p.OB
	}
	return p, pt + " " + ot
}

func (g *Gen) template(wb []string, decon bool) ([]VClause, string) {
	n := 1
	if g.R.Intn(3) == 0 {
		n = 2
	}
	var cls []VClause
	var texts []string
	for i := 0; i < n; i++ {
		var c VClause
		var st string
		switch g.R.Intn(6) {
		case 0:
			v := constNodes[g.R.Intn(len(constNodes))]
			c.S = &v
			st = g.B.nodeText(v)
		case 1:
			if decon {
				c.SB = g.binding(wb, "?s")
				st = c.SB
			} else {
				c.S = &VNode{T: "/_", I: "w"}
				st = "_:w"
			}
		default:
			c.SB = g.binding(wb, []string{"?s", "?s", "?s", "?s", "?s", "?o"}[g.R.Intn(6)])
			st = c.SB
		}
		np := 1
		if g.R.Intn(5) < 2 {
			np = 2 + g.R.Intn(2)
		}
		if decon && g.R.Intn(15) != 0 {
			np = 1
		}
		var pts []string
		for j := 0; j < np; j++ {
			p, t := g.tmplPop(wb, decon)
			c.Pairs = append(c.Pairs, p)
			pts = append(pts, t)
		}
		cls = append(cls, c)
		texts = append(texts, st+" "+strings.Join(pts, " ; "))
	}
	return cls, strings.Join(texts, " . ")
}

func (g *Gen) Stmt() VStmt {
	k := g.R.Intn(100)
	switch {
	case k < 8:
		gs := g.graphList(false)
		if g.R.Intn(3) == 0 {
			// a name that already exists / occurs twice in front of a new one: the later names must still be created
			gs = []string{g.pick(Graphs), g.pick([]string{"?d", "?e"})}
		}
		return VStmt{Kind: "create", Gs: gs, Text: "CREATE GRAPH " + strings.Join(gs, ", ") + ";"}
	case k < 13:
		gs := g.graphList(true)
		if g.R.Intn(3) == 0 {
			// an unknown name in front of an existing one: the later names must still be dropped
			gs = []string{g.pick([]string{"?z", "?y"}), g.pick(append([]string{"?d", "?e"}, Graphs...))}
		}
		return VStmt{Kind: "drop", Gs: gs, Text: "DROP GRAPH " + strings.Join(gs, ", ") + ";"}
	case k < 38:
		gs := g.graphList(true)
		var ts []VTriple
		var tt []string
		for i := 0; i < 1+g.R.Intn(4); i++ {
			t := g.DataTriple()
			ts = append(ts, t)
			tt = append(tt, g.B.TripleText(t))
		}
		g.Filled = append(g.Filled, gs...)
		return VStmt{Kind: "insert", Gs: gs, Ts: ts, Text: "INSERT DATA INTO " + strings.Join(gs, ", ") + " { " + strings.Join(tt, " . ") + " };"}
	case k < 48:
		gs := g.graphList(true)
		var ts []VTriple
		var tt []string
		for i := 0; i < 1+g.R.Intn(3); i++ {
			t := g.DataTriple()
			ts = append(ts, t)
			tt = append(tt, g.B.TripleText(t))
		}
		return VStmt{Kind: "delete", Gs: gs, Ts: ts, Text: "DELETE DATA FROM " + strings.Join(gs, ", ") + " { " + strings.Join(tt, " . ") + " };"}
	case k < 88:
		add := k < 75
		pat := patterns[g.R.Intn(len(patterns))]
		outs, ins := g.graphList(true), g.inputList()
		tm, tt := g.template(pat.wb, !add)
		kw, into := "CONSTRUCT", "INTO"
		if !add {
			kw, into = "DECONSTRUCT", "IN"
		}
		having := ""
		if has(pat.wb, "?s") && has(pat.wb, "?o") && g.R.Intn(7) == 0 {
			// HAVING filters the solution rows before the template is instantiated
			having = " HAVING " + g.pick([]string{"?s = ?o", "?s < ?o", "?o > ?s", "(?s < ?o) OR (?s = ?o)", `?o = "1"^^type:int64`})
		}
		text := fmt.Sprintf("%s { %s } %s %s FROM %s WHERE { %s }%s;", kw, tt, into, strings.Join(outs, ", "), strings.Join(ins, ", "), pat.text, having)
		return VStmt{Kind: "construct", Add: add, Tmpl: tm, Outs: outs, Ins: ins, WB: pat.wb, Text: text, Note: pat.text, Hav: having}
	case k < 93:
		pat := patterns[g.R.Intn(len(patterns))]
		ins := g.graphList(true)
		vars := []string{pat.wb[g.R.Intn(len(pat.wb))]}
		if g.R.Intn(10) == 0 {
			vars = append(vars, "?zz")
		}
		return VStmt{Kind: "select", Ins: ins, Vars: vars, WB: pat.wb, Note: pat.text,
			Text: fmt.Sprintf("SELECT %s FROM %s WHERE { %s };", strings.Join(vars, ", "), strings.Join(ins, ", "), pat.text)}
	case k < 97:
		return VStmt{Kind: "show", Text: "SHOW GRAPHS;"}
	}
	bad := []string{"INSERT DATA INTO ?a { };", "CREATE GRAPH ;", "DROP ?a;", "INSERT DATA INTO ?a { /u<a> \"p\"@[] };",
		"CONSTRUCT { ?s \"p\"@[] ?o } INTO ?a WHERE { ?s \"p\"@[] ?o };", "DELETE DATA FROM { /u<a> \"p\"@[] /u<b> };",
		"DECONSTRUCT { _:v \"p\"@[] ?o } IN ?a FROM ?b WHERE { ?s \"p\"@[] ?o };", "SHOW GRAPH;"}
	return VStmt{Kind: "bad", Text: g.pick(bad)}
}

// rows of the WHERE pattern over the input graphs, obtained from the real query engine
func (g *Gen) Query(ctx context.Context, st storage.Store, ins []string, wb []string, pat string) *VQ {
	return g.QueryHaving(ctx, st, ins, wb, pat, "")
}

// QueryHaving: the same with the HAVING clause of the statement (it filters the solution rows in both)
func (g *Gen) QueryHaving(ctx context.Context, st storage.Store, ins []string, wb []string, pat, having string) *VQ {
	text := fmt.Sprintf("SELECT %s FROM %s WHERE { %s }%s;", strings.Join(wb, ", "), strings.Join(ins, ", "), pat, having)
	r := Execute(ctx, st, text, 100)
	if r.Class != "ok" {
		return &VQ{Ok: false}
	}
	q := &VQ{Ok: true, Rows: []map[string]*VCell{}}
	for _, row := range r.Tbl.Rows() {
		m := map[string]*VCell{}
		for _, bnd := range wb {
			if c, ok := row[bnd]; ok {
				m[bnd] = g.B.cell(c)
			}
		}
		q.Rows = append(q.Rows, m)
	}
	return q
}

// ---------------------------------------------------------------- fixed pool (exhaustive short sequences)

func (b *Blanks) renderNode(n VNode) string {
	if n.B == nil && n.T == "/_" {
		return "_:" + n.I
	}
	return b.nodeText(n)
}

// RenderTemplate prints a construct template from its structure.
func (b *Blanks) RenderTemplate(tm []VClause) string {
	var cls []string
	for _, c := range tm {
		s := c.SB
		if c.S != nil {
			s = b.renderNode(*c.S)
		}
		var ps []string
		for _, p := range c.Pairs {
			var pt, ot string
			switch {
			case p.P != nil:
				pt = predText(*p.P)
			case p.PB != "":
				pt = p.PB
			default:
				pt = fmt.Sprintf("%q@[%s]", p.PID, p.PAB)
			}
			switch {
			case p.O != nil && p.O.N != nil:
				ot = b.renderNode(*p.O.N)
			case p.O != nil:
				ot = b.objText(*p.O)
			case p.OB != "":
				ot = p.OB
			default:
				ot = fmt.Sprintf("%q@[%s]", p.OID, p.OAB)
			}
			ps = append(ps, pt+" "+ot)
		}
		cls = append(cls, s+" "+strings.Join(ps, " ; "))
	}
	return strings.Join(cls, " . ")
}

func mkConstruct(b *Blanks, add bool, tm []VClause, outs, ins []string, pat pattern) VStmt {
	kw, into := "CONSTRUCT", "INTO"
	if !add {
		kw, into = "DECONSTRUCT", "IN"
	}
	text := fmt.Sprintf("%s { %s } %s %s FROM %s WHERE { %s };", kw, b.RenderTemplate(tm), into, strings.Join(outs, ", "), strings.Join(ins, ", "), pat.text)
	return VStmt{Kind: "construct", Add: add, Tmpl: tm, Outs: outs, Ins: ins, WB: pat.wb, Text: text, Note: pat.text}
}

func mkData(b *Blanks, kind string, gs []string, ts []VTriple) VStmt {
	var tt []string
	for _, t := range ts {
		tt = append(tt, b.TripleText(t))
	}
	kw := "INSERT DATA INTO "
	if kind == "delete" {
		kw = "DELETE DATA FROM "
	}
	return VStmt{Kind: kind, Gs: gs, Ts: ts, Text: kw + strings.Join(gs, ", ") + " { " + strings.Join(tt, " . ") + " };"}
}

func lit(s string) *VObj    { return &VObj{L: &s} }
func nobj(n VNode) *VObj    { return &VObj{N: &n} }
func ipred(id string) VPred { return VPred{ID: id} }

// PoolPrefix builds the store every pool sequence starts from; Pool is the 12-statement pool.
func PoolPrefix(b *Blanks) []VStmt {
	ua, ub, tc := constNodes[0], constNodes[1], constNodes[2]
	a0, a1 := anchors[0], anchors[1]
	return []VStmt{
		{Kind: "create", Gs: []string{"?a", "?b"}, Text: "CREATE GRAPH ?a, ?b;"},
		mkData(b, "insert", []string{"?a"}, []VTriple{
			{S: ua, P: ipred("p"), O: *nobj(ub)}, {S: ub, P: ipred("p"), O: *lit(`"1"^^type:int64`)},
			{S: ub, P: ipred("q"), O: *nobj(tc)}, {S: ua, P: VPred{ID: "r", A: &a0}, O: *nobj(ub)},
			{S: ub, P: VPred{ID: "r", A: &a1}, O: *nobj(tc)}}),
	}
}

func Pool(b *Blanks) []VStmt {
	ua, ub, tc := constNodes[0], constNodes[1], constNodes[2]
	pso := patterns[1]
	p2 := ipred("p2")
	pp := ipred("p")
	pq := ipred("q")
	return []VStmt{
		mkData(b, "insert", []string{"?b"}, []VTriple{{S: ua, P: ipred("p"), O: *nobj(tc)}}),
		mkData(b, "delete", []string{"?a"}, []VTriple{{S: ua, P: ipred("p"), O: *nobj(ub)}}),
		{Kind: "create", Gs: []string{"?c"}, Text: "CREATE GRAPH ?c;"},
		{Kind: "drop", Gs: []string{"?b"}, Text: "DROP GRAPH ?b;"},
		mkConstruct(b, true, []VClause{{SB: "?s", Pairs: []VPop{{P: &p2, OB: "?o"}}}}, []string{"?b"}, []string{"?a"}, pso),
		mkConstruct(b, true, []VClause{{SB: "?s", Pairs: []VPop{{P: &pp, OB: "?o"}, {P: &pq, O: nobj(ua)}}}}, []string{"?b"}, []string{"?a"}, pso),
		mkConstruct(b, false, []VClause{{SB: "?s", Pairs: []VPop{{P: &pp, OB: "?o"}}}}, []string{"?a"}, []string{"?b"}, pso),
		mkConstruct(b, true, []VClause{{SB: "?o", Pairs: []VPop{{P: &pp, OB: "?s"}}}}, []string{"?a"}, []string{"?a"}, pso),
		mkConstruct(b, true, []VClause{{SB: "?s", Pairs: []VPop{{P: &pp, OB: "?o"}}}}, []string{"?c"}, []string{"?a"}, pso),
		mkConstruct(b, true, []VClause{{SB: "?s", Pairs: []VPop{{PID: "w", PAB: "?t", PT: true, OB: "?o"}}}}, []string{"?b"}, []string{"?a"}, patterns[2]),
		mkData(b, "insert", []string{"?a", "?c"}, []VTriple{{S: tc, P: ipred("q"), O: *nobj(ua)}}),
		mkConstruct(b, true, []VClause{{S: &VNode{T: "/_", I: "v"}, Pairs: []VPop{{P: &pp, OB: "?s"}}}}, []string{"?b"}, []string{"?b"}, patterns[7]),
	}
}
