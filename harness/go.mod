module verif/harness

go 1.24

require (
	github.com/anishathalye/porcupine v1.3.0
	github.com/google/badwolf v0.0.0
	github.com/pborman/uuid v1.2.1
)

require (
	github.com/google/uuid v1.6.0 // indirect
	golang.org/x/sync v0.14.0 // indirect
)

replace github.com/google/badwolf => /repo
