package main

import (
	"context"
	"fmt"
	"math/rand"
	"strconv"
	"strings"

	"github.com/google/badwolf/bql/grammar"
	"github.com/google/badwolf/bql/planner"
	"github.com/google/badwolf/bql/semantic"
	"github.com/google/badwolf/bql/table"
	"github.com/google/badwolf/storage"
	"github.com/google/badwolf/triple"
	"github.com/google/badwolf/triple/literal"
	"github.com/google/badwolf/triple/predicate"
)

type jkey struct {
	B    string `json:"b"`
	Desc bool   `json:"desc"`
}

type sortCase struct {
	Mode    string     `json:"mode"` // sort
	Class   string     `json:"class"`
	Cols    [][]string `json:"cols"`
	NilCfg  bool       `json:"nilcfg"`
	Cfg     []jkey     `json:"cfg"`
	In      []jrow     `json:"in"`
	Outcome string     `json:"outcome"`
	Out     []jrow     `json:"out"`
}

var colNames = []string{"?a", "?b", "?c"}

// genTable builds rows over len(cols) value columns plus the identity column "?#" (row number as a string cell).
func genTable(r *rand.Rand, cols [][]string, n int) ([]string, []table.Row) {
	bs := []string{"?#"}
	for i := range cols {
		bs = append(bs, colNames[i])
	}
	rows := make([]table.Row, 0, n)
	for i := 0; i < n; i++ {
		row := table.Row{"?#": &table.Cell{S: table.CellString(fmt.Sprintf("%03d", i))}}
		for ci, kinds := range cols {
			row[colNames[ci]] = genCell(r, kinds[r.Intn(len(kinds))])
		}
		rows = append(rows, row)
	}
	return bs, rows
}

func mkTable(bs []string, rows []table.Row) *table.Table {
	t, err := table.New(bs)
	if err != nil {
		panic(err)
	}
	for _, r := range rows {
		t.AddRow(r)
	}
	return t
}

func toSortConfig(ks []jkey) table.SortConfig {
	cfg := table.SortConfig{}
	for _, k := range ks {
		cfg = append(cfg, table.SortConfig{{Binding: k.B, Desc: k.Desc}}...)
	}
	return cfg
}

func genSortCase(r *rand.Rand) sortCase {
	c := sortCase{Mode: "sort"}
	ncols := 1 + r.Intn(3)
	roll := r.Intn(100)
	switch {
	case roll < 50:
		c.Class = "D12"
	case roll < 75:
		c.Class = "homogeneous"
	default:
		c.Class = "mixed"
	}
	for i := 0; i < ncols; i++ {
		c.Cols = append(c.Cols, genColumn(r, c.Class == "mixed" && (i == 0 || r.Intn(2) == 0), c.Class == "D12"))
	}
	n := r.Intn(13)
	if r.Intn(6) == 0 {
		n = 13 + r.Intn(30)
	}
	bs, rows := genTable(r, c.Cols, n)
	nk := 1 + r.Intn(3)
	for i := 0; i < nk; i++ {
		c.Cfg = append(c.Cfg, jkey{B: colNames[r.Intn(ncols)], Desc: r.Intn(3) == 0})
	}
	switch r.Intn(40) {
	case 0:
		c.NilCfg, c.Cfg = true, nil
	case 1:
		c.Cfg = []jkey{}
	}
	c.In = renderRows(rows, bs)
	tbl := mkTable(bs, rows)
	func() {
		defer func() {
			if e := recover(); e != nil {
				c.Outcome = "panic"
			}
		}()
		if c.NilCfg {
			tbl.Sort(nil)
		} else {
			tbl.Sort(toSortConfig(c.Cfg))
		}
		c.Outcome = "ok"
		c.Out = renderRows(tbl.Rows(), bs)
	}()
	return c
}

type limitCase struct {
	Mode    string `json:"mode"` // limit
	N       int64  `json:"n"`
	In      []jrow `json:"in"`
	Outcome string `json:"outcome"`
	Out     []jrow `json:"out"`
}

func genLimitCase(r *rand.Rand) limitCase {
	c := limitCase{Mode: "limit"}
	n := r.Intn(8)
	bs, rows := genTable(r, [][]string{{"intD"}}, n)
	switch r.Intn(10) {
	case 0:
		c.N = -1 - int64(r.Intn(3))
	case 1:
		c.N = int64(n) + int64(r.Intn(3))
	case 2:
		c.N = 1 << 40
	default:
		c.N = int64(r.Intn(n + 2))
	}
	c.In = renderRows(rows, bs)
	tbl := mkTable(bs, rows)
	func() {
		defer func() {
			if e := recover(); e != nil {
				c.Outcome = "panic"
			}
		}()
		tbl.Limit(c.N)
		c.Outcome = "ok"
		c.Out = renderRows(tbl.Rows(), bs)
	}()
	return c
}

// ---- LIMIT token: what does the statement parser make of it ---------------------------------------------------------

type limTokCase struct {
	Mode    string `json:"mode"` // limtok
	Text    string `json:"text"`
	Parsed  string `json:"parsed"` // error | nil | <type>   (literal.DefaultBuilder().Parse on the token text)
	IntVal  string `json:"int,omitempty"`
	Outcome string `json:"outcome"` // ok | parse | panic
	Set     bool   `json:"set"`
	Limit   string `json:"limit,omitempty"`
	Rows    int    `json:"rows"` // rows returned over a graph of 12 matching triples
}

var limitTexts = []string{
	`"0"^^type:int64`, `"1"^^type:int64`, `"2"^^type:int64`, `"10"^^type:int64`, `"9223372036854775807"^^type:int64`,
	`"-1"^^type:int64`, `"-5"^^type:int64`, `"-9223372036854775808"^^type:int64`, `"+3"^^type:int64`,
	`"1.5"^^type:float64`, `"2"^^type:float64`, `"true"^^type:bool`, `"3"^^type:text`, `"[1 2]"^^type:blob`,
	// spellings: the limit is the DECIMAL int64 literal the literal parser accepts (leading zeros are decimal; no base
	// prefixes, no underscores)
	`"010"^^type:int64`, `"08"^^type:int64`, `"0x5"^^type:int64`, `"0b11"^^type:int64`, `"0o7"^^type:int64`, `"1_0"^^type:int64`, `"0010"^^type:int64`,
	`"9223372036854775808"^^type:int64`, `"abc"^^type:int64`, `"1e3"^^type:int64`, `" 4"^^type:int64`, `"007"^^type:int64`,
}

func runLimTok(text string) limTokCase {
	c := limTokCase{Mode: "limtok", Text: text}
	func() {
		defer func() {
			if e := recover(); e != nil {
				c.Parsed = "panic"
			}
		}()
		l, err := literal.DefaultBuilder().Parse(text)
		switch {
		case err != nil:
			c.Parsed = "error"
		case l == nil:
			c.Parsed = "nil"
		default:
			c.Parsed = l.Type().String()
			if l.Type() == literal.Int64 {
				v, _ := l.Int64()
				c.IntVal = strconv.FormatInt(v, 10)
			}
		}
	}()
	ctx := context.Background()
	pv, _ := predicate.NewImmutable("v")
	var ts []*triple.Triple
	for i := 0; i < 12; i++ {
		t, _ := triple.New(mustNode("/u", fmt.Sprintf("n%02d", i)), pv, triple.NewLiteralObject(mustLit(literal.Int64, int64(i))))
		ts = append(ts, t)
	}
	st := newGraph(ctx, "?g", ts)
	q := `SELECT ?s FROM ?g WHERE {?s "v"@[] ?o} LIMIT ` + text + `;`
	res, stm := runQuery(ctx, st, q)
	c.Outcome, c.Rows = res.Outcome, len(res.Rows)
	if c.Outcome == "exec" || c.Outcome == "plan" {
		c.Outcome = "ok" // the LIMIT token was accepted; what happens later is not this case's business
	}
	if stm != nil && res.Outcome != "parse" {
		c.Set = stm.IsLimitSet()
		c.Limit = strconv.FormatInt(stm.Limit(), 10)
	}
	return c
}

// ---- end to end: ORDER BY / LIMIT through the planner -----------------------------------------------------------------

type e2eCase struct {
	Mode    string              `json:"mode"` // e2e12 | e2e11 | e2e13
	Shape   string              `json:"shape"`
	Kinds   []string            `json:"kinds,omitempty"`
	Triples []string            `json:"triples"`
	BaseQ   string              `json:"base_q"`
	Q       string              `json:"q"`
	Cfg     []jkey              `json:"cfg,omitempty"`      // ORDER BY as written
	CfgSeen []jkey              `json:"cfg_seen,omitempty"` // Statement.OrderByConfig() after the checker's rewrite
	Limit   *int64              `json:"limit,omitempty"`
	Base    execResult          `json:"base"`
	Res     execResult          `json:"res"`
	Graphs  map[string][]string `json:"graphs,omitempty"` // several FROM graphs: the triples of each
	PdMask  []bool              `json:"pd_mask"`          // push-down shapes: per graph triple in driver order, does it match the clause
	Extra   interface{}         `json:"extra,omitempty"`
}

// driverOrder lists the triples of ?g in the order the driver returns them (memory: sorted by Triple.String()).
func driverOrder(ctx context.Context, st storage.Store, lo *storage.LookupOptions) []*triple.Triple {
	g, err := st.Graph(ctx, "?g")
	if err != nil {
		panic(err)
	}
	if lo == nil {
		lo = storage.DefaultLookup
	}
	ch := make(chan *triple.Triple, 1000)
	if err := g.Triples(ctx, lo, ch); err != nil {
		panic(err)
	}
	var out []*triple.Triple
	for t := range ch {
		out = append(out, t)
	}
	return out
}

var subjects = [][2]string{{"/u", "a"}, {"/u", "b"}, {"/u", "c"}, {"/t", "d"}, {"/t", "a"}, {"/u/x", "a"}, {"/u", "al"}, {"/u/x", "al"}, {"/ux", "a"}, {"/t", "ab"}, {"/ta", "b"}}

func genObject(r *rand.Rand, kind string) *triple.Object {
	c := genCell(r, kind)
	// Literal.UUID panics for |int64| >= 2^55 on the unrepaired tree (a C06 defect): keep graph objects below that
	for c.L != nil && c.L.Type() == literal.Int64 {
		v, _ := c.L.Int64()
		if v < 1<<54 && v > -(1<<54) {
			break
		}
		c = genCell(r, kind)
	}
	switch {
	case c.N != nil:
		return triple.NewNodeObject(c.N)
	case c.P != nil:
		return triple.NewPredicateObject(c.P)
	case c.L != nil:
		return triple.NewLiteralObject(c.L)
	}
	panic("kind cannot be an object: " + kind)
}

var objKindsD12 = []string{"intD", "floatD", "textD", "node", "pred", "bool"}
var objKindsAll = []string{"intD", "floatD", "textD", "node", "pred", "bool", "int", "float", "text", "blob", "tpred", "floatN", "digits", "digitsT", "collide", "node"}

func genObjKinds(r *rand.Rand, class string) []string {
	switch class {
	case "D12":
		return []string{objKindsD12[r.Intn(len(objKindsD12))]}
	case "homogeneous":
		return []string{objKindsAll[r.Intn(len(objKindsAll))]}
	}
	n := 2 + r.Intn(2)
	out := make([]string, n)
	for i := range out {
		out[i] = objKindsAll[r.Intn(len(objKindsAll))]
	}
	return out
}

// genTriples: facts `s "v"@[] o`, `s "w"@[] o2` and temporal `s "t"@[anchor] o3`
func genTriples(r *rand.Rand, vKinds, wKinds []string, n int, anchorsD12 bool) []*triple.Triple {
	var ts []*triple.Triple
	mk := func(s [2]string, p *predicate.Predicate, o *triple.Object) {
		t, err := triple.New(mustNode(s[0], s[1]), p, o)
		if err != nil {
			panic(err)
		}
		ts = append(ts, t)
	}
	pv, _ := predicate.NewImmutable("v")
	pw, _ := predicate.NewImmutable("w")
	for i := 0; i < n; i++ {
		s := subjects[r.Intn(len(subjects))]
		mk(s, pv, genObject(r, vKinds[r.Intn(len(vKinds))]))
		if r.Intn(2) == 0 {
			mk(s, pw, genObject(r, wKinds[r.Intn(len(wKinds))]))
		}
		if r.Intn(3) == 0 {
			pool := instants
			if anchorsD12 {
				pool = instantsD12
			}
			pt, _ := predicate.NewTemporal("t", mustTime(pickS(r, pool)))
			mk(s, pt, genObject(r, "intD"))
		}
	}
	return ts
}

func tripleStrings(ts []*triple.Triple) []string {
	out := make([]string, len(ts))
	for i, t := range ts {
		out[i] = t.String()
	}
	return out
}

func orderByText(ks []jkey, r *rand.Rand) string {
	var parts []string
	for _, k := range ks {
		s := k.B
		if k.Desc {
			s += " DESC"
		} else if r.Intn(2) == 0 {
			s += " ASC"
		}
		parts = append(parts, s)
	}
	return " ORDER BY " + strings.Join(parts, ", ")
}

func seenCfg(c table.SortConfig) []jkey {
	var out []jkey
	for _, k := range c {
		out = append(out, jkey{B: k.Binding, Desc: k.Desc})
	}
	return out
}

// genE2E12: one of several query shapes, run with and without ORDER BY / LIMIT
func genE2E12(r *rand.Rand) e2eCase {
	ctx := context.Background()
	c := e2eCase{Mode: "e2e12"}
	roll := r.Intn(100)
	class := "D12"
	if roll >= 55 && roll < 80 {
		class = "homogeneous"
	} else if roll >= 80 {
		class = "mixed"
	}
	vK, wK := genObjKinds(r, class), genObjKinds(r, class)
	c.Kinds = append(append([]string{class}, vK...), wK...)
	ts := genTriples(r, vK, wK, 2+r.Intn(8), class == "D12")
	c.Triples = tripleStrings(ts)
	st, from := newGraph(ctx, "?g", ts), "?g"
	shapeRoll := r.Intn(8)
	multi := r.Intn(3) == 0 || (shapeRoll == 5 && r.Intn(2) == 0) // full scans (the push-down shape) more often over several graphs
	if multi {                                                    // the data split over 2-3 graphs in FROM (with overlaps): the driver is asked once per graph
		st, from, c.Graphs = splitGraphs(ctx, r, ts)
		c.Kinds = append(c.Kinds, "FROM "+from)
	}
	var sel, where string
	var outs []string
	switch shapeRoll {
	case 7:
		// a full scan whose output alias ?s is NOT the subject: ORDER BY ?s (ascending, the only key) + LIMIT must not be
		// mistaken for "already in driver order"
		c.Shape = "shadow-scan"
		sel, where, outs = "?s AS ?who, ?o AS ?s", `{?s ?p ?o}`, []string{"?who", "?s"}
	case 6:
		// NAME COLLISION: an alias that is also the name of a pattern binding (ORDER BY ?o sorts by the subject)
		c.Shape = "shadow"
		sel, where, outs = "?o AS ?val, ?s AS ?o", `{?s "v"@[] ?o}`, []string{"?val", "?o"}
	case 0:
		c.Shape = "one-clause"
		sel, where, outs = "?s, ?o", `{?s "v"@[] ?o}`, []string{"?s", "?o"}
	case 1:
		c.Shape = "two-clause"
		sel, where, outs = "?s, ?o, ?x", `{?s "v"@[] ?o . ?s "w"@[] ?x}`, []string{"?s", "?o", "?x"}
	case 2:
		c.Shape = "id-type"
		sel, where, outs = "?sid, ?sty, ?o", `{?s ID ?sid TYPE ?sty "v"@[] ?o}`, []string{"?sid", "?sty", "?o"}
	case 3:
		c.Shape = "anchor"
		sel, where, outs = "?s, ?t, ?o", `{?s "t"@[?t] ?o}`, []string{"?s", "?t", "?o"}
	case 4:
		c.Shape = "alias"
		sel, where, outs = "?s AS ?subj, ?o AS ?val", `{?s "v"@[] ?o}`, []string{"?subj", "?val"}
	case 5:
		c.Shape = "full-scan" // the only shape for which the planner pushes LIMIT into the driver
		sel, where, outs = "?s, ?p, ?o", `{?s ?p ?o}`, []string{"?s", "?p", "?o"}
	}
	// statement-level time bounds (they restrict the temporal triples a full scan / an anchor clause returns)
	bound := ""
	if (c.Shape == "full-scan" || c.Shape == "anchor" || c.Shape == "shadow-scan") && r.Intn(2) == 0 {
		bound = []string{" BEFORE 2020-01-01T00:00:00Z", " AFTER 2019-12-31T23:45:00Z", " AFTER 2020-01-01T00:00:00Z",
			" BETWEEN 2019-12-31T00:00:00Z, 2020-01-01T00:00:01Z", " BEFORE 2000-01-01T00:00:00Z"}[r.Intn(5)]
	}
	c.BaseQ = "SELECT " + sel + " FROM " + from + " WHERE " + where + bound + ";"
	q := "SELECT " + sel + " FROM " + from + " WHERE " + where
	noOrder := r.Intn(5) == 0 || (c.Shape == "full-scan" && r.Intn(2) == 0) // LIMIT without ORDER BY: any min(n, N) rows
	if !noOrder {
		nk := 1 + r.Intn(3)
		for i := 0; i < nk; i++ {
			c.Cfg = append(c.Cfg, jkey{B: outs[r.Intn(len(outs))], Desc: r.Intn(3) == 0})
		}
		// a repeated key must repeat its direction or the checker rejects the statement (also generated, rarely)
		if r.Intn(10) != 0 {
			dir := map[string]bool{}
			for i, k := range c.Cfg {
				if d, ok := dir[k.B]; ok {
					c.Cfg[i].Desc = d
				} else {
					dir[k.B] = k.Desc
				}
			}
		}
		if c.Shape == "shadow-scan" && r.Intn(2) == 0 {
			c.Cfg = []jkey{{B: "?s", Desc: false}}
		}
		q += orderByText(c.Cfg, r)
	}
	q += bound
	if r.Intn(3) != 0 || noOrder || c.Shape == "shadow-scan" {
		n := int64(r.Intn(len(ts) + 2))
		c.Limit = &n
		q += fmt.Sprintf(` LIMIT "%d"^^type:int64`, n)
	}
	c.Q = q + ";"
	var baseStm *semantic.Statement
	c.Base, baseStm = runQuery(ctx, st, c.BaseQ)
	if (c.Shape == "full-scan" || c.Shape == "anchor" || c.Shape == "shadow-scan") && !multi && baseStm != nil {
		for _, t := range driverOrder(ctx, st, baseStm.GlobalLookupOptions()) {
			m := true
			if c.Shape == "anchor" {
				m = string(t.Predicate().ID()) == "t" && t.Predicate().Type() == predicate.Temporal
			}
			c.PdMask = append(c.PdMask, m)
		}
		if c.PdMask == nil {
			c.PdMask = []bool{}
		}
	}
	var stm interface{ OrderByConfig() table.SortConfig }
	res, s := runQuery(ctx, st, c.Q)
	c.Res = res
	if s != nil {
		stm = s
		c.CfgSeen = seenCfg(stm.OrderByConfig())
	}
	return c
}

// genSeq12: TWO ORDER BY statements parsed one after the other BY THE SAME PARSER (same grammar value, same hook closures)
// and executed only afterwards: what the first statement asks for must not depend on what was parsed after it.
func genSeq12(r *rand.Rand) []e2eCase {
	ctx := context.Background()
	vK := []string{[]string{"intD", "textD", "int"}[r.Intn(3)]}
	ts := genTriples(r, vK, vK, 3+r.Intn(6), true)
	st := newGraph(ctx, "?g", ts)
	baseQ := `SELECT ?s, ?o FROM ?g WHERE {?s "v"@[] ?o};`
	base, _ := runQuery(ctx, st, baseQ)
	p, err := grammar.NewParser(grammar.SemanticBQL())
	if err != nil {
		panic(err)
	}
	var cases []e2eCase
	var stms []*semantic.Statement
	for i := 0; i < 2; i++ {
		c := e2eCase{Mode: "e2e12", Shape: "sequence", Triples: tripleStrings(ts), BaseQ: baseQ, Base: base}
		nk := 1 + r.Intn(2)
		for k := 0; k < nk; k++ {
			c.Cfg = append(c.Cfg, jkey{B: []string{"?s", "?o"}[(k+i+r.Intn(2))%2], Desc: (i == 1) != (r.Intn(4) == 0)})
		}
		if len(c.Cfg) == 2 && c.Cfg[0].B == c.Cfg[1].B {
			c.Cfg = c.Cfg[:1]
		}
		c.Q = `SELECT ?s, ?o FROM ?g WHERE {?s "v"@[] ?o}` + orderByText(c.Cfg, r) + ";"
		stm := &semantic.Statement{}
		if err := p.Parse(grammar.NewLLk(c.Q, 1), stm); err != nil {
			c.Res = execResult{Outcome: "parse", Detail: firstLine(err.Error())}
			stm = nil
		}
		stms = append(stms, stm)
		cases = append(cases, c)
	}
	for i, stm := range stms {
		if stm == nil {
			continue
		}
		func() {
			defer func() {
				if e := recover(); e != nil {
					cases[i].Res = execResult{Outcome: "panic", Detail: firstLine(fmt.Sprint(e))}
				}
			}()
			cases[i].CfgSeen = seenCfg(stm.OrderByConfig())
			pln, err := planner.New(ctx, st, stm, 0, 10, nil)
			if err != nil {
				cases[i].Res = execResult{Outcome: "plan"}
				return
			}
			tbl, err := pln.Execute(ctx)
			if err != nil {
				cases[i].Res = execResult{Outcome: "exec", Detail: firstLine(err.Error())}
				return
			}
			bs := tbl.Bindings()
			cases[i].Res = execResult{Outcome: "ok", Bindings: bs, Rows: renderRows(tbl.Rows(), bs)}
		}()
	}
	return cases
}
