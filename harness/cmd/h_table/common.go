// h_table: correspondence harness of the Table family (C11 GROUP BY, C12 ORDER BY / LIMIT, C13 HAVING).
// It drives the REAL engine: table.Table / semantic.NewEvaluator directly, and whole SELECT statements through
// grammar.SemanticBQL + planner.New(...).Execute over graphs built in storage/memory.  One JSON object per line.
package main

import (
	"context"
	"encoding/hex"
	"encoding/json"
	"fmt"
	"math"
	"math/big"
	"math/rand"
	"os"
	"sort"
	"strconv"
	"strings"
	"time"

	"github.com/google/badwolf/bql/grammar"
	"github.com/google/badwolf/bql/planner"
	"github.com/google/badwolf/bql/semantic"
	"github.com/google/badwolf/bql/table"
	"github.com/google/badwolf/storage"
	"github.com/google/badwolf/storage/memory"
	"github.com/google/badwolf/triple"
	"github.com/google/badwolf/triple/literal"
	"github.com/google/badwolf/triple/node"
	"github.com/google/badwolf/triple/predicate"
)

// ---- serialised cells ------------------------------------------------------------------------------------------

// jcell is the canonical rendering of a table.Cell together with every string Go's comparisons derive from it.
type jcell struct {
	K   string `json:"k"`             // null | s | n | p | l | t
	S   string `json:"s,omitempty"`   // hex: the string (s) or the printed form (n, p)
	T   string `json:"t,omitempty"`   // literal type
	V   string `json:"v,omitempty"`   // int64: decimal; float64: IEEE bits, decimal; bool: true/false; text, blob: hex
	Str string `json:"str,omitempty"` // hex: Literal.String() / Time.Format(RFC3339Nano)
	Cmp string `json:"cmp,omitempty"` // hex: Literal.ToComparableString()
	Ns  string `json:"ns,omitempty"`  // time: nanoseconds since the epoch as an unbounded integer (Unix()*1e9 + Nanosecond(); NOT UnixNano, which wraps outside 1677..2262)
	Off int    `json:"off,omitempty"` // time: zone offset in seconds
}

type jrow map[string]jcell

func hx(s string) string { return hex.EncodeToString([]byte(s)) }

// instantNs: the instant as nanoseconds since the epoch, exact for every year time.Time can hold
func instantNs(t time.Time) string {
	n := new(big.Int).Mul(big.NewInt(t.Unix()), big.NewInt(1000000000))
	return n.Add(n, big.NewInt(int64(t.Nanosecond()))).String()
}

func renderCell(c *table.Cell) jcell {
	switch {
	case c == nil:
		return jcell{K: "nil"}
	case c.S != nil:
		return jcell{K: "s", S: hx(*c.S)}
	case c.N != nil:
		return jcell{K: "n", S: hx(c.N.String())}
	case c.P != nil:
		return jcell{K: "p", S: hx(c.P.String())}
	case c.L != nil:
		return renderLit(c.L)
	case c.T != nil:
		_, off := c.T.Zone()
		return jcell{K: "t", Ns: instantNs(*c.T), Off: off, Str: hx(c.T.Format(time.RFC3339Nano))}
	}
	return jcell{K: "null"}
}

func renderLit(l *literal.Literal) jcell {
	j := jcell{K: "l", T: l.Type().String(), Str: hx(l.String()), Cmp: hx(l.ToComparableString())}
	switch l.Type() {
	case literal.Int64:
		v, _ := l.Int64()
		j.V = strconv.FormatInt(v, 10)
	case literal.Float64:
		v, _ := l.Float64()
		j.V = strconv.FormatUint(math.Float64bits(v), 10)
	case literal.Bool:
		v, _ := l.Bool()
		j.V = strconv.FormatBool(v)
	case literal.Text:
		v, _ := l.Text()
		j.V = hx(v)
	case literal.Blob:
		v, _ := l.Blob()
		j.V = hx(string(v))
	}
	return j
}

func renderRow(r table.Row, bs []string) jrow {
	out := jrow{}
	for _, b := range bs {
		c, ok := r[b]
		if !ok {
			continue
		}
		out[b] = renderCell(c)
	}
	return out
}

func renderRows(rows []table.Row, bs []string) []jrow {
	out := make([]jrow, 0, len(rows))
	for _, r := range rows {
		out = append(out, renderRow(r, bs))
	}
	return out
}

func emit(v interface{}) {
	b, err := json.Marshal(v)
	if err != nil {
		panic(err)
	}
	os.Stdout.Write(b)
	os.Stdout.Write([]byte("\n"))
}

// ---- value pools (small on purpose: ties and near-collisions are where the defects are) ---------------------------

func mustLit(t literal.Type, v interface{}) *literal.Literal {
	l, err := literal.DefaultBuilder().Build(t, v)
	if err != nil {
		panic(err)
	}
	return l
}

func mustNode(t, id string) *node.Node {
	n, err := node.NewNodeFromStrings(t, id)
	if err != nil {
		panic(err)
	}
	return n
}

func mustTime(s string) time.Time {
	t, err := time.Parse(time.RFC3339Nano, s)
	if err != nil {
		panic(err)
	}
	return t
}

var (
	intsD12   = []int64{0, 1, 2, 3, 5, 7, 10, 11, 99, 100, 1000, 123456789, math.MaxInt64, math.MaxInt64 - 1, 4611686018427387904}
	intsNeg   = []int64{-1, -2, -3, -4, -5, -10, -100, math.MinInt64, math.MinInt64 + 1}
	floatsD12 = []float64{0, 0.5, 1, 1.5, 2, 2.25, 3, 10, 10.125, 1000.5, 65536, 1048576.75}
	floatsOut = []float64{-0.5, -1.5, -2.5, 1e-7, 2e-7, 1e30, 2e29, 1e26, 3e25, math.Inf(1), -1e30, 0.1, 0.2, 0.30000000000000004}
	textsD12  = []string{"a", "ab", "abc", "abd", "b", "zeta", "Alpha", "k9", "~"}
	textsOut  = []string{"ab c", "ab!", "ab", "", " a", "a ", "ab\x01", "x y", "x"}
	// hierarchical types in prefix relation ('/' sorts before '<' in the printed form) and ids in prefix relation
	nodeIDs = [][2]string{{"/u", "a"}, {"/u", "b"}, {"/u", "c"}, {"/t", "a"}, {"/t", "x y"}, {"/u", "ab"},
		{"/u", "al"}, {"/u/x", "al"}, {"/u/x/y", "a"}, {"/ux", "a"}, {"/u/x", "a"}, {"/u", "z"}, {"/u", "a b"}, {"/t", "ab"}, {"/ta", "b"}}
	predIDs  = []string{"p", "q", "knows", "p q"}
	instants = []string{
		"2020-01-01T00:00:00Z", "2020-01-01T00:00:01Z", "2019-12-31T23:30:00Z", "2021-06-15T12:00:00Z",
		"1999-12-31T23:59:59Z", "2020-01-01T00:00:00.5Z", "2020-01-01T00:00:00.25Z", "2020-01-01T00:00:00.000000001Z",
		"2020-01-01T00:00:00+01:00", "2020-01-01T02:00:00+02:00", "2019-12-31T19:00:00-05:00", "2020-01-01T00:00:01.5+01:00",
		// far outside 1677-09-21 .. 2262-04-11, where UnixNano wraps
		"1500-06-01T12:00:00Z", "9999-12-31T23:59:59Z", "0001-01-01T00:00:00Z", "2262-04-12T00:00:00Z", "1677-09-20T00:00:00Z", "3000-01-01T00:00:00+01:00",
	}
	instantsD12 = []string{
		"2020-01-01T00:00:00Z", "2020-01-01T00:00:01Z", "2019-12-31T23:30:00Z", "2021-06-15T12:00:00Z",
		"1999-12-31T23:59:59Z", "2000-02-29T10:00:00Z",
	}
	// near-colliding renderings: values that differ only past the sixth decimal (%032f keeps six), subnormals, -0 / 0,
	// neighbours in the last ulp, very large magnitudes
	floatsNear = []float64{1e-7, 2e-7, 0.1234567, 0.1234568, 5e-324, 1e-323, 0, math.Copysign(0, -1), 1, math.Nextafter(1, 2),
		1e300, math.Nextafter(1e300, 2e300), 1e30, math.Nextafter(1e30, 2e30), 2.5, 2.5000001, 1048576.75, 1048576.7500001,
		// more than six decimals next to values with another number of integer digits
		10.5, 2.7654321, 2.1234567, 10.25, 123.4567891, 3, 99.99999999, 100.0000001}
	// the same digits as int64 and as text, texts that differ in outer white space or in leading zeros
	// extremes of int64: differences overflow
	intsExtreme = []int64{math.MinInt64, math.MinInt64 + 1, -4611686018427387904, -1, 0, 1, 4611686018427387904, math.MaxInt64 - 1, math.MaxInt64}
	digitTexts  = []string{"5", "05", "5 ", " 5", "10", "-3"}
	digitInts   = []int64{5, 10, -3}
	strsD12     = []string{"a", "b", "ab", "abc", "u", "t", "x", "k1", "k2"}
	strsOut     = []string{" a", "a ", "a", "\ta", "", "  "}
)

func pickI(r *rand.Rand, a []int64) int64     { return a[r.Intn(len(a))] }
func pickF(r *rand.Rand, a []float64) float64 { return a[r.Intn(len(a))] }
func pickS(r *rand.Rand, a []string) string   { return a[r.Intn(len(a))] }

// column kinds the generator knows; "D" variants stay inside the comparable domain D12
var colKindsD12 = []string{"intD", "floatD", "textD", "timeD", "node", "pred", "strD", "bool"}
var colKindsAll = []string{"intD", "floatD", "textD", "timeD", "node", "pred", "strD", "bool",
	"int", "float", "text", "time", "str", "blob", "null", "tpred", "floatN", "digits", "floatN", "digitsT", "intX", "intX", "collide"}

func genCell(r *rand.Rand, kind string) *table.Cell {
	switch kind {
	case "intD":
		return &table.Cell{L: mustLit(literal.Int64, pickI(r, intsD12))}
	case "int":
		if r.Intn(2) == 0 {
			return &table.Cell{L: mustLit(literal.Int64, pickI(r, intsNeg))}
		}
		return &table.Cell{L: mustLit(literal.Int64, pickI(r, intsD12))}
	case "floatD":
		return &table.Cell{L: mustLit(literal.Float64, pickF(r, floatsD12))}
	case "float":
		if r.Intn(2) == 0 {
			return &table.Cell{L: mustLit(literal.Float64, pickF(r, floatsOut))}
		}
		return &table.Cell{L: mustLit(literal.Float64, pickF(r, floatsD12))}
	case "nodeC":
		p := [][2]string{{"/t", "ab"}, {"/ta", "b"}, {"/t", "a"}}[r.Intn(3)]
		return &table.Cell{N: mustNode(p[0], p[1])}
	case "collide":
		switch r.Intn(10) {
		case 0:
			return &table.Cell{L: mustLit(literal.Int64, int64(0))}
		case 1:
			return &table.Cell{L: mustLit(literal.Float64, float64(0))}
		case 2:
			return &table.Cell{L: mustLit(literal.Bool, true)}
		case 3:
			return &table.Cell{L: mustLit(literal.Text, "true")}
		case 4:
			return &table.Cell{L: mustLit(literal.Text, "abc")}
		case 5:
			return &table.Cell{L: mustLit(literal.Blob, []byte("abc"))}
		case 6:
			return &table.Cell{N: mustNode("/u", "ab")}
		case 7:
			return &table.Cell{N: mustNode("/ua", "b")}
		case 8:
			return &table.Cell{L: mustLit(literal.Text, "0")}
		}
		return &table.Cell{L: mustLit(literal.Int64, int64(1))}
	case "intX":
		return &table.Cell{L: mustLit(literal.Int64, pickI(r, intsExtreme))}
	case "floatN":
		return &table.Cell{L: mustLit(literal.Float64, pickF(r, floatsNear))}
	case "digits": // int64 and text literals with the same digits in one column
		if r.Intn(2) == 0 {
			return &table.Cell{L: mustLit(literal.Int64, pickI(r, digitInts))}
		}
		return &table.Cell{L: mustLit(literal.Text, pickS(r, digitTexts))}
	case "digitsT":
		return &table.Cell{L: mustLit(literal.Text, pickS(r, digitTexts))}
	case "textD":
		return &table.Cell{L: mustLit(literal.Text, pickS(r, textsD12))}
	case "text":
		return &table.Cell{L: mustLit(literal.Text, pickS(r, textsOut))}
	case "bool":
		return &table.Cell{L: mustLit(literal.Bool, r.Intn(2) == 0)}
	case "blob":
		n := r.Intn(3)
		b := make([]byte, n)
		for i := range b {
			b[i] = byte(r.Intn(4) * 60)
		}
		return &table.Cell{L: mustLit(literal.Blob, b)}
	case "timeD":
		t := mustTime(pickS(r, instantsD12))
		return &table.Cell{T: &t}
	case "time":
		t := mustTime(pickS(r, instants))
		return &table.Cell{T: &t}
	case "node":
		p := nodeIDs[r.Intn(len(nodeIDs))]
		return &table.Cell{N: mustNode(p[0], p[1])}
	case "pred":
		p, err := predicate.NewImmutable(pickS(r, predIDs))
		if err != nil {
			panic(err)
		}
		return &table.Cell{P: p}
	case "tpred":
		p, err := predicate.NewTemporal(pickS(r, predIDs), mustTime(pickS(r, instants)))
		if err != nil {
			panic(err)
		}
		return &table.Cell{P: p}
	case "strD":
		return &table.Cell{S: table.CellString(pickS(r, strsD12))}
	case "str":
		return &table.Cell{S: table.CellString(pickS(r, strsOut))}
	case "null":
		return &table.Cell{}
	}
	panic("unknown kind " + kind)
}

// a column is a list of kinds: one kind = homogeneous, several = mixed
func genColumn(r *rand.Rand, mixed bool, inD12 bool) []string {
	pool := colKindsAll
	if inD12 {
		pool = colKindsD12
	}
	if !mixed {
		return []string{pool[r.Intn(len(pool))]}
	}
	n := 2 + r.Intn(2)
	out := make([]string, n)
	for i := range out {
		out[i] = colKindsAll[r.Intn(len(colKindsAll))]
	}
	return out
}

// ---- running the engine --------------------------------------------------------------------------------------------

type execResult struct {
	Outcome  string   `json:"outcome"` // ok | parse | plan | exec | panic
	Bindings []string `json:"bindings,omitempty"`
	Rows     []jrow   `json:"rows,omitempty"`
	Detail   string   `json:"detail,omitempty"`
}

// runQuery parses and executes one statement against the store; panics are caught (they are observations).
func runQuery(ctx context.Context, st storage.Store, q string) (res execResult, stm *semantic.Statement) {
	defer func() {
		if r := recover(); r != nil {
			res = execResult{Outcome: "panic", Detail: firstLine(fmt.Sprint(r))}
		}
	}()
	p, err := grammar.NewParser(grammar.SemanticBQL())
	if err != nil {
		return execResult{Outcome: "parse", Detail: "newparser"}, nil
	}
	stm = &semantic.Statement{}
	if err := p.Parse(grammar.NewLLk(q, 1), stm); err != nil {
		return execResult{Outcome: "parse", Detail: firstLine(err.Error())}, nil
	}
	pln, err := planner.New(ctx, st, stm, 0, 10, nil)
	if err != nil {
		return execResult{Outcome: "plan", Detail: firstLine(err.Error())}, stm
	}
	tbl, err := pln.Execute(ctx)
	if err != nil {
		return execResult{Outcome: "exec", Detail: firstLine(err.Error())}, stm
	}
	bs := tbl.Bindings()
	return execResult{Outcome: "ok", Bindings: bs, Rows: renderRows(tbl.Rows(), bs)}, stm
}

func firstLine(s string) string {
	if i := strings.IndexByte(s, '\n'); i >= 0 {
		s = s[:i]
	}
	if len(s) > 160 {
		s = s[:160]
	}
	return s
}

func newGraph(ctx context.Context, name string, ts []*triple.Triple) storage.Store {
	st := memory.NewStore()
	g, err := st.NewGraph(ctx, name)
	if err != nil {
		panic(err)
	}
	if err := g.AddTriples(ctx, ts); err != nil {
		panic(err)
	}
	return st
}

// splitGraphs distributes the triples over 2 or 3 graphs (every triple in at least one, some in several) and returns the
// store and the FROM list
func splitGraphs(ctx context.Context, r *rand.Rand, ts []*triple.Triple) (storage.Store, string, map[string][]string) {
	names := []string{"?g", "?h", "?i"}[:2+r.Intn(2)]
	st := memory.NewStore()
	parts := make([][]*triple.Triple, len(names))
	for _, t := range ts {
		k := r.Intn(len(names))
		parts[k] = append(parts[k], t)
		if r.Intn(4) == 0 {
			j := (k + 1) % len(names)
			parts[j] = append(parts[j], t)
		}
	}
	layout := map[string][]string{}
	for i, n := range names {
		g, err := st.NewGraph(ctx, n)
		if err != nil {
			panic(err)
		}
		if err := g.AddTriples(ctx, parts[i]); err != nil {
			panic(err)
		}
		layout[n] = []string{}
		for _, t := range parts[i] {
			layout[n] = append(layout[n], t.String())
		}
	}
	return st, strings.Join(names, ", "), layout
}

func sortedKeys(m map[string]bool) []string {
	var out []string
	for k := range m {
		out = append(out, k)
	}
	sort.Strings(out)
	return out
}
