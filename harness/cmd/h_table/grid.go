package main

import (
	"context"
	"fmt"

	"github.com/google/badwolf/triple"
	"github.com/google/badwolf/triple/literal"
	"github.com/google/badwolf/triple/predicate"
)

// grid12: exhaustive small scope for C12 (thorough tier): a few fixed graphs, EVERY ORDER BY key list of length 0..2
// over the two output bindings with every direction, EVERY limit from none, 0 .. N+1.
func grid12() []e2eCase {
	ctx := context.Background()
	pv, _ := predicate.NewImmutable("v")
	mk := func(s string, o *triple.Object) *triple.Triple {
		t, err := triple.New(mustNode("/u", s), pv, o)
		if err != nil {
			panic(err)
		}
		return t
	}
	il := func(v int64) *triple.Object { return triple.NewLiteralObject(mustLit(literal.Int64, v)) }
	tx := func(v string) *triple.Object { return triple.NewLiteralObject(mustLit(literal.Text, v)) }
	fl := func(v float64) *triple.Object { return triple.NewLiteralObject(mustLit(literal.Float64, v)) }
	graphs := map[string][]*triple.Triple{
		"ints":     {mk("a", il(3)), mk("b", il(1)), mk("c", il(2)), mk("a", il(1))},
		"negative": {mk("a", il(-3)), mk("b", il(-5)), mk("c", il(2)), mk("b", il(10))},
		"texts":    {mk("a", tx("ab")), mk("b", tx("ab c")), mk("c", tx("b")), mk("c", tx("ab"))},
		"floats":   {mk("a", fl(2.5)), mk("b", fl(10.5)), mk("c", fl(0.5)), mk("a", fl(10.5))},
	}
	var out []e2eCase
	outs := []string{"?s", "?o"}
	var cfgs [][]jkey
	cfgs = append(cfgs, nil)
	for _, a := range outs {
		for _, da := range []bool{false, true} {
			cfgs = append(cfgs, []jkey{{B: a, Desc: da}})
			for _, b := range outs {
				for _, db := range []bool{false, true} {
					if a == b && da != db {
						continue // rejected by the checker (covered by the random statements)
					}
					cfgs = append(cfgs, []jkey{{B: a, Desc: da}, {B: b, Desc: db}})
				}
			}
		}
	}
	for _, name := range []string{"ints", "negative", "texts", "floats"} {
		ts := graphs[name]
		st := newGraph(ctx, "?g", ts)
		baseQ := `SELECT ?s, ?o FROM ?g WHERE {?s "v"@[] ?o};`
		base, _ := runQuery(ctx, st, baseQ)
		for _, cfg := range cfgs {
			for lim := int64(-1); lim <= int64(len(ts))+1; lim++ {
				c := e2eCase{Mode: "e2e12", Shape: "grid-" + name, Triples: tripleStrings(ts), BaseQ: baseQ, Base: base, Cfg: cfg}
				q := `SELECT ?s, ?o FROM ?g WHERE {?s "v"@[] ?o}`
				if len(cfg) > 0 {
					q += " ORDER BY "
					for i, k := range cfg {
						if i > 0 {
							q += ", "
						}
						q += k.B
						if k.Desc {
							q += " DESC"
						}
					}
				}
				if lim >= 0 {
					l := lim
					c.Limit = &l
					q += fmt.Sprintf(` LIMIT "%d"^^type:int64`, lim)
				}
				c.Q = q + ";"
				res, stm := runQuery(ctx, st, c.Q)
				c.Res = res
				if stm != nil {
					c.CfgSeen = seenCfg(stm.OrderByConfig())
				}
				out = append(out, c)
			}
		}
	}
	return out
}
