package main

import (
	"context"
	"fmt"
	"math/rand"
	"strings"

	"github.com/google/badwolf/bql/lexer"
	"github.com/google/badwolf/triple"
	"github.com/google/badwolf/triple/predicate"
)

// e2etail: statements that combine GROUP BY, ORDER BY, HAVING and LIMIT; the model (Exec.execute_tail) is fed with
// the clause contents the generator wrote and with the rows of the plain projection of the same pattern.
type tailExtra struct {
	Projs   []jproj  `json:"projs"`
	GroupBy []string `json:"group_by"`
	Keys    []jkey   `json:"keys"`
	Tokens  []jtok   `json:"tokens"` // HAVING, empty = no clause
	Limit   *int64   `json:"limit"`
}

// forceTwoKeys: every statement groups by two keys and (mostly) orders by a prefix of the GROUP BY list (mode e2etailg)
var forceTwoKeys = false

func genE2ETail(r *rand.Rand) e2eCase {
	ctx := context.Background()
	c := e2eCase{Mode: "e2etail"}
	wK := []string{[]string{"intD", "int"}[r.Intn(2)]}
	c.Kinds = wK
	var ts []*triple.Triple
	pw, _ := predicate.NewImmutable("w")
	n := 1 + r.Intn(10)
	for i := 0; i < n; i++ {
		s := subjects[r.Intn(len(subjects))]
		t, _ := triple.New(mustNode(s[0], s[1]), pw, genObject(r, wK[0]))
		ts = append(ts, t)
	}
	c.Triples = tripleStrings(ts)
	st, from := newGraph(ctx, "?g", ts), "?g"
	if r.Intn(4) == 0 {
		st, from, c.Graphs = splitGraphs(ctx, r, ts)
	}
	ex := tailExtra{}
	var outs []string
	where, baseSel := `{?s "w"@[] ?x}`, "?s, ?x"
	if r.Intn(10) < 3 || forceTwoKeys {
		// two grouping keys whose values interleave (type and id of the subject); the SELECT list, the GROUP BY list and
		// the ORDER BY list name them in INDEPENDENT orders and directions
		c.Shape = "grouped-two"
		where, baseSel = `{?s TYPE ?ty ID ?id "w"@[] ?x}`, "?ty, ?id, ?x"
		keys := []jproj{{Bind: "?ty"}, {Bind: "?id"}}
		if r.Intn(3) == 0 {
			keys[r.Intn(2)].Alias = "?k"
		}
		aggs := []jproj{{Bind: "?x", Alias: "?n", Op: "count"}}
		if r.Intn(2) == 0 {
			aggs = append(aggs, jproj{Bind: "?x", Alias: "?t", Op: "sum"})
		}
		all := append(append([]jproj{}, keys...), aggs...)
		r.Shuffle(len(all), func(i, j int) { all[i], all[j] = all[j], all[i] })
		ex.Projs = all
		for _, k := range keys {
			g := k.Bind
			if k.Alias != "" {
				g = k.Alias
			}
			ex.GroupBy = append(ex.GroupBy, g)
		}
		if r.Intn(2) == 0 {
			ex.GroupBy[0], ex.GroupBy[1] = ex.GroupBy[1], ex.GroupBy[0]
		}
	} else if r.Intn(10) < 6 {
		c.Shape = "grouped"
		ex.Projs = []jproj{{Bind: "?s"}, {Bind: "?x", Alias: "?n", Op: "count"}, {Bind: "?x", Alias: "?t", Op: "sum"}}
		switch r.Intn(4) {
		case 0:
			ex.Projs[0].Alias = "?who"
		case 1:
			ex.Projs[0].Alias = "?x" // NAME COLLISION: the alias shadows the aggregated pattern binding
		}
		if r.Intn(3) == 0 {
			ex.Projs = append(ex.Projs, jproj{Bind: "?x", Alias: "?d", Op: "count", Distinct: true})
		}
		g := ex.Projs[0].Bind
		if ex.Projs[0].Alias != "" {
			g = ex.Projs[0].Alias
		}
		ex.GroupBy = []string{g}
	} else {
		c.Shape = "plain"
		if r.Intn(5) < 2 {
			// a single clause with plain bindings only: the shape whose LIMIT may be pushed to the driver - never when a
			// HAVING clause still has to drop rows
			c.Shape = "plain-scan"
			where = `{?s ?p ?x}`
		}
		ex.Projs = []jproj{{Bind: "?s"}, {Bind: "?x"}}
		switch r.Intn(4) {
		case 0:
			ex.Projs[1].Alias = "?val"
		case 1:
			ex.Projs = []jproj{{Bind: "?x", Alias: "?val"}, {Bind: "?s", Alias: "?x"}} // the alias ?x shadows the binding ?x
			if r.Intn(2) == 0 {                                                        // ... and is assigned BEFORE the shadowed binding is projected
				ex.Projs = []jproj{{Bind: "?s", Alias: "?x"}, {Bind: "?x", Alias: "?val"}}
			}
		}
	}
	var ps []string
	for _, p := range ex.Projs {
		ps = append(ps, projText(p))
		if p.Alias != "" {
			outs = append(outs, p.Alias)
		} else {
			outs = append(outs, p.Bind)
		}
	}
	q := "SELECT " + strings.Join(ps, ", ") + " FROM " + from + " WHERE " + where
	if len(ex.GroupBy) > 0 {
		q += " GROUP BY " + strings.Join(ex.GroupBy, ", ")
	}
	if c.Shape == "grouped-two" && (r.Intn(2) == 0 || (forceTwoKeys && r.Intn(3) != 0)) {
		// ORDER BY = a prefix of the GROUP BY list (mostly ascending): what an "already sorted by Reduce" shortcut would look for
		n := 1 + r.Intn(2)
		for _, g := range ex.GroupBy[:n] {
			ex.Keys = append(ex.Keys, jkey{B: g, Desc: r.Intn(4) == 0})
		}
		q += orderByText(ex.Keys, r)
	} else if r.Intn(4) != 0 && !(c.Shape == "plain-scan" && r.Intn(3) != 0) {
		nk := 1 + r.Intn(2)
		dir := map[string]bool{}
		for i := 0; i < nk; i++ {
			k := jkey{B: outs[r.Intn(len(outs))], Desc: r.Intn(2) == 0}
			if d, ok := dir[k.B]; ok {
				k.Desc = d
			}
			dir[k.B] = k.Desc
			ex.Keys = append(ex.Keys, k)
		}
		q += orderByText(ex.Keys, r)
	}
	var having []*lexer.Token
	if r.Intn(3) != 0 || c.Shape == "plain-scan" {
		// constants that make sense for the outputs: small ints for counts / sums, nodes for the subject
		leaf := func() []*lexer.Token {
			b := outs[r.Intn(len(outs))]
			var rhs *lexer.Token
			if b == "?ty" || b == "?id" || b == "?k" { // extracted strings compare with text literals only
				return []*lexer.Token{tkn(lexer.ItemBinding, b), cmpOp(r),
					tkn(lexer.ItemLiteral, pickS(r, []string{`"a"^^type:text`, `"b"^^type:text`, `"c"^^type:text`, `"/u"^^type:text`, `"/t"^^type:text`, `"d"^^type:text`}))}
			}
			switch r.Intn(6) {
			case 0:
				rhs = tkn(lexer.ItemNode, pickS(r, nodeTexts[:4]))
			case 1:
				rhs = tkn(lexer.ItemBinding, outs[r.Intn(len(outs))])
			default:
				rhs = tkn(lexer.ItemLiteral, pickS(r, []string{`"1"^^type:int64`, `"2"^^type:int64`, `"3"^^type:int64`, `"0"^^type:int64`, `"10"^^type:int64`, `"100"^^type:int64`}))
			}
			return []*lexer.Token{tkn(lexer.ItemBinding, b), cmpOp(r), rhs}
		}
		having = leaf()
		switch r.Intn(4) {
		case 0:
			having = append([]*lexer.Token{tkn(lexer.ItemNot, "not")}, having...)
		case 1:
			having = append(wrapParens(having, 1), append([]*lexer.Token{boolOp(r)}, leaf()...)...)
		case 2:
			having = append(wrapParens(append(wrapParens(having, 1), append([]*lexer.Token{boolOp(r)}, wrapParens(leaf(), 1)...)...), 1),
				append([]*lexer.Token{boolOp(r)}, leaf()...)...)
		}
		q += " HAVING " + tokensText(having, r)
	}
	for _, t := range having {
		ex.Tokens = append(ex.Tokens, renderTok(t))
	}
	if ex.Tokens == nil {
		ex.Tokens = []jtok{}
	}
	if r.Intn(2) == 0 || (c.Shape == "grouped-two" && r.Intn(2) == 0) || c.Shape == "plain-scan" {
		l := int64(r.Intn(5))
		ex.Limit = &l
		q += fmt.Sprintf(` LIMIT "%d"^^type:int64`, l)
	}
	c.Q = q + ";"
	c.BaseQ = "SELECT " + baseSel + " FROM " + from + " WHERE " + where + ";"
	c.Extra = ex
	c.Base, _ = runQuery(ctx, st, c.BaseQ)
	c.Res, _ = runQuery(ctx, st, c.Q)
	return c
}
