package main

import (
	"flag"
	"fmt"
	"math/rand"
	"os"
)

func main() {
	mode := flag.String("mode", "sort", "sort | limit | limtok | e2e12 | ...")
	n := flag.Int("n", 100, "number of cases")
	seed := flag.Int64("seed", 1, "PRNG seed")
	file := flag.String("file", "", "rerun: a replay file written by bin/check or one recorded case")
	flag.Parse()
	if *mode == "rerun" {
		rerun(*file)
		return
	}
	r := rand.New(rand.NewSource(*seed))
	switch *mode {
	case "sort":
		for i := 0; i < *n; i++ {
			emit(genSortCase(r))
		}
	case "limit":
		for i := 0; i < *n; i++ {
			emit(genLimitCase(r))
		}
	case "limtok":
		for _, t := range limitTexts {
			emit(runLimTok(t))
		}
	case "e2e12":
		for i := 0; i < *n; i++ {
			emit(genE2E12(r))
		}
	default:
		if !extraMode(*mode, *n, r) {
			fmt.Fprintln(os.Stderr, "unknown mode", *mode)
			os.Exit(2)
		}
	}
}
