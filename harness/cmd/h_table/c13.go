package main

import (
	"context"
	"encoding/json"
	"fmt"
	"math/rand"
	"reflect"
	"strings"
	"time"

	"github.com/google/badwolf/bql/lexer"
	"github.com/google/badwolf/bql/semantic"
	"github.com/google/badwolf/bql/table"
	"github.com/google/badwolf/storage"
	"github.com/google/badwolf/triple"
	"github.com/google/badwolf/triple/literal"
	"github.com/google/badwolf/triple/predicate"
)

type jconst struct {
	Parsed string `json:"parsed"` // error | nil | ok | panic
	Cell   *jcell `json:"cell,omitempty"`
}

type jtok struct {
	K    string  `json:"k"`
	Text string  `json:"text"` // hex
	Lit  *jconst `json:"lit,omitempty"`
	Time *string `json:"time"` // ns, time tokens only; nil = parse error
}

type jtree struct {
	N  string  `json:"n"` // bind lit node time pred not and or always
	Op string  `json:"op,omitempty"`
	L  string  `json:"l,omitempty"` // hex
	R  string  `json:"r,omitempty"` // hex
	C  *jconst `json:"c,omitempty"`
	Ns *string `json:"ns"`
	A  *jtree  `json:"a,omitempty"`
	B  *jtree  `json:"b,omitempty"`
}

var tokKinds = map[lexer.TokenType]string{
	lexer.ItemBinding: "binding", lexer.ItemLiteral: "literal", lexer.ItemNode: "node", lexer.ItemTime: "time",
	lexer.ItemPredicate: "predicate", lexer.ItemNot: "not", lexer.ItemAnd: "and", lexer.ItemOr: "or",
	lexer.ItemEQ: "eq", lexer.ItemLT: "lt", lexer.ItemGT: "gt", lexer.ItemLPar: "lpar", lexer.ItemRPar: "rpar",
}

func parseConst(text string) *jconst {
	c := &jconst{}
	func() {
		defer func() {
			if e := recover(); e != nil {
				c.Parsed = "panic"
			}
		}()
		l, err := literal.DefaultBuilder().Parse(text)
		switch {
		case err != nil:
			c.Parsed = "error"
		case l == nil:
			c.Parsed = "nil"
		default:
			c.Parsed = "ok"
			j := renderLit(l)
			c.Cell = &j
		}
	}()
	return c
}

func parseTimeNs(text string) *string {
	t, err := time.Parse(time.RFC3339Nano, strings.TrimSpace(text))
	if err != nil {
		return nil
	}
	s := instantNs(t)
	return &s
}

func renderTok(t *lexer.Token) jtok {
	k, ok := tokKinds[t.Type]
	if !ok {
		k = "other"
	}
	j := jtok{K: k, Text: hx(t.Text)}
	if k == "literal" {
		j.Lit = parseConst(t.Text)
	}
	if k == "time" {
		j.Time = parseTimeNs(t.Text)
	}
	return j
}

// walkEvaluator reads the unexported evaluator tree by reflection (reading unexported fields is allowed).
func walkEvaluator(e semantic.Evaluator) *jtree {
	if e == nil {
		return nil
	}
	v := reflect.ValueOf(e)
	if v.Kind() != reflect.Ptr || v.IsNil() {
		return &jtree{N: "unknown"}
	}
	s := v.Elem()
	ops := []string{"<", ">", "=", "not", "and", "or"}
	opOf := func(f reflect.Value) string {
		i := int(f.Int())
		if i >= 0 && i < len(ops) {
			return ops[i]
		}
		return "?"
	}
	sub := func(f reflect.Value) *jtree {
		if f.IsNil() {
			return nil
		}
		// f is an interface-typed field holding a pointer; rebuild an Evaluator-like walk through reflection
		return walkValue(f.Elem())
	}
	_ = sub
	return walkStruct(s, opOf)
}

func walkValue(v reflect.Value) *jtree {
	if v.Kind() == reflect.Interface {
		if v.IsNil() {
			return nil
		}
		v = v.Elem()
	}
	if v.Kind() != reflect.Ptr || v.IsNil() {
		return &jtree{N: "unknown"}
	}
	ops := []string{"<", ">", "=", "not", "and", "or"}
	return walkStruct(v.Elem(), func(f reflect.Value) string {
		i := int(f.Int())
		if i >= 0 && i < len(ops) {
			return ops[i]
		}
		return "?"
	})
}

func walkStruct(s reflect.Value, opOf func(reflect.Value) string) *jtree {
	switch s.Type().Name() {
	case "AlwaysReturn":
		return &jtree{N: "always"}
	case "evaluationNode":
		return &jtree{N: "bind", Op: opOf(s.FieldByName("operation")), L: hx(s.FieldByName("leftBinding").String()), R: hx(s.FieldByName("rightBinding").String())}
	case "comparisonForLiteral":
		r := s.FieldByName("rightLiteral").String()
		return &jtree{N: "lit", Op: opOf(s.FieldByName("operation")), L: hx(s.FieldByName("leftBinding").String()), R: hx(r), C: parseConst(r)}
	case "comparisonForNodeLiteral":
		return &jtree{N: "node", Op: opOf(s.FieldByName("operation")), L: hx(s.FieldByName("leftBinding").String()), R: hx(s.FieldByName("rightNodeLiteral").String())}
	case "comparisonForTimeLiteral":
		r := s.FieldByName("rightTimeLiteral").String()
		return &jtree{N: "time", Op: opOf(s.FieldByName("operation")), L: hx(s.FieldByName("leftBinding").String()), R: hx(r), Ns: parseTimeNs(r)}
	case "comparisonForPredicateLiteral":
		return &jtree{N: "pred", Op: opOf(s.FieldByName("operation")), L: hx(s.FieldByName("leftBinding").String()), R: hx(s.FieldByName("rightPredicateLiteral").String())}
	case "booleanNode":
		op := opOf(s.FieldByName("op"))
		t := &jtree{N: op, A: walkValue(s.FieldByName("lE"))}
		if s.FieldByName("rS").Bool() {
			t.B = walkValue(s.FieldByName("rE"))
		}
		return t
	}
	return &jtree{N: "unknown:" + s.Type().Name()}
}

// ---- token generators ----------------------------------------------------------------------------------------------

var bindingNames = []string{"?a", "?b", "?c", "?zz"}
var literalTexts = []string{
	`"5"^^type:int64`, `"0"^^type:int64`, `"10"^^type:int64`, `"-4"^^type:int64`, `"-3"^^type:int64`, `"100"^^type:int64`,
	`"9223372036854775807"^^type:int64`, `"1.5"^^type:float64`, `"2"^^type:float64`, `"-2.5"^^type:float64`, `"2e-07"^^type:float64`,
	`"1e+30"^^type:float64`, `"ab"^^type:text`, `"abc"^^type:text`, `"ab c"^^type:text`, `"a"^^type:text`, `"b"^^type:text`, `"u"^^type:text`,
	`""^^type:text`, `"true"^^type:bool`, `"false"^^type:bool`, `"[0 60]"^^type:blob`, `"x"^^type:int64`, `"zeta"^^type:text`, `"k1"^^type:text`,
}
var nodeTexts = []string{`/u<a>`, `/u<b>`, `/t<a>`, `/u<ab>`, `/u/x<al>`, `/u<al>`, `/ux<a>`, `/t<ab>`, `/ta<b>`, `/t<x y>`}
var timeTexts = []string{`1500-06-01T12:00:00Z`, `9999-12-31T23:59:59Z`, `2020-01-01T00:00:00Z`, `2020-01-01T00:00:01Z`, `2019-12-31T23:30:00Z`, `2020-01-01T01:00:00+01:00`, `2020-01-01T00:00:00.5Z`, `1999-12-31T23:59:59Z`}
var predTexts = []string{`"p"@[]`, `"q"@[]`, `"knows"@[]`, `"p"@[2020-01-01T00:00:00Z]`}

func tkn(t lexer.TokenType, s string) *lexer.Token { return &lexer.Token{Type: t, Text: s} }

// constOfKind: a constant that can meaningfully be compared with a cell of the given generator kind
func constOfKind(r *rand.Rand, kind string) *lexer.Token {
	switch kind {
	case "int", "intD", "intX":
		return tkn(lexer.ItemLiteral, pickS(r, []string{`"-9223372036854775808"^^type:int64`, `"-9223372036854775807"^^type:int64`, `"4611686018427387904"^^type:int64`, `"5"^^type:int64`, `"0"^^type:int64`, `"10"^^type:int64`, `"-4"^^type:int64`, `"-3"^^type:int64`,
			`"100"^^type:int64`, `"3"^^type:int64`, `"2"^^type:int64`, `"1"^^type:int64`, `"99"^^type:int64`, `"9223372036854775807"^^type:int64`}))
	case "float", "floatD", "floatN":
		return tkn(lexer.ItemLiteral, pickS(r, []string{`"1.5"^^type:float64`, `"2"^^type:float64`, `"-2.5"^^type:float64`, `"2e-07"^^type:float64`,
			`"1e+30"^^type:float64`, `"2e+29"^^type:float64`, `"0.5"^^type:float64`, `"10.125"^^type:float64`, `"2.5"^^type:float64`, `"1e-07"^^type:float64`,
			`"2.7654321"^^type:float64`, `"10.25"^^type:float64`, `"3"^^type:float64`, `"123.4567891"^^type:float64`, `"10.5"^^type:float64`, `"2.1234567"^^type:float64`}))
	case "text", "textD", "str", "strD", "digitsT":
		return tkn(lexer.ItemLiteral, pickS(r, []string{`"ab"^^type:text`, `"abc"^^type:text`, `"ab c"^^type:text`, `"a"^^type:text`, `"b"^^type:text`,
			`"u"^^type:text`, `""^^type:text`, `"zeta"^^type:text`, `"k1"^^type:text`, `"t"^^type:text`, `"x"^^type:text`, `"5"^^type:text`}))
	case "time", "timeD":
		return tkn(lexer.ItemTime, pickS(r, append(append([]string{}, timeTexts...), instants...)))
	case "node":
		return tkn(lexer.ItemNode, pickS(r, nodeTexts))
	case "nodeC": // nodes whose type+id concatenations coincide
		return tkn(lexer.ItemNode, pickS(r, []string{`/t<ab>`, `/ta<b>`, `/t<ab>`, `/ta<b>`, `/t<a>`}))
	case "pred", "tpred":
		return tkn(lexer.ItemPredicate, pickS(r, predTexts))
	case "bool":
		return tkn(lexer.ItemLiteral, pickS(r, []string{`"true"^^type:bool`, `"false"^^type:bool`}))
	}
	return genOperand(r, 0)
}

// genThemed: well-typed expressions whose comparisons mostly match the kind of the cells (themes[binding] = kind)
func genThemed(r *rand.Rand, binds []string, themes map[string]string, depth int) []*lexer.Token {
	leaf := func() []*lexer.Token {
		b := binds[r.Intn(len(binds))]
		var rhs *lexer.Token
		switch roll := r.Intn(10); {
		case roll < 7:
			rhs = constOfKind(r, themes[b])
		case roll < 8:
			rhs = tkn(lexer.ItemBinding, binds[r.Intn(len(binds))])
		default:
			rhs = genOperand(r, 1)
		}
		op := cmpOp(r)
		if (rhs.Type == lexer.ItemNode || rhs.Type == lexer.ItemPredicate) && r.Intn(4) != 0 {
			op = tkn(lexer.ItemEQ, "=") // the only comparison node and predicate constants admit
		}
		return []*lexer.Token{tkn(lexer.ItemBinding, b), op, rhs}
	}
	roll := r.Intn(10)
	if depth <= 0 || roll < 4 {
		return leaf()
	}
	if roll < 6 {
		return append([]*lexer.Token{tkn(lexer.ItemNot, "not")}, genThemed(r, binds, themes, depth-1)...)
	}
	out := append([]*lexer.Token{tkn(lexer.ItemLPar, "(")}, genThemed(r, binds, themes, depth-1)...)
	out = append(out, tkn(lexer.ItemRPar, ")"))
	if r.Intn(3) != 0 {
		out = append(out, boolOp(r))
		out = append(out, genThemed(r, binds, themes, depth-1)...)
	}
	return out
}

func genOperand(r *rand.Rand, bindingBias int) *lexer.Token {
	if r.Intn(10) < bindingBias {
		return tkn(lexer.ItemBinding, bindingNames[r.Intn(len(bindingNames)-1+r.Intn(2))%len(bindingNames)])
	}
	switch r.Intn(7) {
	case 0, 1, 2:
		return tkn(lexer.ItemLiteral, pickS(r, literalTexts))
	case 3:
		return tkn(lexer.ItemNode, pickS(r, nodeTexts))
	case 4:
		return tkn(lexer.ItemTime, pickS(r, timeTexts))
	case 5:
		return tkn(lexer.ItemPredicate, pickS(r, predTexts))
	}
	return tkn(lexer.ItemBinding, bindingNames[r.Intn(3)])
}

func cmpOp(r *rand.Rand) *lexer.Token {
	switch r.Intn(3) {
	case 0:
		return tkn(lexer.ItemEQ, "=")
	case 1:
		return tkn(lexer.ItemLT, "<")
	}
	return tkn(lexer.ItemGT, ">")
}

func boolOp(r *rand.Rand) *lexer.Token {
	if r.Intn(2) == 0 {
		return tkn(lexer.ItemAnd, "and")
	}
	return tkn(lexer.ItemOr, "or")
}

// genTyped: well-typed boolean expressions (the sub-language with a boolean meaning)
func genTyped(r *rand.Rand, depth int) []*lexer.Token {
	roll := r.Intn(10)
	if depth <= 0 || roll < 4 {
		return []*lexer.Token{tkn(lexer.ItemBinding, bindingNames[r.Intn(3+r.Intn(2))%len(bindingNames)]), cmpOp(r), genOperand(r, 2)}
	}
	if roll < 6 {
		return append([]*lexer.Token{tkn(lexer.ItemNot, "not")}, genTyped(r, depth-1)...)
	}
	out := append([]*lexer.Token{tkn(lexer.ItemLPar, "(")}, genTyped(r, depth-1)...)
	out = append(out, tkn(lexer.ItemRPar, ")"))
	if r.Intn(3) != 0 {
		out = append(out, boolOp(r))
		out = append(out, genTyped(r, depth-1)...)
	}
	return out
}

// genGrammar: any derivation of HAVING_CLAUSE (mostly without boolean meaning)
func genGrammar(r *rand.Rand, depth int) []*lexer.Token {
	composite := func() []*lexer.Token {
		if depth <= 0 || r.Intn(2) == 0 {
			return nil
		}
		var op *lexer.Token
		if r.Intn(2) == 0 {
			op = cmpOp(r)
		} else {
			op = boolOp(r)
		}
		return append([]*lexer.Token{op}, genGrammar(r, depth-1)...)
	}
	switch r.Intn(4) {
	case 0:
		if depth > 0 {
			return append([]*lexer.Token{tkn(lexer.ItemNot, "not")}, genGrammar(r, depth-1)...)
		}
	case 1:
		if depth > 0 {
			out := append([]*lexer.Token{tkn(lexer.ItemLPar, "(")}, genGrammar(r, depth-1)...)
			out = append(out, tkn(lexer.ItemRPar, ")"))
			return append(out, composite()...)
		}
	}
	return append([]*lexer.Token{genOperand(r, 6)}, composite()...)
}

func mutate(r *rand.Rand, toks []*lexer.Token) []*lexer.Token {
	out := append([]*lexer.Token{}, toks...)
	switch r.Intn(4) {
	case 0:
		if len(out) > 0 {
			i := r.Intn(len(out))
			out = append(out[:i], out[i+1:]...)
		}
	case 1:
		extra := []*lexer.Token{tkn(lexer.ItemRPar, ")"), tkn(lexer.ItemLPar, "("), tkn(lexer.ItemAnd, "and"), tkn(lexer.ItemNot, "not"), cmpOp(r), tkn(lexer.ItemComma, ","), tkn(lexer.ItemBinding, " ")}
		i := r.Intn(len(out) + 1)
		out = append(out[:i], append([]*lexer.Token{extra[r.Intn(len(extra))]}, out[i:]...)...)
	case 2:
		out = append(out, tkn(lexer.ItemRPar, ")"))
	case 3:
		if len(out) > 1 {
			i := r.Intn(len(out) - 1)
			out[i], out[i+1] = out[i+1], out[i]
		}
	}
	return out
}

type exprCase struct {
	Mode    string   `json:"mode"` // expr
	Gen     string   `json:"gen"`  // typed | grammar | mutated | nested
	Tokens  []jtok   `json:"tokens"`
	Build   string   `json:"build"` // ok | err | panic
	Tree    *jtree   `json:"tree,omitempty"`
	Rows    []jrow   `json:"rows"`
	Results []string `json:"results"` // per row: t | f | e | p
}

func rowKinds(r *rand.Rand) []string {
	return []string{colKindsAll[r.Intn(len(colKindsAll))], colKindsAll[r.Intn(len(colKindsAll))], colKindsAll[r.Intn(len(colKindsAll))]}
}

func runExpr(gen string, toks []*lexer.Token, rows []table.Row, bs []string) exprCase {
	c := exprCase{Mode: "expr", Gen: gen}
	var ces []semantic.ConsumedElement
	for _, t := range toks {
		c.Tokens = append(c.Tokens, renderTok(t))
		ces = append(ces, semantic.NewConsumedToken(t))
	}
	if c.Tokens == nil {
		c.Tokens = []jtok{}
	}
	var ev semantic.Evaluator
	func() {
		defer func() {
			if e := recover(); e != nil {
				c.Build = "panic"
			}
		}()
		e, err := semantic.NewEvaluator(ces)
		if err != nil {
			c.Build = "err"
			return
		}
		c.Build = "ok"
		ev = e
		c.Tree = walkValue(reflect.ValueOf(e))
	}()
	c.Rows = renderRows(rows, bs)
	if ev != nil {
		for _, row := range rows {
			func() {
				defer func() {
					if e := recover(); e != nil {
						c.Results = append(c.Results, "p")
					}
				}()
				b, err := ev.Evaluate(row)
				switch {
				case err != nil:
					c.Results = append(c.Results, "e")
				case b:
					c.Results = append(c.Results, "t")
				default:
					c.Results = append(c.Results, "f")
				}
			}()
		}
	}
	if c.Results == nil {
		c.Results = []string{}
	}
	return c
}

func genExprCase(r *rand.Rand) exprCase {
	var toks []*lexer.Token
	gen := ""
	// rows: the three bindings hold cells whose kinds match the constants often enough
	kinds := rowKinds(r)
	if r.Intn(3) != 0 {
		kinds = []string{[]string{"int", "float", "text", "textD", "intD", "time", "time", "node", "pred", "strD", "str", "bool", "floatN", "intX", "nodeC", "nodeC"}[r.Intn(16)], kinds[1], kinds[2]}
		if r.Intn(2) == 0 {
			kinds[1] = kinds[0]
		}
	}
	themes := map[string]string{"?a": kinds[0], "?b": kinds[1], "?c": kinds[2], "?zz": "int"}
	switch roll := r.Intn(10); {
	case roll < 3:
		gen, toks = "themed", genThemed(r, []string{"?a", "?b", "?c"}, themes, 1+r.Intn(3))
	case roll < 5:
		gen, toks = "typed", genTyped(r, 1+r.Intn(3))
	case roll < 7:
		gen, toks = "grammar", genGrammar(r, 1+r.Intn(3))
	case roll < 8:
		gen = "nested"
		inner := genTyped(r, 1)
		n := 1 + r.Intn(3)
		for i := 0; i < n; i++ {
			toks = append(toks, tkn(lexer.ItemLPar, "("))
		}
		toks = append(toks, inner...)
		for i := 0; i < n; i++ {
			toks = append(toks, tkn(lexer.ItemRPar, ")"))
		}
	case roll < 9:
		gen, toks = "mutated", mutate(r, genTyped(r, 1+r.Intn(2)))
	default:
		// long chains and deep nesting: ( A ) op ( B ) op ... (right nested by the grammar), NOT NOT ... , ((( ... )))
		gen = "deep"
		leaf := func() []*lexer.Token { return genThemed(r, []string{"?a", "?b", "?c"}, themes, 0) }
		n := 4 + r.Intn(10)
		for i := 0; i < n; i++ {
			for j := r.Intn(3); j > 0; j-- {
				toks = append(toks, tkn(lexer.ItemNot, "not"))
			}
			toks = append(toks, wrapParens(leaf(), 1+r.Intn(3))...)
			if i < n-1 {
				toks = append(toks, boolOp(r))
			}
		}
		if r.Intn(2) == 0 {
			toks = wrapParens(toks, 1+r.Intn(4))
		}
	}
	bs := []string{"?a", "?b", "?c"}
	var rows []table.Row
	n := 1 + r.Intn(5)
	for i := 0; i < n; i++ {
		row := table.Row{}
		for j, b := range bs {
			row[b] = genCell(r, kinds[j])
		}
		rows = append(rows, row)
	}
	return runExpr(gen, toks, rows, bs)
}

// ---- end to end: HAVING through the planner -------------------------------------------------------------------------

func tokText(t *lexer.Token) string { return t.Text }

func typedText(r *rand.Rand, binds []string, depth int) string {
	leaf := func() string {
		b := binds[r.Intn(len(binds))]
		var rhs string
		switch r.Intn(8) {
		case 0:
			rhs = binds[r.Intn(len(binds))]
		case 1:
			rhs = pickS(r, nodeTexts[:4])
		case 2:
			rhs = pickS(r, timeTexts)
		case 3:
			rhs = pickS(r, predTexts)
		default:
			rhs = pickS(r, literalTexts[:len(literalTexts)-3])
		}
		return b + " " + []string{"=", "<", ">"}[r.Intn(3)] + " " + rhs
	}
	roll := r.Intn(10)
	if depth <= 0 || roll < 4 {
		return leaf()
	}
	if roll < 6 {
		return "NOT " + typedText(r, binds, depth-1)
	}
	s := "(" + typedText(r, binds, depth-1) + ")"
	if r.Intn(3) != 0 {
		s += []string{" AND ", " OR "}[r.Intn(2)] + typedText(r, binds, depth-1)
	}
	return s
}

type e2e13Extra struct {
	Tokens     []jtok `json:"tokens"`      // the token list the generator INTENDED to write
	TokensSeen []jtok `json:"tokens_seen"` // what the havingExpression hook collected (Statement.HavingExpression())
	Having     string `json:"having"`
}

// typedTokens: a well-typed HAVING expression over the given bindings as the token list the statement will contain
func typedTokens(r *rand.Rand, binds []string, depth int) []*lexer.Token {
	leaf := func() []*lexer.Token {
		b := tkn(lexer.ItemBinding, binds[r.Intn(len(binds))])
		var rhs *lexer.Token
		switch r.Intn(8) {
		case 0:
			rhs = tkn(lexer.ItemBinding, binds[r.Intn(len(binds))])
		case 1:
			rhs = tkn(lexer.ItemNode, pickS(r, nodeTexts[:9]))
		case 2:
			rhs = tkn(lexer.ItemTime, pickS(r, timeTexts))
		case 3:
			rhs = tkn(lexer.ItemPredicate, pickS(r, predTexts))
		default:
			rhs = tkn(lexer.ItemLiteral, pickS(r, literalTexts[:len(literalTexts)-3]))
		}
		return []*lexer.Token{b, cmpOp(r), rhs}
	}
	roll := r.Intn(10)
	if depth <= 0 || roll < 4 {
		return leaf()
	}
	if roll < 6 {
		return append([]*lexer.Token{tkn(lexer.ItemNot, "not")}, typedTokens(r, binds, depth-1)...)
	}
	out := append([]*lexer.Token{tkn(lexer.ItemLPar, "(")}, typedTokens(r, binds, depth-1)...)
	out = append(out, tkn(lexer.ItemRPar, ")"))
	if r.Intn(3) != 0 {
		out = append(out, boolOp(r))
		out = append(out, typedTokens(r, binds, depth-1)...)
	}
	return out
}

func wrapParens(toks []*lexer.Token, n int) []*lexer.Token {
	var out []*lexer.Token
	for i := 0; i < n; i++ {
		out = append(out, tkn(lexer.ItemLPar, "("))
	}
	out = append(out, toks...)
	for i := 0; i < n; i++ {
		out = append(out, tkn(lexer.ItemRPar, ")"))
	}
	return out
}

func tokensText(toks []*lexer.Token, r *rand.Rand) string {
	var parts []string
	for _, t := range toks {
		s := t.Text
		if (t.Type == lexer.ItemNot || t.Type == lexer.ItemAnd || t.Type == lexer.ItemOr) && r.Intn(2) == 0 {
			s = strings.ToUpper(s)
		}
		parts = append(parts, s)
	}
	return strings.Join(parts, " ")
}

func genE2E13(r *rand.Rand) e2eCase {
	ctx := context.Background()
	c := e2eCase{Mode: "e2e13"}
	roll := r.Intn(100)
	class := "D12"
	if roll >= 50 && roll < 75 {
		class = "homogeneous"
	} else if roll >= 75 {
		class = "mixed"
	}
	vK, wK := genObjKinds(r, class), []string{[]string{"intD", "int"}[r.Intn(2)]}
	c.Kinds = append(append([]string{class}, vK...), wK...)
	ts := genTriples(r, vK, wK, 2+r.Intn(8), false)
	c.Triples = tripleStrings(ts)
	st := newGraph(ctx, "?g", ts)
	var sel, where, tail string
	var binds []string
	shadow := false
	switch r.Intn(10) {
	case 8:
		// HAVING of a CONSTRUCT: facts are built for exactly the solutions HAVING keeps
		c.Shape = "construct"
		sel, where, binds = "?s, ?o", `{?s "v"@[] ?o}`, []string{"?s", "?o"}
	case 9:
		// HAVING of a DECONSTRUCT: facts are removed for exactly the solutions HAVING keeps
		c.Shape = "deconstruct"
		sel, where, binds = "?s, ?o", `{?s "v"@[] ?o}`, []string{"?s", "?o"}
	case 6:
		// NAME COLLISION: HAVING on an alias that shadows a pattern binding (?o is the subject here)
		c.Shape, shadow = "shadow", true
		sel, where, binds = "?o AS ?val, ?s AS ?o", `{?s "v"@[] ?o}`, []string{"?val", "?o"}
	case 7:
		c.Shape, shadow = "shadow-grouped", true
		sel, where, binds = "?s AS ?x, count(?x) AS ?n", `{?s "w"@[] ?x}`, []string{"?x", "?n"}
		tail = " GROUP BY ?x"
	case 0:
		c.Shape = "one-clause"
		sel, where, binds = "?s, ?o", `{?s "v"@[] ?o}`, []string{"?s", "?o"}
	case 1:
		c.Shape = "id-type"
		sel, where, binds = "?sid, ?sty, ?o", `{?s ID ?sid TYPE ?sty "v"@[] ?o}`, []string{"?sid", "?sty", "?o"}
	case 2:
		c.Shape = "anchor"
		sel, where, binds = "?s, ?t, ?o", `{?s "t"@[?t] ?o}`, []string{"?s", "?t", "?o"}
	case 3:
		c.Shape = "grouped" // HAVING over aggregate outputs: applied after grouping
		sel, where, binds = "?s, count(?x) AS ?n, sum(?x) AS ?t", `{?s "w"@[] ?x}`, []string{"?n", "?t", "?s"}
		tail = " GROUP BY ?s"
	case 4:
		c.Shape = "grouped-ordered"
		sel, where, binds = "?s, count(?x) AS ?n, count(distinct ?x) AS ?d", `{?s "w"@[] ?x}`, []string{"?n", "?d"}
		tail = " GROUP BY ?s ORDER BY ?n DESC, ?s"
	case 5:
		c.Shape = "alias"
		sel, where, binds = "?s AS ?subj, ?o AS ?val", `{?s "v"@[] ?o}`, []string{"?subj", "?val"}
	}
	ok := vK[0]
	themes := map[string]string{"?s": "node", "?subj": "node", "?o": ok, "?val": ok, "?t": "time", "?sid": "text", "?sty": "text",
		"?n": "int", "?d": "int"}
	if c.Shape == "grouped" {
		themes["?t"] = "int"
	}
	if shadow {
		themes["?o"], themes["?x"] = "node", "node"
	}
	var intended []*lexer.Token
	if r.Intn(3) == 0 {
		intended = typedTokens(r, binds, r.Intn(3))
	} else {
		intended = genThemed(r, binds, themes, r.Intn(3))
	}
	if r.Intn(12) == 0 {
		intended = wrapParens(intended, 2)
	}
	if r.Intn(15) == 0 {
		intended = wrapParens(intended, 3)
	}
	having := tokensText(intended, r)
	c.BaseQ = "SELECT " + sel + " FROM ?g WHERE " + where + tail + ";"
	// HAVING comes after ORDER BY in the grammar
	c.Q = "SELECT " + sel + " FROM ?g WHERE " + where + tail + " HAVING " + having + ";"
	c.Base, _ = runQuery(ctx, st, c.BaseQ)
	if c.Shape == "construct" {
		c.Q = `CONSTRUCT {?s "kept"@[] ?o} INTO ?out FROM ?g WHERE ` + where + " HAVING " + having + ";"
	} else if c.Shape == "deconstruct" {
		c.Q = `DECONSTRUCT {?s "v"@[] ?o} IN ?out FROM ?g WHERE ` + where + " HAVING " + having + ";"
	}
	res, stm := runHaving(ctx, st, c.Shape, c.Q, ts, c.Base)
	c.Res = res
	ex := e2e13Extra{Having: having}
	for _, t := range intended {
		ex.Tokens = append(ex.Tokens, renderTok(t))
	}
	if stm != nil {
		for _, ce := range stm.HavingExpression() {
			ex.TokensSeen = append(ex.TokensSeen, renderTok(ce.Token()))
		}
	}
	c.Extra = ex
	return c
}

// ---- replays ------------------------------------------------------------------------------------------------------

func evalOne(toks []*lexer.Token, row table.Row) string {
	var ces []semantic.ConsumedElement
	for _, t := range toks {
		ces = append(ces, semantic.NewConsumedToken(t))
	}
	ev, err := semantic.NewEvaluator(ces)
	if err != nil {
		return "build-error"
	}
	b, err := ev.Evaluate(row)
	if err != nil {
		return "error"
	}
	return fmt.Sprint(b)
}

func replay13() []replayResult {
	var out []replayResult
	lt := func(b, lit string) []*lexer.Token {
		return []*lexer.Token{tkn(lexer.ItemBinding, b), tkn(lexer.ItemLT, "<"), tkn(lexer.ItemLiteral, lit)}
	}
	add := func(id, got, wrong string) {
		out = append(out, replayResult{Mode: "replay", ID: id, Fails: got == wrong, Observed: []string{got}})
	}
	add("C13-negative-int", evalOne(lt("?o", `"-4"^^type:int64`), table.Row{"?o": litCell(literal.Int64, int64(-3))}), "true")
	add("C13-float-width", evalOne(lt("?o", `"2e+29"^^type:float64`), table.Row{"?o": litCell(literal.Float64, 1e30)}), "true")
	add("C13-float-precision", evalOne([]*lexer.Token{tkn(lexer.ItemBinding, "?o"), tkn(lexer.ItemEQ, "="), tkn(lexer.ItemLiteral, `"2e-07"^^type:float64`)},
		table.Row{"?o": litCell(literal.Float64, 1e-7)}), "true")
	add("C13-float-negative", evalOne(lt("?o", `"-2.5"^^type:float64`), table.Row{"?o": litCell(literal.Float64, -1.5)}), "true")
	add("C13-text-prefix", evalOne(lt("?o", `"ab"^^type:text`), table.Row{"?o": litCell(literal.Text, "ab c")}), "true")
	add("C13-id-prefix", evalOne(lt("?o", `"ab"^^type:text`), table.Row{"?o": &table.Cell{S: table.CellString("ab c")}}), "true")
	// three nested parentheses: a well-typed expression the builder rejects
	nested := []*lexer.Token{tkn(lexer.ItemLPar, "("), tkn(lexer.ItemLPar, "("), tkn(lexer.ItemLPar, "(")}
	nested = append(nested, lt("?o", `"5"^^type:int64`)...)
	nested = append(nested, tkn(lexer.ItemRPar, ")"), tkn(lexer.ItemRPar, ")"), tkn(lexer.ItemRPar, ")"))
	add("C13-nested-parentheses", evalOne(nested, table.Row{"?o": litCell(literal.Int64, int64(3))}), "build-error")
	// anchors of two zones in a binding-binding comparison: compared as strings
	t1, t2 := mustTime("2020-01-01T00:00:00+01:00"), mustTime("2019-12-31T23:30:00Z")
	add("C13-anchor-zone-bindings", evalOne([]*lexer.Token{tkn(lexer.ItemBinding, "?a"), tkn(lexer.ItemLT, "<"), tkn(lexer.ItemBinding, "?b")},
		table.Row{"?a": &table.Cell{T: &t1}, "?b": &table.Cell{T: &t2}}), "false")
	return out
}

// genE2E13Seq: TWO statements, one after the other in this process, over one graph; their HAVING clauses differ only in
// the letter case of a constant (text "abc" / "ABC", node /u<alice> / /u<Alice>): each must be evaluated for what it says.
func genE2E13Seq(r *rand.Rand) []e2eCase {
	ctx := context.Background()
	pv, _ := predicate.NewImmutable("v")
	var ts []*triple.Triple
	for _, s := range [][2]string{{"/u", "alice"}, {"/u", "Alice"}, {"/u", "bob"}, {"/U", "alice"}} {
		for _, o := range []string{"abc", "ABC", "Abc", "x"} {
			if r.Intn(3) != 0 {
				t, _ := triple.New(mustNode(s[0], s[1]), pv, triple.NewLiteralObject(mustLit(literal.Text, o)))
				ts = append(ts, t)
			}
		}
	}
	st := newGraph(ctx, "?g", ts)
	variants := [][2][]*lexer.Token{
		{{tkn(lexer.ItemBinding, "?o"), tkn(lexer.ItemEQ, "="), tkn(lexer.ItemLiteral, `"abc"^^type:text`)},
			{tkn(lexer.ItemBinding, "?o"), tkn(lexer.ItemEQ, "="), tkn(lexer.ItemLiteral, `"ABC"^^type:text`)}},
		{{tkn(lexer.ItemBinding, "?s"), tkn(lexer.ItemEQ, "="), tkn(lexer.ItemNode, `/u<alice>`)},
			{tkn(lexer.ItemBinding, "?s"), tkn(lexer.ItemEQ, "="), tkn(lexer.ItemNode, `/u<Alice>`)}},
		{{tkn(lexer.ItemBinding, "?o"), tkn(lexer.ItemLT, "<"), tkn(lexer.ItemLiteral, `"abc"^^type:text`)},
			{tkn(lexer.ItemBinding, "?o"), tkn(lexer.ItemLT, "<"), tkn(lexer.ItemLiteral, `"Abc"^^type:text`)}},
		{{tkn(lexer.ItemNot, "not"), tkn(lexer.ItemBinding, "?s"), tkn(lexer.ItemEQ, "="), tkn(lexer.ItemNode, `/U<alice>`)},
			{tkn(lexer.ItemNot, "not"), tkn(lexer.ItemBinding, "?s"), tkn(lexer.ItemEQ, "="), tkn(lexer.ItemNode, `/u<alice>`)}},
	}
	pair := variants[r.Intn(len(variants))]
	if r.Intn(2) == 0 {
		pair[0], pair[1] = pair[1], pair[0]
	}
	var out []e2eCase
	baseQ := `SELECT ?s, ?o FROM ?g WHERE {?s "v"@[] ?o};`
	base, _ := runQuery(ctx, st, baseQ)
	for _, toks := range pair {
		c := e2eCase{Mode: "e2e13", Shape: "sequence", Triples: tripleStrings(ts), BaseQ: baseQ, Base: base}
		having := tokensText(toks, r)
		c.Q = `SELECT ?s, ?o FROM ?g WHERE {?s "v"@[] ?o} HAVING ` + having + ";"
		res, stm := runQuery(ctx, st, c.Q)
		c.Res = res
		ex := e2e13Extra{Having: having}
		for _, t := range toks {
			ex.Tokens = append(ex.Tokens, renderTok(t))
		}
		if stm != nil {
			for _, ce := range stm.HavingExpression() {
				ex.TokensSeen = append(ex.TokensSeen, renderTok(ce.Token()))
			}
		}
		c.Extra = ex
		out = append(out, c)
	}
	return out
}

// runHaving runs a statement with a HAVING clause and returns the SOLUTIONS IT KEPT as rows: for SELECT the result table; for
// CONSTRUCT {?s "kept"@[] ?o} INTO ?out the facts found in ?out afterwards; for DECONSTRUCT {?s "v"@[] ?o} IN ?out (where ?out
// starts as a copy of the facts) the base rows whose fact is gone afterwards.  The order of the rows of the last two is not
// meaningful.
func runHaving(ctx context.Context, st storage.Store, shape, q string, ts []*triple.Triple, base execResult) (execResult, *semantic.Statement) {
	if shape != "construct" && shape != "deconstruct" {
		return runQuery(ctx, st, q)
	}
	g, err := st.NewGraph(ctx, "?out")
	if err != nil {
		panic(err)
	}
	if shape == "deconstruct" {
		if err := g.AddTriples(ctx, ts); err != nil {
			panic(err)
		}
	}
	res, stm := runQuery(ctx, st, q)
	if res.Outcome != "ok" {
		return res, stm
	}
	if shape == "construct" {
		kept, _ := runQuery(ctx, st, `SELECT ?s, ?o FROM ?out WHERE {?s "kept"@[] ?o};`)
		return kept, stm
	}
	left, _ := runQuery(ctx, st, `SELECT ?s, ?o FROM ?out WHERE {?s "v"@[] ?o};`)
	if left.Outcome != "ok" {
		return left, stm
	}
	still := map[string]bool{}
	for _, row := range left.Rows {
		b, _ := json.Marshal(row)
		still[string(b)] = true
	}
	out := execResult{Outcome: "ok", Bindings: base.Bindings}
	for _, row := range base.Rows {
		b, _ := json.Marshal(row)
		if !still[string(b)] {
			out.Rows = append(out.Rows, row)
		}
	}
	return out, stm
}
