package main

import (
	"context"
	"fmt"
	"strings"
	"time"

	"github.com/google/badwolf/bql/table"
	"github.com/google/badwolf/triple"
	"github.com/google/badwolf/triple/literal"
	"github.com/google/badwolf/triple/predicate"
)

// replays of the known findings: each runs the canonical witness on the implementation and says whether the
// property still fails there.
type replayResult struct {
	Mode     string   `json:"mode"`
	ID       string   `json:"id"`
	Fails    bool     `json:"fails"`
	Observed []string `json:"observed"`
}

func sortOneColumn(cells []*table.Cell, desc bool) []string {
	bs := []string{"?a"}
	var rows []table.Row
	for _, c := range cells {
		rows = append(rows, table.Row{"?a": c})
	}
	t := mkTable(bs, rows)
	t.Sort(table.SortConfig{{Binding: "?a", Desc: desc}})
	var out []string
	for _, r := range t.Rows() {
		out = append(out, r["?a"].String())
	}
	return out
}

func litCell(t literal.Type, v interface{}) *table.Cell { return &table.Cell{L: mustLit(t, v)} }
func timeCell(s string) *table.Cell                     { t := mustTime(s); return &table.Cell{T: &t} }

func eqStrings(a, b []string) bool {
	if len(a) != len(b) {
		return false
	}
	for i := range a {
		if a[i] != b[i] {
			return false
		}
	}
	return true
}

func replay12() []replayResult {
	var out []replayResult
	add := func(id string, obs []string, wrong []string) {
		out = append(out, replayResult{Mode: "replay", ID: id, Fails: eqStrings(obs, wrong), Observed: obs})
	}
	add("C12-negative-int", sortOneColumn([]*table.Cell{litCell(literal.Int64, int64(-3)), litCell(literal.Int64, int64(-5))}, false),
		[]string{`"-3"^^type:int64`, `"-5"^^type:int64`})
	add("C12-float-width", sortOneColumn([]*table.Cell{litCell(literal.Float64, 1e30), litCell(literal.Float64, 2e29)}, false),
		[]string{`"1e+30"^^type:float64`, `"2e+29"^^type:float64`})
	add("C12-float-negative", sortOneColumn([]*table.Cell{litCell(literal.Float64, -1.5), litCell(literal.Float64, -2.5)}, false),
		[]string{`"-1.5"^^type:float64`, `"-2.5"^^type:float64`})
	add("C12-float-precision", sortOneColumn([]*table.Cell{litCell(literal.Float64, 2e-7), litCell(literal.Float64, 1e-7)}, false),
		[]string{`"2e-07"^^type:float64`, `"1e-07"^^type:float64`})
	add("C12-anchor-zone", sortOneColumn([]*table.Cell{timeCell("2019-12-31T23:30:00Z"), timeCell("2020-01-01T00:00:00+01:00")}, false),
		[]string{"2019-12-31T23:30:00Z", "2020-01-01T00:00:00+01:00"})
	add("C12-anchor-precision", sortOneColumn([]*table.Cell{timeCell("2020-01-01T00:00:00Z"), timeCell("2020-01-01T00:00:00.5Z")}, false),
		[]string{"2020-01-01T00:00:00.5Z", "2020-01-01T00:00:00Z"})
	add("C12-text-prefix", sortOneColumn([]*table.Cell{litCell(literal.Text, "ab"), litCell(literal.Text, "ab!"), litCell(literal.Text, "ab c")}, false),
		[]string{`"ab c"^^type:text`, `"ab!"^^type:text`, `"ab"^^type:text`})
	add("C12-string-trimspace", sortOneColumn([]*table.Cell{{S: table.CellString("a")}, {S: table.CellString(" a")}}, false),
		[]string{"a", " a"})

	// repeated ORDER BY keys: the checker rebuilds the configuration from a map
	ctx := context.Background()
	pv, _ := predicate.NewImmutable("v")
	mk := func(s string, p *predicate.Predicate, v int64) *triple.Triple {
		t, err := triple.New(mustNode("/u", s), p, triple.NewLiteralObject(mustLit(literal.Int64, v)))
		if err != nil {
			panic(err)
		}
		return t
	}
	st := newGraph(ctx, "?g", []*triple.Triple{mk("a", pv, 1), mk("b", pv, 2), mk("c", pv, 3)})
	seenOther := false
	var obs []string
	for i := 0; i < 64 && !seenOther; i++ {
		_, stm := runQuery(ctx, st, `SELECT ?s, ?o FROM ?g WHERE {?s "v"@[] ?o} ORDER BY ?s, ?o, ?s;`)
		if stm != nil {
			cfg := stm.OrderByConfig()
			if len(cfg) > 0 && cfg[0].Binding != "?s" {
				seenOther = true
				obs = []string{cfg.String()}
			}
		}
	}
	out = append(out, replayResult{Mode: "replay", ID: "C12-repeated-keys", Fails: seenOther, Observed: obs})

	// LIMIT push-down with ORDER BY DESC on a single full-scan clause
	res, _ := runQuery(ctx, st, `SELECT ?o FROM ?g WHERE {?s ?p ?o} ORDER BY ?o DESC LIMIT "1"^^type:int64;`)
	obs = nil
	for _, r := range res.Rows {
		obs = append(obs, r["?o"].V)
	}
	out = append(out, replayResult{Mode: "replay", ID: "C12-limit-pushdown", Fails: res.Outcome == "ok" && !eqStrings(obs, []string{"3"}), Observed: append([]string{res.Outcome}, obs...)})

	// LIMIT push-down drops rows: 2 of the 3 triples match the clause, LIMIT 2 returns 1 row
	pt, _ := predicate.NewTemporal("t", mustTime("2020-01-01T00:00:00Z"))
	st2 := newGraph(ctx, "?g", []*triple.Triple{mk("a", pt, 1), mk("b", pv, 2), mk("c", pt, 3)})
	res, _ = runQuery(ctx, st2, `SELECT ?s, ?o FROM ?g WHERE {?s "t"@[?t] ?o} LIMIT "2"^^type:int64;`)
	out = append(out, replayResult{Mode: "replay", ID: "C12-limit-pushdown-count", Fails: res.Outcome == "ok" && len(res.Rows) != 2,
		Observed: []string{res.Outcome, fmt.Sprint(len(res.Rows))}})

	// negative LIMIT
	res, _ = runQuery(ctx, st, `SELECT ?o FROM ?g WHERE {?s "v"@[] ?o} LIMIT "-1"^^type:int64;`)
	out = append(out, replayResult{Mode: "replay", ID: "C12-negative-limit", Fails: res.Outcome != "parse", Observed: []string{res.Outcome, res.Detail}})
	return out
}

var _ = fmt.Sprint
var _ = strings.Join
var _ = time.Now
