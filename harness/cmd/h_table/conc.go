package main

import (
	"context"
	"fmt"
	"math/rand"
	"reflect"
	"sync"

	"github.com/google/badwolf/bql/table"
	"github.com/google/badwolf/triple"
	"github.com/google/badwolf/triple/literal"
	"github.com/google/badwolf/triple/predicate"
)

// conc: two sorts / reductions / statements on DIFFERENT tables running at the same time must give what each gives
// alone (tables are independent values; nothing in the property allows one query to disturb another).
type concCase struct {
	Mode       string `json:"mode"` // conc
	Op         string `json:"op"`   // sort | reduce | statement
	Trials     int    `json:"trials"`
	Mismatches int    `json:"mismatches"`
	Detail     string `json:"detail,omitempty"`
}

func concRows(r *rand.Rand, n int, texts bool) []table.Row {
	var rows []table.Row
	for i := 0; i < n; i++ {
		var k *table.Cell
		if texts {
			k = &table.Cell{L: mustLit(literal.Text, fmt.Sprintf("k%03d", r.Intn(n/2+1)))}
		} else {
			k = &table.Cell{L: mustLit(literal.Int64, int64(r.Intn(n/2+1)-n/4))}
		}
		rows = append(rows, table.Row{"?#": &table.Cell{S: table.CellString(fmt.Sprint(i))}, "?k": k,
			"?v": &table.Cell{L: mustLit(literal.Int64, int64(r.Intn(100)))}})
	}
	return rows
}

func ids(t *table.Table) []string {
	var out []string
	for _, row := range t.Rows() {
		s := ""
		for _, b := range t.Bindings() {
			s += row[b].String() + "|"
		}
		out = append(out, s)
	}
	return out
}

func runConc(r *rand.Rand, op string, trials int) concCase {
	c := concCase{Mode: "conc", Op: op, Trials: trials}
	ctx := context.Background()
	for tr := 0; tr < trials; tr++ {
		n := 150 + r.Intn(200)
		ra, rb := concRows(r, n, false), concRows(r, n+7, true)
		work := func(rows []table.Row, desc bool) func() []string {
			switch op {
			case "sort":
				return func() []string {
					t := mkTable([]string{"?#", "?k", "?v"}, append([]table.Row{}, rows...))
					t.Sort(table.SortConfig{{Binding: "?k", Desc: desc}, {Binding: "?#"}})
					return ids(t)
				}
			case "reduce":
				return func() []string {
					var kv []table.Row
					for _, row := range rows {
						kv = append(kv, table.Row{"?k": row["?k"], "?v": row["?v"]})
					}
					t := mkTable([]string{"?k", "?v"}, kv)
					if err := t.Reduce(table.SortConfig{{Binding: "?k"}}, []table.AliasAccPair{{InAlias: "?k", OutAlias: "?k"},
						{InAlias: "?v", OutAlias: "?n", Acc: table.NewCountAccumulator()},
						{InAlias: "?v", OutAlias: "?t", Acc: table.NewSumInt64LiteralAccumulator(0)}}); err != nil {
						return []string{"error"}
					}
					return ids(t)
				}
			}
			// statement: ORDER BY through the planner over its own store
			pv, _ := predicate.NewImmutable("v")
			var ts []*triple.Triple
			for i, row := range rows {
				if i >= 40 {
					break
				}
				t, _ := triple.New(mustNode("/u", fmt.Sprintf("%03d", i)), pv, triple.NewLiteralObject(row["?k"].L))
				ts = append(ts, t)
			}
			st := newGraph(ctx, "?g", ts)
			q := `SELECT ?s, ?o FROM ?g WHERE {?s "v"@[] ?o} ORDER BY ?o, ?s;`
			if desc {
				q = `SELECT ?s, ?o FROM ?g WHERE {?s "v"@[] ?o} ORDER BY ?o DESC, ?s;`
			}
			return func() []string {
				res, _ := runQuery(ctx, st, q)
				out := []string{res.Outcome}
				for _, row := range res.Rows {
					out = append(out, row["?s"].S+row["?o"].Str)
				}
				return out
			}
		}
		fa, fb := work(ra, false), work(rb, true)
		wantA, wantB := fa(), fb()
		var gotA, gotB []string
		var wg sync.WaitGroup
		start := make(chan struct{})
		wg.Add(2)
		go func() { defer wg.Done(); <-start; gotA = fa() }()
		go func() { defer wg.Done(); <-start; gotB = fb() }()
		close(start)
		wg.Wait()
		if !reflect.DeepEqual(wantA, gotA) || !reflect.DeepEqual(wantB, gotB) {
			c.Mismatches++
			if c.Detail == "" {
				c.Detail = fmt.Sprintf("trial %d: %d and %d rows, concurrent result differs from the result of the same operation alone", tr, len(ra), len(rb))
			}
		}
	}
	return c
}
