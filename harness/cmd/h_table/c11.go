package main

import (
	"context"
	"fmt"
	"math"
	"math/rand"
	"strings"

	"github.com/google/badwolf/bql/table"
	"github.com/google/badwolf/triple"
	"github.com/google/badwolf/triple/literal"
	"github.com/google/badwolf/triple/predicate"
)

type jaap struct {
	In  string `json:"in"`
	Out string `json:"out"`
	Acc string `json:"acc"` // none | count | distinct | sumint | sumfloat
}

type reduceCase struct {
	Mode        string     `json:"mode"` // reduce
	Class       string     `json:"class"`
	Cols        [][]string `json:"cols"`
	ValKind     string     `json:"valkind"`
	Bindings    []string   `json:"bindings"`
	NilCfg      bool       `json:"nilcfg"`
	Cfg         []jkey     `json:"cfg"`
	Aaps        []jaap     `json:"aaps"`
	In          []jrow     `json:"in"`
	Outcome     string     `json:"outcome"` // ok | err | panic
	OutBindings []string   `json:"out_bindings"`
	Out         []jrow     `json:"out"`
}

func mkAcc(kind string) table.Accumulator {
	switch kind {
	case "count":
		return table.NewCountAccumulator()
	case "distinct":
		return table.NewCountDistinctAccumulator()
	case "sumint":
		return table.NewSumInt64LiteralAccumulator(0)
	case "sumfloat":
		return table.NewSumFloat64LiteralAccumulator(0)
	}
	return nil
}

var sumInts = []int64{0, 1, 2, 3, -1, -7, 100, math.MaxInt64, math.MaxInt64 - 1, 4611686018427387904, math.MinInt64, -4611686018427387904}
var sumFloats = []float64{0, 0.5, 1, 1.5, -2.25, 3, 0.1, 0.2, 1e300, -1e300, 1e-3, 1048576.75}

func genValCell(r *rand.Rand, kind string) *table.Cell {
	switch kind {
	case "ints":
		return &table.Cell{L: mustLit(literal.Int64, pickI(r, sumInts))}
	case "floats":
		return &table.Cell{L: mustLit(literal.Float64, pickF(r, sumFloats))}
	case "intfloat":
		if r.Intn(2) == 0 {
			return &table.Cell{L: mustLit(literal.Int64, pickI(r, sumInts))}
		}
		return &table.Cell{L: mustLit(literal.Float64, pickF(r, sumFloats))}
	}
	if kind == "collide" { // values whose underlying bytes / concatenations coincide: count(distinct) must keep them apart
		return genCell(r, "collide")
	}
	return genCell(r, colKindsAll[r.Intn(len(colKindsAll))])
}

func genReduceCase(r *rand.Rand) reduceCase {
	c := reduceCase{Mode: "reduce"}
	roll := r.Intn(100)
	switch {
	case roll < 50:
		c.Class = "D12"
	case roll < 70:
		c.Class = "homogeneous"
	default:
		c.Class = "mixed"
	}
	ngroup := 1 + r.Intn(2)
	for i := 0; i < ngroup; i++ {
		c.Cols = append(c.Cols, genColumn(r, c.Class == "mixed" && (i == 0 || r.Intn(2) == 0), c.Class == "D12"))
	}
	if r.Intn(5) == 0 {
		c.Class = "near"
		c.Cols[r.Intn(len(c.Cols))] = []string{[]string{"floatN", "floatN", "digits", "digitsT", "str"}[r.Intn(5)]}
	}
	c.ValKind = []string{"ints", "ints", "floats", "intfloat", "any", "collide"}[r.Intn(6)]
	n := r.Intn(13)
	if r.Intn(8) == 0 && c.Class == "D12" && c.ValKind == "ints" {
		n = 13 + r.Intn(25)
	}
	c.Bindings = []string{}
	for i := 0; i < ngroup; i++ {
		c.Bindings = append(c.Bindings, colNames[i])
	}
	c.Bindings = append(c.Bindings, "?v")
	var rows []table.Row
	for i := 0; i < n; i++ {
		row := table.Row{}
		for ci, kinds := range c.Cols {
			row[colNames[ci]] = genCell(r, kinds[r.Intn(len(kinds))])
		}
		row["?v"] = genValCell(r, c.ValKind)
		rows = append(rows, row)
	}
	for i := 0; i < ngroup; i++ {
		c.Cfg = append(c.Cfg, jkey{B: colNames[i]})
		out := colNames[i]
		if r.Intn(3) == 0 {
			out = "?g" + fmt.Sprint(i)
		}
		c.Aaps = append(c.Aaps, jaap{In: colNames[i], Out: out, Acc: "none"})
	}
	accs := []string{"count", "distinct", "sumint", "sumfloat"}
	na := 1 + r.Intn(3)
	for i := 0; i < na; i++ {
		a := accs[r.Intn(len(accs))]
		if c.ValKind == "collide" {
			a = []string{"distinct", "distinct", "count"}[r.Intn(3)]
		}
		if a == "sumint" && c.ValKind == "floats" && r.Intn(4) != 0 {
			a = "sumfloat"
		}
		if a == "sumfloat" && c.ValKind == "ints" && r.Intn(4) != 0 {
			a = "sumint"
		}
		c.Aaps = append(c.Aaps, jaap{In: "?v", Out: fmt.Sprintf("?o%d", i), Acc: a})
	}
	switch r.Intn(30) {
	case 0: // invalid configuration: a table binding without a pair
		c.Aaps = c.Aaps[1:]
	case 1:
		c.NilCfg, c.Cfg = true, nil
	case 2:
		c.Cfg = []jkey{}
	case 3: // group by fewer keys than there are plain columns
		if ngroup == 2 && n <= 12 {
			c.Cfg = c.Cfg[:1]
		}
	}
	if r.Intn(20) == 0 && n > 0 && n <= 12 {
		// a row without the aggregated binding (tables built by hand are not checked by AddRow)
		delete(rows[r.Intn(n)], "?v")
		c.Class += "+missing"
	}
	c.In = renderRows(rows, c.Bindings)
	tbl := mkTable(c.Bindings, rows)
	var aaps []table.AliasAccPair
	for _, a := range c.Aaps {
		aaps = append(aaps, table.AliasAccPair{InAlias: a.In, OutAlias: a.Out, Acc: mkAcc(a.Acc)})
	}
	func() {
		defer func() {
			if e := recover(); e != nil {
				c.Outcome = "panic"
			}
		}()
		var err error
		if c.NilCfg {
			err = tbl.Reduce(nil, aaps)
		} else {
			err = tbl.Reduce(toSortConfig(c.Cfg), aaps)
		}
		c.OutBindings = tbl.Bindings()
		c.Out = renderRows(tbl.Rows(), c.OutBindings)
		if err != nil {
			c.Outcome = "err"
		} else {
			c.Outcome = "ok"
		}
	}()
	return c
}

// ---- end to end: GROUP BY ------------------------------------------------------------------------------------------

type jproj struct {
	Bind     string `json:"bind"`
	Alias    string `json:"alias"`
	Op       string `json:"op"` // none | count | sum
	Distinct bool   `json:"distinct"`
}

type e2e11Extra struct {
	Projs   []jproj  `json:"projs"`
	GroupBy []string `json:"group_by"`
}

func projText(p jproj) string {
	s := p.Bind
	switch p.Op {
	case "count":
		if p.Distinct {
			s = "count(distinct " + p.Bind + ")"
		} else {
			s = "count(" + p.Bind + ")"
		}
	case "sum":
		s = "sum(" + p.Bind + ")"
	}
	if p.Alias != "" {
		s += " AS " + p.Alias
	}
	return s
}

func genE2E11(r *rand.Rand) e2eCase {
	ctx := context.Background()
	c := e2eCase{Mode: "e2e11"}
	roll := r.Intn(100)
	class := "D12"
	if roll >= 50 && roll < 70 {
		class = "homogeneous"
	} else if roll >= 70 {
		class = "mixed"
	}
	vK := genObjKinds(r, class)
	if r.Intn(5) == 0 {
		class = "near"
		vK = []string{[]string{"floatN", "floatN", "digits", "digitsT"}[r.Intn(4)]}
	}
	shape := r.Intn(11)
	if shape == 10 && r.Intn(2) == 0 {
		shape = 11
	}
	if class == "near" {
		shape = []int{1, 2, 6, 7, 7}[r.Intn(5)] // shapes that group by the generated object
	}
	wK := []string{[]string{"intD", "int", "floatD", "float"}[r.Intn(4)]}
	collide := false
	if shape == 1 || shape == 2 {
		wK = []string{[]string{"intD", "int"}[r.Intn(2)]}
	} else if r.Intn(6) == 0 {
		wK, collide = []string{"collide"}, true // count(distinct ?x) over values that coincide in their underlying bytes
	} else if r.Intn(8) == 0 {
		wK = []string{"intD", "floatD"}
	}
	c.Kinds = append(append([]string{class}, vK...), wK...)
	var ts []*triple.Triple
	pv, _ := predicate.NewImmutable("v")
	pw, _ := predicate.NewImmutable("w")
	n := 1 + r.Intn(9)
	for i := 0; i < n; i++ {
		s := subjects[r.Intn(len(subjects))]
		var o *triple.Object
		if r.Intn(2) == 0 {
			o = genObject(r, vK[r.Intn(len(vK))])
			t, _ := triple.New(mustNode(s[0], s[1]), pv, o)
			ts = append(ts, t)
		}
		t, _ := triple.New(mustNode(s[0], s[1]), pw, genObject(r, wK[r.Intn(len(wK))]))
		ts = append(ts, t)
	}
	c.Triples = tripleStrings(ts)
	st := newGraph(ctx, "?g", ts)
	ex := e2e11Extra{}
	var where string
	var baseSel []string
	switch shape {
	case 0:
		c.Shape = "by-subject"
		where, baseSel = `{?s "w"@[] ?x}`, []string{"?s", "?x"}
		ex.Projs = []jproj{{Bind: "?s"}}
		ex.GroupBy = []string{"?s"}
	case 1:
		c.Shape = "by-object" // grouping column of generated kinds (mixed in class mixed)
		where, baseSel = `{?s "v"@[] ?o . ?s "w"@[] ?x}`, []string{"?o", "?x", "?s"}
		ex.Projs = []jproj{{Bind: "?o"}}
		ex.GroupBy = []string{"?o"}
	case 2:
		c.Shape = "by-two"
		where, baseSel = `{?s "v"@[] ?o . ?s "w"@[] ?x}`, []string{"?s", "?o", "?x"}
		ex.Projs = []jproj{{Bind: "?s"}, {Bind: "?o"}}
		ex.GroupBy = []string{"?s", "?o"}
	case 3:
		c.Shape = "alias" // GROUP BY names the alias of a plain projection
		where, baseSel = `{?s "w"@[] ?x}`, []string{"?s", "?x"}
		ex.Projs = []jproj{{Bind: "?s", Alias: "?who"}}
		ex.GroupBy = []string{"?who"}
	case 4:
		c.Shape = "empty" // the pattern has no solutions
		where, baseSel = `{?s "nothing"@[] ?x}`, []string{"?s", "?x"}
		ex.Projs = []jproj{{Bind: "?s"}}
		ex.GroupBy = []string{"?s"}
	case 5:
		c.Shape = "by-type"
		where, baseSel = `{?s TYPE ?ty "w"@[] ?x}`, []string{"?ty", "?x"}
		ex.Projs = []jproj{{Bind: "?ty"}}
		ex.GroupBy = []string{"?ty"}
	case 6:
		c.Shape = "by-object-1"
		where, baseSel = `{?s "v"@[] ?o}`, []string{"?o", "?s"}
		ex.Projs = []jproj{{Bind: "?o"}}
		ex.GroupBy = []string{"?o"}
	case 7:
		c.Shape = "by-object-alias" // the grouping values reach GROUP BY through an alias
		where, baseSel = `{?s "v"@[] ?o}`, []string{"?o", "?s"}
		ex.Projs = []jproj{{Bind: "?o", Alias: "?val"}}
		ex.GroupBy = []string{"?val"}
	case 10:
		// EMPTY CROSS PRODUCT: two clauses without a common binding, one of them without solutions
		c.Shape = "empty-product"
		where, baseSel = `{?s "v"@[] ?o . ?a "nothing"@[] ?x}`, []string{"?s", "?o", "?a", "?x"}
		ex.Projs = []jproj{{Bind: "?s"}}
		ex.GroupBy = []string{"?s"}
	case 11:
		c.Shape = "empty-product-first"
		where, baseSel = `{?a "nothing"@[] ?x . ?s "v"@[] ?o}`, []string{"?s", "?o", "?a", "?x"}
		ex.Projs = []jproj{{Bind: "?s"}}
		ex.GroupBy = []string{"?s"}
	case 8:
		// NAME COLLISION: the alias of the grouping projection is the name of the pattern binding that is aggregated
		c.Shape = "shadow"
		where, baseSel = `{?s "v"@[] ?o}`, []string{"?s", "?o"}
		ex.Projs = []jproj{{Bind: "?s", Alias: "?o"}}
		ex.GroupBy = []string{"?o"}
	case 9:
		// two keys, one of them an alias that shadows the aggregated binding
		c.Shape = "shadow-two"
		where, baseSel = `{?s ?p ?o}`, []string{"?s", "?p", "?o"}
		ex.Projs = []jproj{{Bind: "?s"}, {Bind: "?p", Alias: "?o"}}
		ex.GroupBy = []string{"?s", "?o"}
	}
	aggOn := "?x"
	if c.Shape == "shadow" || c.Shape == "shadow-two" {
		aggOn = "?o"
	}
	if c.Shape == "by-object-1" || c.Shape == "by-object-alias" {
		aggOn = "?s"
	}
	na := 1 + r.Intn(3)
	for i := 0; i < na; i++ {
		p := jproj{Bind: aggOn, Alias: fmt.Sprintf("?a%d", i)}
		k := r.Intn(4)
		if collide {
			k = r.Intn(2)
		}
		switch k {
		case 0:
			p.Op = "count"
		case 1:
			p.Op, p.Distinct = "count", true
		default:
			p.Op = "sum"
			if aggOn == "?s" || aggOn == "?o" {
				p.Op = "count"
			}
		}
		ex.Projs = append(ex.Projs, p)
	}
	// aggregates over the SAME binding a grouping column projects (count(?s) next to ?s ... GROUP BY ?s)
	ng := len(ex.GroupBy)
	if r.Intn(2) == 0 {
		for i := 0; i < ng; i++ {
			if r.Intn(2) == 0 {
				ex.Projs = append(ex.Projs, jproj{Bind: ex.Projs[i].Bind, Alias: fmt.Sprintf("?g%d", i), Op: "count", Distinct: r.Intn(2) == 0})
			}
		}
	}
	// the order of the projections is free: aggregates before / between / after the grouping columns
	switch r.Intn(4) {
	case 0: // as listed: grouping columns first
	case 1: // aggregates first
		ex.Projs = append(ex.Projs[ng:], ex.Projs[:ng]...)
	default:
		r.Shuffle(len(ex.Projs), func(i, j int) { ex.Projs[i], ex.Projs[j] = ex.Projs[j], ex.Projs[i] })
	}
	var ps []string
	for _, p := range ex.Projs {
		ps = append(ps, projText(p))
	}
	c.BaseQ = "SELECT " + strings.Join(baseSel, ", ") + " FROM ?g WHERE " + where + ";"
	c.Q = "SELECT " + strings.Join(ps, ", ") + " FROM ?g WHERE " + where + " GROUP BY " + strings.Join(ex.GroupBy, ", ") + ";"
	c.Extra = ex
	c.Base, _ = runQuery(ctx, st, c.BaseQ)
	c.Res, _ = runQuery(ctx, st, c.Q)
	return c
}

// ---- replays of the C11 findings ---------------------------------------------------------------------------------------

func replay11() []replayResult {
	var out []replayResult
	ctx := context.Background()
	pv, _ := predicate.NewImmutable("v")
	pw, _ := predicate.NewImmutable("w")
	mkO := func(s string, p *predicate.Predicate, o *triple.Object) *triple.Triple {
		t, err := triple.New(mustNode("/u", s), p, o)
		if err != nil {
			panic(err)
		}
		return t
	}
	il := func(v int64) *triple.Object { return triple.NewLiteralObject(mustLit(literal.Int64, v)) }
	fl := func(v float64) *triple.Object { return triple.NewLiteralObject(mustLit(literal.Float64, v)) }
	tx := func(v string) *triple.Object { return triple.NewLiteralObject(mustLit(literal.Text, v)) }

	// mixed kinds in the grouping column: text, node, text -> the two equal texts end up in different groups
	{
		cells := []*table.Cell{litCell(literal.Text, "a"), {N: mustNode("/u", "n")}, litCell(literal.Text, "a")}
		var rows []table.Row
		for _, cl := range cells {
			rows = append(rows, table.Row{"?k": cl, "?v": litCell(literal.Int64, int64(1))})
		}
		t := mkTable([]string{"?k", "?v"}, rows)
		err := t.Reduce(table.SortConfig{{Binding: "?k"}}, []table.AliasAccPair{{InAlias: "?k", OutAlias: "?k"}, {InAlias: "?v", OutAlias: "?n", Acc: table.NewCountAccumulator()}})
		var obs []string
		for _, r := range t.Rows() {
			obs = append(obs, r["?k"].String()+"="+r["?n"].String())
		}
		out = append(out, replayResult{Mode: "replay", ID: "C11-mixed-kinds", Fails: err == nil && len(t.Rows()) != 2, Observed: obs})
	}
	// float64 grouping column: 1e-07, 2e-07, 1e-07 compare equal under %032f, ids differ -> three groups for two values
	{
		var rows []table.Row
		for _, f := range []float64{1e-7, 2e-7, 1e-7} {
			rows = append(rows, table.Row{"?k": litCell(literal.Float64, f), "?v": litCell(literal.Int64, int64(1))})
		}
		t := mkTable([]string{"?k", "?v"}, rows)
		err := t.Reduce(table.SortConfig{{Binding: "?k"}}, []table.AliasAccPair{{InAlias: "?k", OutAlias: "?k"}, {InAlias: "?v", OutAlias: "?n", Acc: table.NewCountAccumulator()}})
		var obs []string
		for _, r := range t.Rows() {
			obs = append(obs, r["?k"].String()+"="+r["?n"].String())
		}
		out = append(out, replayResult{Mode: "replay", ID: "C11-float-precision-groups", Fails: err == nil && len(t.Rows()) != 2, Observed: obs})
	}
	st := newGraph(ctx, "?g", []*triple.Triple{mkO("a", pv, il(1)), mkO("a", pw, il(2)), mkO("b", pv, fl(1.5)), mkO("b", pw, il(5)), mkO("c", pw, tx("x"))})
	// F10: sum over an empty result
	res, _ := runQuery(ctx, st, `SELECT ?s, sum(?x) AS ?t FROM ?g WHERE {?s "nothing"@[] ?x} GROUP BY ?s;`)
	out = append(out, replayResult{Mode: "replay", ID: "C11-empty-sum", Fails: res.Outcome != "ok" || len(res.Rows) != 0, Observed: []string{res.Outcome, res.Detail}})
	// F18: GROUP BY the alias of a plain projection
	res, _ = runQuery(ctx, st, `SELECT ?s AS ?who, count(?x) AS ?n FROM ?g WHERE {?s "w"@[] ?x} GROUP BY ?who;`)
	out = append(out, replayResult{Mode: "replay", ID: "C11-group-by-alias", Fails: res.Outcome != "ok" || len(res.Rows) != 3, Observed: []string{res.Outcome, res.Detail, fmt.Sprint(len(res.Rows))}})
	// F21: sum over int64 and float64: the error of Reduce is discarded, raw rows come back
	res, _ = runQuery(ctx, st, `SELECT ?p, sum(?o) AS ?t FROM ?g WHERE {/u<a> ?p ?o . /u<b> ?p ?x} GROUP BY ?p;`)
	st3 := newGraph(ctx, "?g", []*triple.Triple{mkO("a", pv, il(1)), mkO("a", pv, fl(2.5)), mkO("b", pv, il(3))})
	res, _ = runQuery(ctx, st3, `SELECT ?s, sum(?o) AS ?t FROM ?g WHERE {?s "v"@[] ?o} GROUP BY ?s;`)
	out = append(out, replayResult{Mode: "replay", ID: "C11-reduce-error-discarded", Fails: res.Outcome == "ok", Observed: []string{res.Outcome, res.Detail, fmt.Sprint(res.Bindings), fmt.Sprint(len(res.Rows))}})
	return out
}
