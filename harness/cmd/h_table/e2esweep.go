package main

import (
	"context"
	"fmt"
	"math/rand"

	"github.com/google/badwolf/triple"
	"github.com/google/badwolf/triple/literal"
	"github.com/google/badwolf/triple/predicate"
)

// e2esweep: HAVING, ORDER BY + LIMIT and GROUP BY through the planner over graphs of many triples (one int64 object
// per triple, values >= 0 so that the string order is the value order).  Compact rows: subject id, object value.
type e2eSweepCase struct {
	Mode    string     `json:"mode"` // e2esweep
	Op      string     `json:"op"`   // having | orderlimit | groupby
	N       int        `json:"n"`
	Q       string     `json:"q"`
	K       int64      `json:"k"`
	Base    [][2]int64 `json:"base"` // rows of SELECT ?s, ?o in result order: (subject number, object)
	Outcome string     `json:"outcome"`
	Out     [][3]int64 `json:"out"` // having / orderlimit: (subject, object, 0); groupby: (subject, count, sum)
}

func subjNum(c jcell) int64 {
	// printed form /u<NNN>
	s := unhex(c.S)
	var n int64
	fmt.Sscanf(s, "/u<%d>", &n)
	return n
}

func runE2ESweep(r *rand.Rand, n int) []e2eSweepCase {
	ctx := context.Background()
	pv, _ := predicate.NewImmutable("v")
	var ts []*triple.Triple
	seen := map[[2]int64]bool{}
	for len(ts) < n {
		s, o := int64(r.Intn(n/40+3)), int64(r.Intn(100000))
		if seen[[2]int64{s, o}] {
			continue
		}
		seen[[2]int64{s, o}] = true
		t, _ := triple.New(mustNode("/u", fmt.Sprintf("%03d", s)), pv, triple.NewLiteralObject(mustLit(literal.Int64, o)))
		ts = append(ts, t)
	}
	st := newGraph(ctx, "?g", ts)
	base, _ := runQuery(ctx, st, `SELECT ?s, ?o FROM ?g WHERE {?s "v"@[] ?o};`)
	var b [][2]int64
	for _, row := range base.Rows {
		var o int64
		fmt.Sscan(row["?o"].V, &o)
		b = append(b, [2]int64{subjNum(row["?s"]), o})
	}
	var out []e2eSweepCase
	k := int64(50000)
	run := func(op, q string, conv func(jrow) [3]int64) {
		c := e2eSweepCase{Mode: "e2esweep", Op: op, N: n, Q: q, K: k, Base: b}
		res, _ := runQuery(ctx, st, q)
		c.Outcome = res.Outcome
		for _, row := range res.Rows {
			c.Out = append(c.Out, conv(row))
		}
		out = append(out, c)
	}
	so := func(row jrow) [3]int64 {
		var o int64
		fmt.Sscan(row["?o"].V, &o)
		return [3]int64{subjNum(row["?s"]), o, 0}
	}
	run("having", fmt.Sprintf(`SELECT ?s, ?o FROM ?g WHERE {?s "v"@[] ?o} HAVING ?o > "%d"^^type:int64;`, k), so)
	// the rows at the END of the table (largest subject, objects in string order) mostly hold large values: both directions,
	// and a predicate on the subject that fails exactly on the last rows
	run("having_lt", fmt.Sprintf(`SELECT ?s, ?o FROM ?g WHERE {?s "v"@[] ?o} HAVING ?o < "%d"^^type:int64;`, k), so)
	run("having_notlast", fmt.Sprintf(`SELECT ?s, ?o FROM ?g WHERE {?s "v"@[] ?o} HAVING NOT ?s = /u<%03d>;`, b[len(b)-1][0]), so)
	run("orderlimit", `SELECT ?s, ?o FROM ?g WHERE {?s "v"@[] ?o} ORDER BY ?o DESC, ?s LIMIT "7"^^type:int64;`, so)
	run("groupby", `SELECT ?s, count(?o) AS ?n, sum(?o) AS ?t FROM ?g WHERE {?s "v"@[] ?o} GROUP BY ?s;`, func(row jrow) [3]int64 {
		var cnt, sum int64
		fmt.Sscan(row["?n"].V, &cnt)
		fmt.Sscan(row["?t"].V, &sum)
		return [3]int64{subjNum(row["?s"]), cnt, sum}
	})
	return out
}
