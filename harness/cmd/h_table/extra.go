package main

import "math/rand"

func extraMode(mode string, n int, r *rand.Rand) bool {
	switch mode {
	case "replay12":
		for _, x := range replay12() {
			emit(x)
		}
	case "replay11":
		for _, x := range replay11() {
			emit(x)
		}
	case "reduce":
		for i := 0; i < n; i++ {
			emit(genReduceCase(r))
		}
	case "e2e11":
		for i := 0; i < n; i++ {
			emit(genE2E11(r))
		}
	case "seq12":
		for i := 0; i < n; i++ {
			for _, c := range genSeq12(r) {
				emit(c)
			}
		}
	case "replay13":
		for _, x := range replay13() {
			emit(x)
		}
	case "expr":
		for i := 0; i < n; i++ {
			emit(genExprCase(r))
		}
	case "e2e13":
		for i := 0; i < n; i++ {
			emit(genE2E13(r))
			if i%8 == 0 { // pairs of statements that differ in the letter case of a constant
				for _, c := range genE2E13Seq(r) {
					emit(c)
				}
			}
		}
	case "e2etailg":
		forceTwoKeys = true
		for i := 0; i < n; i++ {
			emit(genE2ETail(r))
		}
	case "e2etail":
		for i := 0; i < n; i++ {
			emit(genE2ETail(r))
		}
	case "sweep":
		for _, x := range genSweep(r, n > 1) {
			emit(x)
		}
	case "e2esweep":
		sizes := []int{13, 257, 300, 4099}
		if n > 1 {
			sizes = []int{3, 13, 17, 255, 256, 257, 300, 1023, 1025, 4095, 4096, 4097, 4099, 8193, 16385}
		}
		for _, sz := range sizes {
			for _, x := range runE2ESweep(r, sz) {
				emit(x)
			}
		}
	case "grid12":
		for _, x := range grid12() {
			emit(x)
		}
	case "conc":
		for _, op := range []string{"sort", "reduce", "statement"} {
			emit(runConc(r, op, n))
		}
	case "oracle":
		for _, x := range genOracleSamples(r, n) {
			emit(x)
		}
	default:
		return false
	}
	return true
}
