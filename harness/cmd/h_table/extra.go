package main

import "math/rand"

func extraMode(mode string, n int, r *rand.Rand) bool {
	switch mode {
	case "replay12":
		for _, x := range replay12() {
			emit(x)
		}
	case "replay11":
		for _, x := range replay11() {
			emit(x)
		}
	case "reduce":
		for i := 0; i < n; i++ {
			emit(genReduceCase(r))
		}
	case "e2e11":
		for i := 0; i < n; i++ {
			emit(genE2E11(r))
		}
	default:
		return false
	}
	return true
}
