package main

import "math/rand"

func extraMode(mode string, n int, r *rand.Rand) bool {
	switch mode {
	case "replay12":
		for _, x := range replay12() {
			emit(x)
		}
		return true
	}
	return false
}
