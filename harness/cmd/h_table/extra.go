package main

import "math/rand"

func extraMode(mode string, n int, r *rand.Rand) bool { return false }
