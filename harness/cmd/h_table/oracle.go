package main

import (
	"math"
	"math/rand"
	"strconv"
	"time"

	"github.com/google/badwolf/triple/literal"
)

// oracle: samples of the two library renderings whose ORDER laws the theorems C12_sorted_time_partial /
// C12_sorted_time_float_partial assume: Time.Format(RFC3339Nano) and Literal.ToComparableString() of a float64.
type oracleSample struct {
	Mode string `json:"mode"` // oracle
	Kind string `json:"kind"` // time | float
	Ns   string `json:"ns,omitempty"`
	Off  int    `json:"off,omitempty"`
	Str  string `json:"str,omitempty"` // hex
	Bits string `json:"bits,omitempty"`
	Cmp  string `json:"cmp,omitempty"` // hex
}

func genOracleSamples(r *rand.Rand, n int) []oracleSample {
	var out []oracleSample
	zones := []int{0, 3600, -18000, 19800, 0, 0}
	precs := []int64{1e9, 1e9, 1e6, 1e3, 1, 1e8}
	base := time.Date(1900, 1, 1, 0, 0, 0, 0, time.UTC).UnixNano()
	span := time.Date(2150, 1, 1, 0, 0, 0, 0, time.UTC).UnixNano() - base
	for i := 0; i < n; i++ {
		ns := base + r.Int63n(span)
		if r.Intn(3) == 0 { // clustered instants: neighbouring seconds / days / years
			ns = time.Date(1999+r.Intn(3), time.Month(1+r.Intn(12)), 1+r.Intn(28), r.Intn(24), r.Intn(60), r.Intn(60), 0, time.UTC).UnixNano()
		}
		p := precs[r.Intn(len(precs))]
		ns -= ns % p
		if ns%(p*10) == 0 { // make sure the last printed fraction digit is not zero (the precision is what it says)
			ns += p * int64(1+r.Intn(9))
		}
		off := zones[r.Intn(len(zones))]
		t := time.Unix(0, ns).In(time.FixedZone("", off))
		out = append(out, oracleSample{Mode: "oracle", Kind: "time", Ns: strconv.FormatInt(t.UnixNano(), 10), Off: off, Str: hx(t.Format(time.RFC3339Nano))})
	}
	for i := 0; i < n; i++ {
		var m int64
		switch r.Intn(3) {
		case 0:
			m = r.Int63n(1 << 20)
		case 1:
			m = r.Int63n(1 << 40)
		default:
			m = r.Int63n(1 << 53)
		}
		f := float64(m) / float64(int64(1)<<uint(r.Intn(7))) // at most six binary = six decimal places
		l := mustLit(literal.Float64, f)
		out = append(out, oracleSample{Mode: "oracle", Kind: "float", Bits: strconv.FormatUint(math.Float64bits(f), 10), Cmp: hx(l.ToComparableString())})
	}
	return out
}
