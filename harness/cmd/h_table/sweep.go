package main

import (
	"fmt"
	"math/rand"
	"strconv"

	"github.com/google/badwolf/bql/table"
	"github.com/google/badwolf/triple/literal"
)

// sweep: Table.Sort / Table.Reduce / Table.Limit on tables of given sizes (around powers of two and typical
// thresholds) with one cheap int64 key column.  The rows are shipped in a compact form (row number, key, value);
// the check compares these cases with the SPEC in Python (permutation, value order, group aggregates, prefix) -
// tables of thousands of rows are not evaluated inside Coq.
type sweepCase struct {
	Mode    string  `json:"mode"` // sweep
	Op      string  `json:"op"`   // sort | reduce | limit
	N       int     `json:"n"`
	Desc    bool    `json:"desc"`
	Limit   int64   `json:"limit"`
	Keys    []int64 `json:"keys"` // per input row
	Vals    []int64 `json:"vals"`
	Outcome string  `json:"outcome"`
	OutIDs  []int   `json:"out_ids"`  // sort / limit: the row numbers in output order
	OutKeys []int64 `json:"out_keys"` // reduce: group key, count, sum per output row
	OutCnt  []int64 `json:"out_cnt"`
	OutSum  []int64 `json:"out_sum"`
}

func runSweep(r *rand.Rand, op string, n int) sweepCase {
	c := sweepCase{Mode: "sweep", Op: op, N: n, Desc: r.Intn(2) == 0}
	bs := []string{"?#", "?k", "?v"}
	span := int64(n/3 + 2)
	var rows []table.Row
	for i := 0; i < n; i++ {
		k, v := r.Int63n(span), r.Int63n(1000)-300
		c.Keys, c.Vals = append(c.Keys, k), append(c.Vals, v)
		rows = append(rows, table.Row{"?#": &table.Cell{S: table.CellString(strconv.Itoa(i))},
			"?k": &table.Cell{L: mustLit(literal.Int64, k)}, "?v": &table.Cell{L: mustLit(literal.Int64, v)}})
	}
	tbl := mkTable(bs, rows)
	func() {
		defer func() {
			if e := recover(); e != nil {
				c.Outcome = "panic: " + firstLine(fmt.Sprint(e))
			}
		}()
		switch op {
		case "sort":
			tbl.Sort(table.SortConfig{{Binding: "?k", Desc: c.Desc}})
		case "limit":
			c.Limit = int64(n) - int64(r.Intn(4)) + 1
			if c.Limit < 0 {
				c.Limit = 0
			}
			tbl.Limit(c.Limit)
		case "reduce":
			t2 := mkTable([]string{"?k", "?v"}, rows)
			err := t2.Reduce(table.SortConfig{{Binding: "?k"}}, []table.AliasAccPair{
				{InAlias: "?k", OutAlias: "?k"},
				{InAlias: "?v", OutAlias: "?n", Acc: table.NewCountAccumulator()},
				{InAlias: "?v", OutAlias: "?t", Acc: table.NewSumInt64LiteralAccumulator(0)}})
			if err != nil {
				c.Outcome = "err"
				return
			}
			for _, row := range t2.Rows() {
				k, _ := row["?k"].L.Int64()
				cnt, _ := row["?n"].L.Int64()
				sum, _ := row["?t"].L.Int64()
				c.OutKeys, c.OutCnt, c.OutSum = append(c.OutKeys, k), append(c.OutCnt, cnt), append(c.OutSum, sum)
			}
			c.Outcome = "ok"
			return
		}
		for _, row := range tbl.Rows() {
			id, _ := strconv.Atoi(*row["?#"].S)
			c.OutIDs = append(c.OutIDs, id)
		}
		c.Outcome = "ok"
	}()
	return c
}

var sweepSizes = []int{0, 1, 2, 3, 11, 12, 13, 15, 16, 17, 255, 256, 257, 1023, 1024, 1025, 4095, 4096, 4097, 4098, 4099, 5003, 8191, 8192, 8193, 16385, 65537}
var sweepQuick = []int{3, 13, 17, 257, 1025, 4097, 4099, 5003}

func genSweep(r *rand.Rand, full bool) []sweepCase {
	sizes := sweepQuick
	if full {
		sizes = sweepSizes
	}
	var out []sweepCase
	for _, n := range sizes {
		out = append(out, runSweep(r, "sort", n))
		out = append(out, runSweep(r, "reduce", n))
		if full || n%2 == 1 {
			out = append(out, runSweep(r, "limit", n))
		}
	}
	return out
}
