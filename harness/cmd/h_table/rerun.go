package main

import (
	"context"
	"encoding/hex"
	"encoding/json"
	"fmt"
	"math"
	"math/big"
	"os"
	"strconv"
	"time"

	"github.com/google/badwolf/bql/lexer"
	"github.com/google/badwolf/bql/table"
	"github.com/google/badwolf/storage/memory"
	"github.com/google/badwolf/triple"
	"github.com/google/badwolf/triple/literal"
	"github.com/google/badwolf/triple/node"
	"github.com/google/badwolf/triple/predicate"
)

// rerun: read one recorded case (the "case" object of a replay file, or a line printed by this harness), rebuild
// its INPUT, run the implementation again and print the case with fresh observations.

func unhex(s string) string {
	b, err := hex.DecodeString(s)
	if err != nil {
		panic(err)
	}
	return string(b)
}

func cellOf(j jcell) *table.Cell {
	switch j.K {
	case "null":
		return &table.Cell{}
	case "s":
		return &table.Cell{S: table.CellString(unhex(j.S))}
	case "n":
		n, err := node.Parse(unhex(j.S))
		if err != nil {
			panic(err)
		}
		return &table.Cell{N: n}
	case "p":
		p, err := predicate.Parse(unhex(j.S))
		if err != nil {
			panic(err)
		}
		return &table.Cell{P: p}
	case "t":
		ns, _ := new(big.Int).SetString(j.Ns, 10)
		sec, nsec := new(big.Int).DivMod(ns, big.NewInt(1000000000), new(big.Int))
		t := time.Unix(sec.Int64(), nsec.Int64()).In(time.FixedZone("", j.Off))
		if j.Off == 0 {
			t = t.UTC()
		}
		return &table.Cell{T: &t}
	case "l":
		switch j.T {
		case "int64":
			v, _ := strconv.ParseInt(j.V, 10, 64)
			return &table.Cell{L: mustLit(literal.Int64, v)}
		case "float64":
			b, _ := strconv.ParseUint(j.V, 10, 64)
			return &table.Cell{L: mustLit(literal.Float64, math.Float64frombits(b))}
		case "bool":
			return &table.Cell{L: mustLit(literal.Bool, j.V == "true")}
		case "text":
			return &table.Cell{L: mustLit(literal.Text, unhex(j.V))}
		default:
			return &table.Cell{L: mustLit(literal.Blob, []byte(unhex(j.V)))}
		}
	}
	panic("cell kind " + j.K)
}

func rowsOf(js []jrow) []table.Row {
	var out []table.Row
	for _, j := range js {
		r := table.Row{}
		for b, c := range j {
			r[b] = cellOf(c)
		}
		out = append(out, r)
	}
	return out
}

func bindingsOf(js []jrow, first ...string) []string {
	seen := map[string]bool{}
	var out []string
	for _, b := range first {
		if !seen[b] {
			seen[b] = true
			out = append(out, b)
		}
	}
	for _, j := range js {
		for b := range j {
			seen[b] = true
		}
	}
	for _, b := range sortedKeys(seen) {
		dup := false
		for _, x := range out {
			if x == b {
				dup = true
			}
		}
		if !dup {
			out = append(out, b)
		}
	}
	return out
}

var tokTypes = func() map[string]lexer.TokenType {
	m := map[string]lexer.TokenType{}
	for t, k := range tokKinds {
		m[k] = t
	}
	m["other"] = lexer.ItemComma
	return m
}()

func rerun(path string) {
	raw, err := os.ReadFile(path)
	if err != nil {
		panic(err)
	}
	var top map[string]json.RawMessage
	if err := json.Unmarshal(raw, &top); err != nil {
		panic(err)
	}
	if v, ok := top["violation"]; ok { // a replay file written by bin/check
		var viol map[string]json.RawMessage
		json.Unmarshal(v, &viol)
		raw = viol["case"]
		json.Unmarshal(raw, &top)
	}
	var mode string
	json.Unmarshal(top["mode"], &mode)
	ctx := context.Background()
	switch mode {
	case "sort":
		var c sortCase
		json.Unmarshal(raw, &c)
		bs := bindingsOf(c.In)
		tbl := mkTable(bs, rowsOf(c.In))
		c.Out, c.Outcome = nil, ""
		func() {
			defer func() {
				if e := recover(); e != nil {
					c.Outcome = "panic"
				}
			}()
			if c.NilCfg {
				tbl.Sort(nil)
			} else {
				tbl.Sort(toSortConfig(c.Cfg))
			}
			c.Outcome, c.Out = "ok", renderRows(tbl.Rows(), bs)
		}()
		emit(c)
	case "limit":
		var c limitCase
		json.Unmarshal(raw, &c)
		bs := bindingsOf(c.In)
		tbl := mkTable(bs, rowsOf(c.In))
		c.Out, c.Outcome = nil, ""
		func() {
			defer func() {
				if e := recover(); e != nil {
					c.Outcome = "panic"
				}
			}()
			tbl.Limit(c.N)
			c.Outcome, c.Out = "ok", renderRows(tbl.Rows(), bs)
		}()
		emit(c)
	case "reduce":
		var c reduceCase
		json.Unmarshal(raw, &c)
		tbl := mkTable(c.Bindings, rowsOf(c.In))
		var aaps []table.AliasAccPair
		for _, a := range c.Aaps {
			aaps = append(aaps, table.AliasAccPair{InAlias: a.In, OutAlias: a.Out, Acc: mkAcc(a.Acc)})
		}
		c.Out, c.Outcome, c.OutBindings = nil, "", nil
		func() {
			defer func() {
				if e := recover(); e != nil {
					c.Outcome = "panic"
				}
			}()
			var err error
			if c.NilCfg {
				err = tbl.Reduce(nil, aaps)
			} else {
				err = tbl.Reduce(toSortConfig(c.Cfg), aaps)
			}
			c.OutBindings = tbl.Bindings()
			c.Out = renderRows(tbl.Rows(), c.OutBindings)
			c.Outcome = "ok"
			if err != nil {
				c.Outcome = "err"
			}
		}()
		emit(c)
	case "expr":
		var c exprCase
		json.Unmarshal(raw, &c)
		var toks []*lexer.Token
		for _, t := range c.Tokens {
			toks = append(toks, tkn(tokTypes[t.K], unhex(t.Text)))
		}
		emit(runExpr(c.Gen, toks, rowsOf(c.Rows), bindingsOf(c.Rows)))
	case "e2e12", "e2e11", "e2e13", "e2etail":
		var c e2eCase
		json.Unmarshal(raw, &c)
		var ts []*triple.Triple
		for _, line := range c.Triples {
			t, err := triple.Parse(line, literal.DefaultBuilder())
			if err != nil {
				panic(fmt.Sprintf("cannot rebuild triple %q: %v", line, err))
			}
			ts = append(ts, t)
		}
		st := newGraph(ctx, "?g", ts)
		if len(c.Graphs) > 0 {
			st = memory.NewStore()
			for name, lines := range c.Graphs {
				g, err := st.NewGraph(ctx, name)
				if err != nil {
					panic(err)
				}
				var gts []*triple.Triple
				for _, line := range lines {
					t, err := triple.Parse(line, literal.DefaultBuilder())
					if err != nil {
						panic(err)
					}
					gts = append(gts, t)
				}
				if err := g.AddTriples(ctx, gts); err != nil {
					panic(err)
				}
			}
		}
		c.Base, _ = runQuery(ctx, st, c.BaseQ)
		res, stm := runHaving(ctx, st, c.Shape, c.Q, ts, c.Base)
		c.Res = res
		if stm != nil && mode == "e2e12" {
			c.CfgSeen = seenCfg(stm.OrderByConfig())
		}
		if mode == "e2e13" && stm != nil {
			var ex e2e13Extra
			b, _ := json.Marshal(c.Extra)
			json.Unmarshal(b, &ex)
			ex.TokensSeen = nil
			for _, ce := range stm.HavingExpression() {
				ex.TokensSeen = append(ex.TokensSeen, renderTok(ce.Token()))
			}
			c.Extra = ex
		}
		emit(c)
	default:
		fmt.Fprintln(os.Stderr, "rerun: unknown case mode", mode)
		os.Exit(2)
	}
}
