// h_values: correspondence harness for the Values family (C05, C06, C15).
// Runs node/predicate/literal/object/triple String(), Parse(), UUID() and io.ReadIntoGraph/WriteGraph of the
// repository's working tree on generated inputs and prints one JSON object per line: the input, what was
// observed (panics are caught with recover and reported as outcome class "panic"), and the answers of the Go
// library functions (strconv.Quote/Unquote, time.Format/Parse, ParseFloat, %v of float64) on every argument the
// model can ask about, so that the Gallina model is evaluated with the library's real behaviour.
// Byte strings are hex encoded.  All randomness comes from -seed.
package main

import (
	"bufio"
	"bytes"
	"context"
	"encoding/base64"
	"encoding/hex"
	"encoding/json"
	"flag"
	"fmt"
	"math"
	"math/big"
	"math/rand"
	"os"
	"runtime"
	"sort"
	"strconv"
	"strings"
	"sync"
	"sync/atomic"
	"time"

	bwio "github.com/google/badwolf/io"
	"github.com/google/badwolf/storage"
	"github.com/google/badwolf/storage/memory"
	"github.com/google/badwolf/triple"
	"github.com/google/badwolf/triple/literal"
	"github.com/google/badwolf/triple/node"
	"github.com/google/badwolf/triple/predicate"
	"github.com/pborman/uuid"
)

type J = map[string]interface{}

func hx(s string) string { return hex.EncodeToString([]byte(s)) }

var out = bufio.NewWriterSize(os.Stdout, 1<<20)

func emit(j J) {
	b, err := json.Marshal(j)
	if err != nil {
		panic(err)
	}
	out.Write(b)
	out.WriteByte('\n')
}

// ---------------------------------------------------------------- observations
func obsTime(t time.Time) J {
	ns := new(big.Int).Mul(big.NewInt(t.Unix()), big.NewInt(1000000000))
	ns.Add(ns, big.NewInt(int64(t.Nanosecond())))
	_, off := t.Zone()
	return J{"ns": ns.String(), "off": off}
}

func obsNode(n *node.Node) J {
	return J{"t": hx(n.Type().String()), "id": hx(n.ID().String())}
}

func obsPred(p *predicate.Predicate) J {
	r := J{"id": hx(string(p.ID())), "a": nil}
	if p.Type() == predicate.Temporal {
		ta, _ := p.TimeAnchor()
		r["a"] = obsTime(*ta)
	}
	return r
}

func obsLit(l *literal.Literal) J {
	switch l.Type() {
	case literal.Bool:
		v, _ := l.Bool()
		return J{"ty": "bool", "v": v}
	case literal.Int64:
		v, _ := l.Int64()
		return J{"ty": "int64", "v": strconv.FormatInt(v, 10)}
	case literal.Float64:
		v, _ := l.Float64()
		return J{"ty": "float64", "v": strconv.FormatUint(math.Float64bits(v), 10)}
	case literal.Text:
		v, _ := l.Text()
		return J{"ty": "text", "v": hx(v)}
	case literal.Blob:
		v, _ := l.Blob()
		return J{"ty": "blob", "v": hx(string(v))}
	}
	return J{"ty": "unknown"}
}

func obsObj(o *triple.Object) J {
	if n, err := o.Node(); err == nil {
		return J{"k": "n", "n": obsNode(n)}
	}
	if l, err := o.Literal(); err == nil {
		return J{"k": "l", "l": obsLit(l)}
	}
	if p, err := o.Predicate(); err == nil {
		return J{"k": "p", "p": obsPred(p)}
	}
	return J{"k": "x"}
}

func obsTriple(t *triple.Triple) J {
	return J{"s": obsNode(t.Subject()), "p": obsPred(t.Predicate()), "o": obsObj(t.Object())}
}

// value wrapper: exactly one field set
type val struct {
	n *node.Node
	p *predicate.Predicate
	l *literal.Literal
	o *triple.Object
	t *triple.Triple
}

func (v val) kind() string {
	switch {
	case v.n != nil:
		return "node"
	case v.p != nil:
		return "pred"
	case v.l != nil:
		return "lit"
	case v.o != nil:
		return "obj"
	default:
		return "triple"
	}
}

func (v val) obs() J {
	switch {
	case v.n != nil:
		return obsNode(v.n)
	case v.p != nil:
		return obsPred(v.p)
	case v.l != nil:
		return obsLit(v.l)
	case v.o != nil:
		return obsObj(v.o)
	default:
		return obsTriple(v.t)
	}
}

func (v val) str() string {
	switch {
	case v.n != nil:
		return v.n.String()
	case v.p != nil:
		return v.p.String()
	case v.l != nil:
		return v.l.String()
	case v.o != nil:
		return v.o.String()
	default:
		return v.t.String()
	}
}

func (v val) uuid() uuid.UUID {
	switch {
	case v.n != nil:
		return v.n.UUID()
	case v.p != nil:
		return v.p.UUID()
	case v.l != nil:
		return v.l.UUID()
	case v.o != nil:
		return v.o.UUID()
	default:
		return v.t.UUID()
	}
}

// parse s with the parser of the given kind; panics are caught.
func parseKind(kind, s string) (res J, v val) {
	defer func() {
		if r := recover(); r != nil {
			res, v = J{"c": "panic"}, val{}
		}
	}()
	var err error
	switch kind {
	case "node":
		var n *node.Node
		n, err = node.Parse(s)
		if err == nil && n == nil {
			return J{"c": "nilnil"}, val{}
		}
		v = val{n: n}
	case "pred":
		var p *predicate.Predicate
		p, err = predicate.Parse(s)
		if err == nil && p == nil {
			return J{"c": "nilnil"}, val{}
		}
		v = val{p: p}
	case "lit":
		var l *literal.Literal
		l, err = literal.DefaultBuilder().Parse(s)
		if err == nil && l == nil {
			return J{"c": "nilnil"}, val{}
		}
		v = val{l: l}
	case "blit":
		var l *literal.Literal
		l, err = literal.NewBoundedBuilder(2).Parse(s)
		if err == nil && l == nil {
			return J{"c": "nilnil"}, val{}
		}
		v = val{l: l}
	case "obj":
		var o *triple.Object
		o, err = triple.ParseObject(s, literal.DefaultBuilder())
		if err == nil && o == nil {
			return J{"c": "nilnil"}, val{}
		}
		v = val{o: o}
	case "triple":
		var t *triple.Triple
		t, err = triple.Parse(s, literal.DefaultBuilder())
		if err == nil && t == nil {
			return J{"c": "nilnil"}, val{}
		}
		v = val{t: t}
	}
	if err != nil {
		return J{"c": "err"}, val{}
	}
	return J{"c": "ok", "v": v.obs()}, v
}

var kinds = []string{"node", "pred", "lit", "obj", "triple"}

// ---------------------------------------------------------------- oracle tables
type tables struct {
	unq, quote, ptime, pfloat map[string]interface{}
	ftime, ffloat             map[string][2]interface{}
}

func newTables() *tables {
	return &tables{map[string]interface{}{}, map[string]interface{}{}, map[string]interface{}{}, map[string]interface{}{},
		map[string][2]interface{}{}, map[string][2]interface{}{}}
}

func isBoundary(c byte) bool {
	if c >= 0x80 || c <= ' ' {
		return true
	}
	return strings.IndexByte("\"[]<>@:^/_\\", c) >= 0
}

// library answers on the substrings of s a parser could pass to the library
func (tb *tables) addText(s string) {
	n := len(s)
	var pos []int
	if n <= 10 {
		for i := 0; i <= n; i++ {
			pos = append(pos, i)
		}
	} else {
		seen := map[int]bool{}
		add := func(i int) {
			if i >= 0 && i <= n && !seen[i] {
				seen[i] = true
				pos = append(pos, i)
			}
		}
		add(0)
		add(n)
		add(n - 1)
		for k := 0; k < n; k++ {
			if isBoundary(s[k]) {
				add(k)
				add(k + 1)
			}
		}
		sort.Ints(pos)
	}
	for a := 0; a < len(pos); a++ {
		for b := a + 1; b < len(pos); b++ {
			sub := s[pos[a]:pos[b]]
			if sub[0] == '"' && sub[len(sub)-1] == '"' {
				if u, err := strconv.Unquote(sub); err == nil {
					tb.unq[hx(sub)] = hx(u)
					tb.quote[hx(u)] = hx(strconv.Quote(u))
				}
			}
			if len(sub) >= 10 && len(sub) <= 45 {
				if t, err := time.Parse(time.RFC3339Nano, sub); err == nil {
					tb.ptime[hx(sub)] = obsTime(t)
					tb.addTime(t)
				}
			}
			if len(sub) <= 40 {
				if f, err := strconv.ParseFloat(sub, 64); err == nil {
					tb.pfloat[hx(sub)] = strconv.FormatUint(math.Float64bits(f), 10)
					tb.addFloat(f)
				}
			}
		}
	}
}

// the tables are closed under print-then-parse: the printed form of every time / float is parsed again and recorded
func (tb *tables) addTime(t time.Time) {
	o := obsTime(t)
	key := fmt.Sprintf("%s/%d", o["ns"], o["off"])
	if _, ok := tb.ftime[key]; ok {
		return
	}
	ft := t.Format(time.RFC3339Nano)
	tb.ftime[key] = [2]interface{}{o, hx(ft)}
	if _, off := t.Zone(); off%60 != 0 {
		tb.addTime(t.UTC()) // Predicate.String prints such anchors in UTC (F24)
	}
	if t2, err := time.Parse(time.RFC3339Nano, ft); err == nil {
		tb.ptime[hx(ft)] = obsTime(t2)
		tb.addTime(t2)
	}
}

func (tb *tables) addFloat(f float64) {
	b := strconv.FormatUint(math.Float64bits(f), 10)
	if _, ok := tb.ffloat[b]; ok {
		return
	}
	ff := fmt.Sprintf("%v", f)
	tb.ffloat[b] = [2]interface{}{b, hx(ff)}
	if f2, err := strconv.ParseFloat(ff, 64); err == nil {
		tb.pfloat[hx(ff)] = strconv.FormatUint(math.Float64bits(f2), 10)
		tb.addFloat(f2)
	}
}

func (tb *tables) addVal(v val) {
	switch {
	case v.n != nil:
	case v.p != nil:
		tb.quote[hx(string(v.p.ID()))] = hx(strconv.Quote(string(v.p.ID())))
		if v.p.Type() == predicate.Temporal {
			ta, _ := v.p.TimeAnchor()
			tb.addTime(*ta)
		}
	case v.l != nil:
		if v.l.Type() == literal.Float64 {
			f, _ := v.l.Float64()
			tb.addFloat(f)
		}
	case v.o != nil:
		if p, err := v.o.Predicate(); err == nil {
			tb.addVal(val{p: p})
		}
		if l, err := v.o.Literal(); err == nil {
			tb.addVal(val{l: l})
		}
	case v.t != nil:
		tb.addVal(val{p: v.t.Predicate()})
		tb.addVal(val{o: v.t.Object()})
	}
}

func (tb *tables) json() J {
	kv := func(m map[string]interface{}) [][2]interface{} {
		ks := make([]string, 0, len(m))
		for k := range m {
			ks = append(ks, k)
		}
		sort.Strings(ks)
		r := make([][2]interface{}, 0, len(m))
		for _, k := range ks {
			r = append(r, [2]interface{}{k, m[k]})
		}
		return r
	}
	vv := func(m map[string][2]interface{}) [][2]interface{} {
		ks := make([]string, 0, len(m))
		for k := range m {
			ks = append(ks, k)
		}
		sort.Strings(ks)
		r := make([][2]interface{}, 0, len(m))
		for _, k := range ks {
			r = append(r, m[k])
		}
		return r
	}
	return J{"unq": kv(tb.unq), "quote": kv(tb.quote), "ptime": kv(tb.ptime), "pfloat": kv(tb.pfloat),
		"ftime": vv(tb.ftime), "ffloat": vv(tb.ffloat)}
}

// ---------------------------------------------------------------- case emitters
var seenValueCase = map[string]bool{}
var corpusName = ""

// value case: a value (generated, or accepted by a parser), its printed form, and what parsing that gives
func emitValue(src string, v val) {
	defer func() {
		if r := recover(); r != nil {
			emit(J{"kind": "value", "src": src, "vk": v.kind(), "printpanic": true})
		}
	}()
	k := v.kind()
	text := v.str()
	key := k + "|" + text + "|" + fmt.Sprint(v.obs())
	if seenValueCase[key] {
		return
	}
	seenValueCase[key] = true
	tb := newTables()
	tb.addVal(v)
	tb.addText(text)
	res, v2 := parseKind(k, text)
	if src != "accepted" {
		fb, _ := json.Marshal(res)
		passLog = append(passLog, passEntry{k, text, string(fb), v})
	}
	j := J{"kind": "value", "src": src, "vk": k, "v": v.obs(), "text": hx(text), "parsed": res}
	if corpusName != "" {
		j["name"] = corpusName
	}
	if res["c"] == "ok" {
		tb.addVal(v2)
		j["retext"] = hx(v2.str())
	}
	j["tables"] = tb.json()
	emit(j)
}

var seenParse = map[string]bool{}
var parseLog [][2]string // input, JSON of the first outcomes

// parse case: one input through all five parsers; accepted values are followed up as value cases
func emitParse(src, s string) {
	if seenParse[s] {
		return
	}
	seenParse[s] = true
	tb := newTables()
	tb.addText(s)
	o := J{}
	var acc []val
	for _, k := range kinds {
		r, v := parseKind(k, s)
		o[k] = r
		if r["c"] == "ok" {
			acc = append(acc, v)
		}
	}
	rb, _ := parseKind("blit", s)
	o["blit"] = rb
	if fb, err := json.Marshal(o); err == nil {
		parseLog = append(parseLog, [2]string{s, string(fb)})
	}
	emit(J{"kind": "parse", "src": src, "in": hx(s), "out": o, "tables": tb.json()})
	for _, v := range acc {
		emitValue("accepted", v)
	}
}

// ---------------------------------------------------------------- generators
var rnd *rand.Rand

var richAlpha = []string{"\"", "@", "[", "]", "<", ">", "^", ":", "\\", "/", "_", "\t", " ", "a", "b", "1", "é", " ", "\xff",
	"\"@[", "\"^^type:", "] /", "> \"", "] \"", "\n", "type:", "text", "-", ".", "e", "T", "Z",
	"#", " #", "\" #", "\t#", "//", " //", ";", " ;", "--", " --", "%", " %", "\" //", "\" ;", "\" --", "\" %"}

// comment / delimiter candidates of line-oriented formats, placed after a blank and after an odd number of embedded
// double quotes: a reader that strips comments or tracks quotes cuts such values
var commentMarks = []string{"#", "//", ";", "--", "%", "!", "/*", "REM "}

func genCommentText() string {
	var b strings.Builder
	b.WriteString(pick([]string{"", "a", "3.5", "the "}))
	for q := rnd.Intn(4); q > 0; q-- {
		b.WriteString("\"")
		b.WriteString(pick([]string{"", "blue", " floppy", "x y"}))
	}
	b.WriteString(pick([]string{" ", "\t", "", "  "}))
	b.WriteString(pick(commentMarks))
	b.WriteString(pick([]string{"", "2", " rest", "\" tail"}))
	return b.String()
}

func pick(xs []string) string { return xs[rnd.Intn(len(xs))] }

func randFrom(alpha []string, maxn int) string {
	n := rnd.Intn(maxn + 1)
	var b strings.Builder
	for i := 0; i < n; i++ {
		b.WriteString(pick(alpha))
	}
	return b.String()
}

// pieces that are valid Go escape sequences when read between double quotes: a parser that unquotes values it should
// keep verbatim turns them into something else
var escPieces = []string{"\\n", "\\t", "\\\\", "\\x41", "\\u00e9", "\\101", "\\a", "\\b", "\\f", "\\r", "\\v", "\\U0001F600", "\\x00", "\\377",
	"a", "b", "C:", "1", "é", "caf", "new", "table", "_", "-"}

// genEscText returns a text in which every backslash starts a valid Go escape sequence
func genEscText(maxn int) string {
	for {
		n := 1 + rnd.Intn(maxn)
		var b strings.Builder
		hasEsc := false
		for i := 0; i < n; i++ {
			p := pick(escPieces)
			if p[0] == '\\' {
				hasEsc = true
			}
			b.WriteString(p)
		}
		if hasEsc {
			return b.String()
		}
	}
}

var plainAlpha = []string{"a", "b", "c", "x", "1", "2", "_", "-", "é"}

func genType() string {
	segs := 1 + rnd.Intn(2)
	t := ""
	for i := 0; i < segs; i++ {
		s := randFrom(plainAlpha, 3)
		if s == "" {
			s = "t"
		}
		if rnd.Intn(12) == 0 {
			s += pick([]string{"<", ">", "\"", "[", "]", "@", "^", ":", "\\"})
		}
		t += "/" + s
	}
	return t
}

func genNode() *node.Node {
	for {
		id := randFrom(richAlpha, 5)
		if rnd.Intn(3) == 0 {
			id = randFrom(plainAlpha, 4)
		}
		if rnd.Intn(8) == 0 {
			id = genEscText(3)
		}
		if rnd.Intn(8) == 0 {
			id = genCommentText()
		}
		n, err := node.NewNodeFromStrings(genType(), id)
		if err == nil {
			return n
		}
	}
}

var zones = []int{0, 0, 3600, -3600, 19800, 20700, -34200, 50400, -43200, 5 * 3600, -8 * 3600, 13*3600 + 45*60}

func genTime() time.Time {
	var sec int64
	switch rnd.Intn(6) {
	case 0:
		sec = rnd.Int63n(4102444800) // 1970..2100
	case 1:
		sec = -rnd.Int63n(62135596800 - 200000) // back to year 1
	case 2:
		sec = 4102444800 + rnd.Int63n(253402300799-4102444800-200000) // up to 9999
	case 3:
		sec = []int64{0, 1136214245, 951782400, 1709251199, -1, -62135596800, -62135596800, -62135596801}[rnd.Intn(8)] // incl. Go's zero instant
	default:
		sec = 946684800 + rnd.Int63n(1000000000)
	}
	var ns int64
	switch rnd.Intn(5) {
	case 0:
		ns = 0
	case 1:
		ns = rnd.Int63n(1000) * 1000000
	case 2:
		ns = rnd.Int63n(1000000) * 1000
	case 3:
		ns = rnd.Int63n(10) * 100000000
	default:
		ns = rnd.Int63n(1000000000)
	}
	if sec == -62135596800 && rnd.Intn(2) == 0 {
		ns = []int64{0, 0, 1}[rnd.Intn(3)] // time.Time{} exactly, or one nanosecond later
	}
	t := time.Unix(sec, ns)
	if rnd.Intn(6) == 0 {
		return t.In(time.Local) // the process's local zone (TZ): time.Parse attaches time.Local to such offsets
	}
	off := zones[rnd.Intn(len(zones))]
	if off == 0 && rnd.Intn(2) == 0 {
		return t.UTC()
	}
	return t.In(time.FixedZone("", off))
}

func genPredID() string {
	for {
		var id string
		switch rnd.Intn(4) {
		case 0:
			id = randFrom(plainAlpha, 4)
		case 1:
			id = randFrom(richAlpha, 4)
		default:
			id = randFrom(richAlpha[:12], 4) + randFrom(plainAlpha, 2)
		}
		if rnd.Intn(8) == 0 {
			id = genEscText(3)
		}
		if rnd.Intn(8) == 0 {
			id = genCommentText()
		}
		if id != "" {
			return id
		}
	}
}

func genPred() *predicate.Predicate {
	id := genPredID()
	if rnd.Intn(2) == 0 {
		return checkedImmutable(id)
	}
	return checkedTemporal(id, genTime())
}

var intEdges = []int64{0, 1, -1, 63, 64, -64, -65, 127, 128, 255, 256, 1 << 31, -(1 << 31), 1<<55 - 1, 1 << 55, -(1 << 55), -(1 << 55) - 1,
	1<<62 + 12345, math.MaxInt64, math.MinInt64, math.MaxInt64 - 1, math.MinInt64 + 1, 1000000007, -999999999999}

var floatEdges = []uint64{0, 1 << 63, 0x7FF0000000000000, 0xFFF0000000000000, 1, 0x8000000000000001, 0x3FF0000000000000, 0xBFF0000000000000,
	0x7FEFFFFFFFFFFFFF, 0x0010000000000000, 0x000FFFFFFFFFFFFF, 0x4059000000000000, 0x3FB999999999999A, 0x4415AF1D78B58C40, 0x3EB0C6F7A0B5ED8D,
	0x7FF8000000000001, 0x7FF8000000000000, 0xFFF8000000000000, 0x7FF0000000000001}

func genLit() *literal.Literal {
	b := literal.DefaultBuilder()
	var l *literal.Literal
	switch rnd.Intn(5) {
	case 0:
		l, _ = b.Build(literal.Bool, rnd.Intn(2) == 0)
	case 1:
		var v int64
		switch rnd.Intn(3) {
		case 0:
			v = intEdges[rnd.Intn(len(intEdges))]
		case 1:
			v = int64(rnd.Intn(2001) - 1000)
		default:
			v = int64(rnd.Uint64())
		}
		l, _ = b.Build(literal.Int64, v)
	case 2:
		var bits uint64
		switch rnd.Intn(3) {
		case 0:
			bits = floatEdges[rnd.Intn(len(floatEdges))]
		case 1:
			bits = math.Float64bits(float64(rnd.Intn(20001)-10000) / 8)
		default:
			bits = rnd.Uint64()
		}
		l, _ = b.Build(literal.Float64, math.Float64frombits(bits))
	case 3:
		var s string
		switch rnd.Intn(3) {
		case 0:
			s = randFrom(plainAlpha, 5)
		case 1:
			s = pick([]string{"true", "false", "1", "-1", "NaN", "[1 2]", "/abc", "/a<bc>", "\"x\"@[]", "x\"^^type:text", "", " ", "immutable"})
		default:
			s = randFrom(richAlpha, 6)
		}
		if rnd.Intn(4) == 0 {
			s = genEscText(4)
		}
		if rnd.Intn(5) == 0 {
			s = genCommentText()
		}
		l, _ = b.Build(literal.Text, s)
	default:
		n := rnd.Intn(6)
		bs := make([]byte, n)
		for i := range bs {
			bs[i] = byte(rnd.Intn(256))
		}
		if rnd.Intn(4) == 0 {
			bs = []byte(pick([]string{"true", "abc", "/abc", ""}))
		}
		l, _ = b.Build(literal.Blob, bs)
	}
	return l
}

func genObj() *triple.Object {
	switch rnd.Intn(4) {
	case 0:
		return triple.NewNodeObject(genNode())
	case 1:
		return triple.NewPredicateObject(genPred())
	default:
		return triple.NewLiteralObject(genLit())
	}
}

func genTriple() *triple.Triple {
	t, _ := triple.New(genNode(), genPred(), genObj())
	return t
}

// a triple of the line-safe part of the documented domain (no newline in its printed form, no '<' in node types)
func genSafeTriple() *triple.Triple {
	for {
		t := genTriple()
		if strings.Contains(t.String(), "\n") || strings.Contains(t.Subject().Type().String(), "<") {
			continue
		}
		if n, err := t.Object().Node(); err == nil && strings.Contains(n.Type().String(), "<") {
			continue
		}
		return t
	}
}

func genVal() val {
	switch rnd.Intn(6) {
	case 0:
		return val{n: genNode()}
	case 1:
		return val{p: genPred()}
	case 2:
		return val{l: genLit()}
	case 3:
		return val{o: genObj()}
	default:
		return val{t: genTriple()}
	}
}

// ---------------------------------------------------------------- modes
func exhaustive(alpha string, maxlen int) {
	var rec func(prefix []byte, left int)
	rec = func(prefix []byte, left int) {
		emitParse("exh", string(prefix))
		if left == 0 {
			return
		}
		for i := 0; i < len(alpha); i++ {
			rec(append(prefix, alpha[i]), left-1)
		}
	}
	rec(nil, maxlen)
}

var corpusParse = []string{"", " ", "_", "_:", "_:a", "/", "/<", "/a<", "/a<>", "/a<b>", "\"@[", "\"a\"@[", "\"a\"@[\"]", "\"a\"@[]", "\"\"@[]",
	"\"\"^^type:blob", "\"[\"^^type:blob", "\"x\"^^type:foo", "\"^^type:text", "\"^^type:bool", "\"[]\"^^type:blob", "\"[1 2]\"^^type:blob",
	"\"[1  2]\"^^type:blob", "\"[256]\"^^type:blob", "\"x1 2y\"^^type:blob",
	"/a<x] /y>\t\"p\"@[]\t/b<c>", "/a<b>\t\"p\"@[]\t\"x\\\"^^type:text\"@[]", "/a<b>\t\"x]\\x20/y\"@[]\t/c<d>", "/a<b>\t\"x y\"@[]\t/c<d>",
	"] \"> \"", "] /> \"", "/a<b> \"p\"@[] /c<d>", "/a<b>\t\"p\"@[2006-01-02T15:04:05.999999999Z]\t\"1\"^^type:int64",
	"\"a\"@[x", "\"a\"@[\"2006-01-02T15:04:05Z\"]", "\"a\\\"@[b\"@[]", "\"a\"^^type:text\"^^type:text", "\"+1\"^^type:int64",
	"\"9223372036854775808\"^^type:int64", "\"-9223372036854775808\"^^type:int64", "\"T\"^^type:bool", "\"inf\"^^type:float64",
	"\"a\"@[2006-01-02T15:04:05+24:60]", "\"a\"@[2006-01-02T15:04:05-24:60]", "\"a\"@[2006-01-02T15:04:05+24:59]", "\"a\"@[2006-01-02T15:04:05+23:60]",
	"/a<b>\t\"p\"@[2006-01-02T15:04:05.5-24:60]\t\"q\"@[2006-01-02T15:04:05+24:60]",
	"\"a\"@[2006-01-02T15:04:05+24:00]", "\"a\"@[2006-01-02T15:04:05+23:59]", "\"a\"@[2006-01-02T15:04:05-00:00]", "\"a\"@[0000-01-01T00:00:00Z]",
	"\"a\"@[0000-01-01T00:00:00+14:00]", "\"a\"@[9999-12-31T23:59:59.999999999-12:00]", "\"a\"@[2006-01-02T15:04:05.999999999+00:00]",
	"\"a\"@[2006-01-02T24:00:00Z]", "\"a\"@[2016-12-31T23:59:60Z]", "\"a\"@[2006-01-02T15:04:05,5Z]", "\"a\"@[2006-01-02t15:04:05z]",
	"\"a\"@[2006-01-02T15:04:05.0000000001Z]", "\"a\"@[2006-01-02T15:04:05+01:60]", "\"a\"@[2006-01-02T15:04:05+1:00]",
	"\"nan\"^^type:float64", "\"-NaN\"^^type:float64", "\"+Inf\"^^type:float64", "\"1e400\"^^type:float64", "\"0x1p-2\"^^type:float64", "\"1e-400\"^^type:float64",
	"\"4.9e-324\"^^type:float64", "\"-0\"^^type:float64", "\".5\"^^type:float64", "\"5.\"^^type:float64",
	"\"[-1]\"^^type:blob", "\"[+1]\"^^type:blob", "\"[01 002]\"^^type:blob", "\"[1 2 ]\"^^type:blob", "\"[ 1]\"^^type:blob", "\"[255 0]\"^^type:blob",
	"\"[1,2]\"^^type:blob", "\"[0x10]\"^^type:blob", "\"[1\t2]\"^^type:blob",
	"\"1\"^^type:bool", "\"t\"^^type:bool", "\"TRUE\"^^type:bool", "\"True\"^^type:bool", "\"0\"^^type:bool", "\"f\"^^type:bool", "\"F\"^^type:bool",
	"\"FALSE\"^^type:bool", "\"False\"^^type:bool", "\"tRUE\"^^type:bool", "\"yes\"^^type:bool", "\"true \"^^type:bool", "\"\"^^type:bool",
	"\"-0\"^^type:int64", "\"00012\"^^type:int64", "\"- 1\"^^type:int64", "\"1e3\"^^type:int64", "\"2147483648\"^^type:int64", "\"-9223372036854775809\"^^type:int64",
	"\"1\"^^type:Int64", "\"1\"^^type:int64 ", "\"1\"^^type: int64", "\"1\"^^TYPE:int64",
	"\"1_0\"^^type:int64", "\"0x10\"^^type:float64", " /a<b> ", "\xc2/a<b>\xa0", "_:a b", "/_<x>", "/a/<b>", "/a b<c>"}

func mutate(s string) string {
	if len(s) == 0 {
		return pick(richAlpha)
	}
	i := rnd.Intn(len(s))
	switch rnd.Intn(6) {
	case 0:
		return s[:i]
	case 1:
		return s[:i] + s[i+1:]
	case 2:
		return s[:i] + s[i:i+1] + s[i:]
	case 3:
		return s[:i] + pick(richAlpha) + s[i:]
	case 4:
		return s[i:]
	default:
		j := rnd.Intn(len(s))
		if j < i {
			i, j = j, i
		}
		return s[:i] + s[j:]
	}
}

// every kind of white space strings.TrimSpace removes (and two bytes it does not: a lone 0xc2, 0xa0)
var blanks = []string{" ", "\t", "\n", "\r", "\v", "\f", "\u0085", "\u00a0", "\u1680", "\u2003", "\u2028", "\u202f", "\u205f", "\u3000", "\xc2", "\xa0"}

func wrapBlanks(s string) string {
	return randFrom(blanks, 2) + s + randFrom(blanks, 2)
}

func modeParse(tier string, n int, alpha string, maxlen int) {
	for _, s := range corpusParse {
		emitParse("corpus", s)
	}
	intSweep()
	for _, s := range []string{"/a<b>", "_:a", "\"p\"@[]", "\"1\"^^type:int64", "/a<b>\t\"p\"@[]\t\"x\"^^type:text"} {
		for _, b := range blanks {
			emitParse("corpus", b+s)
			emitParse("corpus", s+b)
		}
	}
	exhaustive(alpha, maxlen)
	for i := 0; i < n; i++ {
		switch rnd.Intn(4) {
		case 0:
			emitParse("rand", randFrom(richAlpha, 8))
		case 1:
			emitParse("wrap", wrapBlanks(genVal().str()))
		default:
			s := genVal().str()
			k := 1 + rnd.Intn(2)
			for j := 0; j < k; j++ {
				s = mutate(s)
			}
			emitParse("mut", s)
		}
	}
	// second pass: every input again, in reverse order; the parsers must answer as they did the first time
	diff := 0
	var ex []string
	for i := len(parseLog) - 1; i >= 0; i-- {
		o := J{}
		for _, k := range append(append([]string{}, kinds...), "blit") {
			r, _ := parseKind(k, parseLog[i][0])
			o[k] = r
		}
		if fb, err := json.Marshal(o); err == nil && string(fb) != parseLog[i][1] {
			diff++
			if len(ex) < 5 {
				ex = append(ex, hx(parseLog[i][0]))
			}
		}
	}
	emit(J{"kind": "secondpass", "texts": len(parseLog), "different": diff, "examples": ex})
}

// named corpus values: the known findings of C05 and boundary cases of the documented domain
func corpusValues() []struct {
	name string
	v    val
} {
	type nv = struct {
		name string
		v    val
	}
	mkT := func(s val, p val, o val) val {
		t, err := triple.New(s.n, p.p, objOf(o).o)
		if err != nil {
			panic(err)
		}
		return val{t: t}
	}
	t0 := time.Date(2006, 1, 2, 15, 4, 5, 999999999, time.FixedZone("", -7*3600))
	return []nv{
		{"node-type-lt", nodeOf("/a<b", "c")},
		{"node-type-gt", nodeOf("/a>b", "c")},
		{"node-id-delims", nodeOf("/a", "x] /y\t\"@[ \"^^type:")},
		{"pred-id-anchor-marker", immOf("a\"@[b")},
		{"pred-id-space", immOf("x y")},
		{"pred-id-nonascii", tmpOf("é\xff\u00a0\\", t0)},
		{"pred-anchor-zero-instant", tmpOf("x", time.Time{})},
		{"pred-anchor-zero-instant-zone", tmpOf("x", time.Time{}.In(time.FixedZone("", 3600)))},
		{"pred-anchor-zero-instant-minus-zone", tmpOf("x", time.Time{}.In(time.FixedZone("", -34200)))},
		{"pred-anchor-zero-plus-1ns", tmpOf("x", time.Time{}.Add(1))},
		{"pred-anchor-zero-minus-1ns", tmpOf("x", time.Time{}.Add(-1))},
		{"pred-anchor-local-zone", tmpOf("x", time.Date(2006, 7, 2, 15, 4, 5, 0, time.Local))},
		{"pred-anchor-local-zone-winter", tmpOf("x", time.Date(2006, 1, 2, 15, 4, 5, 999, time.Local))},
		{"obj-pred-anchor-zero-instant", objOf(tmpOf("y", time.Time{}))},
		{"pred-anchor-zone-seconds", tmpOf("x", time.Date(1900, 1, 1, 12, 0, 0, 0, time.FixedZone("LMT", 1172)))},
		{"lit-text-escapes-path", litOf(literal.Text, "C:\\new\\table")},
		{"lit-text-escapes-2", litOf(literal.Text, "a\\\\b")},
		{"lit-text-escapes-u", litOf(literal.Text, "caf\\u00e9 \\x41 \\101")},
		{"pred-id-escapes", immOf("C:\\new\\table\\x41")},
		{"node-id-escapes", nodeOf("/a", "caf\\u00e9\\n")},
		{"lit-text-type-marker", litOf(literal.Text, "x\"^^type:text")},
		{"lit-text-type-marker-2", litOf(literal.Text, "\"^^type:bool")},
		{"lit-nan-payload", litOf(literal.Float64, math.Float64frombits(0x7FF0000000000001))},
		{"lit-nan-canonical", litOf(literal.Float64, math.NaN())},
		{"lit-minint", litOf(literal.Int64, int64(math.MinInt64))},
		{"lit-empty-blob", litOf(literal.Blob, []byte{})},
		{"obj-pred-type-marker", objOf(immOf("x\"^^type:text"))},
		{"triple-subject-id-split", mkT(nodeOf("/a", "x] /y"), immOf("p"), nodeOf("/b", "c"))},
		{"triple-pred-id-split", mkT(nodeOf("/a", "b"), immOf("x] /y"), nodeOf("/c", "d"))},
		{"triple-pred-id-space", mkT(nodeOf("/a", "b"), immOf("x y"), nodeOf("/c", "d"))},
		{"triple-subject-type-formfeed", mkT(nodeOf("/a>\f\"b", "c"), immOf("p"), nodeOf("/d", "e"))},
		{"triple-subject-type-formfeed-harmless", mkT(nodeOf("/a\fb", "c"), immOf("p"), nodeOf("/d", "e"))},
		{"triple-obj-pred-type-marker", mkT(nodeOf("/a", "b"), immOf("p"), immOf("x\"^^type:text"))},
		{"triple-text-delims", mkT(nodeOf("/a", "b"), tmpOf("p", t0), litOf(literal.Text, "] /x> \"y\"@[]"))},
	}
}

// siblings of a value: different values that are equal under a weaker identity (same instant in another zone, same UUID,
// same printed prefix).  Code that caches, interns or compares by such an identity mixes them up; they are emitted next
// to the value they resemble, in the same process.
func siblings(v val) []val {
	var out []val
	predSibs := func(p *predicate.Predicate) []*predicate.Predicate {
		var ps []*predicate.Predicate
		if p.Type() == predicate.Temporal {
			ta, _ := p.TimeAnchor()
			_, off := ta.Zone()
			for _, z := range []int{0, 3600, -34200} {
				if z == off {
					continue
				}
				var t2 time.Time
				if z == 0 {
					t2 = ta.UTC()
				} else {
					t2 = ta.In(time.FixedZone("", z))
				}
				q := checkedTemporal(string(p.ID()), t2)
				ps = append(ps, q)
			}
			q := checkedTemporal(string(p.ID()), ta.Add(1))
			ps = append(ps, q)
			q2, _ := predicate.NewImmutable(string(p.ID()))
			ps = append(ps, q2)
		} else {
			q, _ := predicate.NewTemporal(string(p.ID()), time.Unix(0, 0).UTC())
			ps = append(ps, q)
		}
		return ps
	}
	litSibs := func(l *literal.Literal) []*literal.Literal {
		var ls []*literal.Literal
		b := literal.DefaultBuilder()
		switch l.Type() {
		case literal.Text:
			s, _ := l.Text()
			x, _ := b.Build(literal.Blob, []byte(s))
			ls = append(ls, x)
			y, _ := b.Build(literal.Text, s+" ")
			ls = append(ls, y)
		case literal.Blob:
			s, _ := l.Blob()
			x, _ := b.Build(literal.Text, string(s))
			ls = append(ls, x)
		case literal.Bool:
			v, _ := l.Bool()
			x, _ := b.Build(literal.Text, strconv.FormatBool(v))
			ls = append(ls, x)
		case literal.Int64:
			v, _ := l.Int64()
			x, _ := b.Build(literal.Float64, float64(v))
			ls = append(ls, x)
			y, _ := b.Build(literal.Text, strconv.FormatInt(v, 10))
			ls = append(ls, y)
		case literal.Float64:
			v, _ := l.Float64()
			x, _ := b.Build(literal.Float64, -v)
			ls = append(ls, x)
		}
		return ls
	}
	nodeSibs := func(n *node.Node) []*node.Node {
		var ns []*node.Node
		t, id := n.Type().String(), n.ID().String()
		if len(id) > 1 {
			if m, err := node.NewNodeFromStrings(t+id[:1], id[1:]); err == nil {
				ns = append(ns, m)
			}
		}
		if m, err := node.NewNodeFromStrings(t, id+"x"); err == nil {
			ns = append(ns, m)
		}
		return ns
	}
	switch {
	case v.p != nil:
		for _, q := range predSibs(v.p) {
			out = append(out, val{p: q})
		}
	case v.l != nil:
		for _, q := range litSibs(v.l) {
			out = append(out, val{l: q})
		}
	case v.n != nil:
		for _, q := range nodeSibs(v.n) {
			out = append(out, val{n: q})
		}
	case v.o != nil:
		if p, err := v.o.Predicate(); err == nil {
			for _, q := range predSibs(p) {
				out = append(out, val{o: triple.NewPredicateObject(q)})
			}
		}
		if l, err := v.o.Literal(); err == nil {
			for _, q := range litSibs(l) {
				out = append(out, val{o: triple.NewLiteralObject(q)})
			}
		}
		if n, err := v.o.Node(); err == nil {
			for _, q := range nodeSibs(n) {
				out = append(out, val{o: triple.NewNodeObject(q)})
			}
		}
	case v.t != nil:
		for _, q := range predSibs(v.t.Predicate()) {
			t2, _ := triple.New(v.t.Subject(), q, v.t.Object())
			out = append(out, val{t: t2})
		}
		for _, o := range siblings(val{o: v.t.Object()}) {
			t2, _ := triple.New(v.t.Subject(), v.t.Predicate(), o.o)
			out = append(out, val{t: t2})
		}
	}
	return out
}

type passEntry struct {
	kind, text string
	first      string // JSON of the first parse outcome
	v          val
}

var passLog []passEntry

func modeValues(n int) {
	for _, c := range corpusValues() {
		corpusName = c.name
		emitValue("corpus", c.v)
		corpusName = ""
	}
	for i := 0; i < n; i++ {
		v := genVal()
		emitValue("generated", v)
		if rnd.Intn(2) == 0 {
			sibs := siblings(v)
			rnd.Shuffle(len(sibs), func(a, b int) { sibs[a], sibs[b] = sibs[b], sibs[a] })
			if len(sibs) > 2 {
				sibs = sibs[:2]
			}
			for _, s := range sibs {
				emitValue("generated", s)
			}
		}
	}
	// literal.NewBoundedBuilder(max): what Build accepts must parse back from its own printed form with the same builder
	// (max = size of the value, also for blobs whose printed form is up to four times longer), and what is larger than max
	// must be refused by both
	boundedCase := func(ty literal.Type, v interface{}, size int) {
		for _, max := range []int{size, size + 1, size - 1, 4 * size, 64} {
			if max < 0 {
				continue
			}
			bb := literal.NewBoundedBuilder(max)
			j := J{"kind": "bounded", "ty": ty.String(), "size": size, "max": max}
			func() {
				defer func() {
					if r := recover(); r != nil {
						j["panic"] = true
					}
				}()
				l, err := bb.Build(ty, v)
				j["build_ok"] = err == nil
				var text string
				if err == nil {
					text = l.String()
				} else {
					ul, _ := literal.DefaultBuilder().Build(ty, v)
					text = ul.String()
				}
				j["text"] = hx(text)
				pl, perr := bb.Parse(text)
				j["parse_ok"] = perr == nil && pl != nil
				if perr == nil && pl != nil {
					j["equal"] = fmt.Sprint(obsLit(pl)) == fmt.Sprint(obsLit(func() *literal.Literal { x, _ := literal.DefaultBuilder().Build(ty, v); return x }()))
				}
			}()
			emit(j)
		}
	}
	for _, size := range []int{0, 1, 2, 15, 16, 17, 63, 64, 65, 200} {
		blob := make([]byte, size)
		for i := range blob {
			blob[i] = byte(200 + i%56)
		}
		boundedCase(literal.Blob, blob, size)
		small := make([]byte, size)
		boundedCase(literal.Blob, small, size)
		boundedCase(literal.Text, strings.Repeat("é", size/2)+strings.Repeat("x", size%2), size)
		boundedCase(literal.Text, strings.Repeat("\"", size), size)
	}
	// long values (ids / texts / blobs of 300 bytes .. 100 KiB): round trip observed on the implementation only
	rep := func(s string, n int) string { return strings.Repeat(s, n/len(s)+1)[:n] }
	for _, n := range []int{300, 5000, 70000} {
		longs := []val{
			nodeOf("/t/"+rep("ab", n/10), rep("id \"@[ ] /x", n)),
			immOf(rep("p\"@[] \\/q", n)),
			tmpOf(rep("é\\n", n), time.Date(2006, 1, 2, 15, 4, 5, 7, time.FixedZone("", 3600))),
			litOf(literal.Text, rep("x\"^^type:text y] /", n)),
			litOf(literal.Blob, []byte(rep("\x00\xff\x7fA", n/8))),
		}
		s0, p0 := nodeOf("/a", rep("s] /", n)), immOf(rep("q r", n/4))
		lt, _ := triple.New(s0.n, p0.p, objOf(litOf(literal.Text, rep("o", n))).o)
		longs = append(longs, val{t: lt})
		for _, v := range longs {
			text := v.str()
			res, v2 := parseKind(v.kind(), text)
			j := J{"kind": "value", "src": "generated", "nomodel": true, "vk": v.kind(), "v": v.obs(), "text": hx(text), "parsed": res, "tables": newTables().json()}
			if res["c"] == "ok" {
				j["retext"] = hx(v2.str())
			}
			emit(j)
		}
	}
	// second pass: every text is parsed again, in reverse order, after everything else went through the parsers in this
	// process; a parser whose answer depends on earlier calls answers differently now
	diff := 0
	for i := len(passLog) - 1; i >= 0; i-- {
		e := passLog[i]
		res, v2 := parseKind(e.kind, e.text)
		b, _ := json.Marshal(res)
		if string(b) != e.first {
			diff++
			if diff <= 20 {
				j := J{"kind": "value", "src": "second-pass", "vk": e.kind, "v": e.v.obs(), "text": hx(e.text), "parsed": res}
				tb := newTables()
				tb.addVal(e.v)
				tb.addText(e.text)
				if res["c"] == "ok" {
					tb.addVal(v2)
					j["retext"] = hx(v2.str())
				}
				j["tables"] = tb.json()
				emit(j)
			}
		}
	}
	emit(J{"kind": "secondpass", "texts": len(passLog), "different": diff})
}

func graphLines(g storage.Graph) (lines []string, ok bool) {
	defer func() {
		if r := recover(); r != nil {
			ok = false
		}
	}()
	ch := make(chan *triple.Triple, 64)
	var err error
	done := make(chan bool)
	go func() {
		for t := range ch {
			lines = append(lines, t.String())
		}
		done <- true
	}()
	err = g.Triples(context.Background(), storage.DefaultLookup, ch)
	<-done
	sort.Strings(lines)
	return lines, err == nil
}

func hxs(xs []string) []string {
	r := make([]string, len(xs))
	for i, x := range xs {
		r[i] = hx(x)
	}
	return r
}

var graphNo = 0

func newGraph() storage.Graph {
	graphNo++
	g, err := memory.NewStore().NewGraph(context.Background(), fmt.Sprintf("?g%d", graphNo))
	if err != nil {
		panic(err)
	}
	return g
}

// read text into a fresh graph
func readCase(src, text string, tb *tables) J {
	g := newGraph()
	res := J{"kind": "read", "src": src, "text": hx(text)}
	func() {
		defer func() {
			if r := recover(); r != nil {
				res["err"] = "panic"
				res["cnt"] = -1
			}
		}()
		cnt, err := bwio.ReadIntoGraph(context.Background(), g, strings.NewReader(text), literal.DefaultBuilder())
		res["cnt"] = cnt
		if err != nil {
			res["err"] = "err"
		} else {
			res["err"] = "nil"
		}
	}()
	lines, _ := graphLines(g)
	res["lines"] = hxs(lines)
	// what triple.Parse says about each non-blank line on its own (for the prefix property, independent of the model)
	var per []J
	for _, l := range strings.Split(text, "\n") {
		if len(l) < 400 {
			tb.addText(strings.TrimSpace(l))
		}
		if len(l) > 70000 {
			continue
		}
		l = strings.TrimSpace(strings.TrimSuffix(l, "\r"))
		if l == "" {
			continue
		}
		r, v := parseKind("triple", l)
		e := J{"c": r["c"]}
		if r["c"] == "ok" {
			e["s"] = hx(v.str())
			e["u"] = safeUUID(v)
		}
		per = append(per, e)
	}
	res["per_line"] = per
	// the graph holds parsed values whose printed form the model must reproduce
	ch := make(chan *triple.Triple, 64)
	go g.Triples(context.Background(), storage.DefaultLookup, ch)
	for t := range ch {
		tb.addVal(val{t: t})
	}
	res["tables"] = tb.json()
	return res
}

func modeGraph(n int) {
	faultCases()
	s1, p1 := nodeOf("/a", "b"), immOf("p")
	mk := func(o val) *triple.Triple { t, _ := triple.New(s1.n, p1.p, objOf(o).o); return t }
	corpus := []struct {
		name string
		ts   []*triple.Triple
	}{
		{"graph-text-newline", []*triple.Triple{mk(litOf(literal.Text, "a\nb"))}},
		{"graph-node-id-newline", []*triple.Triple{mk(nodeOf("/c", "d\ne"))}},
		{"graph-text-cr", []*triple.Triple{mk(litOf(literal.Text, "a\rb\r")), mk(litOf(literal.Text, " x "))}},
		{"graph-uuid-collision", []*triple.Triple{mk(litOf(literal.Text, "true")), mk(litOf(literal.Bool, true))}},
		{"graph-comment-marks", []*triple.Triple{mk(litOf(literal.Text, "issue #12")), mk(litOf(literal.Text, "3.5\" floppy #2")),
			mk(nodeOf("/c", "a #b")), mk(nodeOf("/c", "x\" ;y")), mk(litOf(literal.Text, "a\" //b")), mk(litOf(literal.Text, "#")),
			mk(litOf(literal.Text, "50 % \" -- x")), mk(immOf("p\" #q"))}},
	}
	for i := -len(corpus); i < n+3; i++ {
		k := rnd.Intn(8)
		if i >= 0 && i%10 == 0 {
			k = rnd.Intn(31)
		}
		nomodel := false
		if i == n || i == n+1 {
			k = 120 + rnd.Intn(60) // text larger than bufio.Scanner's initial 4 KiB buffer: it is refilled while reading
		}
		if i == n+2 {
			k, nomodel = 1500, true // text larger than 64 KiB: several refills; not evaluated by the Coq model (size)
		}
		var ts []*triple.Triple
		name := ""
		if i < 0 {
			ts, name, k = corpus[i+len(corpus)].ts, corpus[i+len(corpus)].name, 0
		}
		for j := 0; j < k; j++ {
			if len(ts) > 0 && rnd.Intn(8) == 0 {
				ts = append(ts, ts[rnd.Intn(len(ts))])
			} else if i >= n {
				ts = append(ts, genSafeTriple())
			} else {
				ts = append(ts, genTriple())
			}
		}
		tb := newTables()
		var tj []J
		for _, t := range ts {
			tj = append(tj, obsTriple(t))
			tb.addVal(val{t: t})
		}
		g := newGraph()
		addPanic := false
		func() {
			defer func() {
				if r := recover(); r != nil {
					addPanic = true
				}
			}()
			g.AddTriples(context.Background(), ts)
		}()
		if addPanic {
			emit(J{"kind": "graph", "addpanic": true, "triples": tj, "tables": tb.json()})
			continue
		}
		_ = nomodel
		stored, _ := graphLines(g)
		var buf bytes.Buffer
		wcnt, werr := bwio.WriteGraph(context.Background(), &buf, g)
		j := J{"kind": "graph", "triples": tj, "stored": hxs(stored), "wcnt": wcnt, "werr": werr != nil, "wtext": hx(buf.String())}
		if name != "" {
			j["name"] = name
		}
		if nomodel {
			j["nomodel"] = true
		}
		j["textlen"] = buf.Len()
		var us []string
		for _, t := range ts {
			us = append(us, safeUUID(val{t: t}))
		}
		j["uuids"] = us
		wl := strings.Split(strings.TrimSuffix(buf.String(), "\n"), "\n")
		if buf.Len() == 0 {
			wl = nil
		}
		sort.Strings(wl)
		j["wlines"] = hxs(wl)
		r := readCase("graph", buf.String(), tb)
		// the same text read with a bounded builder whose bound is the largest text / blob value of the graph
		func() {
			maxv := 0
			for _, t := range ts {
				if l, err := t.Object().Literal(); err == nil {
					if s, e := l.Text(); e == nil && len(s) > maxv {
						maxv = len(s)
					}
					if b, e := l.Blob(); e == nil && len(b) > maxv {
						maxv = len(b)
					}
				}
			}
			defer func() {
				if x := recover(); x != nil {
					j["bounded_read"] = J{"panic": true, "max": maxv}
				}
			}()
			g3 := newGraph()
			cnt, err := bwio.ReadIntoGraph(context.Background(), g3, strings.NewReader(buf.String()), literal.NewBoundedBuilder(maxv))
			ls, _ := graphLines(g3)
			j["bounded_read"] = J{"max": maxv, "cnt": cnt, "err": err != nil, "same": fmt.Sprint(hxs(ls)) == fmt.Sprint(r["lines"])}
		}()
		j["read"] = r
		j["tables"] = r["tables"]
		delete(r, "tables")
		emit(j)
	}
}

// a writer that accepts limit bytes and then fails (with a short write for the chunk that crosses the limit)
type limitWriter struct {
	limit int
	buf   bytes.Buffer
}

func (w *limitWriter) Write(p []byte) (int, error) {
	room := w.limit - w.buf.Len()
	if room >= len(p) {
		return w.buf.Write(p)
	}
	if room > 0 {
		w.buf.Write(p[:room])
	} else {
		room = 0
	}
	return room, fmt.Errorf("limitWriter: full after %d bytes", w.limit)
}

// a reader that delivers limit bytes and then fails
type limitReader struct {
	data  string
	limit int
	pos   int
}

func (r *limitReader) Read(p []byte) (int, error) {
	if r.pos >= r.limit {
		return 0, fmt.Errorf("limitReader: failed after %d bytes", r.limit)
	}
	n := copy(p, r.data[r.pos:r.limit])
	r.pos += n
	return n, nil
}

// WriteGraph into failing writers, ReadIntoGraph from failing readers: "both operations report that number of triples"
func faultCases() {
	for _, k := range []int{6, 100} {
		var ts []*triple.Triple
		for j := 0; j < k; j++ {
			ts = append(ts, genSafeTriple())
		}
		g := newGraph()
		g.AddTriples(context.Background(), ts)
		stored, _ := graphLines(g)
		var full bytes.Buffer
		bwio.WriteGraph(context.Background(), &full, g)
		total := full.Len()
		lims := []int{0, 1, 17, total / 2, total - 1, total, total + 1, 4095, 4096, 4097, 6000, 8191, 8192, 8193}
		for _, lim := range lims {
			w := &limitWriter{limit: lim}
			j := J{"kind": "wfault", "triples": len(stored), "total": total, "limit": lim}
			func() {
				defer func() {
					if r := recover(); r != nil {
						j["panic"] = true
					}
				}()
				n, err := bwio.WriteGraph(context.Background(), w, g)
				j["n"], j["err"] = n, err != nil
			}()
			j["written"] = w.buf.Len()
			j["complete"] = w.buf.String() == full.String()
			emit(j)
		}
		text := full.String()
		for _, lim := range append(lims, total/3, 2*total/3) {
			if lim > total {
				continue
			}
			g2 := newGraph()
			j := J{"kind": "rfault", "total": total, "limit": lim, "lines_delivered": strings.Count(text[:lim], "\n")}
			func() {
				defer func() {
					if r := recover(); r != nil {
						j["panic"] = true
					}
				}()
				n, err := bwio.ReadIntoGraph(context.Background(), g2, &limitReader{data: text, limit: lim}, literal.DefaultBuilder())
				j["n"], j["err"] = n, err != nil
			}()
			ls, _ := graphLines(g2)
			j["stored"] = len(ls)
			orig := map[string]bool{}
			for _, s := range stored {
				orig[s] = true
			}
			foreign := 0
			for _, s := range ls {
				if !orig[s] {
					foreign++
				}
			}
			j["foreign"] = foreign
			emit(j)
		}
	}
}

func modeReader(n int) {
	fixed := []string{"", "\n", "\n\n", " \t \n",
		"/a<b>\t\"p\"@[]\t\"3.5\" floppy #2\"^^type:text\n/a<x #y>\t\"q\"@[]\t/c<d>\n/a<b>\t\"r ;s\"@[]\t\"a\" //b\"^^type:text\n",
		"# a comment line\n/a<b>\t\"p\"@[]\t/c<d>\n", "/a<b>\t\"p\"@[]\t/c<d> # trailing comment\n/a<b>\t\"q\"@[]\t/c<d>\n", "\u00a0\n/a<b>\t\"p\"@[]\t/c<d>\n\u3000 \u2003\n", "\u00a0/a<b>\t\"p\"@[]\t/c<d>\u0085\r\n\xc2\n/a<b>\t\"q\"@[]\t/c<d>\n", "/a<b>\t\"p\"@[]\t/c<d>", "/a<b>\t\"p\"@[]\t/c<d>\n", "/a<b>\t\"p\"@[]\t/c<d>\r\n/a<b>\t\"q\"@[]\t/c<d>\r\n",
		"/a<b>\t\"p\"@[]\t/c<d>\nbad\n/a<b>\t\"q\"@[]\t/c<d>\n", "bad", "/a<b>\t\"p\"@[]\t\"x\\\"^^type:text\"@[]\n",
		"/a<b>\t\"p\"@[]\t/c<d>\n/a<b>\t\"p\"@[]\t/c<d>\n", "/a<b>\t\"p\"@[]\t\"a\nb\"^^type:text\n", "\r\n\r\n/a<b>\t\"p\"@[]\t/c<d>\r",
		"/a<x] /y>\t\"p\"@[]\t/b<c>\n"}
	for _, f := range fixed {
		emit(readCase("corpus", f, newTables()))
	}
	// texts larger than the scanner's 4 KiB buffer (refilled while reading) and larger than 64 KiB, with a bad line late
	for _, k := range []int{150, 1500} {
		var b strings.Builder
		for j := 0; j < k; j++ {
			b.WriteString(genSafeTriple().String())
			b.WriteString("\n")
			if j == k-3 && k == 150 {
				b.WriteString("bad line\n")
			}
		}
		r := readCase("big", b.String(), newTables())
		r["nomodel"] = true
		r["tables"] = newTables().json()
		emit(r)
	}
	for i := 0; i < n; i++ {
		k := 1 + rnd.Intn(5)
		var lines []string
		for j := 0; j < k; j++ {
			lines = append(lines, genTriple().String())
		}
		bad := rnd.Intn(k + 1) // position of the bad line; k = none
		var b strings.Builder
		for j := 0; j <= k; j++ {
			if j == bad && bad < k || (j == k && bad == k && rnd.Intn(4) == 0) {
				switch rnd.Intn(4) {
				case 0:
					b.WriteString(mutate(lines[rnd.Intn(k)]))
				case 1:
					b.WriteString(randFrom(richAlpha, 6))
				case 2:
					b.WriteString("bad line")
				default:
					b.WriteString(mutate(mutate(lines[rnd.Intn(k)])))
				}
				b.WriteString(pick([]string{"\n", "\n", "\r\n"}))
			}
			if j < k {
				switch rnd.Intn(10) {
				case 0:
					b.WriteString("\n")
				case 1:
					b.WriteString(" \t\r\n")
				}
				b.WriteString(pick([]string{"", "", "", " ", "\t"}))
				b.WriteString(lines[j])
				if j < k-1 || rnd.Intn(3) > 0 {
					b.WriteString(pick([]string{"\n", "\n", "\r\n", " \n"}))
				}
			}
		}
		emit(readCase("gen", b.String(), newTables()))
	}
}

func longLine(n int) string {
	// a valid triple line of exactly n bytes
	base := "/a<b>\t\"p\"@[]\t\"\"^^type:text"
	return "/a<b>\t\"p\"@[]\t\"" + strings.Repeat("x", n-len(base)) + "\"^^type:text"
}

func modeLong() {
	for _, n := range []int{65534, 65535, 65536, 65537, 70000} {
		for _, tail := range []string{"", "\n", "\r\n"} {
			text := "/a<b>\t\"p\"@[]\t/c<d>\n" + longLine(n) + tail + "/a<b>\t\"q\"@[]\t/c<d>\n"
			if tail == "" {
				text = "/a<b>\t\"p\"@[]\t/c<d>\n" + longLine(n)
			}
			r := readCase("long", text, newTables())
			r["text"] = ""
			r["linelen"] = n
			r["tail"] = hx(tail)
			ls := r["lines"].([]string)
			r["nlines"] = len(ls)
			r["lines"] = nil
			r["tables"] = nil
			emit(r)
		}
	}
}

// near-colliding pairs for UUIDs
func nodeOf(t, id string) val {
	n, err := node.NewNodeFromStrings(t, id)
	if err != nil {
		panic(err)
	}
	return val{n: n}
}
func litOf(ty literal.Type, v interface{}) val {
	l, err := literal.DefaultBuilder().Build(ty, v)
	if err != nil {
		panic(err)
	}
	return val{l: l}
}
func immOf(id string) val { return val{p: checkedImmutable(id)} }
func tmpOf(id string, t time.Time) val {
	return val{p: checkedTemporal(id, t)}
}

// The harness observes values through their getters; a value whose getters do not return what the constructor was given
// would be observed consistently wrong.  Every predicate construction is therefore checked against its arguments.
var ctorIssues []J

func checkedTemporal(id string, t time.Time) *predicate.Predicate {
	p, err := predicate.NewTemporal(id, t)
	if err != nil || p == nil {
		return p
	}
	want := obsTime(t)
	issue := ""
	if string(p.ID()) != id {
		issue = "ID() differs from the constructor argument"
	} else if p.Type() != predicate.Temporal {
		issue = "NewTemporal returned a predicate whose Type() is not Temporal"
	} else if ta, e := p.TimeAnchor(); e != nil || ta == nil {
		issue = "TimeAnchor() fails on a temporal predicate"
	} else if got := obsTime(*ta); got["ns"] != want["ns"] || got["off"] != want["off"] {
		issue = "TimeAnchor() differs from the constructor argument"
	}
	if issue != "" && len(ctorIssues) < 20 {
		ctorIssues = append(ctorIssues, J{"kind": "ctor", "what": issue, "id": hx(id), "anchor": want, "printed": hx(p.String())})
	}
	return p
}

func checkedImmutable(id string) *predicate.Predicate {
	p, err := predicate.NewImmutable(id)
	if err != nil || p == nil {
		return p
	}
	issue := ""
	if string(p.ID()) != id {
		issue = "ID() differs from the constructor argument"
	} else if p.Type() != predicate.Immutable {
		issue = "NewImmutable returned a predicate whose Type() is not Immutable"
	} else if _, e := p.TimeAnchor(); e == nil {
		issue = "TimeAnchor() succeeds on an immutable predicate"
	}
	if issue != "" && len(ctorIssues) < 20 {
		ctorIssues = append(ctorIssues, J{"kind": "ctor", "what": issue, "id": hx(id), "anchor": nil, "printed": hx(p.String())})
	}
	return p
}
func objOf(v val) val {
	switch {
	case v.n != nil:
		return val{o: triple.NewNodeObject(v.n)}
	case v.p != nil:
		return val{o: triple.NewPredicateObject(v.p)}
	default:
		return val{o: triple.NewLiteralObject(v.l)}
	}
}

func fixedPairs() [][2]val {
	t0 := time.Unix(1136214245, 999999999).UTC()
	le8 := func(u uint64) string {
		b := make([]byte, 8)
		for i := 0; i < 8; i++ {
			b[i] = byte(u >> (8 * i))
		}
		return string(b)
	}
	ps := [][2]val{
		{nodeOf("/a", "bc"), nodeOf("/ab", "c")},
		{nodeOf("/a/b", "c"), nodeOf("/a", "/bc")},
		{nodeOf("/a", "b"), nodeOf("/a", "b")},
		{litOf(literal.Text, "true"), litOf(literal.Bool, true)},
		{litOf(literal.Text, "abc"), litOf(literal.Blob, []byte("abc"))},
		{litOf(literal.Int64, int64(1)), litOf(literal.Text, "\x02\x00\x00\x00\x00\x00\x00\x00")},
		{litOf(literal.Float64, 1.0), litOf(literal.Text, le8(math.Float64bits(1.0)))},
		{litOf(literal.Int64, int64(0)), litOf(literal.Float64, 0.0)},
		{litOf(literal.Int64, int64(1)), litOf(literal.Int64, int64(-1))},
		{litOf(literal.Float64, 0.0), litOf(literal.Float64, math.Copysign(0, -1))},
		{objOf(nodeOf("/a", "bc")), objOf(litOf(literal.Text, "/abc"))},
		{objOf(immOf("x")), objOf(litOf(literal.Text, "ximmutable"))},
		{objOf(nodeOf("/x", "immutable")), objOf(immOf("/x"))},
		{immOf("x"), tmpOf("x", t0)},
		{tmpOf("x", t0), tmpOf("x", t0.In(time.FixedZone("", 3600)))},
		{tmpOf("x", t0), tmpOf("x", t0.Add(1))},
		{tmpOf("x", time.Date(1700, 1, 1, 0, 0, 0, 0, time.UTC)), tmpOf("x", time.Date(1700, 1, 1, 0, 0, 0, 0, time.UTC).Add(1<<62).Add(1<<62).Add(1<<62).Add(1<<62))},
		{immOf("ab"), immOf("a")},
		{immOf("x"), tmpOf("x", time.Time{})},
		{immOf("x"), tmpOf("x", time.Time{}.In(time.FixedZone("", 3600)))},
		{tmpOf("x", time.Time{}), tmpOf("x", time.Time{}.In(time.FixedZone("", -3600)))},
		{tmpOf("x", time.Time{}), tmpOf("x", time.Time{}.Add(1))},
		{tmpOf("x", time.Time{}), tmpOf("x", time.Time{}.Add(-1))},
		{objOf(immOf("x")), objOf(tmpOf("x", time.Time{}))},
		{immOf("a"), tmpOf("aimmutable"[:1], t0)},
	}
	return ps
}

func tripleWith(o val) *triple.Triple {
	s, _ := node.NewNodeFromStrings("/s", "1")
	p, _ := predicate.NewImmutable("p")
	ob := o.o
	if ob == nil {
		ob = objOf(o).o
	}
	t, _ := triple.New(s, p, ob)
	return t
}

var farPreds = func() []*predicate.Predicate {
	var ps []*predicate.Predicate
	for _, y := range []int{2200, 1500, 9999} {
		p, _ := predicate.NewTemporal("far", time.Date(y, 6, 15, 12, 30, 45, 123456789, time.UTC))
		ps = append(ps, p)
	}
	return ps
}()

func safeUUID(v val) (s string) {
	defer func() {
		if r := recover(); r != nil {
			s = "panic"
		}
	}()
	a := v.uuid()
	// determinism: same answer on a second call, after unrelated calls (pooled buffers), and from another goroutine
	nodeOf("/zzzzzzzzzzzzzzzzzzzzzzzzzzzzzzzzzzzzzz", "yyyyyyyyyyyyyyyyyyyyyyyyyyyyyyyyyyyyyyyyyyyyyyyy").uuid()
	litOf(literal.Text, "wwwwwwwwwwwwwwwwwwwwwwwwwwwwwwwwwwwwwwwwwwwwwwwwwwwwwwwwwwwwwwwwwwwwwwwwwwwww").uuid()
	// anchors whose UnixNano needs 9 and 10 varint bytes (outside 1823..2116): a scratch block that is reused without
	// being cleared keeps their tail
	farPreds[0].UUID()
	farPreds[1].UUID()
	farPreds[2].UUID()
	b := v.uuid()
	ch := make(chan string)
	go func() {
		defer func() {
			if r := recover(); r != nil {
				ch <- "panic"
			}
		}()
		ch <- v.uuid().String()
	}()
	c := <-ch
	if a.String() != b.String() || a.String() != c {
		return "nondeterministic"
	}
	return a.String()
}

// every value whose UUID was taken in this process, for the stability re-check at the end of the uuid mode
var uuidLog []struct {
	v val
	u string
}

// the UUID of the value obtained by parsing the printed form (the UUID must survive the text round trip)
func reparsedUUID(v val) (s string) {
	defer func() {
		if r := recover(); r != nil {
			s = "panic"
		}
	}()
	res, v2 := parseKind(v.kind(), v.str())
	if res["c"] != "ok" {
		return "unparsable"
	}
	return v2.uuid().String()
}

func emitUUID(src string, v val) {
	u := safeUUID(v)
	uuidLog = append(uuidLog, struct {
		v val
		u string
	}{v, u})
	emit(J{"kind": "uuid", "src": src, "vk": v.kind(), "v": v.obs(), "uuid": u, "uuid_reparsed": reparsedUUID(v)})
}

func emitPair(src string, a, b val) {
	j := J{"kind": "pair", "src": src, "vk": a.kind(), "vkb": b.kind(), "a": a.obs(), "b": b.obs(), "ua": safeUUID(a), "ub": safeUUID(b),
		"texta": hx(a.str()), "textb": hx(b.str())}
	// Triple.Equal and Graph.Exist after adding one of the pair
	func() {
		defer func() {
			if r := recover(); r != nil {
				j["equal"] = "panic"
			}
		}()
		var ta, tb2 *triple.Triple
		switch {
		case a.t != nil && b.t != nil:
			ta, tb2 = a.t, b.t
		case a.n != nil && b.n != nil:
			p, _ := predicate.NewImmutable("p")
			ta, _ = triple.New(a.n, p, triple.NewNodeObject(a.n))
			tb2, _ = triple.New(b.n, p, triple.NewNodeObject(a.n))
		case a.p != nil && b.p != nil:
			s, _ := node.NewNodeFromStrings("/s", "1")
			ta, _ = triple.New(s, a.p, triple.NewNodeObject(s))
			tb2, _ = triple.New(s, b.p, triple.NewNodeObject(s))
		case a.kind() == "triple" || b.kind() == "triple" || a.kind() == "node" || b.kind() == "node" || a.kind() == "pred" || b.kind() == "pred":
			return
		default:
			ta, tb2 = tripleWith(a), tripleWith(b)
		}
		j["equal"] = ta.Equal(tb2)
		g := newGraph()
		g.AddTriples(context.Background(), []*triple.Triple{ta})
		ex, err := g.Exist(context.Background(), tb2)
		j["exist"] = ex && err == nil
		g.AddTriples(context.Background(), []*triple.Triple{tb2})
		ls, _ := graphLines(g)
		j["size_after_both"] = len(ls)
	}()
	emit(j)
}

// blank nodes (type /_) whose id is the text of a UUID, in every form github.com/pborman/uuid.Parse accepts: lower / upper
// case, urn:uuid: prefix, braces, and the printed UUID of OTHER values
func uuidNamedBlankNodes() []val {
	var out []val
	mk := func(id string) {
		if n, err := node.NewNodeFromStrings("/_", id); err == nil {
			out = append(out, val{n: n})
		}
	}
	bases := []string{"6ba7b810-9dad-11d1-80b4-00c04fd430c8", "00000000-0000-0000-0000-000000000000", "f47ac10b-58cc-4372-a567-0e02b2c3d479"}
	for _, v := range []val{nodeOf("/a", "bc"), immOf("x"), litOf(literal.Text, "true"), litOf(literal.Int64, int64(1))} {
		bases = append(bases, v.uuid().String())
	}
	for _, b := range bases {
		mk(b)
		mk(strings.ToUpper(b))
		mk("urn:uuid:" + b)
		mk("URN:UUID:" + b)
		mk("{" + b + "}")
		mk(strings.ReplaceAll(b, "-", ""))
		mk(b + " ")
		mk(b[:35])
	}
	return out
}

func modeUUID(n int) {
	for _, p := range fixedPairs() {
		emitPair("fixed", p[0], p[1])
	}
	blanks := uuidNamedBlankNodes()
	for _, b := range blanks {
		emitUUID("blank-uuid", b)
	}
	for i := 0; i+1 < len(blanks); i++ {
		emitPair("blank-uuid", blanks[i], blanks[i+1])
	}
	// size sweep: node type / id lengths around powers of two, pairs that differ only in the LAST byte of the id (a UUID
	// computed from a fixed-size block, a truncated copy, a length stored in a byte ... collide here)
	fill := func(n int, seed int) string {
		b := make([]byte, n)
		for i := range b {
			b[i] = "abcdefghijklmnopqrstuvwxyz0123456789"[(i*7+seed)%36]
		}
		return string(b)
	}
	var totals []int
	for _, r := range [][2]int{{60, 70}, {120, 135}, {250, 260}} {
		for x := r[0]; x <= r[1]; x++ {
			totals = append(totals, x)
		}
	}
	totals = append(totals, 510, 511, 512, 513, 1023, 1024, 1025, 4095, 4096, 4097)
	for _, tot := range totals {
		splits := [][2]int{{tot / 2, tot - tot/2}}
		if tot <= 260 {
			splits = append(splits, [2]int{5, tot - 5}, [2]int{tot - 3, 3}, [2]int{tot / 4, tot - tot/4})
		}
		for _, sp := range splits {
			ty := "/" + fill(sp[0]-1, tot)
			id := fill(sp[1], tot+1)
			a := mustNode(ty, id[:len(id)-1]+"A")
			b := mustNode(ty, id[:len(id)-1]+"B")
			emitPair("size-sweep", val{n: a}, val{n: b})
		}
	}
	// per-part lengths: each part around the boundary, the other one 100 bytes
	for _, x := range []int{28, 29, 63, 64, 65, 127, 128, 129, 255, 256, 257} {
		emitPair("size-sweep", val{n: mustNode("/"+fill(x-1, x), fill(99, x)+"A")}, val{n: mustNode("/"+fill(x-1, x), fill(99, x)+"B")})
		emitPair("size-sweep", val{n: mustNode("/"+fill(99, x), fill(x-1, x)+"A")}, val{n: mustNode("/"+fill(99, x), fill(x-1, x)+"B")})
	}
	// text and blob literals around 4096, 8192 and 65536 bytes: single values (the model hashes the full pre-image) and
	// pairs A+"xyz" / A+"xyz"+A[3:] (a block-wise hash that re-feeds leftover bytes makes them collide)
	sweepLens := []int{4095, 4096, 4097, 4099, 8191, 8193, 65537}
	if thoroughRun {
		sweepLens = []int{4093, 4094, 4095, 4096, 4097, 4098, 4099, 8189, 8190, 8191, 8192, 8193, 8194, 8195, 12291, 65533, 65535, 65536, 65537, 65539}
	}
	for _, n := range sweepLens {
		s := fill(n, n)
		emitUUID("size-sweep", litOf(literal.Text, s))
		emitUUID("size-sweep", litOf(literal.Blob, []byte(s)))
	}
	for _, blk := range []int{4096, 8192, 65536} {
		a := fill(blk, blk+7)
		emitPair("size-sweep", litOf(literal.Text, a+"xyz"), litOf(literal.Text, a+"xyz"+a[3:]))
		emitPair("size-sweep", litOf(literal.Blob, []byte(a+"xyz")), litOf(literal.Blob, []byte(a+"xyz"+a[3:])))
		emitPair("size-sweep", litOf(literal.Text, a+"x"), litOf(literal.Text, a+"y"))
		emitPair("size-sweep", litOf(literal.Text, a[:blk-1]+"x"), litOf(literal.Text, a[:blk-1]+"y"))
	}
	// blob literals obtained by PARSING (2 KiB each): their UUID() and String() are taken now and again at the end of the
	// mode, after ~100 KiB more blob text has been parsed
	var parsedBlobs []val
	var parsedBlobText []string
	blobText := func(i, n int) string {
		var b strings.Builder
		b.WriteString("\"[")
		for k := 0; k < n; k++ {
			if k > 0 {
				b.WriteByte(' ')
			}
			b.WriteString(strconv.Itoa((k*31 + i*17) % 256))
		}
		b.WriteString("]\"^^type:blob")
		return b.String()
	}
	for i := 0; i < 8; i++ {
		if r, v := parseKind("lit", blobText(i, 2048)); r["c"] == "ok" {
			parsedBlobs = append(parsedBlobs, v)
			parsedBlobText = append(parsedBlobText, v.str())
			emitUUID("parsed-blob", v)
		}
	}
	// a blank node named after the printed UUID of another value must not get that value's UUID
	for _, v := range []val{nodeOf("/a", "bc"), immOf("x"), litOf(literal.Text, "true")} {
		emitPair("blank-uuid", val{n: mustNode("/_", v.uuid().String())}, v)
	}
	// the same instant written in a zone (incl. negative half-hour zones) and in UTC, both obtained by PARSING the text
	for i, z := range []int{-12600, -34200, -9000, -1800, 1800, 20700, 19800, -3600, 3600, -43200, 50400} {
		t0 := time.Date(2015, 1, 1, 12, 0, 0, i*1000, time.UTC).Add(time.Duration(i) * 37 * time.Minute)
		ta := "\"foo\"@[" + t0.In(time.FixedZone("", z)).Format(time.RFC3339Nano) + "]"
		tb := "\"foo\"@[" + t0.Format(time.RFC3339Nano) + "]"
		ra, a := parseKind("pred", ta)
		rb, b := parseKind("pred", tb)
		j := J{"kind": "sameinstant", "texta": hx(ta), "textb": hx(tb), "ok": ra["c"] == "ok" && rb["c"] == "ok"}
		if ra["c"] == "ok" && rb["c"] == "ok" {
			j["ua"], j["ub"] = safeUUID(a), safeUUID(b)
			j["uc"] = safeUUID(tmpOf("foo", t0)) // and the predicate built by the constructor for that instant
		}
		emit(j)
	}
	for _, v := range intEdges {
		emitUUID("edge", litOf(literal.Int64, v))
	}
	for _, b := range floatEdges {
		emitUUID("edge", litOf(literal.Float64, math.Float64frombits(b)))
	}
	for i := 0; i < n; i++ {
		emitUUID("gen", genVal())
	}
	for i := 0; i < n/3; i++ {
		a := genVal()
		var b val
		switch rnd.Intn(3) {
		case 0:
			b = a
		case 1:
			// move the type/id boundary, change literal type, change zone
			switch {
			case a.n != nil:
				t, id := a.n.Type().String(), a.n.ID().String()
				nb, err := node.NewNodeFromStrings(t+id[:1], id[1:]+"")
				if err != nil {
					nb2, err2 := node.NewNodeFromStrings(t, id+"x")
					if err2 != nil {
						continue
					}
					nb = nb2
				}
				b = val{n: nb}
			case a.p != nil && a.p.Type() == predicate.Temporal:
				ta, _ := a.p.TimeAnchor()
				b = tmpOf(string(a.p.ID()), ta.In(time.FixedZone("", zones[rnd.Intn(len(zones))])))
			case a.l != nil && a.l.Type() == literal.Text:
				s, _ := a.l.Text()
				b = litOf(literal.Blob, []byte(s))
			case a.l != nil && a.l.Type() == literal.Bool:
				v, _ := a.l.Bool()
				b = litOf(literal.Text, strconv.FormatBool(v))
			default:
				b = genVal()
			}
		default:
			b = genVal()
		}
		if b.kind() != a.kind() {
			continue
		}
		emitPair("gen", a, b)
	}
	// stability: after every exported helper of storage/memory that touches UUID values has been used (and a graph has
	// been filled and queried), every UUID computed earlier in this process must still be the same
	func() {
		defer func() { recover() }()
		for _, e := range uuidLog[:min(len(uuidLog), 50)] {
			if e.u == "panic" {
				continue
			}
			u := e.v.uuid()
			s := memory.UUIDToByteString(u)
			enc := base64.StdEncoding.EncodeToString([]byte(s))
			if back, err := memory.Base64ToUUID(enc); err != nil || back.String() != u.String() {
				emit(J{"kind": "uuidhelper", "what": "Base64ToUUID(base64(UUIDToByteString(u))) is not u", "uuid": u.String()})
			}
			memory.Base64ToUUID("not base 64")
			memory.Base64ToUUID("AAAA")
		}
		g := newGraph()
		var ts []*triple.Triple
		for i := 0; i < 20; i++ {
			ts = append(ts, genSafeTriple())
		}
		g.AddTriples(context.Background(), ts)
		g.Exist(context.Background(), ts[0])
		graphLines(g)
		g.RemoveTriples(context.Background(), ts[:5])
		// ~100 KiB of blob literals are PARSED (through the literal parser, ParseObject and triple.Parse)
		for i := 100; i < 150; i++ {
			parseKind("lit", blobText(i, 2048))
			if i%10 == 0 {
				parseKind("obj", blobText(i, 1024))
				parseKind("triple", "/a<b>\t\"p\"@[]\t"+blobText(i, 512))
			}
		}
		for _, y := range []int{1, 1500, 1822, 1823, 2116, 2117, 2200, 9999} {
			tmpOf("far", time.Date(y, 1, 1, 0, 0, 0, 1, time.UTC)).uuid()
			tmpOf("far", time.Date(y, 12, 31, 23, 59, 59, 999999999, time.UTC)).uuid()
		}
	}()
	changed := 0
	var ex []J
	for _, e := range uuidLog {
		if u := safeUUID(e.v); u != e.u {
			changed++
			if len(ex) < 3 {
				ex = append(ex, J{"vk": e.v.kind(), "v": e.v.obs(), "before": e.u, "after": u})
			}
		}
	}
	// the early parsed blobs must also still print what they printed
	for i, v := range parsedBlobs {
		if v.str() != parsedBlobText[i] {
			changed++
			if len(ex) < 3 {
				ex = append(ex, J{"vk": "lit", "what": "String() of a parsed blob literal changed after other blobs were parsed", "index": i})
			}
		}
	}
	emit(J{"kind": "uuidstable", "values": len(uuidLog), "changed": changed, "examples": ex})
}

func mustNode(t, id string) *node.Node {
	n, err := node.NewNodeFromStrings(t, id)
	if err != nil {
		panic(err)
	}
	return n
}

// uuidconc mode (runtime part of C06, "the same on every call, in every goroutine"): the UUIDs of a set of values are
// computed sequentially first and then re-computed from many goroutines at once; every concurrent answer must equal the
// sequential one.  Large text / blob literals of distinct content make a buffer shared between calls visible.
var thoroughRun = false
var lightRun = false // smaller literals, fewer goroutines and repetitions: for the race-detector build

func modeUUIDConc(n int) {
	var vals []val
	big := func(i, size int) string {
		b := make([]byte, size)
		x := uint32(i*2654435761 + 12345)
		for k := range b {
			x = x*1664525 + 1013904223
			b[k] = 'a' + byte(x>>24)%26
		}
		return string(b)
	}
	s1, _ := node.NewNodeFromStrings("/s", "1")
	p1, _ := predicate.NewImmutable("p")
	for i := 0; i < 24; i++ {
		size := []int{1 << 20, 1 << 18, 1 << 16, 4096}[i%4]
		if lightRun {
			size = []int{1 << 15, 1 << 13, 4096, 512}[i%4]
		}
		var l val
		if i%3 == 2 {
			l = litOf(literal.Blob, []byte(big(i, size)))
		} else {
			l = litOf(literal.Text, big(i, size))
		}
		o := objOf(l)
		tr, _ := triple.New(s1, p1, o.o)
		vals = append(vals, l, o, val{t: tr})
		vals = append(vals, nodeOf("/t"+big(i, 64), big(i+100, size/16)))
		vals = append(vals, immOf(big(i+200, size/16)), tmpOf(big(i+300, 32), time.Unix(int64(i)*1000003, int64(i)).UTC()))
	}
	for i := 0; i < n; i++ {
		vals = append(vals, genVal())
	}
	seq := make([]string, len(vals))
	for i, v := range vals {
		seq[i] = v.uuid().String()
	}
	procs := runtime.GOMAXPROCS(0)
	if procs < 4 {
		runtime.GOMAXPROCS(4)
	}
	G := 64
	reps := 6
	if lightRun {
		G, reps = 16, 1
	}
	var wrong, calls int64
	var mu sync.Mutex
	var examples []J
	var wg sync.WaitGroup
	for g := 0; g < G; g++ {
		wg.Add(1)
		go func(g int) {
			defer wg.Done()
			r := rand.New(rand.NewSource(int64(g) + 7))
			for rep := 0; rep < reps; rep++ {
				for k := 0; k < len(vals); k++ {
					i := (k*7 + g*13 + r.Intn(3)) % len(vals)
					u := func() (s string) {
						defer func() {
							if e := recover(); e != nil {
								s = "panic"
							}
						}()
						return vals[i].uuid().String()
					}()
					atomic.AddInt64(&calls, 1)
					if u != seq[i] {
						atomic.AddInt64(&wrong, 1)
						mu.Lock()
						if len(examples) < 5 {
							examples = append(examples, J{"vk": vals[i].kind(), "printed_len": len(vals[i].str()), "sequential": seq[i], "concurrent": u})
						}
						mu.Unlock()
					}
				}
			}
		}(g)
	}
	wg.Wait()
	// fresh values: G2 goroutines are released together on a value whose UUID() was never called before; all of them must
	// report the UUID a later sequential call reports (a pure comparison, no timing verdict)
	G2, fresh := 16, 4000
	if lightRun {
		G2, fresh = 8, 300
	}
	freshWrong := 0
	var freshEx []J
	for i := 0; i < fresh; i++ {
		var v val
		switch i % 4 {
		case 0, 1:
			v = val{t: genTriple()}
		default:
			v = genVal()
		}
		res := make([]string, G2)
		start := make(chan struct{})
		var w2 sync.WaitGroup
		for g := 0; g < G2; g++ {
			w2.Add(1)
			go func(g int) {
				defer w2.Done()
				defer func() {
					if e := recover(); e != nil {
						res[g] = "panic"
					}
				}()
				<-start
				if v.t != nil && g%2 == 1 {
					if !v.t.Equal(v.t) {
						res[g] = "Equal(self) false"
						return
					}
				}
				res[g] = v.uuid().String()
			}(g)
		}
		close(start)
		w2.Wait()
		later := safeUUID(v)
		for _, r := range res {
			if r != later {
				freshWrong++
				if len(freshEx) < 5 {
					freshEx = append(freshEx, J{"vk": v.kind(), "first_concurrent_call": r, "later_sequential_call": later})
				}
				break
			}
		}
	}
	emit(J{"kind": "uuidconc", "values": len(vals), "goroutines": G, "calls": calls, "wrong": wrong, "examples": examples, "gomaxprocs": runtime.GOMAXPROCS(0),
		"fresh_values": fresh, "fresh_goroutines": G2, "fresh_wrong": freshWrong, "fresh_examples": freshEx})
}

// parseconc mode: the outcomes of all parsers on a set of inputs, computed sequentially, must be reproduced when 32
// goroutines parse the same inputs at once (parsers share no state)
func modeParseConc(n int) {
	var ins []string
	ins = append(ins, corpusParse...)
	for i := 0; i < n; i++ {
		s := genVal().str()
		switch rnd.Intn(3) {
		case 0:
			s = mutate(s)
		case 1:
			s = wrapBlanks(s)
		}
		ins = append(ins, s)
	}
	all := append(append([]string{}, kinds...), "blit")
	outcome := func(s string) string {
		o := J{}
		for _, k := range all {
			r, _ := parseKind(k, s)
			o[k] = r
		}
		b, _ := json.Marshal(o)
		return string(b)
	}
	seq := make([]string, len(ins))
	for i, s := range ins {
		seq[i] = outcome(s)
	}
	var wrong, calls int64
	var mu sync.Mutex
	var ex []string
	var wg sync.WaitGroup
	for g := 0; g < 32; g++ {
		wg.Add(1)
		go func(g int) {
			defer wg.Done()
			for k := 0; k < len(ins); k++ {
				i := (k*5 + g*17) % len(ins)
				atomic.AddInt64(&calls, 1)
				if outcome(ins[i]) != seq[i] {
					atomic.AddInt64(&wrong, 1)
					mu.Lock()
					if len(ex) < 5 {
						ex = append(ex, hx(ins[i]))
					}
					mu.Unlock()
				}
			}
		}(g)
	}
	wg.Wait()
	emit(J{"kind": "parseconc", "inputs": len(ins), "goroutines": 32, "calls": calls, "wrong": wrong, "examples": ex})
}

// time mode: Go's Time.Format(RFC3339Nano) on boundary and random instants in many zones, and time.Parse(RFC3339Nano, .)
// on those texts, on the variants Go tolerates or rejects, and on mutated texts - for the Gallina codec coq/Values/TimeCodec.v
func modeTime(n int) {
	seenP := map[string]bool{}
	emitP := func(s string) {
		if seenP[s] {
			return
		}
		seenP[s] = true
		j := J{"kind": "tparse", "in": hx(s), "res": nil}
		if t, err := time.Parse(time.RFC3339Nano, s); err == nil {
			j["res"] = obsTime(t)
		}
		emit(j)
	}
	variants := func(s string) {
		emitP(s)
		if i := strings.IndexByte(s, 'T'); i > 0 && len(s) > i+2 && s[i+1] == '0' {
			emitP(s[:i+1] + s[i+2:]) // one-digit hour
		}
		emitP(strings.Replace(s, ".", ",", 1))
		emitP(strings.Replace(s, "T", "t", 1))
		emitP(strings.Replace(s, "T", " ", 1))
		emitP(strings.Replace(s, "Z", "z", 1))
		emitP(strings.Replace(s, "Z", "+00:00", 1))
		emitP(strings.Replace(s, "Z", "-00:00", 1))
		emitP(strings.Replace(s, "Z", "", 1))
		emitP(s + " ")
		emitP(" " + s)
		emitP(s + "Z")
		if i := strings.IndexAny(s, "Z+"); i > 19 {
			emitP(s[:i] + "123" + s[i:])  // more fraction digits (or digits after the seconds)
			emitP(s[:i] + ".5" + s[i:])   // second separator
			emitP(s[:19] + ".000000000999" + s[i:])
			emitP(s[:19] + "." + s[i:])
			emitP(s[:19] + ".1234567891" + s[i:])
		}
		if len(s) >= 19 {
			emitP(s[:17] + "60" + s[19:])
			emitP(s[:11] + "24" + s[13:])
			emitP(s[:14] + "60" + s[16:])
			emitP(s[:5] + "13" + s[7:])
			emitP(s[:5] + "00" + s[7:])
			emitP(s[:8] + "00" + s[10:])
			emitP(s[:8] + "32" + s[10:])
			emitP(s[:8] + "31" + s[10:])
			emitP(s[:8] + "30" + s[10:])
			emitP(s[:8] + "29" + s[10:])
			emitP("1" + s)
			emitP(s[1:])
			emitP("-" + s[1:])
			emitP("+" + s[1:])
		}
		for k := 0; k < 3; k++ {
			b := []byte(s)
			if len(b) == 0 {
				break
			}
			i := rnd.Intn(len(b))
			switch rnd.Intn(3) {
			case 0:
				b = append(b[:i], b[i+1:]...)
			case 1:
				b[i] = "0123456789T:.,Z+- tz"[rnd.Intn(20)]
			default:
				b = append(b[:i+1], b[i:]...)
			}
			emitP(string(b))
		}
	}
	for _, z := range []string{"+24:00", "+24:60", "+25:00", "+00:61", "+00:60", "-24:00", "+0000", "+00", "+1:00", "+01:0", "+01-00", "*01:00", "+01:00:00", "+ab:cd"} {
		emitP("2006-01-02T15:04:05" + z)
		emitP("2006-01-02T15:04:05.5" + z)
	}
	for _, s := range []string{"", "Z", "2006", "2006-01-02", "2006-01-02T", "2006-01-02T15:04:05", "2006-01-02T15:04Z", "2006-1-02T15:04:05Z", "2006-01-2T15:04:05Z",
		"2006-01-02T15:4:05Z", "2006-01-02T15:04:5Z", "2006-01-02T1:04:05Z", "206-01-02T15:04:05Z", "02006-01-02T15:04:05Z", "2006/01/02T15:04:05Z",
		"2006-01-02T15.04.05Z", "2006-01-02T15:04:05.Z", "2006-01-02T15:04:05,Z", "2006-01-02T15:04:05.5.5Z", "2006-01-02T15:04:05.5,5Z", "2006-01-02T15:04:05;5Z",
		"2006-01-02T15:04:05.-5Z", "2006-01-02T15:04:05.+5Z", "2006-01-02T-5:04:05Z", "2006-01-02T+5:04:05Z", "2006-01-02T 5:04:05Z", "٢٠٠٦-01-02T15:04:05Z",
		"2006-01-02T15:04:05Z07:00", "2006-01-02T15:04:05+07:00Z", "0000-01-01T00:00:00Z", "0000-02-29T00:00:00Z", "0100-02-29T00:00:00Z", "0400-02-29T00:00:00Z",
		"1900-02-29T00:00:00Z", "2000-02-29T00:00:00Z", "2001-02-29T00:00:00Z", "2004-02-30T00:00:00Z", "2004-04-31T00:00:00Z", "2004-06-31T00:00:00Z",
		"2004-09-31T00:00:00Z", "2004-11-31T00:00:00Z", "2004-12-31T23:59:59.999999999+14:00", "9999-12-31T23:59:59.999999999-14:00", "0000-01-01T00:00:00+14:00"} {
		emitP(s)
	}
	emitF := func(t time.Time) {
		o := obsTime(t)
		text := t.Format(time.RFC3339Nano)
		y := t.Year()
		_, off := t.Zone()
		dom := y >= 0 && y <= 9999 && off%60 == 0 && off > -86400 && off < 86400
		emit(J{"kind": "tfmt", "t": o, "text": hx(text), "dom": dom})
		if dom {
			variants(text)
		}
	}
	zs := []int{0, 60, -60, 14 * 3600, -14 * 3600, 20700, -34200, 86340, -86340, 3600, -3600, 12*3600 + 45*60}
	ns := []int{0, 1, 10, 100, 1000, 10000, 100000, 1000000, 10000000, 100000000, 999999999, 123456789, 500000000, 120000000, 999999990, 100000001, 7000}
	var base []time.Time
	d := func(y, m, dd, h, mi, s int) { base = append(base, time.Date(y, time.Month(m), dd, h, mi, s, 0, time.UTC)) }
	for _, y := range []int{0, 1, 4, 100, 400, 1582, 1600, 1677, 1699, 1700, 1900, 1969, 1970, 1999, 2000, 2001, 2100, 2262, 2400, 9999} {
		d(y, 1, 1, 0, 0, 0)
		d(y, 2, 28, 23, 59, 59)
		d(y, 3, 1, 0, 0, 0)
		d(y, 12, 31, 23, 59, 59)
	}
	for _, y := range []int{1999, 2000, 2100} {
		for m := 1; m <= 12; m++ {
			d(y, m, 1, 0, 0, 0)
			d(y, m+1, 0, 12, 30, 30) // last day of month m
		}
	}
	d(1582, 10, 4, 0, 0, 0)
	d(1582, 10, 15, 0, 0, 0)
	d(1677, 9, 21, 0, 12, 43)
	d(2262, 4, 11, 23, 47, 16)
	d(2262, 4, 12, 0, 0, 0)
	d(2006, 1, 2, 3, 4, 5)
	d(2006, 1, 2, 9, 4, 5)
	for i, b := range base {
		for k := 0; k < 3; k++ {
			z := zs[(i+k*5)%len(zs)]
			nn := ns[(i*3+k*7)%len(ns)]
			t := b.Add(time.Duration(nn))
			if z == 0 {
				emitF(t)
			} else {
				emitF(t.In(time.FixedZone("", z)))
			}
		}
	}
	for i := 0; i < n; i++ {
		sec := -62167219200 + 90000 + rnd.Int63n(253402300800+62167219200-180000)
		var nn int64
		switch rnd.Intn(4) {
		case 0:
			nn = 0
		case 1:
			nn = rnd.Int63n(1000000000)
		default:
			k := rnd.Intn(9)
			p := int64(1)
			for j := 0; j < k; j++ {
				p *= 10
			}
			nn = rnd.Int63n(1000000000/p) * p
		}
		t := time.Unix(sec, nn)
		var z int
		if rnd.Intn(3) == 0 {
			z = zs[rnd.Intn(len(zs))]
		} else {
			z = (rnd.Intn(2879) - 1439) * 60
		}
		if z == 0 {
			emitF(t.UTC())
		} else {
			emitF(t.In(time.FixedZone("", z)))
		}
	}
	// outside the domain (reported, not compared): zone with seconds, years < 0 and > 9999
	emitF(time.Date(1900, 1, 1, 12, 0, 0, 0, time.FixedZone("LMT", 1172)))
	emitF(time.Date(-1, 12, 31, 23, 0, 0, 0, time.UTC))
	emitF(time.Date(10000, 1, 1, 0, 0, 0, 0, time.UTC))
}

// intsweep (part of the parse mode): a dense sweep of small integers and of all powers of two with their neighbours, in
// every spelling strconv.ParseInt accepts, through both literal builders (Build and Parse), triple.ParseObject, triple.Parse
// and one ReadIntoGraph: a value or an error, never (nil, nil), never a panic, and the value is the integer that was written
func intSweep() {
	var ints []int64
	for i := int64(-1100); i <= 1100; i++ {
		ints = append(ints, i)
	}
	for k := uint(0); k <= 63; k++ {
		p := int64(1) << k // wraps to MinInt64 for k = 63
		for _, d := range []int64{-1, 0, 1} {
			ints = append(ints, p+d, -(p + d), -p+d)
		}
	}
	ints = append(ints, math.MaxInt64, math.MinInt64, math.MaxInt64-1, math.MinInt64+1)
	calls, bad := 0, 0
	var ex []J
	report := func(what string, v int64, text string) {
		bad++
		if len(ex) < 10 {
			ex = append(ex, J{"what": what, "value": strconv.FormatInt(v, 10), "text": text})
		}
	}
	checkLit := func(what string, v int64, text string, f func() (*literal.Literal, error)) {
		calls++
		defer func() {
			if r := recover(); r != nil {
				report(what+": panic", v, text)
			}
		}()
		l, err := f()
		switch {
		case err != nil:
			report(what+": error for a well-formed int64", v, text)
		case l == nil:
			report(what+": (nil, nil)", v, text)
		default:
			if got, e := l.Int64(); e != nil || got != v || l.Type() != literal.Int64 {
				report(what+": wrong value", v, text)
			}
		}
	}
	s1, p1 := nodeOf("/s", "1"), immOf("p")
	var lines strings.Builder
	nlines := 0
	seen := map[int64]bool{}
	for _, v := range ints {
		if seen[v] {
			continue
		}
		seen[v] = true
		dec := strconv.FormatInt(v, 10)
		spell := []string{dec}
		if v >= 0 {
			spell = append(spell, "+"+dec, "0"+dec, "+00"+dec)
		} else {
			spell = append(spell, "-0"+dec[1:], "-000"+dec[1:])
		}
		for _, b := range []struct {
			name string
			b    literal.Builder
		}{{"default builder", literal.DefaultBuilder()}, {"bounded builder", literal.NewBoundedBuilder(64)}} {
			bb := b.b
			checkLit(b.name+" Build", v, dec, func() (*literal.Literal, error) { return bb.Build(literal.Int64, v) })
			for _, sp := range spell {
				text := "\"" + sp + "\"^^type:int64"
				checkLit(b.name+" Parse", v, text, func() (*literal.Literal, error) { return bb.Parse(text) })
				calls++
				func() {
					defer func() {
						if r := recover(); r != nil {
							report(b.name+" ParseObject: panic", v, text)
						}
					}()
					o, err := triple.ParseObject(text, bb)
					if err != nil || o == nil {
						report(b.name+" ParseObject: error or nil", v, text)
						return
					}
					if l, e := o.Literal(); e != nil || l == nil {
						report(b.name+" ParseObject: object boxes no literal", v, text)
					} else if got, e2 := l.Int64(); e2 != nil || got != v {
						report(b.name+" ParseObject: wrong value", v, text)
					}
				}()
				line := s1.str() + "\t" + p1.str() + "\t" + text
				calls++
				func() {
					defer func() {
						if r := recover(); r != nil {
							report(b.name+" triple.Parse: panic", v, line)
						}
					}()
					tr, err := triple.Parse(line, bb)
					if err != nil || tr == nil {
						report(b.name+" triple.Parse: error or nil", v, line)
						return
					}
					if l, e := tr.Object().Literal(); e != nil || l == nil {
						report(b.name+" triple.Parse: object boxes no literal", v, line)
					} else if got, e2 := l.Int64(); e2 != nil || got != v {
						report(b.name+" triple.Parse: wrong value", v, line)
					}
				}()
			}
		}
		lines.WriteString(s1.str() + "\t" + p1.str() + "\t\"" + spell[len(spell)-1] + "\"^^type:int64\n")
		nlines++
	}
	// all of them through the reader
	func() {
		calls++
		defer func() {
			if r := recover(); r != nil {
				report("ReadIntoGraph: panic", 0, "")
			}
		}()
		g := newGraph()
		cnt, err := bwio.ReadIntoGraph(context.Background(), g, strings.NewReader(lines.String()), literal.DefaultBuilder())
		ls, _ := graphLines(g)
		if err != nil || cnt != nlines || len(ls) != nlines {
			report(fmt.Sprintf("ReadIntoGraph: cnt %d, stored %d, error %v for %d well-formed lines", cnt, len(ls), err != nil, nlines), 0, "")
		}
	}()
	emit(J{"kind": "intsweep", "integers": len(seen), "calls": calls, "bad": bad, "examples": ex})
	// a sample also goes to the Coq model (all parsers)
	for _, v := range ints {
		if v%37 == 0 || v == 127 || v == -128 || v == 128 || v == -129 || (v > 1100 || v < -1100) && (v&(v-1) == 0 || v%5 == 0) {
			dec := strconv.FormatInt(v, 10)
			emitParse("intsweep", "\""+dec+"\"^^type:int64")
			if v >= 0 {
				emitParse("intsweep", "\"+0"+dec+"\"^^type:int64")
			}
		}
	}
}

// hash mode: one hex line per pre-image component list ("aa,bb,cc" = triple of three components); prints the UUID
func modeHash() {
	sc := bufio.NewScanner(os.Stdin)
	sc.Buffer(make([]byte, 1<<20), 1<<26)
	for sc.Scan() {
		line := strings.TrimSpace(sc.Text())
		if line == "" {
			fmt.Fprintln(out, "none")
			continue
		}
		if line == "-" {
			line = ""
		}
		parts := strings.Split(line, ",")
		var us [][]byte
		for _, p := range parts {
			b, err := hex.DecodeString(p)
			if err != nil {
				fmt.Fprintln(out, "bad")
				continue
			}
			us = append(us, uuid.NewSHA1(uuid.NIL, b))
		}
		if len(us) == 1 {
			fmt.Fprintln(out, uuid.UUID(us[0]).String())
		} else {
			var all []byte
			for _, u := range us {
				all = append(all, u...)
			}
			fmt.Fprintln(out, uuid.NewSHA1(uuid.NIL, all).String())
		}
	}
}

// stdin mode: replay of given inputs.  Lines: "parse <hex>", "read <hex>", "uuid <kind> <hex text>", "pair <kind> <hexA> <hexB>"
func modeStdin() {
	sc := bufio.NewScanner(os.Stdin)
	sc.Buffer(make([]byte, 1<<20), 1<<26)
	un := func(h string) string {
		b, err := hex.DecodeString(h)
		if err != nil {
			panic(err)
		}
		return string(b)
	}
	for sc.Scan() {
		f := strings.Fields(sc.Text())
		if len(f) < 2 {
			continue
		}
		switch f[0] {
		case "parse":
			seenParse = map[string]bool{}
			seenValueCase = map[string]bool{}
			emitParse("replay", un(f[1]))
		case "read":
			emit(readCase("replay", un(f[1]), newTables()))
		case "uuid":
			r, v := parseKind(f[1], un(f[2]))
			if r["c"] != "ok" {
				emit(J{"kind": "uuid", "src": "replay", "unparsable": true})
				continue
			}
			emitUUID("replay", v)
		case "pair":
			ra, a := parseKind(f[1], un(f[2]))
			rb, b := parseKind(f[1], un(f[3]))
			if ra["c"] != "ok" || rb["c"] != "ok" {
				emit(J{"kind": "pair", "src": "replay", "unparsable": true})
				continue
			}
			emitPair("replay", a, b)
		}
	}
}

func main() {
	mode := flag.String("mode", "parse", "parse|values|graph|reader|long|uuid|hash")
	seed := flag.Int64("seed", 1, "PRNG seed")
	n := flag.Int("n", 100, "number of random cases")
	alpha := flag.String("alpha", "/<>_\"@[]^", "alphabet of the exhaustive enumeration")
	maxlen := flag.Int("maxlen", 3, "maximal length of the exhaustive enumeration")
	tier := flag.String("tier", "quick", "tier")
	flag.BoolVar(&lightRun, "light", false, "uuidconc: light workload (race detector)")
	flag.Parse()
	thoroughRun = *tier == "thorough"
	rnd = rand.New(rand.NewSource(*seed))
	defer out.Flush()
	defer func() {
		for _, j := range ctorIssues {
			emit(j)
		}
	}()
	switch *mode {
	case "parse":
		modeParse(*tier, *n, *alpha, *maxlen)
	case "values":
		modeValues(*n)
	case "graph":
		modeGraph(*n)
	case "reader":
		modeReader(*n)
	case "long":
		modeLong()
	case "uuid":
		modeUUID(*n)
	case "hash":
		modeHash()
	case "stdin":
		modeStdin()
	case "uuidconc":
		modeUUIDConc(*n)
	case "parseconc":
		modeParseConc(*n)
	case "time":
		modeTime(*n)
	}
}
