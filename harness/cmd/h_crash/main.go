// h_crash: C08 — offers texts to the whole engine (lex, parse with semantic hooks, plan, execute) against an empty
// and a populated store and records the outcome class: table | error | panic | killed | hang | leak.
// Panics in goroutines the engine starts kill the process, so cases run in child processes (-child) that print one
// result per line; the parent restarts the child after the case that killed it.
package main

import (
	"bufio"
	"context"
	"encoding/json"
	"flag"
	"fmt"
	"math/rand"
	"os"
	"os/exec"
	"runtime"
	"strings"
	"sync"
	"sync/atomic"
	"time"

	"github.com/google/badwolf/bql/grammar"
	"github.com/google/badwolf/bql/lexer"
	"github.com/google/badwolf/bql/planner"
	"github.com/google/badwolf/bql/semantic"
	"github.com/google/badwolf/storage"
	"github.com/google/badwolf/storage/memory"
	"github.com/google/badwolf/triple"
	"github.com/google/badwolf/triple/literal"
	"verif/harness/internal/gram"
)

type result struct {
	Idx     int    `json:"idx"`
	Kind    string `json:"kind"`
	Store   string `json:"store"`
	Text    string `json:"text"`
	Outcome string `json:"outcome"` // table | parse_error | plan_error | exec_error | panic | killed | hang | leak
	Detail  string `json:"detail,omitempty"`
	Rows    int    `json:"rows"`
	Lexed   []int  `json:"lexed"`
	Cfg     [2]int `json:"cfg"` // chanSize, bulkSize
}

type tcase struct {
	Kind, Text string
	From       []string   // extras: graph names ...
	Graphs     [][]string // ... and their triples (one text line each)
	Cfg        int        // index into planCfgs: the (chanSize, bulkSize) planner.New gets
}

// planner.New(ctx, store, stm, chanSize, bulkSize, tracer): every value the constructor accepts is part of "every input";
// the repo's tests only ever use chanSize 0 and bulkSize 10, the tools default to bulk size 1000.
var planCfgs = [][2]int{{0, 10}, {0, 0}, {1, 1}, {3, 1000}}

type runSpec struct {
	c     tcase
	store string // empty | populated | own
}

var populatedTriples = []string{
	`/u<a>	"p"@[]	/u<b>`,
	`/u<a>	"p"@[]	"1"^^type:int64`,
	`/u<b>	"p"@[]	"2"^^type:int64`,
	`/u<a>	"q"@[]	"x"^^type:text`,
	`/u<a>	"t"@[2016-01-01T00:00:00-08:00]	/u<b>`,
	`/u<b>	"t"@[2016-06-01T00:00:00-08:00]	/u<a>`,
	`/u<a>	"f"@[]	"1.5"^^type:float64`,
	`/u<a>	"b"@[]	"true"^^type:bool`,
	`/u<joe>	"parent_of"@[]	/u<mary>`,
	`/u<mary>	"parent_of"@[]	/u<peter>`,
	`/u<joe>	"bought"@[2016-01-01T00:00:00-08:00]	/c<mini>`,
	`/u<joe>	"age"@[]	"31"^^type:int64`,
	// one binding, many literal types (the aggregation picks its accumulator from the first solution only)
	`/u<m>	"score"@[]	"1"^^type:int64`,
	`/u<m>	"score"@[]	"2.5"^^type:float64`,
	`/u<m>	"score"@[]	"x"^^type:text`,
	`/u<m>	"score"@[]	"true"^^type:bool`,
	`/u<m>	"score"@[]	"[1 2]"^^type:blob`,
	`/u<m>	"score"@[]	/u<b>`,
	`/u<m>	"score"@[]	"p"@[]`,
	`/u<f>	"score"@[]	"0.5"^^type:float64`,
	`/u<f>	"score"@[]	"7"^^type:int64`,
	`/u<i>	"score"@[]	"9223372036854775807"^^type:int64`,
	`/u<i>	"score"@[]	"1"^^type:int64`,
}

func newStore(kind string, c *tcase) storage.Store {
	s := memory.NewStore()
	if kind == "empty" {
		return s
	}
	ctx := context.Background()
	if kind == "own" {
		for i, g := range c.From {
			gr, err := s.NewGraph(ctx, g)
			if err != nil {
				continue
			}
			var ts []*triple.Triple
			if i < len(c.Graphs) {
				for _, l := range c.Graphs[i] {
					if t, err := triple.Parse(l, literal.DefaultBuilder()); err == nil {
						ts = append(ts, t)
					}
				}
			}
			gr.AddTriples(ctx, ts)
		}
		return s
	}
	var ts []*triple.Triple
	for _, l := range populatedTriples {
		t, err := triple.Parse(l, literal.DefaultBuilder())
		if err == nil {
			ts = append(ts, t)
		}
	}
	for _, g := range []string{"?x", "?a", "?b", "?g"} {
		gr, err := s.NewGraph(ctx, g)
		if err == nil && g != "?b" {
			gr.AddTriples(ctx, ts)
		}
	}
	// a wide graph: many rows per clause (more than GOMAXPROCS), literal / predicate valued objects, fan-out 3
	if w, err := s.NewGraph(ctx, "?w"); err == nil {
		var wide []*triple.Triple
		for i := 0; i < 48; i++ {
			for _, l := range []string{
				fmt.Sprintf("/u<n%d>\t\"name\"@[]\t\"name %d\"^^type:text", i, i),
				fmt.Sprintf("/u<n%d>\t\"score\"@[]\t\"%d\"^^type:int64", i, i%7),
				fmt.Sprintf("/u<n%d>\t\"next\"@[]\t/u<n%d>", i, (i+1)%48),
				fmt.Sprintf("/u<n%d>\t\"likes\"@[]\t/t<a%d>", i, i%3),
				fmt.Sprintf("/u<n%d>\t\"likes\"@[]\t/t<b%d>", i, i%5),
				fmt.Sprintf("/u<n%d>\t\"likes\"@[]\t/t<c%d>", i, i%2),
				fmt.Sprintf("/u<n%d>\t\"seen\"@[2016-01-%02dT00:00:00Z]\t/u<n%d>", i, 1+i%28, (i+7)%48),
			} {
				if t, err := triple.Parse(l, literal.DefaultBuilder()); err == nil {
					wide = append(wide, t)
				}
			}
		}
		w.AddTriples(ctx, wide)
	}
	return s
}

// runOne executes one text; panics of the calling goroutine are recovered, hangs are detected by a watchdog.
// patient: the confirmation run of a case that looked hung (a loaded machine must not turn into an alarm): 60 s watchdog.
var patient bool

func runOne(storeKind string, c *tcase) (outcome, detail string, rows int) {
	watchdog, unwind := 5*time.Second, 300*time.Millisecond
	if patient {
		watchdog = 60 * time.Second
	}
	text := c.Text
	before := runtime.NumGoroutine()
	type out struct {
		o, d string
		n    int
	}
	ch := make(chan out, 1)
	go func() {
		defer func() {
			if r := recover(); r != nil {
				buf := make([]byte, 2048)
				buf = buf[:runtime.Stack(buf, false)]
				ch <- out{"panic", fmt.Sprintf("%v @ %s", r, firstFrames(string(buf))), 0}
			}
		}()
		ctx := context.Background()
		st := newStore(storeKind, c)
		p, err := grammar.NewParser(grammar.SemanticBQL())
		if err != nil {
			ch <- out{"plan_error", "NewParser", 0}
			return
		}
		stm := &semantic.Statement{}
		if err := p.Parse(grammar.NewLLk(text, 1), stm); err != nil {
			ch <- out{"parse_error", "", 0}
			return
		}
		pln, err := planner.New(ctx, st, stm, planCfgs[c.Cfg%len(planCfgs)][0], planCfgs[c.Cfg%len(planCfgs)][1], nil)
		if err != nil {
			ch <- out{"plan_error", "", 0}
			return
		}
		tbl, err := pln.Execute(ctx)
		if err != nil {
			ch <- out{"exec_error", "", 0}
			return
		}
		if tbl == nil {
			ch <- out{"nil_table_nil_error", "", 0}
			return
		}
		ch <- out{"table", "", tbl.NumRows()}
	}()
	select {
	case r := <-ch:
		// goroutines started on behalf of the call must be gone.  They get 300 ms to unwind; after that, goroutines that
		// remain are a leak as soon as none of them is running or runnable (nothing is unwinding any more: they wait for a
		// channel, a lock or a timer), and in any case after 10 s.  (A fixed 300 ms alone turns a loaded machine into alarms.)
		start := time.Now()
		lastDump := time.Time{}
		for runtime.NumGoroutine() > before {
			el := time.Since(start)
			if el > unwind && time.Since(lastDump) > 50*time.Millisecond {
				lastDump = time.Now()
				buf := make([]byte, 1<<18)
				buf = buf[:runtime.Stack(buf, true)]
				extras, active := engineGoroutines(string(buf))
				if n := runtime.NumGoroutine(); n > before && r.o != "panic" && (extras == 0 || active == 0 || el > 10*time.Second) {
					return "leak", fmt.Sprintf("%d goroutines left after %s; %s", n-before, r.o, leakSite(string(buf))), r.n
				}
				if r.o == "panic" && el > unwind {
					break
				}
			}
			time.Sleep(2 * time.Millisecond)
		}
		return r.o, r.d, r.n
	case <-time.After(watchdog):
		return "hang", fmt.Sprintf("no result after %v", watchdog), 0
	}
}

func firstFrames(stack string) string {
	var fr []string
	for _, l := range strings.Split(stack, "\n") {
		if strings.Contains(l, "badwolf/") && strings.HasPrefix(l, "github.com") {
			fr = append(fr, strings.SplitN(strings.TrimPrefix(l, "github.com/google/badwolf/"), "(", 2)[0])
			if len(fr) == 3 {
				break
			}
		}
	}
	return strings.Join(fr, " < ")
}

// engineGoroutines counts, in a dump of all goroutines, those with badwolf frames that are not the harness's own, and how
// many of them are running or runnable.
func engineGoroutines(stack string) (extras, active int) {
	for _, blk := range strings.Split(stack, "\n\n") {
		if strings.Contains(blk, "badwolf/") && !strings.Contains(blk, "h_crash") && !strings.Contains(blk, "tracer.init") {
			extras++
			head := strings.SplitN(blk, "\n", 2)[0]
			if strings.Contains(head, "[running") || strings.Contains(head, "[runnable") {
				active++
			}
		}
	}
	return
}

func leakSite(stack string) string {
	for _, blk := range strings.Split(stack, "\n\n") {
		if strings.Contains(blk, "badwolf/") && !strings.Contains(blk, "h_crash") && !strings.Contains(blk, "tracer.init") {
			for _, l := range strings.Split(blk, "\n") {
				if strings.HasPrefix(l, "github.com/google/badwolf/") {
					return strings.SplitN(strings.TrimPrefix(l, "github.com/google/badwolf/"), "(", 2)[0]
				}
			}
		}
	}
	return "?"
}

// lexSafe lexes with a deadline: a lexer that never closes its channel must not hang the harness itself.
func lexSafe(text string) ([]lexer.Token, bool) {
	done := make(chan []lexer.Token, 1)
	go func() {
		var out []lexer.Token
		for t := range lexer.New(text, 0) {
			out = append(out, t)
			if len(out) > 100000 {
				break
			}
		}
		done <- out
	}()
	select {
	case o := <-done:
		return o, true
	case <-time.After(3 * time.Second):
		return nil, false
	}
}

func lexKindsSafe(text string) []int {
	ts, ok := lexSafe(text)
	if !ok {
		return nil
	}
	var out []int
	for _, t := range ts {
		out = append(out, int(t.Type))
	}
	return out
}

// ---------------------------------------------------------------- case generation
var corpus = []string{
	`create graph ?n;`, `drop graph ?a;`, `drop graph ?missing;`, `show graphs;`,
	`insert data into ?a {/u<joe> "parent_of"@[] /u<mary>};`,
	`insert data into ?missing {/u<joe> "parent_of"@[] /u<mary>};`,
	`delete data from ?a {/u<joe> "parent_of"@[] /u<mary> . /u<p> "n"@[] "x"^^type:text};`,
	`select ?s from ?a where {?s "parent_of"@[] ?o};`,
	`select ?s, ?o as ?x from ?a, ?b where {?s "parent_of"@[] ?o . ?o "parent_of"@[] ?z};`,
	`select ?s, ?p, ?o from ?a where {?s ?p ?o} before 2016-03-01T00:00:00-08:00;`,
	`select ?s, ?p, ?o from ?a where {?s ?p ?o} between 2016-02-01T00:00:00-08:00, 2016-03-01T00:00:00-08:00;`,
	`select ?s, count(?o) as ?n from ?a where {?s "p"@[] ?o} group by ?s order by ?n desc, ?s asc having ?n > "1"^^type:int64 limit "3"^^type:int64;`,
	`select ?s, sum(?o) as ?t, count(distinct ?o) as ?d from ?a where {?s "p"@[] ?o} group by ?s;`,
	`select sum(?o) as ?t from ?a where {/u<nobody> "p"@[] ?o};`,
	`select sum(?o) as ?t from ?b where {?s "p"@[] ?o};`,
	`select ?s as ?k, count(?o) as ?n from ?a where {?s "p"@[] ?o} group by ?k;`,
	`select ?s from ?a where {?s "p"@[] ?o} limit "-1"^^type:int64;`,
	`select ?s from ?a where {?s "p"@[] ?o} limit "1.5"^^type:float64;`,
	`select ?o from ?a where {/u<joe> as ?j id ?i type ?t "bought"@[?when] as ?pa id ?pi at ?w ?o as ?oa type ?ot id ?oi};`,
	`select ?o from ?a where {/u<joe> "bought"@[2016-01-01T00:00:00-08:00,2017-01-01T00:00:00-08:00] ?o};`,
	`select ?o from ?a where {/u<joe> "bought"@[?lo,?hi] as ?p ?o at ?x};`,
	`select ?o from ?a where {?s "parent_of"@[] ?m . ?m "bought"@[?lo,?hi] ?o};`,
	`select ?s from ?a where {?s "p"@[] ?o . optional {?o "q"@[] ?z}};`,
	`select ?s from ?a where {?s "p"@[] ?o . optional {/u<zz> "q"@[] ?z}};`,
	`select ?s from ?a where {?s ?p ?o . filter latest(?p)};`,
	`select ?s from ?a where {?s ?p ?o . filter isTemporal(?p) . filter isImmutable(?o)};`,
	`select ?s from ?a where {?s "p"@[] ?o} having (?s = /u<a>) or not (?o < "3"^^type:int64) and ?s = ?o;`,
	`select ?s from ?a where {?s "t"@[?t] ?o} having ?t > 2016-01-01T00:00:00-08:00;`,
	`select ?s from ?a where {?s "p"@[] ""^^type:blob};`,
	`select ?s from ?a where {?s "p"@[] "1"^^type:İnt64};`,
	`select ?s from ?a where {?s "p"@[] "[1 2]"^^type:blob};`,
	`insert data into ?a {/u<joe> "p"@[] "1"^^type:İnt64};`,
	`insert data into ?a {/u<joe> "p"@[] ""^^type:blob};`,
	`construct {?s "knows"@[] ?o} into ?b from ?a where {?s "parent_of"@[] ?o};`,
	`construct {?s "knows"@[?t] ?o ; "since"@[] ?t . _:v "x"@[] ?s} into ?b, ?g from ?a where {?s "bought"@[?t] ?o} having ?s = /u<joe>;`,
	`construct {?s "knows"@[] ?o} into ?missing from ?a where {?s "parent_of"@[] ?o};`,
	`deconstruct {?s "parent_of"@[] ?o} in ?a from ?a where {?s "parent_of"@[] ?o};`,
	`select ?s from ?a where {?s "p"@[] ?o} order by ?zz;`,
	`select ?s from ?a where {?s "p"@[] ?o} group by ?s;`,
	`select ?x from ?a where {?s "p"@[] ?o};`,
	// wide intermediate tables, joins through literal / predicate valued bindings
	`select ?x from ?w where {?s "name"@[] ?o . ?o ?q ?x};`,
	`select ?s, ?z from ?w where {?s "next"@[] ?y . ?y "likes"@[] ?z};`,
	`select ?s, ?z from ?w where {?s "likes"@[] ?y . ?s "likes"@[] ?z . ?s "next"@[] ?n};`,
	`select ?s from ?w where {?s "score"@[] ?o . ?x ?o ?y};`,
	`select ?s, ?t from ?w where {?s "seen"@[?t] ?o . optional {?o "seen"@[?t] ?z}};`,
	`select ?s from ?w where {?s "next"@[] ?o . optional {/u<nobody> "seen"@[?t] ?k} . ?o "seen"@[?t] ?z};`,
	`select ?s, count(?z) as ?n from ?w where {?s "likes"@[] ?z} group by ?s order by ?n desc limit "5"^^type:int64;`,
	// HAVING / LIMIT constants that lex and pass the grammar but do not parse for their type
	`select ?s from ?w where {?s "score"@[] ?o} having ?o > "tall"^^type:int64;`,
	`select ?s from ?w where {?s "score"@[] ?o} having ?o = "1.5"^^type:int64;`,
	`select ?s from ?w where {?s "name"@[] ?o} having ?o < "maybe"^^type:bool;`,
	`select ?s from ?w where {?s "score"@[] ?o} having not (?o > "abc"^^type:float64) or ?o = "[300]"^^type:blob;`,
	`select ?s from ?w where {?s "seen"@[?t] ?o} having ?t < 2016-13-45T00:00:00Z;`,
	`select ?s from ?w where {?s "score"@[] ?o} limit "many"^^type:int64;`,
	// nested / repeated boolean operators, texts with escapes and comment-like characters
	`select ?s, ?o from ?w where {?s "next"@[] ?o} having not not ?s = ?o;`,
	`select ?s, ?o from ?w where {?s "next"@[] ?o} having not (not (not ?s = ?o));`,
	`select ?s from ?w where {?s "score"@[] ?o} having (not not ?o < "3"^^type:int64) or ((?s = ?s) and not (?o = ?o));`,
	`insert data into ?a {/u<alice> "tag"@[] "#bql"^^type:text . /room<12#b> "see#also"@[] "C# \\ \"x\""^^type:text};`,
	`select ?s from ?a where {?s "knows\\`,
	`select ?s from ?a where {?s "p"@[] "abc\\`,
	`"\\`,
}

// texts with a syntax error followed, a few tokens later, by a lexical error: the lexer goroutine is still running (or
// blocked on a full channel) when the parser gives up; repeated many times because a leak there depends on timing
var raceCorpus = []string{
	`?a ?b ?c ?d nonsense;`, `select ?a ?b ?c ?d ?e nonsense;`, `create ?a ?b ?c ?d "unterminated`, `drop graph ?a ?b ?c ?d ?e ?f /u<unterminated`,
	`select ?s from from ?a ?b ?c ?d "x"^^type:nosuch ;`, `insert ?a ?b ?c ?d ?e _:`, `show ?a ?b ?c ?d #`,
}

// templates: products of statement shapes whose execution path depends on the KIND of value a template position gets
// (node / blank node / literal / predicate / time anchor, constant or bound), with and without the `;` reification, and of
// the SELECT modifiers with boundary limits.  Over graph ?a of the populated store the WHERE binds ?s (node), ?l (int64
// literal), ?t (time anchor), ?o (node), ?pp (predicate) and ?x (node, literal and predicate valued).
func templates() []string {
	const where = `{?s "age"@[] ?l . ?s "bought"@[?t] ?o . ?s ?pp ?x}`
	subjects := []string{`?s`, `/u<k>`, `_:v`, `?o`}
	preds := []string{`"k"@[]`, `"k"@[?t]`, `?pp`, `"k"@[2016-01-01T00:00:00Z]`}
	objs := []string{`?o`, `?l`, `?pp`, `?x`, `?t`, `"cm"^^type:text`, `"7"^^type:int64`, `/u<z>`, `_:b`, `"k"@[]`, `"k"@[?t]`, `"k"@[2016-01-01T00:00:00Z]`}
	var out []string
	k := 0
	for _, p1 := range preds {
		for _, o1 := range objs {
			sub := subjects[k%len(subjects)]
			k++
			out = append(out, fmt.Sprintf(`construct {%s %s %s} into ?b from ?a where %s;`, sub, p1, o1, where))
			if sub != `_:v` && o1 != `_:b` {
				out = append(out, fmt.Sprintf(`deconstruct {%s %s %s} in ?a from ?a where %s;`, sub, p1, o1, where))
			}
		}
	}
	for i, o1 := range objs {
		for j, p2 := range preds {
			for l, o2 := range objs {
				sub := subjects[(i+j+l)%len(subjects)]
				p1 := preds[(i+l)%len(preds)]
				out = append(out, fmt.Sprintf(`construct {%s %s %s ; %s %s} into ?b from ?a where %s;`, sub, p1, o1, p2, o2, where))
			}
		}
		// three pairs, and a second triple after the reified one
		out = append(out, fmt.Sprintf(`construct {?s "k"@[] %s ; "u"@[] "cm"^^type:text ; ?pp ?x . _:v "of"@[?t] %s} into ?b, ?g from ?a where %s;`, o1, o1, where))
	}
	for _, lim := range []string{`"0"^^type:int64`, `"1"^^type:int64`, `"2"^^type:int64`, `"1000000"^^type:int64`, `"9223372036854775807"^^type:int64`} {
		for _, ord := range []string{``, ` order by ?s asc`, ` order by ?n desc, ?s`} {
			for _, hav := range []string{``, ` having ?s = /u<joe>`} {
				out = append(out, fmt.Sprintf(`select ?s, ?x as ?n from ?a where {?s ?pp ?x}%s%s limit %s;`, ord, hav, lim))
				out = append(out, fmt.Sprintf(`select ?s, count(?x) as ?n from ?a where {?s ?pp ?x} group by ?s%s%s limit %s;`, ord, hav, lim))
				out = append(out, fmt.Sprintf(`select ?s, ?x as ?n from ?a where {/u<nobody> "none"@[] ?s . ?s ?pp ?x}%s%s limit %s;`, ord, hav, lim))
			}
		}
	}
	// aggregates over a binding whose values have several kinds and literal types, and over int64 values at the boundary
	for _, agg := range []string{`sum(?o)`, `count(?o)`, `count(distinct ?o)`, `sum(?o) as ?u, count(?o)`} {
		for _, shape := range []string{
			`select ?s, %s as ?t from ?a where {?s "score"@[] ?o} group by ?s;`,
			`select %s as ?t from ?a where {?s "score"@[] ?o};`,
			`select ?s, %s as ?t from ?a where {?s "score"@[] ?o} group by ?s order by ?t desc limit "2"^^type:int64;`,
			`select ?s, %s as ?t from ?a where {?s "score"@[] ?o} group by ?s having ?t > "1"^^type:int64;`,
			`select ?s, %s as ?t from ?a where {?s ?p ?o} group by ?s;`,
			`select ?p, %s as ?t from ?a where {?s ?p ?o . optional {?o "score"@[] ?z}} group by ?p;`,
		} {
			out = append(out, fmt.Sprintf(shape, agg))
		}
	}
	// every driver lookup shape (subject / predicate / object each given or free) with boundary limits, with and without the
	// modifiers that stop the limit from being pushed down to the driver, over the wide graph (fan-out well above the limits
	// and above every channel size in planCfgs)
	for _, sub := range []string{`?s`, `/u<n1>`} {
		for _, prd := range []string{`?p`, `"likes"@[]`, `"seen"@[?t]`} {
			for _, obj := range []string{`?o`, `/t<a1>`, `/u<n8>`} {
				proj := `?s`
				if sub != `?s` {
					proj = `?p`
					if prd != `?p` {
						proj = `?o`
						if obj != `?o` {
							proj = ``
						}
					}
				}
				if proj == `` || (proj == `?o` && obj != `?o`) || (proj == `?p` && prd != `?p`) {
					continue
				}
				for _, lim := range []string{`"0"^^type:int64`, `"1"^^type:int64`, `"2"^^type:int64`, `"1000000"^^type:int64`} {
					for _, mod := range []string{``, ` order by ` + proj, ` having ` + proj + ` = ` + proj} {
						out = append(out, fmt.Sprintf(`select %s from ?w where {%s %s %s}%s limit %s;`, proj, sub, prd, obj, mod, lim))
					}
				}
			}
		}
	}
	// tokens whose TEXT contains the delimiters the hooks split on ("@[ , ] "^^type: < > quotes), in every position where a
	// predicate, a predicate bound, a literal or a node can stand: the lexer finds token ends by searching for these
	// delimiters, the hooks then take the token text apart again with their own rules
	pieces := []string{`"`, `"@[`, `]`, `,`, `"^^type:`, `<`, `>`, `a`, `x,`, `@[`, `^^`, `2016-01-01T00:00:00Z`, `?t`, ` `, `\\`, `\"`}
	var adv []string
	for i := range pieces {
		for j := range pieces {
			adv = append(adv, `"a`+pieces[i]+pieces[j]+`"@[]`, `"a"@[`+pieces[i]+pieces[j]+`]`, `"a"@[`+pieces[i]+`,`+pieces[j]+`]`,
				`"a`+pieces[i]+pieces[j]+`"^^type:text`, `/u<a`+pieces[i]+pieces[j]+`>`)
		}
	}
	for i, a := range adv {
		switch i % 6 {
		case 0:
			out = append(out, `select ?s from ?a where {?s `+a+` ?o};`)
		case 1:
			out = append(out, `select ?s from ?a where {?s ?p `+a+`};`)
		case 2:
			out = append(out, `select ?o from ?a where {`+a+` ?p ?o};`)
		case 3:
			out = append(out, `insert data into ?a {/u<k> `+a+` /u<z>};`)
		case 4:
			out = append(out, `construct {?s `+a+` ?o} into ?b from ?a where {?s ?p ?o . ?s ?q `+a+`};`)
		case 5:
			out = append(out, `select ?s from ?a where {?s ?p ?o} having ?o = `+a+`;`)
		}
	}
	return out
}

func gen(seed int64, n, exhaust int) []tcase {
	rng := rand.New(rand.NewSource(seed))
	g := gram.FromBQL(grammar.BQL())
	ws := gram.Witnesses(g, gram.Lexable)
	var cases []tcase
	for _, c := range corpus {
		cases = append(cases, tcase{Kind: "corpus", Text: c})
	}
	for _, c := range templates() {
		cases = append(cases, tcase{Kind: "template", Text: c})
	}
	reps := 40
	if n > 5000 {
		reps = 400
	}
	for r := 0; r < reps; r++ {
		for _, c := range raceCorpus {
			cases = append(cases, tcase{Kind: "race-repeat", Text: c})
		}
	}
	var sents []string
	for _, w := range ws {
		sents = append(sents, gram.Render(w))
	}
	// deterministic order
	for i := range sents {
		for j := i + 1; j < len(sents); j++ {
			if sents[j] < sents[i] {
				sents[i], sents[j] = sents[j], sents[i]
			}
		}
	}
	for _, s := range sents {
		cases = append(cases, tcase{Kind: "witness", Text: s})
	}
	// random derivations of the grammar (deeper and longer than the minimal witnesses), with variant lexemes
	for i := 0; i < n/2+40; i++ {
		toks := g.RandomSentence(rng.Intn, 3+rng.Intn(6))
		cases = append(cases, tcase{Kind: "derivation", Text: gram.RenderVariant(toks, rng.Intn(7))})
	}
	// every byte prefix of every corpus statement (a truncated statement must be an error, never a crash)
	for _, c := range corpus {
		step := 1
		if n <= 5000 {
			step = 2 // quick tier: every second byte; the last 12 bytes always
		}
		for k := 1; k < len(c); k++ {
			if k%step == 0 || len(c)-k <= 12 {
				cases = append(cases, tcase{Kind: "prefix", Text: c[:k]})
			}
		}
	}
	pool := append(append([]string{}, corpus...), sents...)
	ntok := len(gram.TokenNames())
	for i := 0; i < n; i++ {
		base := pool[rng.Intn(len(pool))]
		switch rng.Intn(5) {
		case 0: // token-level mutation
			// split on blanks (never run the lexer in the generating process: a lexer that panics in its goroutine
			// would take the whole harness down instead of one child)
			toks := strings.Fields(base)
			if len(toks) == 0 {
				continue
			}
			j := rng.Intn(len(toks))
			switch rng.Intn(4) {
			case 0:
				toks = append(toks[:j], toks[j+1:]...)
			case 1:
				toks[j] = gram.Lexeme(2 + rng.Intn(ntok-2))
			case 2:
				toks = append(toks[:j], append([]string{gram.Lexeme(2 + rng.Intn(ntok-2))}, toks[j:]...)...)
			case 3:
				toks = toks[:j]
			}
			cases = append(cases, tcase{Kind: "mut-token", Text: strings.Join(toks, " ")})
		case 1: // byte-level mutation
			b := []byte(base)
			if len(b) == 0 {
				continue
			}
			j := rng.Intn(len(b))
			switch rng.Intn(4) {
			case 0:
				b = append(b[:j], b[j+1:]...)
			case 1:
				const al = "\"@[]<>^:/_?{}();., \\\t\n0a"
				b[j] = al[rng.Intn(len(al))]
			case 2:
				const al2 = "\"@[]<>^:/_?{}();., \\"
				b = append(b[:j], append([]byte{al2[rng.Intn(len(al2))]}, b[j:]...)...)
			case 3:
				b = b[:j]
			}
			cases = append(cases, tcase{Kind: "mut-byte", Text: string(b)})
		case 2: // swap a literal / value for an odd one
			odd := []string{`""^^type:blob`, `"1"^^type:İnt64`, `"-1"^^type:int64`, `"9223372036854775807"^^type:int64`, `"NaN"^^type:float64`,
				`"x"^^type:text`, `"tall"^^type:int64`, `"1.5"^^type:int64`, `"abc"^^type:float64`, `"maybe"^^type:bool`, `"[300]"^^type:blob`, `"[1 2 3]"^^type:blob`, `"true"^^type:bool`, `"p"@[?a,?b]`, `"p"@[,]`, `"p"@[2016-01-01T00:00:00Z,]`, `/u<>`, `_:v`}
			s := base
			for _, tgt := range []string{`"1"^^type:int64`, `"3"^^type:int64`, `/u<mary>`, `"p"@[]`, `"parent_of"@[]`} {
				if strings.Contains(s, tgt) && rng.Intn(2) == 0 {
					s = strings.Replace(s, tgt, odd[rng.Intn(len(odd))], 1)
				}
			}
			cases = append(cases, tcase{Kind: "mut-value", Text: s})
		case 3: // random bytes
			k := rng.Intn(12)
			b := make([]byte, k)
			for j := range b {
				b[j] = byte(rng.Intn(256))
			}
			cases = append(cases, tcase{Kind: "random-bytes", Text: string(b)})
		case 4: // random lexeme sequence
			k := rng.Intn(8)
			var parts []string
			for j := 0; j < k; j++ {
				parts = append(parts, gram.Lexeme(2+rng.Intn(ntok-2)))
			}
			cases = append(cases, tcase{Kind: "random-tokens", Text: strings.Join(parts, " ")})
		}
	}
	// exhaustively all token-kind sequences up to length `exhaust` over all kinds
	if exhaust > 0 {
		var rec func(prefix []int, d int)
		rec = func(prefix []int, d int) {
			if len(prefix) > 0 {
				cases = append(cases, tcase{Kind: "exhaustive", Text: gram.Render(prefix)})
			}
			if d == 0 {
				return
			}
			for k := 2; k < ntok; k++ {
				rec(append(append([]int{}, prefix...), k), d-1)
			}
		}
		rec(nil, exhaust)
	}
	return cases
}

func main() {
	child := flag.Bool("child", false, "internal: run cases from -from on, printing results")
	from := flag.Int("from", 0, "internal")
	stride := flag.Int("stride", 1, "internal: this child runs cases from, from+stride, ...")
	workers := flag.Int("workers", 8, "number of child processes run in parallel")
	seed := flag.Int64("seed", 1, "PRNG seed")
	n := flag.Int("n", 1000, "number of mutated/random cases")
	exhaust := flag.Int("exhaust", 2, "exhaustive token-kind sequences up to this length")
	extra := flag.String("extra", "", "JSON lines file of extra cases {query, from, graph_texts} run against their own store")
	only := flag.Int("only", -1, "internal: the child runs just this case")
	flag.BoolVar(&patient, "patient", false, "internal: long watchdog (confirmation of a hang or leak)")
	flag.Parse()
	cases := gen(*seed, *n, *exhaust)
	var runs []runSpec
	for _, c := range cases {
		runs = append(runs, runSpec{c, "empty"})
		if c.Kind != "prefix" && c.Kind != "race-repeat" {
			runs = append(runs, runSpec{c, "populated"})
		}
		if c.Kind == "corpus" || c.Kind == "template" || c.Kind == "witness" {
			for k := 1; k < len(planCfgs); k++ {
				c2 := c
				c2.Cfg = k
				runs = append(runs, runSpec{c2, "populated"})
			}
		}
	}
	if *extra != "" {
		f, err := os.Open(*extra)
		if err != nil {
			fmt.Fprintln(os.Stderr, err)
			os.Exit(2)
		}
		sc := bufio.NewScanner(f)
		sc.Buffer(make([]byte, 1<<20), 1<<26)
		for sc.Scan() {
			var x struct {
				Query  string     `json:"query"`
				From   []string   `json:"from"`
				Graphs [][]string `json:"graph_texts"`
			}
			if json.Unmarshal(sc.Bytes(), &x) == nil && x.Query != "" {
				runs = append(runs, runSpec{tcase{"generated-query", x.Query, x.From, x.Graphs, len(runs) % len(planCfgs)}, "own"})
			}
		}
		f.Close()
	}
	total := len(runs)
	if *child {
		w := bufio.NewWriter(os.Stdout)
		enc := json.NewEncoder(w)
		for i := *from; i < total; i += *stride {
			if *only >= 0 {
				if i = *only; i >= total {
					return
				}
			}
			c, sk := runs[i].c, runs[i].store
			fmt.Fprintf(w, "START %d\n", i)
			w.Flush()
			o, d, rows := runOne(sk, &c)
			enc.Encode(result{i, c.Kind, sk, c.Text, o, d, rows, lexKindsSafe(c.Text), planCfgs[c.Cfg%len(planCfgs)]})
			w.Flush()
			if o == "hang" {
				os.Exit(3) // a goroutine is stuck (possibly spinning): start the next case in a fresh process
			}
			if *only >= 0 {
				return
			}
		}
		return
	}
	// parent: W chains of child processes (worker w runs cases w, w+W, ...); a child that dies is restarted after the
	// case that killed it
	var mu sync.Mutex
	var wg sync.WaitGroup
	// once this many cases have hit the watchdog the first pass stops (every further one costs the watchdog time again and the
	// verdict is already decided by the confirmation pass below)
	const maxHangs = 16
	var hangs int32
	var suspects []result // hang outcomes of the first pass (5 s watchdog): confirmed below before they are reported
	emit := func(line string) {
		mu.Lock()
		defer mu.Unlock()
		if strings.Contains(line, `"outcome":"hang"`) {
			var r result
			if json.Unmarshal([]byte(line), &r) == nil && r.Outcome == "hang" {
				suspects = append(suspects, r)
				atomic.AddInt32(&hangs, 1)
				return
			}
		}
		fmt.Println(line)
	}
	W := *workers
	if W < 1 {
		W = 1
	}
	for w := 0; w < W; w++ {
		wg.Add(1)
		go func(w int) {
			defer wg.Done()
			next := w
			for next < total {
				if atomic.LoadInt32(&hangs) >= maxHangs {
					return
				}
				cmd := exec.Command(os.Args[0], "-child", "-from", fmt.Sprint(next), "-stride", fmt.Sprint(W), "-seed", fmt.Sprint(*seed), "-n", fmt.Sprint(*n), "-exhaust", fmt.Sprint(*exhaust), "-extra", *extra)
				out, _ := cmd.StdoutPipe()
				var errb strings.Builder
				cmd.Stderr = &errb
				if err := cmd.Start(); err != nil {
					fmt.Fprintln(os.Stderr, err)
					os.Exit(2)
				}
				sc := bufio.NewScanner(out)
				sc.Buffer(make([]byte, 1<<20), 1<<24)
				started, done := -1, -1
				for sc.Scan() {
					l := sc.Text()
					if strings.HasPrefix(l, "START ") {
						fmt.Sscanf(l, "START %d", &started)
						continue
					}
					emit(l)
					done = started
				}
				cmd.Wait()
				if started > done { // the child died while running case `started`
					c, sk := runs[started].c, runs[started].store
					msg := errb.String()
					site := firstFrames(msg)
					first := strings.SplitN(msg, "\n", 2)[0]
					b, _ := json.Marshal(result{started, c.Kind, sk, c.Text, "killed", first + " @ " + site, 0, nil, planCfgs[c.Cfg%len(planCfgs)]})
					emit(string(b))
					next = started + W
				} else if done < 0 {
					return
				} else {
					next = done + W
				}
			}
		}(w)
	}
	wg.Wait()
	if atomic.LoadInt32(&hangs) >= maxHangs {
		b, _ := json.Marshal(result{-1, "note", "", "", "first_pass_stopped_after_watchdog_hits", fmt.Sprintf("%d cases hit the 5 s watchdog; the remaining cases were not run", hangs), 0, nil, [2]int{}})
		fmt.Println(string(b))
	}
	// confirmation pass: each suspect alone in a fresh process with the patient watchdog; what that run says is reported.
	// After three confirmed ones the rest is reported as first seen (the alarm is already certain).
	confirmed := 0
	for _, r := range suspects {
		if confirmed >= 3 {
			r.Detail = "(not re-run) " + r.Detail
			b, _ := json.Marshal(r)
			fmt.Println(string(b))
			continue
		}
		cmd := exec.Command(os.Args[0], "-child", "-patient", "-only", fmt.Sprint(r.Idx), "-seed", fmt.Sprint(*seed), "-n", fmt.Sprint(*n), "-exhaust", fmt.Sprint(*exhaust), "-extra", *extra)
		var errb strings.Builder
		cmd.Stderr = &errb
		out, _ := cmd.Output()
		var got *result
		for _, l := range strings.Split(string(out), "\n") {
			var x result
			if strings.HasPrefix(l, "{") && json.Unmarshal([]byte(l), &x) == nil {
				got = &x
			}
		}
		if got == nil { // died in the confirmation run
			c, sk := runs[r.Idx].c, runs[r.Idx].store
			msg := errb.String()
			got = &result{r.Idx, c.Kind, sk, c.Text, "killed", strings.SplitN(msg, "\n", 2)[0] + " @ " + firstFrames(msg), 0, nil, planCfgs[c.Cfg%len(planCfgs)]}
		}
		if got.Outcome == "hang" || got.Outcome == "leak" || got.Outcome == "killed" || got.Outcome == "panic" {
			confirmed++
			got.Detail = "confirmed alone in a fresh process (first pass: " + r.Outcome + "): " + got.Detail
		}
		b, _ := json.Marshal(got)
		fmt.Println(string(b))
	}
}
