// h_parse: runs token sequences (rendered to text, lexed by the real lexer) through the real grammar.Parser
// with probe hooks and prints what happened, one JSON object per line.  Used by C17 (witnesses) and C18.
package main

import (
	"encoding/json"
	"flag"
	"fmt"
	"hash/fnv"
	"math/rand"
	"os"
	"sort"
	"strings"

	"github.com/google/badwolf/bql/grammar"
	"github.com/google/badwolf/bql/lexer"
	"github.com/google/badwolf/bql/semantic"
	"verif/harness/internal/gram"
)

type result struct {
	Sym      int      `json:"sym"`
	Alt      int      `json:"alt"`
	Intended []int    `json:"intended"`
	Text     string   `json:"text"`
	Lexed    []int    `json:"lexed"`
	Accepted bool     `json:"accepted"`
	Trace    [][2]int `json:"trace"`
	Fired    bool     `json:"fired"`
	SemAcc   bool     `json:"sem_accepted"`
	Kind     string   `json:"kind"`
	Panic    string   `json:"panic,omitempty"` // the plain-grammar parser panicked on this text
	RefAcc   bool     `json:"ref_accepted"`    // the Go mirror of the parser model over the grammar tables (used by the failing-input search only)
}

// parseWithProbes parses text with a private BQL() whose every clause has a ProcessStart probe.
// lastPanic: set when the real parser panicked on the text just parsed (reported per result, then cleared).
var lastPanic string

func parseWithProbes(g *gram.G, text string) (acc bool, trace [][2]int) {
	defer func() {
		if r := recover(); r != nil {
			acc = false
			lastPanic = fmt.Sprint(r)
		}
	}()
	bql := grammar.BQL()
	for s, cls := range *bql {
		for i, c := range cls {
			si, ai := g.SymIdx[string(s)], i
			var hook semantic.ClauseHook
			hook = func(*semantic.Statement, semantic.Symbol) (semantic.ClauseHook, error) {
				trace = append(trace, [2]int{si, ai})
				return hook, nil
			}
			c.ProcessStart = hook
		}
	}
	p, err := grammar.NewParser(bql)
	if err != nil {
		return false, nil
	}
	err = p.Parse(grammar.NewLLk(text, 1), &semantic.Statement{})
	return err == nil, trace
}

func parseSemantic(text string) (ok bool) {
	defer func() {
		if r := recover(); r != nil {
			ok = false
		}
	}()
	p, err := grammar.NewParser(grammar.SemanticBQL())
	if err != nil {
		return false
	}
	return p.Parse(grammar.NewLLk(text, 1), &semantic.Statement{}) == nil
}

func run(g *gram.G, kind string, sym, alt int, toks []int) result {
	text := gram.Render(toks)
	r := result{Sym: sym, Alt: alt, Intended: toks, Text: text, Kind: kind}
	r.Lexed = gram.LexKinds(text)
	lastPanic = ""
	r.Accepted, r.Trace = parseWithProbes(g, text)
	r.Panic = lastPanic
	for _, t := range r.Trace {
		if t[0] == sym && t[1] == alt {
			r.Fired = true
		}
	}
	r.SemAcc = parseSemantic(text)
	r.RefAcc = refAccepts(g, r.Lexed)
	return r
}

// refAccepts: whole-input acceptance by the table-driven mirror parser (START derives the tokens up to end of input).
func refAccepts(g *gram.G, lexed []int) bool {
	ok, _, consumed := g.Parse(lexed)
	return ok && (consumed >= len(lexed) || lexed[consumed] == gram.EOF)
}

func main() {
	mode := flag.String("mode", "witness", "witness | seqs")
	n := flag.Int("n", 1000, "number of random/mutated sequences (seqs)")
	seed := flag.Int64("seed", 1, "PRNG seed")
	maxlen := flag.Int("exhaust", 0, "seqs: also enumerate all sequences up to this length over the sub-alphabet")
	flag.Parse()
	g := gram.FromBQL(grammar.BQL())
	enc := json.NewEncoder(os.Stdout)
	ws := gram.Witnesses(g, gram.Lexable)
	keys := make([]gram.AltID, 0, len(ws))
	for k := range ws {
		keys = append(keys, k)
	}
	sort.Slice(keys, func(i, j int) bool {
		if keys[i].Sym != keys[j].Sym {
			return keys[i].Sym < keys[j].Sym
		}
		return keys[i].Alt < keys[j].Alt
	})
	switch *mode {
	case "witness":
		for _, k := range keys {
			enc.Encode(run(g, "witness", k.Sym, k.Alt, ws[k]))
		}
	case "seqs":
		rng := rand.New(rand.NewSource(*seed))
		ntok := len(gram.TokenNames())
		// corpus of sentences = witnesses
		var sents [][]int
		for _, k := range keys {
			sents = append(sents, ws[k])
		}
		emit := func(kind string, toks []int) { enc.Encode(run(g, kind, -1, -1, toks)) }
		for _, s := range sents {
			emit("sentence", s)
		}
		// random derivations (deeper than the minimal witnesses) rendered with variant lexemes whose TEXT contains comment
		// markers, separators, blanks and escaped quotes: the tokens are the same kinds, so acceptance must not change
		for i := 0; i < *n/4+50; i++ {
			toks := g.RandomSentence(rng.Intn, 3+rng.Intn(6))
			r := run(g, "derivation", -1, -1, toks)
			r.Text = gram.RenderVariant(toks, rng.Intn(7))
			r.Lexed = gram.LexKinds(r.Text)
			r.Accepted, r.Trace = parseWithProbes(g, r.Text)
			r.SemAcc = parseSemantic(r.Text)
			enc.Encode(r)
		}
		for _, s := range sents {
			r := run(g, "sentence-variant", -1, -1, s)
			r.Text = gram.RenderVariant(s, 1)
			r.Lexed = gram.LexKinds(r.Text)
			r.Accepted, r.Trace = parseWithProbes(g, r.Text)
			r.SemAcc = parseSemantic(r.Text)
			enc.Encode(r)
		}
		for i := 0; i < *n; i++ {
			s := append([]int{}, sents[rng.Intn(len(sents))]...)
			switch rng.Intn(6) {
			case 0: // delete a token
				if len(s) > 0 {
					j := rng.Intn(len(s))
					s = append(s[:j], s[j+1:]...)
				}
				emit("mut-delete", s)
			case 1: // insert a token
				j := rng.Intn(len(s) + 1)
				t := 2 + rng.Intn(ntok-2)
				s = append(s[:j], append([]int{t}, s[j:]...)...)
				emit("mut-insert", s)
			case 2: // replace
				if len(s) > 0 {
					s[rng.Intn(len(s))] = 2 + rng.Intn(ntok-2)
				}
				emit("mut-replace", s)
			case 3: // append garbage after the final token
				k := 1 + rng.Intn(3)
				for j := 0; j < k; j++ {
					s = append(s, 2+rng.Intn(ntok-2))
				}
				emit("mut-append", s)
			case 4: // splice two sentences
				o := sents[rng.Intn(len(sents))]
				a, b := rng.Intn(len(s)+1), rng.Intn(len(o)+1)
				s = append(append([]int{}, s[:a]...), o[b:]...)
				emit("mut-splice", s)
			case 5: // fully random short sequence
				k := rng.Intn(7)
				s = s[:0]
				for j := 0; j < k; j++ {
					s = append(s, 2+rng.Intn(ntok-2))
				}
				emit("random", s)
			}
		}
		// long statements (well over a hundred tokens: list constructs repeated), and at every position around the powers of
		// two and near the end a deleted / inserted / replaced token: buffers, windows and counters of the token source
		// and of the parser must not depend on the length of the statement
		span := 1 // quick tier: positions within 1 of each centre; thorough: within 3, and a 1400-token statement on top
		longs := longStatements()
		if *n > 5000 {
			span = 3
		} else {
			longs = longs[:len(longs)-1]
		}
		for _, txt := range longs {
			toks := gram.LexKinds(txt)
			if len(toks) > 0 && toks[len(toks)-1] == gram.EOF {
				toks = toks[:len(toks)-1]
			}
			emit("long", toks)
			pos := map[int]bool{}
			for _, c := range []int{32, 64, 128, 256, 512, len(toks) - 2} {
				for d := -span; d <= span; d++ {
					if c+d >= 0 && c+d < len(toks) {
						pos[c+d] = true
					}
				}
			}
			var ps []int
			for j := range pos {
				ps = append(ps, j)
			}
			sort.Ints(ps)
			for _, j := range ps {
				del := append(append([]int{}, toks[:j]...), toks[j+1:]...)
				emit("long-delete", del)
				for _, t := range []int{int(lexer.ItemBinding), int(lexer.ItemNode), int(lexer.ItemComma), toks[j]} {
					ins := append(append(append([]int{}, toks[:j]...), t), toks[j:]...)
					emit("long-insert", ins)
				}
				rep := append([]int{}, toks...)
				rep[j] = 2 + rng.Intn(ntok-2)
				emit("long-replace", rep)
			}
		}
		if *maxlen > 0 {
			// exhaustive over a sub-alphabet that can open and continue every statement type
			alpha := []int{int(lexer.ItemCreate), int(lexer.ItemDrop), int(lexer.ItemGraph), int(lexer.ItemBinding),
				int(lexer.ItemComma), int(lexer.ItemSemicolon), int(lexer.ItemShow), int(lexer.ItemGraphs),
				int(lexer.ItemQuery), int(lexer.ItemFrom)}
			var rec func(prefix []int, d int)
			rec = func(prefix []int, d int) {
				emit("exhaustive", prefix)
				if d == 0 {
					return
				}
				for _, a := range alpha {
					rec(append(append([]int{}, prefix...), a), d-1)
				}
			}
			rec(nil, *maxlen)
		}
	case "state":
		// statelessness: the last statement of a sequence parsed on ONE parser/grammar value must be accepted or
		// rejected, and mean, exactly what it does on a fresh one
		rng := rand.New(rand.NewSource(*seed))
		var pool []string
		for _, st := range stmtCorpus {
			pool = append(pool, st)
			var toks []string
			for t := range lexer.New(st, 0) {
				if t.Type != lexer.ItemEOF {
					toks = append(toks, t.Text)
				}
			}
			for k := 1; k < len(toks); k++ { // every token prefix = a rejected (truncated) statement
				pool = append(pool, strings.Join(toks[:k], " "))
			}
		}
		for _, k := range keys {
			pool = append(pool, gram.Render(ws[k]))
		}
		for _, st := range stmtCorpus { // whole valid statement followed by extra tokens: rejected by the end-of-input check
			pool = append(pool, st+" ;", st+" ?x", st+" "+st)
		}
		type stRes struct {
			Kind           string   `json:"kind"`
			Seq            []string `json:"seq"`
			Same           bool     `json:"same"`
			Shared         string   `json:"shared"`
			Fresh          string   `json:"fresh"`
			SameAfterFlush bool     `json:"same_after_flush"`
			// a Statement built by an EARLIER parse on this parser reads differently once the later ones are parsed
			EarlierChanged string `json:"earlier_changed,omitempty"`
		}
		one := func(seq []string) {
			sg := grammar.SemanticBQL()
			p, _ := grammar.NewParser(sg)
			var shared string
			var keptSt []*semantic.Statement
			var keptDump []string
			for _, txt := range seq {
				var k *semantic.Statement
				k, shared = parseKeep(p, txt)
				keptSt, keptDump = append(keptSt, k), append(keptDump, shared)
			}
			fp, _ := grammar.NewParser(grammar.SemanticBQL())
			fresh := parseDump(fp, seq[len(seq)-1])
			res := stRes{Kind: "state", Seq: seq, Same: shared == fresh, Shared: shared, Fresh: fresh}
			for i, k := range keptSt {
				if k != nil {
					if now := dumpStatement(k); now != keptDump[i] {
						res.EarlierChanged = fmt.Sprintf("statement %d (%s): was %s / now %s", i, seq[i], keptDump[i], now)
						break
					}
				}
			}
			if !res.Same {
				// classifier of the known finding "stale lastNopToken": the difference disappears when a statement that
				// makes every WHERE/VARS hook closure drop its lastNopToken is parsed in between
				const flush = `select count(?a) as ?b from ?g where { /u<a> "p"@[] /u<b> };`
				p2, _ := grammar.NewParser(grammar.SemanticBQL())
				for _, txt := range seq[:len(seq)-1] {
					parseDump(p2, txt)
				}
				parseDump(p2, flush)
				res.SameAfterFlush = parseDump(p2, seq[len(seq)-1]) == fresh
			}
			enc.Encode(res)
		}
		// last statements: the valid corpus, statements the semantic layer must reject, and repeated-key statements
		lastPool := append(append(append([]string{}, stmtCorpus...), semInvalidCorpus...), repeatedKeyCorpus...)
		// earlier statements additionally include those (accepted ones leave state behind too)
		pool = append(pool, semInvalidCorpus...)
		pool = append(pool, repeatedKeyCorpus...)
		// all ordered pairs (prefix-or-statement, last statement): systematic
		if *maxlen > 0 {
			for _, a := range pool {
				for _, b := range lastPool {
					one([]string{a, b})
				}
			}
		}
		for i := 0; i < *n; i++ {
			k := 2 + rng.Intn(3)
			var seq []string
			for j := 0; j < k-1; j++ {
				seq = append(seq, pool[rng.Intn(len(pool))])
			}
			seq = append(seq, lastPool[rng.Intn(len(lastPool))])
			one(seq)
		}
		// twins: statements that differ only in the letter case or the blanks INSIDE identifiers, texts and bindings have
		// different meanings; parse one after the other on the same parser, both orders
		for _, a := range stmtCorpus {
			for _, b := range twins(a) {
				one([]string{a, b})
				one([]string{b, a})
			}
		}
		// long histories: many rejected statements on one parser, valid statements in between (state that accumulates
		// slowly, e.g. a counter that is not restored on an error path)
		{
			longN := 6000
			if *n > 5000 {
				longN = 20000
			}
			sg := grammar.SemanticBQL()
			p, _ := grammar.NewParser(sg)
			var rejected []string
			for _, x := range pool {
				fp, _ := grammar.NewParser(grammar.SemanticBQL())
				if parseDump(fp, x) == "ERR" {
					rejected = append(rejected, x)
				}
			}
			rejected = append(rejected, `create graph ?a, ?b, ?c, ?d, ;`, `select ?s from ?a where {?s "p"@[] ?o . ?o "q"@[] ?z . };`,
				`select ?s from ?a where {?s "p"@[] ?o} having ((((?s = ?o) and (?s = ?o)) or (?s = ?o)) and ;`)
			for i := 0; i < longN && len(rejected) > 0; i++ {
				parseDump(p, rejected[rng.Intn(len(rejected))])
				if i%100 == 99 {
					for k := 0; k < 3; k++ {
						last := stmtCorpus[rng.Intn(len(stmtCorpus))]
						shared := parseDump(p, last)
						fp, _ := grammar.NewParser(grammar.SemanticBQL())
						fresh := parseDump(fp, last)
						res := stRes{Kind: "state", Seq: []string{fmt.Sprintf("<%d rejected statements on this parser>", i+1), last}, Same: shared == fresh, Shared: shared, Fresh: fresh}
						if !res.Same {
							const flush = `select count(?a) as ?b from ?g where { /u<a> "p"@[] /u<b> };`
							parseDump(p, flush)
							res.SameAfterFlush = parseDump(p, last) == fresh
						}
						enc.Encode(res)
					}
				}
			}
		}
		// determinism: the meaning of a statement is a function of its text: parse it 25 times on fresh parsers
		for _, txt := range lastPool {
			fp0, _ := grammar.NewParser(grammar.SemanticBQL())
			first := parseDump(fp0, txt)
			same, other := true, ""
			for k := 0; k < 25 && same; k++ {
				fp, _ := grammar.NewParser(grammar.SemanticBQL())
				if d := parseDump(fp, txt); d != first {
					same, other = false, d
				}
			}
			enc.Encode(stRes{Kind: "determinism", Seq: []string{txt}, Same: same, Shared: other, Fresh: first})
		}
	case "hooks":
		// drive the exported stateful hook closures directly with token sequences (kind, text valid?) and record,
		// per step, what the closure did: the observations the machines of coq/Grammar/Hooks.v predict
		rng := rand.New(rand.NewSource(*seed))
		type step struct {
			K   int    `json:"k"`
			Ok  bool   `json:"ok"`
			Out string `json:"out"`
		}
		type hrun struct {
			Kind  string `json:"kind"`
			Hook  string `json:"hook"`
			Steps []step `json:"steps"`
		}
		text := func(k int, ok bool) string {
			if ok {
				switch lexer.TokenType(k) {
				case lexer.ItemPredicateBound:
					return "2016-01-01T00:00:00-08:00,2017-01-01T00:00:00-08:00"
				}
				return gram.Lexeme(k)
			}
			switch lexer.TokenType(k) {
			case lexer.ItemNode:
				return "/u<a"
			case lexer.ItemPredicate:
				return "\"p\"@[x]"
			case lexer.ItemLiteral:
				return "\"x\"^^type:int64"
			case lexer.ItemTime:
				return "2016-13-45"
			case lexer.ItemPredicateBound:
				return "2016-01-01T00:00:00-08:00,zzz"
			}
			return gram.Lexeme(k)
		}
		// these two lists are da_alphabet / gb_alphabet of coq/Grammar/HooksInst.v (theorem C18_closure_alphabet: every token
		// kind the regenerated attachment table lets reach the closures is in them)
		daKinds := []int{int(lexer.ItemInsert), int(lexer.ItemDelete), int(lexer.ItemNode), int(lexer.ItemPredicate), int(lexer.ItemLiteral),
			int(lexer.ItemData), int(lexer.ItemDot), int(lexer.ItemLBracket), int(lexer.ItemBinding),
			int(lexer.ItemInto), int(lexer.ItemFrom), int(lexer.ItemRBracket), int(lexer.ItemSemicolon)}
		gbKinds := []int{int(lexer.ItemBefore), int(lexer.ItemAfter), int(lexer.ItemBetween), int(lexer.ItemComma), int(lexer.ItemTime),
			int(lexer.ItemPredicateBound), int(lexer.ItemSemicolon)}
		for i := 0; i < *n; i++ {
			// several statements' worth of tokens through ONE closure: history matters
			for _, which := range []string{"dataAccumulator", "collectGlobalBounds"} {
				kinds := daKinds
				hook := semantic.DataAccumulatorHook()
				if which == "collectGlobalBounds" {
					kinds = gbKinds
					hook = semantic.CollectGlobalBounds()
				}
				r := hrun{Kind: "hooks", Hook: which}
				st := &semantic.Statement{}
				st.ResetWorkingGraphClause()
				ln := 1 + rng.Intn(9)
				for j := 0; j < ln; j++ {
					k := kinds[rng.Intn(len(kinds))]
					ok := rng.Intn(5) != 0
					nData := len(st.Data())
					lo, up := st.GlobalLookupOptions().LowerAnchor, st.GlobalLookupOptions().UpperAnchor
					out := func() (o string) {
						defer func() {
							if rec := recover(); rec != nil {
								o = "panic"
							}
						}()
						_, err := hook(st, semantic.NewConsumedToken(&lexer.Token{Type: lexer.TokenType(k), Text: text(k, ok)}))
						if err != nil {
							return "err"
						}
						l2, u2 := st.GlobalLookupOptions().LowerAnchor, st.GlobalLookupOptions().UpperAnchor
						switch {
						case len(st.Data()) > nData:
							return "emit"
						case l2 != lo && u2 != up:
							return "both"
						case l2 != lo:
							return "lower"
						case u2 != up:
							return "upper"
						}
						return "none"
					}()
					r.Steps = append(r.Steps, step{k, ok, out})
					if out == "err" || out == "panic" {
						// the parser aborts the statement here; the SAME closure then serves the next statement
						continue
					}
				}
				enc.Encode(r)
			}
		}
	case "llk":
		// the look-ahead window of llk.go driven directly: NewLLk(text, k), then Consume attempts (mostly of the current
		// token's type, sometimes of another type), recording the window (Current, Peek(1..k): kind and hash of the text)
		// after every step; the token list itself comes from a separate run of the lexer
		rng := rand.New(rand.NewSource(*seed))
		hash := func(t string) uint32 {
			if t == "" {
				return 0
			}
			h := fnv.New32a()
			h.Write([]byte(t))
			return h.Sum32() | 1
		}
		type lstep struct {
			Ok  bool     `json:"ok"`
			Win []uint32 `json:"win"`
		}
		type lrun struct {
			Kind   string      `json:"kind"`
			Text   string      `json:"text"`
			K      int         `json:"k"`
			Toks   [][2]uint32 `json:"toks"`
			Win0   []uint32    `json:"win0"`
			Tys    []int       `json:"tys"`
			Steps  []lstep     `json:"steps"`
			PeekOK bool        `json:"peek_ok"` // Peek(0), Peek(k+1) are errors; Peek(j) never fails for 1 <= j <= k
		}
		window := func(l *grammar.LLk, k int) ([]uint32, bool) {
			c := l.Current()
			w := []uint32{uint32(c.Type), hash(c.Text)}
			ok := true
			for j := 1; j <= k; j++ {
				t, err := l.Peek(j)
				if err != nil || t == nil {
					return w, false
				}
				w = append(w, uint32(t.Type), hash(t.Text))
			}
			if _, err := l.Peek(0); err == nil {
				ok = false
			}
			if _, err := l.Peek(k + 1); err == nil {
				ok = false
			}
			return w, ok
		}
		var texts []string
		texts = append(texts, stmtCorpus...)
		texts = append(texts, semInvalidCorpus...)
		for _, k := range keys {
			texts = append(texts, gram.Render(ws[k]))
		}
		if ls := longStatements(); *n > 1000 {
			texts = append(texts, ls...)
		} else {
			texts = append(texts, ls[:len(ls)-1]...)
		}
		texts = append(texts, ``, `;`, `select ?s from ?a where {?s "unterminated`, `create graph ?a ?b /u<x`, "\xff\xfe select", `select ?s from ?a where {?s "p"@[] ?o} #comment`)
		for i := 0; i < *n; i++ {
			toks := g.RandomSentence(rng.Intn, 3+rng.Intn(6))
			texts = append(texts, gram.RenderVariant(toks, rng.Intn(7)))
		}
		ntok := len(gram.TokenNames())
		for _, txt := range texts {
			var toks [][2]uint32
			for t := range lexer.New(txt, 0) {
				toks = append(toks, [2]uint32{uint32(t.Type), hash(t.Text)})
			}
			for k := 1; k <= 3; k++ {
				l := grammar.NewLLk(txt, k)
				r := lrun{Kind: "llk", Text: txt, K: k, Toks: toks, PeekOK: true}
				var ok bool
				r.Win0, ok = window(l, k)
				r.PeekOK = r.PeekOK && ok
				for step := 0; step < len(toks)+k+3; step++ {
					ty := int(l.Current().Type)
					if rng.Intn(6) == 0 {
						ty = 1 + rng.Intn(ntok-1)
					}
					res := l.Consume(lexer.TokenType(ty))
					w, ok := window(l, k)
					r.PeekOK = r.PeekOK && ok
					r.Tys = append(r.Tys, ty)
					r.Steps = append(r.Steps, lstep{res, w})
				}
				enc.Encode(r)
			}
		}
	case "dead":
		// failing-input search for C17: alternatives no sentence reaches, and the structural reason
		type dead struct {
			Sym    string `json:"sym"`
			Alt    int    `json:"alt"`
			Reason string `json:"reason"`
		}
		var out []dead
		for _, s := range g.Syms {
			firsts := map[int]int{}
			emptyAt := -1
			for i, a := range g.Rules[s] {
				if _, ok := ws[gram.AltID{Sym: g.SymIdx[s], Alt: i}]; ok {
					if len(a.Elems) == 0 {
						emptyAt = i
					}
					continue
				}
				reason := "no accepted statement takes this alternative"
				if emptyAt >= 0 {
					reason = fmt.Sprintf("placed after the empty alternative %d, which is always taken first", emptyAt)
				} else if len(a.Elems) > 0 && !a.Elems[0].IsSym {
					if j, ok := firsts[a.Elems[0].Tok]; ok {
						reason = fmt.Sprintf("starts with the same token as alternative %d", j)
					}
				} else if len(a.Elems) > 0 && a.Elems[0].IsSym {
					reason = "starts with a symbol (not left factored)"
				}
				out = append(out, dead{s, i, reason})
			}
			for i, a := range g.Rules[s] {
				if len(a.Elems) > 0 && !a.Elems[0].IsSym {
					if _, ok := firsts[a.Elems[0].Tok]; !ok {
						firsts[a.Elems[0].Tok] = i
					}
				}
			}
		}
		sg := gram.FromBQL(grammar.SemanticBQL())
		shape := ""
		for _, s := range g.Syms {
			if len(sg.Rules[s]) != len(g.Rules[s]) {
				shape += fmt.Sprintf("rule %s: %d alternatives in BQL, %d in SemanticBQL; ", s, len(g.Rules[s]), len(sg.Rules[s]))
				continue
			}
			for i := range g.Rules[s] {
				if fmt.Sprint(g.Rules[s][i].Elems) != fmt.Sprint(sg.Rules[s][i].Elems) {
					shape += fmt.Sprintf("rule %s alternative %d differs; ", s, i)
				}
			}
		}
		for _, s := range sg.Syms {
			if _, ok := g.Rules[s]; !ok {
				shape += fmt.Sprintf("rule %s only in SemanticBQL; ", s)
			}
		}
		enc.Encode(map[string]interface{}{"dead": out, "shape": shape})
	default:
		fmt.Fprintln(os.Stderr, "unknown mode")
		os.Exit(2)
	}
}

// parseDump parses txt with p into a fresh Statement and renders outcome + meaning through exported accessors.
// longStatements: valid statements of 130 to 700 tokens, one per list construct of the grammar.
func longStatements() []string {
	rep := func(n int, sep string, f func(i int) string) string {
		var parts []string
		for i := 0; i < n; i++ {
			parts = append(parts, f(i))
		}
		return strings.Join(parts, sep)
	}
	v := func(p string) func(int) string { return func(i int) string { return fmt.Sprintf("?%s%d", p, i) } }
	triple := func(i int) string { return fmt.Sprintf(`/u<n%d> "p%d"@[] /u<m%d>`, i, i, i) }
	clause := func(i int) string { return fmt.Sprintf(`?s%d "p"@[] ?s%d`, i, i+1) }
	return []string{
		`create graph ` + rep(140, ", ", v("g")) + `;`,
		`drop graph ` + rep(70, ", ", v("g")) + `;`,
		`insert data into ` + rep(3, ", ", v("g")) + ` {` + rep(45, " . ", triple) + `};`,
		`delete data from ?a {` + rep(70, " . ", triple) + `};`,
		`select ` + rep(70, ", ", v("s")) + ` from ` + rep(5, ", ", v("g")) + ` where {` + rep(4, " . ", clause) + `};`,
		`select ?s0 from ?a where {` + rep(50, " . ", clause) + `};`,
		`select ?s0 from ?a where {?s0 "p"@[] ?s1 . ` + rep(30, " . ", func(i int) string { return "optional {" + clause(i) + "}" }) + `};`,
		`select ?s0 from ?a where {?s0 "p"@[] ?s1} order by ` + rep(45, ", ", func(i int) string { return fmt.Sprintf("?s%d desc", i%2) }) + `;`,
		`select ?s0 from ?a where {?s0 "p"@[] ?s1} group by ` + rep(70, ", ", func(i int) string { return fmt.Sprintf("?s%d", i%2) }) + `;`,
		`select ?s0 from ?a where {?s0 "p"@[] ?s1} having ` + rep(40, " and ", func(i int) string { return "(?s0 = ?s1)" }) + `;`,
		`select ?s0 from ?a where {?s0 "p"@[] ?s1} having ` + strings.Repeat("(", 60) + `?s0 = ?s1` + strings.Repeat(")", 60) + `;`,
		`select ?s0 from ?a where {?s0 "p"@[] ?s1} having ` + strings.Repeat("not ", 130) + `?s0 = ?s1;`,
		`construct {` + rep(12, " . ", func(i int) string {
			return fmt.Sprintf(`?s%d "k"@[] ?s%d ; "a"@[] ?s0 ; "b"@[] ?s1`, i%2, (i+1)%2)
		}) + `} into ?b from ?a where {?s0 "p"@[] ?s1};`,
		`deconstruct {` + rep(45, " . ", func(i int) string { return fmt.Sprintf(`?s%d "k"@[] ?s%d`, i%2, (i+1)%2) }) + `} in ?b from ?a where {?s0 "p"@[] ?s1};`,
		`select ?s0 from ?a where {` + rep(20, " . ", func(i int) string {
			return fmt.Sprintf(`/u<a> as ?a%d type ?t%d id ?i%d "p"@[?w%d] as ?p%d id ?q%d at ?x%d ?o%d as ?b%d type ?c%d id ?d%d`, i, i, i, i, i, i, i, i, i, i, i)
		}) + `};`,
		`create graph ` + rep(262, ", ", v("g")) + `;`,
		`create graph ` + rep(700, ", ", v("g")) + `;`, // thorough tier only (kept last)
	}
}

func parseDump(p *grammar.Parser, txt string) (out string) {
	_, out = parseKeep(p, txt)
	return out
}

// parseKeep parses txt and returns the Statement it built together with its dump (nil for a rejected statement).
func parseKeep(p *grammar.Parser, txt string) (kept *semantic.Statement, out string) {
	defer func() {
		if r := recover(); r != nil {
			kept, out = nil, "PANIC"
		}
	}()
	st := &semantic.Statement{}
	if err := p.Parse(grammar.NewLLk(txt, 1), st); err != nil {
		return nil, "ERR"
	}
	return st, dumpStatement(st)
}

// dumpStatement renders everything the exported accessors of a Statement tell.
func dumpStatement(st *semantic.Statement) (out string) {
	defer func() {
		if r := recover(); r != nil {
			out = "PANIC"
		}
	}()
	var b strings.Builder
	fmt.Fprintf(&b, "type=%v graphs=%v in=%v out=%v", st.Type(), st.GraphNames(), st.InputGraphNames(), st.OutputGraphNames())
	for _, d := range st.Data() {
		fmt.Fprintf(&b, " data=%s", d.String())
	}
	for _, c := range st.GraphPatternClauses() {
		fmt.Fprintf(&b, " clause=%s", c.String())
	}
	for _, f := range st.FilterClauses() {
		fmt.Fprintf(&b, " filter=%s", f.String())
	}
	for _, pr := range st.Projections() {
		fmt.Fprintf(&b, " proj=%s", pr.String())
	}
	for _, c := range st.ConstructClauses() {
		fmt.Fprintf(&b, " construct=%s", c.String())
	}
	fmt.Fprintf(&b, " groupby=%v orderby=%s having=%v", st.GroupByBindings(), st.OrderByConfig().String(), st.HasHavingClause())
	for _, h := range st.HavingExpression() {
		if h.IsSymbol() {
			fmt.Fprintf(&b, " hs=%s", h.Symbol())
		} else {
			fmt.Fprintf(&b, " ht=%d:%s", h.Token().Type, h.Token().Text)
		}
	}
	fmt.Fprintf(&b, " limitset=%v limit=%d lo=%s", st.IsLimitSet(), st.Limit(), st.GlobalLookupOptions().String())
	return b.String()
}

var stmtCorpus = []string{
	`insert data into ?g {/u<alice> "tag"@[] "#bql"^^type:text . /room<12#b> "see#also"@[] "a;b // c"^^type:text};`,
	`select ?s from ?a where {?s "see#also"@[] ?o} having ?o = "C# primer"^^type:text;`,
	`create graph ?a;`,
	`create graph ?a, ?b;`,
	`drop graph ?a, ?b;`,
	`show graphs;`,
	`insert data into ?a {/u<joe> "parent_of"@[] /u<mary>};`,
	`insert data into ?a, ?b {/u<joe> "parent_of"@[] /u<mary> . /u<joe> "bought"@[2016-01-01T00:00:00-08:00] /c<mini> . /u<joe> "age"@[] "31"^^type:int64};`,
	`delete data from ?a {/u<joe> "parent_of"@[] /u<mary> . /u<p> "n"@[] "x"^^type:text};`,
	`select ?s from ?a where {?s "parent_of"@[] ?o};`,
	`select ?s, ?o as ?x from ?a, ?b where {?s "parent_of"@[] ?o . ?o "parent_of"@[] ?z};`,
	`select ?s, ?p, ?o from ?a where {?s ?p ?o} before 2016-03-01T00:00:00-08:00;`,
	`select ?s, ?p, ?o from ?a where {?s ?p ?o} after 2016-02-01T00:00:00-08:00;`,
	`select ?s, ?p, ?o from ?a where {?s ?p ?o} between 2016-02-01T00:00:00-08:00, 2016-03-01T00:00:00-08:00;`,
	`select ?s, count(?o) as ?n from ?a where {?s "p"@[] ?o} group by ?s order by ?n desc, ?s asc having ?n > "1"^^type:int64 limit "3"^^type:int64;`,
	`select ?s, sum(?o) as ?t, count(distinct ?o) as ?d from ?a where {?s "p"@[] ?o} group by ?s;`,
	`select ?o from ?a where {/u<joe> as ?j id ?i type ?t "bought"@[?when] as ?pa id ?pi at ?w ?o as ?oa type ?ot id ?oi};`,
	`select ?o from ?a where {/u<joe> "bought"@[2016-01-01T00:00:00-08:00,2017-01-01T00:00:00-08:00] ?o};`,
	`select ?o from ?a where {/u<joe> "bought"@[?lo,?hi] as ?p ?o at ?x};`,
	`select ?s from ?a where {?s "p"@[] ?o . optional {?o "q"@[] ?z}};`,
	`select ?s from ?a where {?s ?p ?o . filter latest(?p)};`,
	`select ?s from ?a where {?s ?p ?o . filter isTemporal(?p) . filter isImmutable(?o)};`,
	`select ?s from ?a where {?s "p"@[] ?o} having (?s = /u<joe>) or not (?o < "3"^^type:int64) and ?s = ?o;`,
	`select ?s from ?a where {?s "t"@[?t] ?o} having ?t > 2016-01-01T00:00:00-08:00;`,
	`construct {?s "knows"@[] ?o} into ?b from ?a where {?s "parent_of"@[] ?o};`,
	`construct {?s "knows"@[?t] ?o ; "since"@[] ?t . _:v "x"@[] ?s} into ?b, ?c from ?a where {?s "bought"@[?t] ?o} having ?s = /u<joe>;`,
	`deconstruct {?s "knows"@[] ?o} in ?b from ?a where {?s "parent_of"@[] ?o};`,
}

// syntactically valid statements the semantic checks reject (or should treat specially)
var semInvalidCorpus = []string{
	`select ?s, ?o from ?a where {?s "p"@[] ?o} group by ?s;`,
	`select count(?s) as ?n from ?a where {?s "p"@[] ?o};`,
	`select ?s, count(?o) as ?n from ?a where {?s "p"@[] ?o};`,
	`select ?zz from ?a where {?s "p"@[] ?o};`,
	`select ?s from ?a where {?s "p"@[] ?o} group by ?zz;`,
	`select ?s from ?a where {?s "p"@[] ?o} order by ?zz;`,
	`select ?s from ?a where {?s "p"@[] ?o} limit "1.5"^^type:float64;`,
	`select ?s, sum(?o) as ?t from ?a where {?s "p"@[] ?o} group by ?o;`,
	`select ?s as ?x, ?o as ?x from ?a where {?s "p"@[] ?o};`,
	`insert data into ?a {/u<joe> "p"@[] "x"^^type:int64};`,
	`select ?s from ?a where {?s "p"@[] ?o} before 2016-13-45;`,
	`select ?s from ?a where {?s "p"@[] ?o . filter latest(?zz)};`,
	`construct {?zz "knows"@[] ?o} into ?b from ?a where {?s "parent_of"@[] ?o};`,
}

// statements with repeated GROUP BY / ORDER BY keys (meaning must still be a function of the text)
var repeatedKeyCorpus = []string{
	`select ?a, ?b, ?c from ?g where {?a ?b ?c} group by ?a, ?b, ?c, ?a;`,
	`select ?a, ?b, ?c from ?g where {?a ?b ?c} group by ?a, ?b, ?c order by ?c, ?a, ?b;`,
	`select ?a, ?b from ?g where {?a ?b ?c} group by ?a, ?b, ?a, ?b;`,
	`select ?a, ?b, ?c from ?g where {?a ?b ?c} order by ?a, ?b, ?c, ?a;`,
	`select ?a, ?b, ?c from ?g where {?a ?b ?c} order by ?a asc, ?b desc, ?a desc, ?c;`,
}

// twins returns variants of a statement that differ from it only in the letter case or the blanks inside node ids,
// quoted texts / predicate ids and binding names (meaning-bearing parts), never in keywords or token layout.
func twins(st string) []string {
	var out []string
	up := func(open, close byte) string {
		b := []byte(st)
		in := false
		changed := false
		for i := 0; i < len(b); i++ {
			if !in && b[i] == open {
				in = true
				continue
			}
			if in && b[i] == close {
				in = false
				continue
			}
			if in && b[i] >= 'a' && b[i] <= 'z' {
				b[i] -= 32
				changed = true
				in = open != '?' || true
				if open == '?' {
					// binding: upper-case only the first letter, then stop at the first non-word byte
					in = false
				}
			}
		}
		if !changed {
			return ""
		}
		return string(b)
	}
	for _, v := range []string{up('<', '>'), up('?', ' ')} {
		if v != "" && v != st {
			out = append(out, v)
		}
	}
	// text literal / predicate id: upper-case the first letter after an opening quote, and double a blank inside quotes
	b := []byte(st)
	inq := false
	for i := 0; i < len(b); i++ {
		if b[i] == '"' {
			inq = !inq
			if inq && i+1 < len(b) && b[i+1] >= 'a' && b[i+1] <= 'z' {
				c := append([]byte{}, b...)
				c[i+1] -= 32
				out = append(out, string(c))
				break
			}
		}
	}
	return out
}
