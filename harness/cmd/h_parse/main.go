// h_parse: runs token sequences (rendered to text, lexed by the real lexer) through the real grammar.Parser
// with probe hooks and prints what happened, one JSON object per line.  Used by C17 (witnesses) and C18.
package main

import (
	"encoding/json"
	"flag"
	"fmt"
	"math/rand"
	"os"
	"sort"

	"github.com/google/badwolf/bql/grammar"
	"github.com/google/badwolf/bql/lexer"
	"github.com/google/badwolf/bql/semantic"
	"verif/harness/internal/gram"
)

type result struct {
	Sym      int      `json:"sym"`
	Alt      int      `json:"alt"`
	Intended []int    `json:"intended"`
	Text     string   `json:"text"`
	Lexed    []int    `json:"lexed"`
	Accepted bool     `json:"accepted"`
	Trace    [][2]int `json:"trace"`
	Fired    bool     `json:"fired"`
	SemAcc   bool     `json:"sem_accepted"`
	Kind     string   `json:"kind"`
}

// parseWithProbes parses text with a private BQL() whose every clause has a ProcessStart probe.
func parseWithProbes(g *gram.G, text string) (bool, [][2]int) {
	bql := grammar.BQL()
	var trace [][2]int
	for s, cls := range *bql {
		for i, c := range cls {
			si, ai := g.SymIdx[string(s)], i
			var hook semantic.ClauseHook
			hook = func(*semantic.Statement, semantic.Symbol) (semantic.ClauseHook, error) {
				trace = append(trace, [2]int{si, ai})
				return hook, nil
			}
			c.ProcessStart = hook
		}
	}
	p, err := grammar.NewParser(bql)
	if err != nil {
		return false, nil
	}
	err = p.Parse(grammar.NewLLk(text, 1), &semantic.Statement{})
	return err == nil, trace
}

func parseSemantic(text string) (ok bool) {
	defer func() {
		if r := recover(); r != nil {
			ok = false
		}
	}()
	p, err := grammar.NewParser(grammar.SemanticBQL())
	if err != nil {
		return false
	}
	return p.Parse(grammar.NewLLk(text, 1), &semantic.Statement{}) == nil
}

func run(g *gram.G, kind string, sym, alt int, toks []int) result {
	text := gram.Render(toks)
	r := result{Sym: sym, Alt: alt, Intended: toks, Text: text, Kind: kind}
	r.Lexed = gram.LexKinds(text)
	r.Accepted, r.Trace = parseWithProbes(g, text)
	for _, t := range r.Trace {
		if t[0] == sym && t[1] == alt {
			r.Fired = true
		}
	}
	r.SemAcc = parseSemantic(text)
	return r
}

func main() {
	mode := flag.String("mode", "witness", "witness | seqs")
	n := flag.Int("n", 1000, "number of random/mutated sequences (seqs)")
	seed := flag.Int64("seed", 1, "PRNG seed")
	maxlen := flag.Int("exhaust", 0, "seqs: also enumerate all sequences up to this length over the sub-alphabet")
	flag.Parse()
	g := gram.FromBQL(grammar.BQL())
	enc := json.NewEncoder(os.Stdout)
	ws := gram.Witnesses(g, gram.Lexable)
	keys := make([]gram.AltID, 0, len(ws))
	for k := range ws {
		keys = append(keys, k)
	}
	sort.Slice(keys, func(i, j int) bool {
		if keys[i].Sym != keys[j].Sym {
			return keys[i].Sym < keys[j].Sym
		}
		return keys[i].Alt < keys[j].Alt
	})
	switch *mode {
	case "witness":
		for _, k := range keys {
			enc.Encode(run(g, "witness", k.Sym, k.Alt, ws[k]))
		}
	case "seqs":
		rng := rand.New(rand.NewSource(*seed))
		ntok := len(gram.TokenNames())
		// corpus of sentences = witnesses
		var sents [][]int
		for _, k := range keys {
			sents = append(sents, ws[k])
		}
		emit := func(kind string, toks []int) { enc.Encode(run(g, kind, -1, -1, toks)) }
		for _, s := range sents {
			emit("sentence", s)
		}
		for i := 0; i < *n; i++ {
			s := append([]int{}, sents[rng.Intn(len(sents))]...)
			switch rng.Intn(6) {
			case 0: // delete a token
				if len(s) > 0 {
					j := rng.Intn(len(s))
					s = append(s[:j], s[j+1:]...)
				}
				emit("mut-delete", s)
			case 1: // insert a token
				j := rng.Intn(len(s) + 1)
				t := 2 + rng.Intn(ntok-2)
				s = append(s[:j], append([]int{t}, s[j:]...)...)
				emit("mut-insert", s)
			case 2: // replace
				if len(s) > 0 {
					s[rng.Intn(len(s))] = 2 + rng.Intn(ntok-2)
				}
				emit("mut-replace", s)
			case 3: // append garbage after the final token
				k := 1 + rng.Intn(3)
				for j := 0; j < k; j++ {
					s = append(s, 2+rng.Intn(ntok-2))
				}
				emit("mut-append", s)
			case 4: // splice two sentences
				o := sents[rng.Intn(len(sents))]
				a, b := rng.Intn(len(s)+1), rng.Intn(len(o)+1)
				s = append(append([]int{}, s[:a]...), o[b:]...)
				emit("mut-splice", s)
			case 5: // fully random short sequence
				k := rng.Intn(7)
				s = s[:0]
				for j := 0; j < k; j++ {
					s = append(s, 2+rng.Intn(ntok-2))
				}
				emit("random", s)
			}
		}
		if *maxlen > 0 {
			// exhaustive over a sub-alphabet that can open and continue every statement type
			alpha := []int{int(lexer.ItemCreate), int(lexer.ItemDrop), int(lexer.ItemGraph), int(lexer.ItemBinding),
				int(lexer.ItemComma), int(lexer.ItemSemicolon), int(lexer.ItemShow), int(lexer.ItemGraphs),
				int(lexer.ItemQuery), int(lexer.ItemFrom)}
			var rec func(prefix []int, d int)
			rec = func(prefix []int, d int) {
				emit("exhaustive", prefix)
				if d == 0 {
					return
				}
				for _, a := range alpha {
					rec(append(append([]int{}, prefix...), a), d-1)
				}
			}
			rec(nil, *maxlen)
		}
	case "dead":
		// failing-input search for C17: alternatives no sentence reaches, and the structural reason
		type dead struct {
			Sym    string `json:"sym"`
			Alt    int    `json:"alt"`
			Reason string `json:"reason"`
		}
		var out []dead
		for _, s := range g.Syms {
			firsts := map[int]int{}
			emptyAt := -1
			for i, a := range g.Rules[s] {
				if _, ok := ws[gram.AltID{Sym: g.SymIdx[s], Alt: i}]; ok {
					if len(a.Elems) == 0 {
						emptyAt = i
					}
					continue
				}
				reason := "no accepted statement takes this alternative"
				if emptyAt >= 0 {
					reason = fmt.Sprintf("placed after the empty alternative %d, which is always taken first", emptyAt)
				} else if len(a.Elems) > 0 && !a.Elems[0].IsSym {
					if j, ok := firsts[a.Elems[0].Tok]; ok {
						reason = fmt.Sprintf("starts with the same token as alternative %d", j)
					}
				} else if len(a.Elems) > 0 && a.Elems[0].IsSym {
					reason = "starts with a symbol (not left factored)"
				}
				out = append(out, dead{s, i, reason})
			}
			for i, a := range g.Rules[s] {
				if len(a.Elems) > 0 && !a.Elems[0].IsSym {
					if _, ok := firsts[a.Elems[0].Tok]; !ok {
						firsts[a.Elems[0].Tok] = i
					}
				}
			}
		}
		sg := gram.FromBQL(grammar.SemanticBQL())
		shape := ""
		for _, s := range g.Syms {
			if len(sg.Rules[s]) != len(g.Rules[s]) {
				shape += fmt.Sprintf("rule %s: %d alternatives in BQL, %d in SemanticBQL; ", s, len(g.Rules[s]), len(sg.Rules[s]))
				continue
			}
			for i := range g.Rules[s] {
				if fmt.Sprint(g.Rules[s][i].Elems) != fmt.Sprint(sg.Rules[s][i].Elems) {
					shape += fmt.Sprintf("rule %s alternative %d differs; ", s, i)
				}
			}
		}
		for _, s := range sg.Syms {
			if _, ok := g.Rules[s]; !ok {
				shape += fmt.Sprintf("rule %s only in SemanticBQL; ", s)
			}
		}
		enc.Encode(map[string]interface{}{"dead": out, "shape": shape})
	default:
		fmt.Fprintln(os.Stderr, "unknown mode")
		os.Exit(2)
	}
}
