// h_fault: every statement of a generated corpus is executed once over a recording storage wrapper (which driver
// calls does it make?) and then once per (driver call, failure mode) with that call failing (C20).
// The wrapper is a plain implementation of storage.Store / storage.Graph around storage/memory.
// A driver call is identified by (kind, graph name, occurrence number of that kind+graph within the statement).
// One JSON object per run on stdout.
package main

import (
	"bufio"
	"context"
	"encoding/json"
	"errors"
	"flag"
	"fmt"
	"math/rand"
	"os"
	"runtime"
	"sort"
	"strings"
	"sync"
	"time"

	"github.com/google/badwolf/storage"
	"github.com/google/badwolf/storage/memoization"
	"github.com/google/badwolf/storage/memory"
	"github.com/google/badwolf/triple"
	"github.com/google/badwolf/triple/node"
	"github.com/google/badwolf/triple/predicate"
	. "verif/harness/internal/execgen"
)

// ---------------------------------------------------------------- fault-injecting driver

type Call struct {
	Kind   string `json:"k"` // graph | newgraph | deletegraph | graphnames | add | remove | read
	Graph  string `json:"g"`
	Occ    int    `json:"n"`
	Method string `json:"m"` // the storage.Store / storage.Graph method that was called
}

type Fault struct {
	Mode string `json:"mode"` // before | after | write | late (deliver j, close, linger, then report the error) | delay (slow, no failure) | empty (fails at once, error message "") | typednil (fails at once, typed nil error)
	J    int    `json:"j"`
}

func (c Call) key() string { return fmt.Sprintf("%s|%s|%d", c.Kind, c.Graph, c.Occ) }

var errInjected = errors.New("injected driver failure")

// error values a driver may legitimately return: non-nil with an EMPTY message, and a typed nil pointer (non-nil as
// an error interface, "" as a message)
var errEmpty = errors.New("")

type quietErr struct{}

func (e *quietErr) Error() string { return "" }

// errOf: the error value of a failure entry
func errOf(f *Fault) error {
	switch f.Mode {
	case "empty":
		return errEmpty
	case "typednil":
		var e *quietErr
		return e
	}
	return errInjected
}

type fstore struct {
	inner storage.Store
	mu    sync.Mutex
	log   []Call
	count map[string]int
	sched map[string]Fault
}

func newFStore(inner storage.Store, sched map[string]Fault) *fstore {
	return &fstore{inner: inner, count: map[string]int{}, sched: sched}
}

// next registers a driver call and returns the failure entry it consumes (nil = ok).  An entry of mode "delay" is
// not a failure: the call is merely slow (it lets a concurrent twin call finish first).
func (s *fstore) next(kind, graph, method string) *Fault {
	f := s.next0(kind, graph, method)
	if f != nil && f.Mode == "delay" {
		time.Sleep(8 * time.Millisecond)
		return nil
	}
	return f
}

func (s *fstore) next0(kind, graph, method string) *Fault {
	s.mu.Lock()
	defer s.mu.Unlock()
	k := kind + "|" + graph
	c := Call{Kind: kind, Graph: graph, Occ: s.count[k], Method: method}
	s.count[k]++
	s.log = append(s.log, c)
	if f, ok := s.sched[c.key()]; ok {
		return &f
	}
	return nil
}

func (s *fstore) Name(ctx context.Context) string    { return s.inner.Name(ctx) }
func (s *fstore) Version(ctx context.Context) string { return s.inner.Version(ctx) }

func (s *fstore) NewGraph(ctx context.Context, id string) (storage.Graph, error) {
	if f := s.next("newgraph", id, "Store.NewGraph"); f != nil {
		return nil, errOf(f)
	}
	g, err := s.inner.NewGraph(ctx, id)
	if err != nil {
		return nil, err
	}
	return &fgraph{inner: g, s: s, name: id}, nil
}

func (s *fstore) Graph(ctx context.Context, id string) (storage.Graph, error) {
	if f := s.next("graph", id, "Store.Graph"); f != nil {
		return nil, errOf(f)
	}
	g, err := s.inner.Graph(ctx, id)
	if err != nil {
		return nil, err
	}
	return &fgraph{inner: g, s: s, name: id}, nil
}

func (s *fstore) DeleteGraph(ctx context.Context, id string) error {
	if f := s.next("deletegraph", id, "Store.DeleteGraph"); f != nil {
		return errOf(f)
	}
	return s.inner.DeleteGraph(ctx, id)
}

func (s *fstore) GraphNames(ctx context.Context, names chan<- string) error {
	f := s.next("graphnames", "", "Store.GraphNames")
	if f == nil {
		return s.inner.GraphNames(ctx, names)
	}
	if f.Mode == "after" || f.Mode == "late" {
		tmp := make(chan string, 64)
		go s.inner.GraphNames(ctx, tmp)
		var all []string
		for n := range tmp {
			all = append(all, n)
		}
		sort.Strings(all)
		for i, n := range all {
			if i >= f.J {
				break
			}
			names <- n
		}
	}
	close(names)
	f.linger()
	return errOf(f)
}

// linger: a real driver does not return in the same instant it closes its channel (mode "late")
func (f *Fault) linger() {
	if f.Mode == "late" {
		time.Sleep(time.Duration(2+5*f.J) * time.Millisecond)
	}
}

type fgraph struct {
	inner storage.Graph
	s     *fstore
	name  string
}

func (g *fgraph) ID(ctx context.Context) string { return g.inner.ID(ctx) }

func (g *fgraph) write(kind string, ts []*triple.Triple, f func([]*triple.Triple) error) error {
	ft := g.s.next(kind, g.name, map[string]string{"add": "Graph.AddTriples", "remove": "Graph.RemoveTriples"}[kind])
	if ft == nil {
		return f(ts)
	}
	if ft.Mode == "after" || ft.Mode == "late" {
		n := ft.J
		if n > len(ts) {
			n = len(ts)
		}
		f(ts[:n])
	}
	ft.linger()
	return errOf(ft)
}

func (g *fgraph) AddTriples(ctx context.Context, ts []*triple.Triple) error {
	return g.write("add", ts, func(x []*triple.Triple) error { return g.inner.AddTriples(ctx, x) })
}
func (g *fgraph) RemoveTriples(ctx context.Context, ts []*triple.Triple) error {
	return g.write("remove", ts, func(x []*triple.Triple) error { return g.inner.RemoveTriples(ctx, x) })
}

func (g *fgraph) Exist(ctx context.Context, t *triple.Triple) (bool, error) {
	if f := g.s.next("read", g.name, "Graph.Exist"); f != nil {
		return false, errOf(f)
	}
	return g.inner.Exist(ctx, t)
}

// stream runs a streaming lookup under the schedule: the driver contract (close the channel before returning) is
// kept by the failing driver as well.
func stream[T any](g *fgraph, method string, out chan<- T, call func(chan<- T) error) error {
	f := g.s.next("read", g.name, "Graph."+method)
	if f == nil {
		return call(out)
	}
	if f.Mode == "after" || f.Mode == "late" {
		tmp := make(chan T, 16)
		go call(tmp)
		i := 0
		for x := range tmp {
			if i < f.J {
				out <- x
			}
			i++
		}
	}
	close(out)
	f.linger()
	return errOf(f)
}

func (g *fgraph) Objects(ctx context.Context, s *node.Node, p *predicate.Predicate, lo *storage.LookupOptions, objs chan<- *triple.Object) error {
	return stream(g, "Objects", objs, func(c chan<- *triple.Object) error { return g.inner.Objects(ctx, s, p, lo, c) })
}
func (g *fgraph) Subjects(ctx context.Context, p *predicate.Predicate, o *triple.Object, lo *storage.LookupOptions, subs chan<- *node.Node) error {
	return stream(g, "Subjects", subs, func(c chan<- *node.Node) error { return g.inner.Subjects(ctx, p, o, lo, c) })
}
func (g *fgraph) PredicatesForSubject(ctx context.Context, s *node.Node, lo *storage.LookupOptions, prds chan<- *predicate.Predicate) error {
	return stream(g, "PredicatesForSubject", prds, func(c chan<- *predicate.Predicate) error { return g.inner.PredicatesForSubject(ctx, s, lo, c) })
}
func (g *fgraph) PredicatesForObject(ctx context.Context, o *triple.Object, lo *storage.LookupOptions, prds chan<- *predicate.Predicate) error {
	return stream(g, "PredicatesForObject", prds, func(c chan<- *predicate.Predicate) error { return g.inner.PredicatesForObject(ctx, o, lo, c) })
}
func (g *fgraph) PredicatesForSubjectAndObject(ctx context.Context, s *node.Node, o *triple.Object, lo *storage.LookupOptions, prds chan<- *predicate.Predicate) error {
	return stream(g, "PredicatesForSubjectAndObject", prds, func(c chan<- *predicate.Predicate) error {
		return g.inner.PredicatesForSubjectAndObject(ctx, s, o, lo, c)
	})
}
func (g *fgraph) TriplesForSubject(ctx context.Context, s *node.Node, lo *storage.LookupOptions, trpls chan<- *triple.Triple) error {
	return stream(g, "TriplesForSubject", trpls, func(c chan<- *triple.Triple) error { return g.inner.TriplesForSubject(ctx, s, lo, c) })
}
func (g *fgraph) TriplesForPredicate(ctx context.Context, p *predicate.Predicate, lo *storage.LookupOptions, trpls chan<- *triple.Triple) error {
	return stream(g, "TriplesForPredicate", trpls, func(c chan<- *triple.Triple) error { return g.inner.TriplesForPredicate(ctx, p, lo, c) })
}
func (g *fgraph) TriplesForObject(ctx context.Context, o *triple.Object, lo *storage.LookupOptions, trpls chan<- *triple.Triple) error {
	return stream(g, "TriplesForObject", trpls, func(c chan<- *triple.Triple) error { return g.inner.TriplesForObject(ctx, o, lo, c) })
}
func (g *fgraph) TriplesForSubjectAndPredicate(ctx context.Context, s *node.Node, p *predicate.Predicate, lo *storage.LookupOptions, trpls chan<- *triple.Triple) error {
	return stream(g, "TriplesForSubjectAndPredicate", trpls, func(c chan<- *triple.Triple) error {
		return g.inner.TriplesForSubjectAndPredicate(ctx, s, p, lo, c)
	})
}
func (g *fgraph) TriplesForPredicateAndObject(ctx context.Context, p *predicate.Predicate, o *triple.Object, lo *storage.LookupOptions, trpls chan<- *triple.Triple) error {
	return stream(g, "TriplesForPredicateAndObject", trpls, func(c chan<- *triple.Triple) error {
		return g.inner.TriplesForPredicateAndObject(ctx, p, o, lo, c)
	})
}
func (g *fgraph) Triples(ctx context.Context, lo *storage.LookupOptions, trpls chan<- *triple.Triple) error {
	return stream(g, "Triples", trpls, func(c chan<- *triple.Triple) error { return g.inner.Triples(ctx, lo, c) })
}

// ---------------------------------------------------------------- runs

type Run struct {
	Case    int                  `json:"case"`
	Bulk    int                  `json:"bulk"`
	Prefix  []string             `json:"prefix"`
	Prev    map[string][]VTriple `json:"prev"`
	Stmt    VStmt                `json:"stmt"`
	Reads   []string             `json:"reads"` // graphs of the lookups of the fault-free run, in order
	Sched   []SchedEntry         `json:"sched"`
	Class   string               `json:"class"`
	Err     string               `json:"err,omitempty"`
	Calls   []Call               `json:"calls"`
	After   map[string][]VTriple `json:"after"`
	GorDiff int                  `json:"goroutines_left"`
	Millis  int64                `json:"ms"`
	Memo    bool                 `json:"memo,omitempty"`  // executed through memoization.New(failing driver)
	Procs   int                  `json:"procs,omitempty"` // executed under this GOMAXPROCS (0 = default)
}
type SchedEntry struct {
	Call
	Fault
}

func build(ctx context.Context, prefix []string) storage.Store {
	st := memory.NewStore()
	for _, t := range prefix {
		if r := Execute(ctx, st, t, 100); r.Class != "ok" {
			fmt.Fprintln(os.Stderr, "prefix statement failed:", t, r.Err)
			os.Exit(2)
		}
	}
	return st
}

// settle waits (briefly) for the goroutine count to come back to the level before the statement.
func settle(before int) int {
	for i := 0; i < 400; i++ {
		if d := runtime.NumGoroutine() - before; d <= 0 {
			return d
		}
		time.Sleep(5 * time.Millisecond)
	}
	return runtime.NumGoroutine() - before
}

func oneRun(ctx context.Context, prefix []string, s VStmt, bulk int, sched []SchedEntry, b *Blanks) Run {
	return oneRunOn(ctx, prefix, s, bulk, sched, b, false)
}

func oneRunOn(ctx context.Context, prefix []string, s VStmt, bulk int, sched []SchedEntry, b *Blanks, memo bool) Run {
	inner := build(ctx, prefix)
	m := map[string]Fault{}
	for _, e := range sched {
		m[e.Call.key()] = e.Fault
	}
	fs := newFStore(inner, m)
	before := runtime.NumGoroutine()
	t0 := time.Now()
	var top storage.Store = fs
	if memo {
		top = memoization.New(fs)
	}
	r := Execute(ctx, top, s.Text, bulk)
	ms := time.Since(t0).Milliseconds()
	left := settle(before)
	fs.mu.Lock()
	calls := append([]Call{}, fs.log...)
	fs.mu.Unlock()
	return Run{Bulk: bulk, Prefix: prefix, Stmt: s, Sched: sched, Class: r.Class, Err: r.Err, Calls: calls,
		After: Listing(ctx, inner, b), GorDiff: left, Millis: ms, Memo: memo}
}

// one statement per driver entry point the planner can reach (the shapes of simpleFetch / simpleExist, the
// per-row specialisations, the writes, the graph calls); always run first
var coverage = []struct {
	text string
	ins  []string
}{
	{`SELECT ?p, ?o FROM ?a WHERE { /u<a> ?p ?o };`, []string{"?a"}},                              // S: TriplesForSubject
	{`SELECT ?s, ?o FROM ?a WHERE { ?s "p"@[] ?o };`, []string{"?a"}},                             // P: TriplesForPredicate
	{`SELECT ?s, ?p FROM ?a WHERE { ?s ?p /u<b> };`, []string{"?a"}},                              // O: TriplesForObject
	{`SELECT ?o FROM ?a, ?b WHERE { /u<a> "p"@[] ?o };`, []string{"?a", "?b"}},                    // SP: Objects
	{`SELECT ?p FROM ?a WHERE { /u<a> ?p /u<b> };`, []string{"?a"}},                               // SO: PredicatesForSubjectAndObject
	{`SELECT ?s FROM ?a WHERE { ?s "p"@[] /u<b> };`, []string{"?a"}},                              // PO: Subjects
	{`SELECT ?o FROM ?a WHERE { /u<a> "p"@[] /u<b> . /u<b> ?p ?o };`, []string{"?a"}},             // SPO: simpleExist -> Exist
	{`SELECT ?s, ?p, ?o FROM ?a WHERE { ?s ?p ?o };`, []string{"?a"}},                             // none: Triples
	{`SELECT ?s, ?o FROM ?a WHERE { ?s "p"@[] ?o . ?s "p"@[] ?o };`, []string{"?a"}},              // per row, fully bound: simpleFetch -> Exist
	{`SELECT ?s, ?x FROM ?a WHERE { ?s "p"@[] ?o . ?o "q"@[] ?x };`, []string{"?a"}},              // per row: Objects
	{`SELECT ?s, ?x FROM ?a WHERE { ?s "p"@[] ?o . ?x "q"@[] ?o };`, []string{"?a"}},              // per row: Subjects
	{`SELECT ?s, ?x FROM ?a WHERE { ?s "p"@[] ?o . OPTIONAL { ?o "q"@[] ?x } };`, []string{"?a"}}, // optional, per row
	{`SELECT ?s, ?p2 FROM ?a WHERE { ?s "p"@[] ?o . ?o ?p2 /t<c> };`, []string{"?a"}},             // per row: PredicatesForSubjectAndObject
	// a fully specified clause AFTER a clause that bound something = a condition on the rows found so far (simpleExist):
	// plain, with an alias, as OPTIONAL, and one that does not hold
	{`SELECT ?o FROM ?a WHERE { /u<a> "p"@[] ?o . /u<a> "p"@[] /u<b> };`, []string{"?a"}},
	{`SELECT ?o, ?x FROM ?a WHERE { /u<a> "p"@[] ?o . /u<a> "p"@[] /u<b> AS ?x };`, []string{"?a"}},
	{`SELECT ?o FROM ?a WHERE { /u<a> "p"@[] ?o . OPTIONAL { /u<a> "p"@[] /u<b> } };`, []string{"?a"}},
	{`SELECT ?o FROM ?a, ?b WHERE { /u<a> "p"@[] ?o . /u<b> "q"@[] /u<a> };`, []string{"?a", "?b"}},
}

const coverageData = `INSERT DATA INTO ?a { /u<a> "p"@[] /u<b> . /u<a> "p"@[] /t<c> . /u<b> "p"@[] /u<b> . /t<c> "p"@[] /u<b> . /u<b> "q"@[] /t<c> . /t<c> "q"@[] /u<b> . /u<a> "q"@[] /u<b> };`

// LIMIT that the planner pushes down to the driver (single clause, no GROUP BY / HAVING) and one it must not push down
var limitShapes = []struct {
	text string
	ins  []string
}{
	{`SELECT ?p, ?o FROM ?a WHERE { /u<a> ?p ?o } LIMIT "2"^^type:int64;`, []string{"?a"}},
	{`SELECT ?s, ?p, ?o FROM ?a WHERE { ?s ?p ?o } LIMIT "2"^^type:int64;`, []string{"?a"}},
	{`SELECT ?s, ?o FROM ?a WHERE { ?s "p"@[] ?o } LIMIT "1"^^type:int64;`, []string{"?a"}},
	{`SELECT ?s, ?o FROM ?a WHERE { ?s "p"@[] ?o } ORDER BY ?s LIMIT "2"^^type:int64;`, []string{"?a"}},
}

var fixedSelects = []struct {
	text string
	ins  []string
}{
	{`SELECT ?s, ?o FROM ?a WHERE { ?s "p"@[] ?o };`, []string{"?a"}},
	{`SELECT ?s, ?x FROM ?a, ?b WHERE { ?s "p"@[] ?o . ?o "q"@[] ?x };`, []string{"?a", "?b"}},
	{`SELECT ?s, ?x FROM ?a WHERE { ?s "p"@[] ?o . OPTIONAL { ?o "q"@[] ?x } };`, []string{"?a"}},
	{`SELECT ?s, count(?o) AS ?n FROM ?a, ?b WHERE { ?s ?p ?o } GROUP BY ?s;`, []string{"?a", "?b"}},
	{`SELECT ?s, ?o FROM ?b WHERE { ?s ?p ?o } ORDER BY ?s LIMIT "2"^^type:int64;`, []string{"?b"}},
	{`SELECT ?p FROM ?a WHERE { /u<a> ?p /u<b> };`, []string{"?a"}},
	{`SELECT ?o FROM ?a, ?b WHERE { /u<a> "p"@[] ?o };`, []string{"?a", "?b"}},
	{`SELECT ?s FROM ?a WHERE { ?s "p"@[] /u<b> };`, []string{"?a"}},
	{`SELECT ?s, ?t FROM ?a WHERE { ?s "r"@[?t] ?o };`, []string{"?a"}},
	{`SELECT ?o FROM ?a WHERE { /u<a> "p"@[] /u<b> . /u<b> ?p ?o };`, []string{"?a"}},
}

func main() {
	seed := flag.Int64("seed", 1, "PRNG seed")
	n := flag.Int("n", 40, "number of statements")
	only := flag.String("only", "", "run only this statement text (replay), over the standard prefix")
	maxIDs := flag.Int("maxids", 0, "inject at most this many of the calls a statement makes, evenly spread (0 = all)")
	deep := flag.Bool("deep", false, "also inject: failure after 2 elements, failure after 0 elements of a write")
	flag.Parse()
	ctx := context.Background()
	w := bufio.NewWriter(os.Stdout)
	defer w.Flush()
	enc := json.NewEncoder(w)
	rnd := rand.New(rand.NewSource(*seed))
	modes := []Fault{{Mode: "before"}, {Mode: "after", J: 1}, {Mode: "write"}, {Mode: "late", J: 1}, {Mode: "empty"}}
	if *deep {
		modes = append(modes, Fault{Mode: "after", J: 2}, Fault{Mode: "after", J: 0}, Fault{Mode: "typednil"})
	}
	bulks := []int{1, 2, 3, 100}

	pool := Pool(NewBlanks())
	for i := 0; i < *n; i++ {
		b := NewBlanks()
		g := &Gen{R: rnd, B: b}
		// the store the statement runs on: three graphs, data in two of them (no blank nodes: rebuilt for every run)
		prefix := []string{"CREATE GRAPH ?a, ?b, ?c;"}
		for _, gr := range []string{"?a", "?b"} {
			var tt []string
			for k := 0; k < 4+rnd.Intn(5); k++ {
				tt = append(tt, b.TripleText(g.DataTriple()))
			}
			prefix = append(prefix, "INSERT DATA INTO "+gr+" { "+strings.Join(tt, " . ")+" };")
		}
		var s VStmt
		fixedBulk := 0
		var extraModes []Fault
		twins := false
		memoToo := false
		switch {
		case *only == "" && i < len(coverage):
			prefix = append(prefix, coverageData)
			s = VStmt{Kind: "select", Ins: coverage[i].ins, Vars: []string{"?s"}, WB: []string{"?s"}, Text: coverage[i].text}
		case *only == "" && i < len(coverage)+len(pool):
			// the writes and graph calls: INSERT, DELETE, CREATE, DROP, CONSTRUCT (plain, `;`, anchor binding), DECONSTRUCT
			prefix = append(prefix, coverageData)
			s = pool[i-len(coverage)]
		case *only == "" && i == len(coverage)+len(pool):
			s = VStmt{Kind: "show", Text: "SHOW GRAPHS;"}
		case *only == "" && i <= len(coverage)+len(pool)+3:
			// INSERT / DELETE of 5-7 triples executed with bulk size 1 or 2: were the data written in bulks, every
			// write call but the last could fail unnoticed
			k := i - len(coverage) - len(pool)
			var ts []VTriple
			var tt []string
			for len(ts) < 4+k {
				t := g.DataTriple()
				dup := false
				for _, x := range tt {
					dup = dup || x == b.TripleText(t)
				}
				if !dup {
					ts = append(ts, t)
					tt = append(tt, b.TripleText(t))
				}
			}
			kind, kw, gs := "insert", "INSERT DATA INTO ", []string{"?a", "?c"}
			if k == 3 {
				kind, kw, gs = "delete", "DELETE DATA FROM ", []string{"?a"}
			}
			s = VStmt{Kind: kind, Gs: gs, Ts: ts, Text: kw + strings.Join(gs, ", ") + " { " + strings.Join(tt, " . ") + " };"}
			fixedBulk = []int{0, 1, 2, 2}[k]
		case *only == "" && i <= len(coverage)+len(pool)+3+len(limitShapes):
			// a pushed-down LIMIT: the lookup delivers LIMIT or more elements and THEN fails
			prefix = append(prefix, coverageData)
			f := limitShapes[i-len(coverage)-len(pool)-4]
			s = VStmt{Kind: "select", Ins: f.ins, Vars: []string{"?s"}, WB: []string{"?s"}, Text: f.text}
			extraModes = []Fault{{Mode: "after", J: 2}, {Mode: "after", J: 3}, {Mode: "late", J: 2}, {Mode: "late", J: 3}}
		case *only == "" && i <= len(coverage)+len(pool)+3+len(limitShapes)+3:
			// the same target graph listed twice: two writer goroutines for one graph name
			prefix = append(prefix, coverageData)
			k := i - len(coverage) - len(pool) - 3 - len(limitShapes)
			twins = true
			switch k {
			case 1, 2:
				var ts []VTriple
				var tt []string
				for len(ts) < 3 {
					t := g.DataTriple()
					ts = append(ts, t)
					tt = append(tt, b.TripleText(t))
				}
				kind, kw := "insert", "INSERT DATA INTO "
				if k == 2 {
					kind, kw = "delete", "DELETE DATA FROM "
				}
				s = VStmt{Kind: kind, Gs: []string{"?a", "?a"}, Ts: ts, Text: kw + "?a, ?a { " + strings.Join(tt, " . ") + " };"}
			default:
				s = pool[4] // CONSTRUCT { ?s "p2"@[] ?o } INTO ?b FROM ?a WHERE { ?s "p"@[] ?o }
				s.Outs = []string{"?b", "?b"}
				s.Text = strings.Replace(s.Text, "INTO ?b ", "INTO ?b, ?b ", 1)
			}
			fixedBulk = 100
		case *only == "" && i <= len(coverage)+len(pool)+3+len(limitShapes)+3+1:
			// sized reads: a lookup that delivers more than 300 elements and then fails (also through the memoizer,
			// which must not turn an oversized-but-failed result into success)
			k := i - len(coverage) - len(pool) - 3 - len(limitShapes) - 3
			var tt []string
			for j := 0; j < 320; j++ {
				tt = append(tt, fmt.Sprintf(`/u<n%d> "p"@[] /u<b>`, j))
			}
			prefix = append(prefix, "INSERT DATA INTO ?c { "+strings.Join(tt, " . ")+" };")
			text := `SELECT ?s, ?o FROM ?c WHERE { ?s "p"@[] ?o };`
			if k == 2 {
				text = `SELECT ?s FROM ?c WHERE { ?s "p"@[] /u<b> };`
			}
			s = VStmt{Kind: "select", Ins: []string{"?c"}, Vars: []string{"?s"}, WB: []string{"?s"}, Text: text}
			extraModes = []Fault{{Mode: "after", J: 300}, {Mode: "late", J: 300}, {Mode: "after", J: 257}}
			memoToo = true
		case *only != "":
			s = VStmt{Kind: "text", Text: *only}
		case i%10 == 5:
			s = VStmt{Kind: "show", Text: "SHOW GRAPHS;"}
		case i%4 == 3:
			f := fixedSelects[rnd.Intn(len(fixedSelects))]
			s = VStmt{Kind: "select", Ins: f.ins, Vars: []string{"?s"}, WB: []string{"?s"}, Text: f.text}
		default:
			for {
				s = g.Stmt()
				if s.Kind != "bad" {
					break
				}
			}
		}
		bulk := bulks[rnd.Intn(len(bulks))]
		if fixedBulk > 0 {
			bulk = fixedBulk
		}
		base := build(ctx, prefix)
		if s.Kind == "construct" || (s.Kind == "select" && s.Note != "") {
			s.Q = g.QueryHaving(ctx, base, s.Ins, s.WB, s.Note, s.Hav)
		} else if s.Kind == "select" {
			r := Execute(ctx, base, s.Text, bulk)
			s.Q = &VQ{Ok: r.Class == "ok", Rows: []map[string]*VCell{}}
		}
		prev := Listing(ctx, base, b)
		// measure
		m := oneRun(ctx, prefix, s, bulk, nil, b)
		m.Case, m.Prev = i, prev
		var reads []string
		seen := map[string]bool{}
		var ids []Call
		for _, c := range m.Calls {
			if c.Kind == "read" {
				reads = append(reads, c.Graph)
			}
			if !seen[c.key()] {
				seen[c.key()] = true
				ids = append(ids, c)
			}
		}
		m.Reads = reads
		enc.Encode(m)
		if *maxIDs > 0 && len(ids) > *maxIDs {
			var pick []Call
			for k := 0; k < *maxIDs; k++ {
				pick = append(pick, ids[k*len(ids) / *maxIDs])
			}
			ids = pick
		}
		if m.Class == "reject" {
			continue
		}
		for _, id := range ids {
			for _, f := range modes {
				if f.Mode == "late" && (id.Kind == "graph" || id.Kind == "newgraph" || id.Kind == "deletegraph") {
					continue // nothing is streamed or partially applied there: same as "before"
				}
				if (f.Mode == "empty" || f.Mode == "typednil") && id.Kind == "read" && id.Occ > 0 && !*deep {
					continue // quick tier: the empty error message on every write / graph call and on the first lookup per graph
				}
				r := oneRun(ctx, prefix, s, bulk, []SchedEntry{{id, f}}, b)
				r.Case, r.Prev, r.Reads = i, prev, reads
				enc.Encode(r)
			}
		}
		for _, id := range ids {
			for _, f := range extraModes {
				if id.Kind != "read" {
					continue
				}
				r := oneRun(ctx, prefix, s, bulk, []SchedEntry{{id, f}}, b)
				r.Case, r.Prev, r.Reads = i, prev, reads
				enc.Encode(r)
			}
		}
		// twin calls (same kind and graph, two goroutines): one fails at once, the other is slow and succeeds afterwards
		if twins {
			for _, x := range ids {
				for _, y := range ids {
					if x.Kind == y.Kind && x.Graph == y.Graph && x.Occ != y.Occ && (x.Kind == "add" || x.Kind == "remove" || x.Kind == "graph") {
						for _, f := range []Fault{{Mode: "before"}, {Mode: "after", J: 1}} {
							r := oneRun(ctx, prefix, s, bulk, []SchedEntry{{x, f}, {y, Fault{Mode: "delay"}}}, b)
							r.Case, r.Prev, r.Reads = i, prev, reads
							enc.Encode(r)
						}
					}
				}
			}
		}
		// joins under GOMAXPROCS 1: the per-row lookups of a clause share one processor
		if s.Kind == "select" && strings.Contains(s.Text, " . ") {
			old := runtime.GOMAXPROCS(1)
			for _, id := range ids {
				if id.Kind != "read" {
					continue
				}
				for _, f := range []Fault{{Mode: "before"}, {Mode: "after", J: 1}} {
					r := oneRun(ctx, prefix, s, bulk, []SchedEntry{{id, f}}, b)
					r.Case, r.Prev, r.Reads, r.Procs = i, prev, reads, 1
					enc.Encode(r)
				}
			}
			// every lookup of the statement failing
			var all []SchedEntry
			for _, id := range ids {
				if id.Kind == "read" {
					all = append(all, SchedEntry{id, Fault{Mode: "before"}})
				}
			}
			if len(all) > 0 {
				r := oneRun(ctx, prefix, s, bulk, all, b)
				r.Case, r.Prev, r.Reads, r.Procs = i, prev, reads, 1
				enc.Encode(r)
			}
			runtime.GOMAXPROCS(old)
		}
		// two simultaneous failures
		if len(ids) >= 2 {
			ai := rnd.Intn(len(ids))
			ci := (ai + 1 + rnd.Intn(len(ids)-1)) % len(ids) // two different calls
			a, c := ids[ai], ids[ci]
			r := oneRun(ctx, prefix, s, bulk, []SchedEntry{{a, modes[rnd.Intn(len(modes))]}, {c, modes[rnd.Intn(len(modes))]}}, b)
			r.Case, r.Prev, r.Reads = i, prev, reads
			enc.Encode(r)
		}
		// the same statement through the memoizing store on top of the failing driver (joins: several lookups in flight)
		if memoToo || (s.Kind == "select" && strings.Contains(s.Text, " . ")) {
			mm := oneRunOn(ctx, prefix, s, bulk, nil, b, true)
			mm.Case, mm.Prev, mm.Reads = i, prev, reads
			enc.Encode(mm)
			mseen := map[string]bool{}
			for _, c := range mm.Calls {
				if mseen[c.key()] {
					continue
				}
				mseen[c.key()] = true
				mm := modes
				if c.Kind == "read" {
					mm = append(append([]Fault{}, modes...), extraModes...)
				}
				for _, f := range mm {
					if c.Kind == "graph" && f.Mode != "before" {
						continue
					}
					r := oneRunOn(ctx, prefix, s, bulk, []SchedEntry{{c, f}}, b, true)
					r.Case, r.Prev, r.Reads = i, prev, reads
					enc.Encode(r)
				}
			}
		}
		if *only != "" {
			break
		}
	}
}
