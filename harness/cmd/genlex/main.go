// genlex: translator from /repo/bql/lexer/lexer.go (go/ast, current working tree) to coq/Lexer/Gen/LexTablesGen.v.
//
// Emitted (the data the hand-written lexer model coq/Lexer/Lexer.v is parametrised by):
//   - the TokenType constants in iota order (Item* : N),
//   - the rune constants and the two marker strings (anchor, literalType),
//   - the keyword table, from the chain  if strings.EqualFold(input, K) { consumeKeyword(l, ItemX); return lexSpace }
//     in source order,
//   - the single-symbol table, from the chain  if state := isSingleSymbolToken(l, ItemX, c); state != nil { return state },
//   - the literal type list of lexLiteral's  case literalBool, ...:,
//   - the lastTokenType sets of lexToken that switch to lexPredicateGlobalTime / lexTime / lexFilterFunction.
//
// Every statement of lexKeyword, lexToken, isSingleSymbolToken and consumeKeyword must have the expected shape; the
// statements around the tables are compared with their expected source text.  Anything else aborts with the
// position of the offending statement (exit status 2), which the check reports as a broken obligation.
//
// Usage: genlex -o <file>   (cwd = repository root; write-if-changed)
package main

import (
	"bytes"
	"flag"
	"fmt"
	"go/ast"
	"go/parser"
	"go/printer"
	"go/token"
	"os"
	"strconv"
	"strings"
	"unicode"
)

var fset = token.NewFileSet()

func die(n ast.Node, format string, a ...interface{}) {
	pos := "?"
	if n != nil {
		pos = fset.Position(n.Pos()).String()
	}
	fmt.Fprintf(os.Stderr, "genlex: %s: %s\n", pos, fmt.Sprintf(format, a...))
	os.Exit(2)
}

func src(n ast.Node) string {
	var b bytes.Buffer
	printer.Fprint(&b, fset, n)
	// normalise whitespace
	return strings.Join(strings.Fields(b.String()), " ")
}

func expectSrc(n ast.Node, want string) {
	if got := src(n); got != strings.Join(strings.Fields(want), " ") {
		die(n, "statement does not have the expected shape\n  got:  %s\n  want: %s", got, want)
	}
}

type consts struct {
	kinds     []string          // TokenType names in iota order
	kindIdx   map[string]int    // name -> number
	runes     map[string]int64  // rune constants
	runeOrder []string
	strs      map[string]string // string constants
	strOrder  []string
}

func readConsts(f *ast.File) *consts {
	c := &consts{kindIdx: map[string]int{}, runes: map[string]int64{}, strs: map[string]string{}}
	for _, d := range f.Decls {
		gd, ok := d.(*ast.GenDecl)
		if !ok || gd.Tok != token.CONST {
			continue
		}
		// TokenType block?
		first := gd.Specs[0].(*ast.ValueSpec)
		if id, ok := first.Type.(*ast.Ident); ok && id.Name == "TokenType" {
			if len(first.Values) != 1 || src(first.Values[0]) != "iota" {
				die(first, "TokenType block must start with = iota")
			}
			for i, s := range gd.Specs {
				vs := s.(*ast.ValueSpec)
				if len(vs.Names) != 1 || (i > 0 && (vs.Type != nil || len(vs.Values) != 0)) {
					die(vs, "TokenType constant with explicit type/value")
				}
				c.kindIdx[vs.Names[0].Name] = len(c.kinds)
				c.kinds = append(c.kinds, vs.Names[0].Name)
			}
			continue
		}
		for _, s := range gd.Specs {
			vs := s.(*ast.ValueSpec)
			if len(vs.Names) != 1 || len(vs.Values) != 1 {
				die(vs, "constant with unexpected shape")
			}
			name := vs.Names[0].Name
			switch v := vs.Values[0].(type) {
			case *ast.BasicLit:
				if v.Kind != token.STRING {
					die(vs, "constant %s: expected a string literal", name)
				}
				s, err := strconv.Unquote(v.Value)
				if err != nil {
					die(vs, "constant %s: %v", name, err)
				}
				c.strs[name] = s
				c.strOrder = append(c.strOrder, name)
			case *ast.CallExpr:
				if fn, ok := v.Fun.(*ast.Ident); !ok || fn.Name != "rune" || len(v.Args) != 1 {
					die(vs, "constant %s: expected rune(...)", name)
				}
				c.runes[name] = runeValue(v.Args[0])
				c.runeOrder = append(c.runeOrder, name)
			default:
				die(vs, "constant %s: unexpected value %s", name, src(vs.Values[0]))
			}
		}
	}
	if len(c.kinds) == 0 {
		die(f, "no TokenType constant block found")
	}
	return c
}

func runeValue(e ast.Expr) int64 {
	switch v := e.(type) {
	case *ast.BasicLit:
		if v.Kind == token.CHAR {
			r, _, _, err := strconv.UnquoteChar(v.Value[1:len(v.Value)-1], '\'')
			if err != nil {
				die(e, "bad rune literal %s", v.Value)
			}
			return int64(r)
		}
		if v.Kind == token.INT {
			n, err := strconv.ParseInt(v.Value, 0, 64)
			if err != nil {
				die(e, "bad int literal")
			}
			return n
		}
	case *ast.UnaryExpr:
		if v.Op == token.SUB {
			return -runeValue(v.X)
		}
	}
	die(e, "unsupported rune constant expression %s", src(e))
	return 0
}

func funcs(f *ast.File) map[string]*ast.FuncDecl {
	m := map[string]*ast.FuncDecl{}
	for _, d := range f.Decls {
		if fd, ok := d.(*ast.FuncDecl); ok && fd.Recv == nil {
			m[fd.Name.Name] = fd
		}
	}
	return m
}

type kw struct {
	text string
	kind string
}

// lexKeyword: preamble, EqualFold chain, tail.
func readKeywords(c *consts, fd *ast.FuncDecl) []kw {
	st := fd.Body.List
	if len(st) < 7 {
		die(fd, "lexKeyword: too few statements")
	}
	expectSrc(st[0], "input := l.input[l.pos:]")
	expectSrc(st[1], "f := func(r rune) bool { return !unicode.IsLetter(r) }")
	expectSrc(st[2], "if idx := strings.IndexFunc(input, f); idx >= 0 { input = input[:idx] }")
	n := len(st)
	expectSrc(st[n-3], "for { r := l.next() if unicode.IsSpace(r) || r == eof { l.backup() break } }")
	if es, ok := st[n-2].(*ast.ExprStmt); !ok || !strings.HasPrefix(src(es), "l.emitError(") {
		die(st[n-2], "lexKeyword: expected l.emitError(...)")
	}
	expectSrc(st[n-1], "return nil")
	var out []kw
	seen := map[string]bool{}
	for _, s := range st[3 : n-3] {
		is, ok := s.(*ast.IfStmt)
		if !ok || is.Init != nil || is.Else != nil {
			die(s, "lexKeyword: expected  if strings.EqualFold(input, K) {...}")
		}
		call, ok := is.Cond.(*ast.CallExpr)
		if !ok || src(call.Fun) != "strings.EqualFold" || len(call.Args) != 2 || src(call.Args[0]) != "input" {
			die(s, "lexKeyword: condition is not strings.EqualFold(input, K): %s", src(is.Cond))
		}
		kid, ok := call.Args[1].(*ast.Ident)
		if !ok {
			die(s, "lexKeyword: keyword is not a constant name")
		}
		text, ok := c.strs[kid.Name]
		if !ok {
			die(s, "lexKeyword: unknown string constant %s", kid.Name)
		}
		if len(is.Body.List) != 2 {
			die(s, "lexKeyword: body must be consumeKeyword(l, ItemX); return lexSpace")
		}
		es, ok := is.Body.List[0].(*ast.ExprStmt)
		if !ok {
			die(is.Body.List[0], "lexKeyword: expected consumeKeyword(l, ItemX)")
		}
		c2, ok := es.X.(*ast.CallExpr)
		if !ok || src(c2.Fun) != "consumeKeyword" || len(c2.Args) != 2 || src(c2.Args[0]) != "l" {
			die(es, "lexKeyword: expected consumeKeyword(l, ItemX)")
		}
		kind := src(c2.Args[1])
		if _, ok := c.kindIdx[kind]; !ok {
			die(es, "lexKeyword: unknown token type %s", kind)
		}
		expectSrc(is.Body.List[1], "return lexSpace")
		if text == "" {
			die(s, "lexKeyword: empty keyword")
		}
		for _, r := range text {
			if !(r >= 'a' && r <= 'z') {
				die(s, "lexKeyword: keyword %q is not made of ASCII lower-case letters (the model's EqualFold assumes it)", text)
			}
		}
		if seen[text] {
			die(s, "lexKeyword: keyword %q tested twice", text)
		}
		seen[text] = true
		out = append(out, kw{text, kind})
	}
	if len(out) == 0 {
		die(fd, "lexKeyword: no keyword found")
	}
	return out
}

type sym struct {
	kind string
	r    string // rune constant name
}

// "l.lastTokenType == A || l.lastTokenType == B ..." -> [A B ...]
func lastSet(c *consts, e ast.Expr) []string {
	if p, ok := e.(*ast.ParenExpr); ok {
		return lastSet(c, p.X)
	}
	b, ok := e.(*ast.BinaryExpr)
	if !ok {
		die(e, "expected a comparison of l.lastTokenType")
	}
	if b.Op == token.LOR {
		return append(lastSet(c, b.X), lastSet(c, b.Y)...)
	}
	if b.Op != token.EQL || src(b.X) != "l.lastTokenType" {
		die(e, "expected l.lastTokenType == ItemX, got %s", src(e))
	}
	k := src(b.Y)
	if _, ok := c.kindIdx[k]; !ok {
		die(e, "unknown token type %s", k)
	}
	return []string{k}
}

type tokenTables struct {
	symbols                        []sym
	globalTime, localTime, filterF []string
}

func readLexToken(c *consts, fd *ast.FuncDecl) tokenTables {
	var t tokenTables
	st := fd.Body.List
	if len(st) != 3 {
		die(fd, "lexToken: expected for{...}; l.emit(ItemEOF); return nil")
	}
	expectSrc(st[1], "l.emit(ItemEOF)")
	expectSrc(st[2], "return nil")
	loop, ok := st[0].(*ast.ForStmt)
	if !ok || loop.Init != nil || loop.Cond != nil || loop.Post != nil {
		die(st[0], "lexToken: expected for { ... }")
	}
	body := loop.Body.List
	if len(body) < 3 {
		die(loop, "lexToken: loop body too short")
	}
	// first block: dispatch on the peeked rune
	b1, ok := body[0].(*ast.BlockStmt)
	if !ok || len(b1.List) != 5 {
		die(body[0], "lexToken: expected the dispatch block with 5 statements")
	}
	expectSrc(b1.List[0], "r := l.peek()")
	digitIf := func(s ast.Stmt, target string) []string {
		is, ok := s.(*ast.IfStmt)
		if !ok || is.Init != nil || is.Else != nil {
			die(s, "lexToken: expected if unicode.IsDigit(r) && (...) { return %s }", target)
		}
		be, ok := is.Cond.(*ast.BinaryExpr)
		if !ok || be.Op != token.LAND || src(be.X) != "unicode.IsDigit(r)" {
			die(s, "lexToken: expected unicode.IsDigit(r) && (...)")
		}
		if len(is.Body.List) != 1 {
			die(s, "lexToken: expected a single return")
		}
		expectSrc(is.Body.List[0], "return "+target)
		return lastSet(c, be.Y)
	}
	t.globalTime = digitIf(b1.List[1], "lexPredicateGlobalTime")
	t.localTime = digitIf(b1.List[2], "lexTime")
	expectSrc(b1.List[3], `switch r { case binding: l.next() return lexBinding case slash: return lexNode case underscore: l.next() return lexBlankNode case quote: return lexPredicateOrLiteral }`)
	li, ok := b1.List[4].(*ast.IfStmt)
	if !ok || src(li.Cond) != "unicode.IsLetter(r)" || li.Else != nil || len(li.Body.List) != 2 {
		die(b1.List[4], "lexToken: expected if unicode.IsLetter(r) { if <lastTokenType test> { return lexFilterFunction }; return lexKeyword }")
	}
	fi, ok := li.Body.List[0].(*ast.IfStmt)
	if !ok || fi.Else != nil || len(fi.Body.List) != 1 {
		die(li.Body.List[0], "lexToken: expected if <lastTokenType test> { return lexFilterFunction }")
	}
	expectSrc(fi.Body.List[0], "return lexFilterFunction")
	t.filterF = lastSet(c, fi.Cond)
	expectSrc(li.Body.List[1], "return lexKeyword")
	// symbol chain
	for _, s := range body[1 : len(body)-1] {
		is, ok := s.(*ast.IfStmt)
		if !ok || is.Else != nil || is.Init == nil {
			die(s, "lexToken: expected if state := isSingleSymbolToken(l, ItemX, c); state != nil { return state }")
		}
		as, ok := is.Init.(*ast.AssignStmt)
		if !ok || len(as.Lhs) != 1 || src(as.Lhs[0]) != "state" || len(as.Rhs) != 1 {
			die(s, "lexToken: expected state := isSingleSymbolToken(...)")
		}
		call, ok := as.Rhs[0].(*ast.CallExpr)
		if !ok || src(call.Fun) != "isSingleSymbolToken" || len(call.Args) != 3 || src(call.Args[0]) != "l" {
			die(s, "lexToken: expected isSingleSymbolToken(l, ItemX, c)")
		}
		if src(is.Cond) != "state != nil" || len(is.Body.List) != 1 {
			die(s, "lexToken: expected ; state != nil { return state }")
		}
		expectSrc(is.Body.List[0], "return state")
		kind, rn := src(call.Args[1]), src(call.Args[2])
		if _, ok := c.kindIdx[kind]; !ok {
			die(s, "lexToken: unknown token type %s", kind)
		}
		if _, ok := c.runes[rn]; !ok {
			die(s, "lexToken: unknown rune constant %s", rn)
		}
		t.symbols = append(t.symbols, sym{kind, rn})
	}
	expectSrc(body[len(body)-1], "{ r := l.next() if unicode.IsSpace(r) { l.ignore() continue } if l.next() == eof { break } }")
	return t
}

func readLiteralTypes(c *consts, fd *ast.FuncDecl) []string {
	var out []string
	var found ast.Node
	ast.Inspect(fd.Body, func(n ast.Node) bool {
		sw, ok := n.(*ast.SwitchStmt)
		if !ok || sw.Tag == nil || src(sw.Tag) != "literalT" {
			return true
		}
		if found != nil {
			die(sw, "lexLiteral: more than one switch literalT")
		}
		found = sw
		if len(sw.Body.List) != 2 {
			die(sw, "lexLiteral: switch literalT must have one case list and a default")
		}
		cc := sw.Body.List[0].(*ast.CaseClause)
		df := sw.Body.List[1].(*ast.CaseClause)
		if cc.List == nil || df.List != nil {
			die(sw, "lexLiteral: expected case <types>: ... default: ...")
		}
		for _, e := range cc.List {
			id, ok := e.(*ast.Ident)
			if !ok {
				die(e, "lexLiteral: literal type is not a constant name")
			}
			s, ok := c.strs[id.Name]
			if !ok {
				die(e, "lexLiteral: unknown string constant %s", id.Name)
			}
			for _, r := range s {
				if !((r >= 'a' && r <= 'z') || (r >= '0' && r <= '9')) {
					die(e, "lexLiteral: literal type %q is not lower-case ASCII letters/digits", s)
				}
			}
			out = append(out, s)
		}
		if len(cc.Body) != 3 {
			die(cc, "lexLiteral: expected l.backup(); l.emit(ItemLiteral); done = true")
		}
		expectSrc(cc.Body[0], "l.backup()")
		expectSrc(cc.Body[1], "l.emit(ItemLiteral)")
		expectSrc(cc.Body[2], "done = true")
		if len(df.Body) != 2 || !strings.HasPrefix(src(df.Body[0]), "l.emitError(") {
			die(df, "lexLiteral: expected default: l.emitError(...); return nil")
		}
		expectSrc(df.Body[1], "return nil")
		return false
	})
	if found == nil {
		die(fd, "lexLiteral: switch literalT not found")
	}
	// the statement before the switch lower-cases the collected type
	ok := false
	ast.Inspect(fd.Body, func(n ast.Node) bool {
		if as, isAs := n.(*ast.AssignStmt); isAs && src(as) == "literalT = strings.ToLower(literalT)" {
			ok = true
		}
		return true
	})
	if !ok {
		die(fd, "lexLiteral: literalT = strings.ToLower(literalT) not found")
	}
	return out
}

func coqBytes(s string) string {
	var parts []string
	for _, b := range []byte(s) {
		parts = append(parts, fmt.Sprintf("x%02x", b))
	}
	return "[" + strings.Join(parts, ";") + "]"
}

func coqZ(n int64) string {
	if n < 0 {
		return fmt.Sprintf("(%d)", n)
	}
	return fmt.Sprintf("%d", n)
}

func main() {
	out := flag.String("o", "", "output .v file")
	in := flag.String("src", "bql/lexer/lexer.go", "lexer source (relative to cwd = repository root)")
	flag.Parse()
	f, err := parser.ParseFile(fset, *in, nil, 0)
	if err != nil {
		fmt.Fprintln(os.Stderr, "genlex:", err)
		os.Exit(2)
	}
	c := readConsts(f)
	fs := funcs(f)
	for _, n := range []string{"lexToken", "isSingleSymbolToken", "lexKeyword", "consumeKeyword", "lexLiteral", "lexPredicate"} {
		if fs[n] == nil {
			die(f, "function %s not found", n)
		}
	}
	kws := readKeywords(c, fs["lexKeyword"])
	tt := readLexToken(c, fs["lexToken"])
	expectSrc(fs["isSingleSymbolToken"].Body, "{ if r := l.peek(); r == symbol { l.next() l.emit(tt) return lexSpace } return nil }")
	expectSrc(fs["consumeKeyword"].Body, "{ for { if r := l.next(); !unicode.IsLetter(r) || r == eof { l.backup() l.emit(t) break } } }")
	lts := readLiteralTypes(c, fs["lexLiteral"])
	for _, need := range []string{"anchor", "literalType"} {
		if _, ok := c.strs[need]; !ok {
			die(f, "string constant %s not found", need)
		}
	}
	for _, need := range []string{"eof", "binding", "leftPar", "rightPar", "rightSquarePar", "colon", "semicolon", "comma", "slash",
		"underscore", "backSlash", "lt", "gt", "quote"} {
		if _, ok := c.runes[need]; !ok {
			die(f, "rune constant %s not found", need)
		}
	}
	for _, need := range []string{"ItemError", "ItemEOF", "ItemBinding", "ItemNode", "ItemBlankNode", "ItemLiteral", "ItemPredicate",
		"ItemPredicateBound", "ItemTime", "ItemFilterFunction"} {
		if _, ok := c.kindIdx[need]; !ok {
			die(f, "token type %s not found", need)
		}
	}
	if c.kindIdx["ItemError"] != 0 || c.kindIdx["ItemEOF"] != 1 {
		die(f, "ItemError/ItemEOF are expected to be 0/1")
	}

	var b strings.Builder
	b.WriteString("(* GENERATED by harness/cmd/genlex from /repo bql/lexer/lexer.go. Do not edit. *)\n")
	b.WriteString("From Coq Require Import List NArith ZArith.\nFrom Coq.Strings Require Import Byte.\nImport ListNotations.\n\n")
	b.WriteString("(* TokenType constants in iota order *)\n")
	for i, k := range c.kinds {
		fmt.Fprintf(&b, "Definition %s : N := %d%%N.\n", k, i)
	}
	fmt.Fprintf(&b, "Definition token_type_count : N := %d%%N.\n", len(c.kinds))
	b.WriteString("Definition token_type_names : list (N * list byte) := [\n")
	for i, k := range c.kinds {
		sep := ";"
		if i == len(c.kinds)-1 {
			sep = ""
		}
		fmt.Fprintf(&b, "  (%d%%N, %s)%s\n", i, coqBytes(k), sep)
	}
	b.WriteString("].\n\n(* rune constants *)\n")
	for _, n := range c.runeOrder {
		fmt.Fprintf(&b, "Definition r_%s : Z := %s%%Z.\n", n, coqZ(c.runes[n]))
	}
	b.WriteString("\n(* string constants used by consume() *)\n")
	fmt.Fprintf(&b, "Definition s_anchor : list byte := %s.\n", coqBytes(c.strs["anchor"]))
	fmt.Fprintf(&b, "Definition s_literalType : list byte := %s.\n", coqBytes(c.strs["literalType"]))
	b.WriteString("\n(* lexKeyword: strings.EqualFold(input, K) -> consumeKeyword(l, ItemX), in source order *)\n")
	b.WriteString("Definition keywords : list (list byte * N) := [\n")
	for i, k := range kws {
		sep := ";"
		if i == len(kws)-1 {
			sep = ""
		}
		fmt.Fprintf(&b, "  (%s, %s)%s (* %s *)\n", coqBytes(k.text), k.kind, sep, k.text)
	}
	b.WriteString("].\n\n(* lexToken: isSingleSymbolToken(l, ItemX, c) chain, in source order *)\n")
	b.WriteString("Definition single_symbols : list (Z * N) := [\n")
	for i, s := range tt.symbols {
		sep := ";"
		if i == len(tt.symbols)-1 {
			sep = ""
		}
		fmt.Fprintf(&b, "  (r_%s, %s)%s\n", s.r, s.kind, sep)
	}
	b.WriteString("].\n\n(* lexLiteral: accepted (lower-cased) type names *)\n")
	b.WriteString("Definition literal_types : list (list byte) := [\n")
	for i, s := range lts {
		sep := ";"
		if i == len(lts)-1 {
			sep = ""
		}
		fmt.Fprintf(&b, "  %s%s (* %s *)\n", coqBytes(s), sep, s)
	}
	b.WriteString("].\n\n(* lexToken: values of lastTokenType that switch a digit to lexPredicateGlobalTime / lexTime and a letter to\n   lexFilterFunction *)\n")
	fmt.Fprintf(&b, "Definition last_global_time : list N := [%s].\n", strings.Join(tt.globalTime, "; "))
	fmt.Fprintf(&b, "Definition last_local_time : list N := [%s].\n", strings.Join(tt.localTime, "; "))
	fmt.Fprintf(&b, "Definition last_filter_function : list N := [%s].\n", strings.Join(tt.filterF, "; "))

	emitUnicode(&b)

	if *out == "" {
		fmt.Print(b.String())
		return
	}
	if old, err := os.ReadFile(*out); err == nil && string(old) == b.String() {
		return
	}
	if err := os.WriteFile(*out, []byte(b.String()), 0o644); err != nil {
		fmt.Fprintln(os.Stderr, "genlex:", err)
		os.Exit(2)
	}
}

// emitUnicode writes the tables of the Go toolchain's unicode package that the lexer consults (IsLetter = category L,
// IsDigit = Nd, IsSpace = White_Space, ToLower) as range lists, so that the model classifies every rune like the
// implementation built with the same toolchain.
func emitUnicode(b *strings.Builder) {
	b.WriteString("\n(* unicode tables of the Go toolchain (version " + unicode.Version + "): (lo, hi, stride) *)\n")
	ranges := func(name string, t *unicode.RangeTable) {
		fmt.Fprintf(b, "Definition %s : list (Z * Z * Z) := [\n", name)
		var items []string
		for _, r := range t.R16 {
			items = append(items, fmt.Sprintf("  (%d, %d, %d)%%Z", r.Lo, r.Hi, r.Stride))
		}
		for _, r := range t.R32 {
			items = append(items, fmt.Sprintf("  (%d, %d, %d)%%Z", r.Lo, r.Hi, r.Stride))
		}
		b.WriteString(strings.Join(items, ";\n"))
		b.WriteString("\n].\n")
	}
	ranges("uni_letter_ranges", unicode.Letter)
	ranges("uni_digit_ranges", unicode.Nd)
	ranges("uni_space_ranges", unicode.White_Space)
	// ToLower as maximal runs [lo, hi] with a constant non-zero delta
	b.WriteString("(* unicode.ToLower: (lo, hi, delta) with ToLower r = r + delta on [lo, hi]; identity elsewhere *)\n")
	b.WriteString("Definition uni_lower_runs : list (Z * Z * Z) := [\n")
	var items []string
	start, prev, delta := rune(-1), rune(-1), rune(0)
	flush := func() {
		if start >= 0 {
			items = append(items, fmt.Sprintf("  (%d, %d, %s)%%Z", start, prev, coqZ(int64(delta))))
		}
		start = -1
	}
	for r := rune(0); r <= unicode.MaxRune; r++ {
		d := unicode.ToLower(r) - r
		if d == 0 {
			flush()
			continue
		}
		if start >= 0 && r == prev+1 && d == delta {
			prev = r
			continue
		}
		flush()
		start, prev, delta = r, r, d
	}
	flush()
	b.WriteString(strings.Join(items, ";\n"))
	b.WriteString("\n].\n")
}
