// Concurrency mode of h_lex (-conc): termination and channel closure must not depend on what the consumers of OTHER
// lexers in the process do.
//
// N = GOMAXPROCS+2 lexers are opened on statements with many tokens (capacities 0, 2, 5 in turn) and exactly ONE token
// is read from each, so that every lexer goroutine is alive and blocked in a send.  Then further statements (one of
// them the empty string) are lexed to the end.  Finally the N pending lexers are drained, interleaved one token at a
// time.  Every channel must deliver the complete token list (the check compares it with the model) and be closed.
//
// A receive that does not complete is judged by the goroutine dump, not by the clock alone: if in two consecutive dumps
// every goroutine that runs lexer code is blocked on a channel operation (none running or runnable) nothing in the
// process can ever complete the receive -- that is a verdict after a second or two, on any machine.  As long as some
// lexer goroutine is runnable the harness keeps waiting, up to 60 s; a deadline missed with runnable goroutines is
// reported as inconclusive (no alarm).
package main

import (
	"encoding/hex"
	"fmt"
	"math/rand"
	"regexp"
	"runtime"
	"sort"
	"strings"
	"time"

	"github.com/google/badwolf/bql/grammar"
	"github.com/google/badwolf/bql/lexer"
	"verif/harness/internal/gram"
)

type lexGoroutine struct {
	state string // e.g. "chan send", "runnable"
	top   string // innermost function of the lexer package on the stack
}

var goroutineHeader = regexp.MustCompile(`^goroutine \d+ \[([^\],]+)`)

// lexerGoroutines parses a full goroutine dump and returns the goroutines that have a frame of the lexer package.
func lexerGoroutines() []lexGoroutine {
	buf := make([]byte, 1<<20)
	for {
		n := runtime.Stack(buf, true)
		if n < len(buf) {
			buf = buf[:n]
			break
		}
		buf = make([]byte, 2*len(buf))
	}
	var out []lexGoroutine
	for _, block := range strings.Split(string(buf), "\n\n") {
		lines := strings.Split(block, "\n")
		m := goroutineHeader.FindStringSubmatch(lines[0])
		if m == nil {
			continue
		}
		top := ""
		for _, l := range lines[1:] {
			if strings.HasPrefix(l, "github.com/google/badwolf/bql/lexer.") {
				top = strings.TrimPrefix(l, "github.com/google/badwolf/bql/lexer.")
				recv := ""
				if strings.HasPrefix(top, "(*lexer).") {
					recv, top = "(*lexer).", top[len("(*lexer)."):]
				}
				if i := strings.Index(top, "("); i > 0 {
					top = top[:i]
				}
				top = recv + top
				break
			}
		}
		if top != "" {
			out = append(out, lexGoroutine{m[1], top})
		}
	}
	return out
}

func blockedState(s string) bool {
	return strings.HasPrefix(s, "chan send") || strings.HasPrefix(s, "chan receive") || strings.HasPrefix(s, "select") ||
		strings.HasPrefix(s, "semacquire") || strings.HasPrefix(s, "sync.")
}

// quiescent: at least one lexer goroutine exists and all of them are blocked
func quiescent(gs []lexGoroutine) bool {
	if len(gs) == 0 {
		return false
	}
	for _, g := range gs {
		if !blockedState(g.state) {
			return false
		}
	}
	return true
}

func summarize(gs []lexGoroutine) string {
	cnt := map[string]int{}
	for _, g := range gs {
		cnt[g.state+" in "+g.top]++
	}
	var keys []string
	for k := range cnt {
		keys = append(keys, k)
	}
	sort.Strings(keys)
	var parts []string
	for _, k := range keys {
		parts = append(parts, fmt.Sprintf("%d x %s", cnt[k], k))
	}
	return strings.Join(parts, "; ")
}

// recvVerdict receives one token.  ok=false,closed=true: channel closed.  verdict != "": the receive can never complete
// ("deadlock: ...") or the deadline passed with runnable goroutines ("inconclusive: ...").
func recvVerdict(c <-chan lexer.Token) (t lexer.Token, ok bool, verdict string) {
	deadline := time.Now().Add(60 * time.Second)
	quiet := 0
	wait := 50 * time.Millisecond
	for {
		select {
		case t, ok = <-c:
			return t, ok, ""
		case <-time.After(wait):
		}
		if wait < 500*time.Millisecond {
			wait *= 2
			continue // the first ~0.7 s: just wait
		}
		gs := lexerGoroutines()
		if quiescent(gs) {
			quiet++
			if quiet >= 3 { // three consecutive dumps, 0.5 s apart: nothing in the process can serve this receive
				return t, false, "deadlock: every lexer goroutine is blocked (" + summarize(gs) + ") while the consumer waits for a token"
			}
		} else {
			quiet = 0
		}
		if time.Now().After(deadline) {
			return t, false, "inconclusive: 60 s deadline passed but lexer goroutines are still runnable (" + summarize(gs) + ")"
		}
	}
}

type pending struct {
	input string
	cap   int
	c     <-chan lexer.Token
	toks  []tok
	done  bool
	hang  string
}

func (p *pending) readOne() {
	if p.done || p.hang != "" {
		return
	}
	t, ok, v := recvVerdict(p.c)
	switch {
	case v != "":
		p.hang = v
	case !ok:
		p.done = true
	default:
		p.toks = append(p.toks, tok{int(t.Type), t.Text})
		if len(p.toks) > 4*len(p.input)+16 {
			p.hang = "endless token stream"
		}
	}
}

func (p *pending) emitRow(phase string) {
	r := rec{G: "conc", In: hex.EncodeToString([]byte(p.input)), Closed: p.done, CapsEqual: true, Of: -1, Form: phase}
	r.Toks = [][]interface{}{}
	for _, t := range p.toks {
		r.Toks = append(r.Toks, []interface{}{t.K, hex.EncodeToString([]byte(t.T))})
	}
	r.Hang = p.hang
	if !p.done && p.hang == "" {
		r.Hang = "not drained: an earlier receive of this run was judged"
	}
	r.Cap = p.cap
	enc.Encode(r)
	count++
}

func concMode(seed int64) {
	rng := rand.New(rand.NewSource(seed))
	g := gram.FromBQL(grammar.BQL())
	ws := gram.Witnesses(g, gram.Lexable)
	var long []string
	for _, s := range g.Syms {
		for i := range g.Rules[s] {
			if t, ok := ws[gram.AltID{Sym: g.SymIdx[s], Alt: i}]; ok && len(t) >= 9 {
				long = append(long, gram.Render(t))
			}
		}
	}
	sort.Strings(long)
	if len(long) == 0 {
		long = []string{"select ?a, ?b, ?c from ?g where { ?a ?b ?c . ?c ?b ?a } ;"}
	}
	n := runtime.GOMAXPROCS(0) + 2
	capsC := []int{0, 2, 5}
	var ps []*pending
	// phase 1: open N lexers, read ONE token from each
	for i := 0; i < n; i++ {
		in := long[rng.Intn(len(long))]
		p := &pending{input: in, cap: capsC[i%len(capsC)]}
		p.c = lexer.New(in, p.cap)
		ps = append(ps, p)
	}
	stuck := false
	for _, p := range ps {
		p.readOne()
		if p.hang != "" {
			stuck = true
			break
		}
	}
	// phase 2: further statements, lexed to the end while the N lexers are pending
	var extra []*pending
	if !stuck {
		for i, in := range []string{long[rng.Intn(len(long))], "", "select ?x from ?g where {?s ?p ?o};"} {
			p := &pending{input: in, cap: capsC[i%len(capsC)]}
			p.c = lexer.New(in, p.cap)
			extra = append(extra, p)
			for !p.done && p.hang == "" {
				p.readOne()
			}
			if p.hang != "" {
				stuck = true
				break
			}
		}
	}
	// phase 3: drain the pending lexers, interleaved one token at a time
	for !stuck {
		progress := false
		for _, p := range ps {
			if !p.done && p.hang == "" {
				p.readOne()
				progress = true
				if p.hang != "" {
					stuck = true
					break
				}
			}
		}
		if !progress {
			break
		}
	}
	for _, p := range ps {
		p.emitRow("pending")
	}
	for _, p := range extra {
		p.emitRow("extra")
	}
}
