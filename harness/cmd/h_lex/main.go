// h_lex: correspondence harness for C16 (BQL lexer).  Generates inputs from ONE seeded PRNG, runs the real lexer
// (lexer.New) with channel capacities 0, 1, 2 and 64, and prints one JSON object per line:
//
//	{"g":group,"in":hex,"toks":[[kind,hexText],...],"closed":bool,"caps_equal":bool,"of":base index or -1,"rel":"",...}
//
// "closed" = the token channel was closed (the range loop ended) within the time limit for every capacity;
// "caps_equal" = the four capacities delivered the same (kind,text) sequence.
// Groups: exhaustive (small alphabet, optional context prefixes), stmt (grammar witnesses rendered with varied lexemes),
// ws / case (variants of a base case, "of" = index of the base, relation checked by checks/c16.py), mut (byte mutations),
// rand (random bytes/runes), printed (String() of nodes/predicates/literals built through the badwolf API, "want" = kind),
// corpus (fixed regression inputs incl. the known findings).
package main

import (
	"bufio"
	"encoding/hex"
	"encoding/json"
	"flag"
	"fmt"
	"go/ast"
	"go/parser"
	"go/token"
	"math/rand"
	"os"
	"strconv"
	"strings"
	"sync/atomic"
	"time"
	"unicode"
	"unicode/utf8"

	"github.com/google/badwolf/bql/grammar"
	"github.com/google/badwolf/bql/lexer"
	"github.com/google/badwolf/triple/literal"
	"github.com/google/badwolf/triple/node"
	"github.com/google/badwolf/triple/predicate"
	"verif/harness/internal/gram"
)

type tok struct {
	K int
	T string
}

type rec struct {
	G         string          `json:"g"`
	In        string          `json:"in"`
	Toks      [][]interface{} `json:"toks"`
	Closed    bool            `json:"closed"`
	CapsEqual bool            `json:"caps_equal"`
	Of        int             `json:"of"`
	Rel       string          `json:"rel,omitempty"`
	Want      int             `json:"want,omitempty"`
	Form      string          `json:"form,omitempty"`
	Part      string          `json:"part,omitempty"` // printed forms: the id / text / type the value was built from (hex)
	Hang      string          `json:"hang,omitempty"` // -conc: why a receive can never complete (goroutine dump verdict)
	Cap       int             `json:"cap,omitempty"`  // -conc: channel capacity of this lexer
}

var caps = []int{0, 1, 2, 64}

var testStrings []string

var hangs int

func lexOnce(input string, capacity int) ([]tok, bool) {
	done := make(chan []tok, 1)
	go func() {
		var out []tok
		for t := range lexer.New(input, capacity) {
			out = append(out, tok{int(t.Type), t.Text})
			if len(out) > 4*len(input)+16 { // a lexer that never stops emitting
				done <- out
				return
			}
		}
		done <- out
	}()
	select {
	case out := <-done:
		return out, len(out) <= 4*len(input)+16
	case <-time.After(3 * time.Second):
		hangs++
		if hangs >= 4 { // the lexer does not terminate / close its channel: report what we have and stop
			w.Flush()
			json.NewEncoder(os.Stderr).Encode(map[string]interface{}{"emitted": count, "aborted": "lexer.New did not close its channel for 4 inputs"})
			os.Exit(0)
		}
		return nil, false
	}
}

func lexAll(input string) (toks []tok, closed, capsEqual bool) {
	closed, capsEqual = true, true
	for i, c := range caps {
		t, ok := lexOnce(input, c)
		if !ok {
			closed = false
		}
		if i == 0 {
			toks = t
			continue
		}
		if len(t) != len(toks) {
			capsEqual = false
			continue
		}
		for j := range t {
			if t[j] != toks[j] {
				capsEqual = false
			}
		}
	}
	return
}

// every input is in the model's domain now that the unicode tables are generated from the toolchain (kept as a hook)
func inDomain(s string) bool { return true }

var (
	w         *bufio.Writer
	enc       *json.Encoder
	count     int
	skipped   int
	seenInput = map[string]int{}
)

func emit(g, input string, of int, rel string, extra func(*rec)) int {
	if !inDomain(input) {
		skipped++
		return -1
	}
	if of < 0 && extra == nil {
		if i, ok := seenInput[input]; ok {
			return i
		}
	}
	toks, closed, ce := lexAll(input)
	r := rec{G: g, In: hex.EncodeToString([]byte(input)), Closed: closed, CapsEqual: ce, Of: of, Rel: rel}
	r.Toks = [][]interface{}{}
	for _, t := range toks {
		r.Toks = append(r.Toks, []interface{}{t.K, hex.EncodeToString([]byte(t.T))})
	}
	if extra != nil {
		extra(&r)
	}
	enc.Encode(r)
	if _, ok := seenInput[input]; !ok {
		seenInput[input] = count
	}
	count++
	return count - 1
}

// ---------------------------------------------------------------- lexeme pools
var pools = map[lexer.TokenType][]string{
	lexer.ItemBinding:        {"?x", "?foo_1", "?X", "?été", "?a1"},
	lexer.ItemNode:           {"/u<a>", "/t/x<id 1>", "/_<b1>", "/u<joe@x.com>", "/u<a\\<b>", "/u<世>"},
	lexer.ItemBlankNode:      {"_:v", "_:b12_x", "_:é"},
	lexer.ItemLiteral:        {"\"1\"^^type:int64", "\"true\"^^type:bool", "\"1.5\"^^type:float64", "\"a b\"^^type:text", "\"[1 2]\"^^type:blob", "\"\"^^type:text", "\"a\\\"b\"^^type:text", "\"-7\"^^type:INT64", "\"x\"^^type:Text"},
	lexer.ItemPredicate:      {"\"p\"@[]", "\"p\"@[2006-01-02T15:04:05Z]", "\"p q\"@[]", "\"\\\"q\\\"\"@[]", "\"p\"@[2006-01-02T15:04:05.999999999+07:00]"},
	lexer.ItemPredicateBound: {"\"p\"@[,]", "\"p\"@[2006-01-02T15:04:05Z,2007-01-02T15:04:05Z]", "\"p\"@[?lb,?ub]", "\"p\"@[?lb,]"},
	lexer.ItemTime:           {"2006-01-02T15:04:05Z", "2006-01-02T15:04:05.999999999+07:00", "1"},
	lexer.ItemFilterFunction: {"latest", "isImmutable", "isTemporal", "x"},
}

var wsPool = []string{" ", "  ", "\t", "\n", "\r\n", " \t ", "\n\n", " ", " ", "\v", "\f", "\u0085"}

func lexeme(rng *rand.Rand, k int, rich bool) string {
	if rich {
		if p, ok := pools[lexer.TokenType(k)]; ok {
			return p[rng.Intn(len(p))]
		}
	}
	return gram.Lexeme(k)
}

func isWord(k int) bool {
	s := gram.Lexeme(k)
	return s != "" && unicode.IsLetter(rune(s[0]))
}

// render with a gap chooser
func render(toks []int, lex []string, gap func(i int) string) string {
	var b strings.Builder
	for i := range toks {
		b.WriteString(lex[i])
		if i+1 < len(toks) {
			b.WriteString(gap(i))
		}
	}
	return b.String()
}

// gap i (between token i and i+1) may be empty without merging the two lexemes (heuristic; a base that does not lex
// as intended simply gets no variants)
func tightOK(toks []int, lex []string, i int) bool {
	a := lexer.TokenType(toks[i])
	l, r := lex[i], lex[i+1]
	if l == "" || r == "" {
		return false
	}
	if a == lexer.ItemTime || (a == lexer.ItemPredicateBound && !strings.HasPrefix(l, "\"")) {
		return false // lexTime / lexPredicateGlobalTime run to the next space, ';' or ')'
	}
	if strings.ContainsRune("{}();.,<>=]", rune(l[len(l)-1])) {
		return true
	}
	return strings.ContainsRune("{}();.,<>=?/\"", rune(r[0]))
}

func randCase(rng *rand.Rand, s string) string {
	b := []byte(s)
	for i, c := range b {
		if c >= 'a' && c <= 'z' && rng.Intn(2) == 0 {
			b[i] = c - 32
		} else if c >= 'A' && c <= 'Z' && rng.Intn(2) == 0 {
			b[i] = c + 32
		}
	}
	return string(b)
}

// spans of the tokens inside the input: skip white space, then the text must follow (clean inputs only)
func spans(input string, toks []tok) ([][2]int, bool) {
	pos := 0
	var out [][2]int
	for _, t := range toks {
		if t.K == int(lexer.ItemError) {
			return nil, false
		}
		for pos < len(input) {
			r, w := utf8.DecodeRuneInString(input[pos:])
			if !unicode.IsSpace(r) {
				break
			}
			pos += w
		}
		if !strings.HasPrefix(input[pos:], t.T) {
			return nil, false
		}
		out = append(out, [2]int{pos, pos + len(t.T)})
		pos += len(t.T)
	}
	return out, true
}

// whitespace variant of a base input according to the property: at every token boundary a non-empty gap is replaced
// by another non-empty white-space run, an empty gap is either kept or filled.
func wsVariant(rng *rand.Rand, input string, sp [][2]int) string {
	var b strings.Builder
	prev := 0
	pick := func() string {
		s := ""
		for k := 1 + rng.Intn(2); k > 0; k-- {
			s += wsPool[rng.Intn(len(wsPool))]
		}
		return s
	}
	for i, s := range sp {
		gap := input[prev:s[0]]
		// the EOF token (empty text at the end) closes the list: treat the tail like any other boundary
		if gap != "" || rng.Intn(2) == 0 {
			if i == 0 && gap == "" && rng.Intn(2) == 0 {
				// leave the very beginning alone half of the time
			} else {
				gap = pick()
			}
		}
		b.WriteString(gap)
		b.WriteString(input[s[0]:s[1]])
		prev = s[1]
	}
	b.WriteString(input[prev:])
	return b.String()
}

var interesting = []string{"\"", "\"", "@", "[", "]", "^", "^^type:", "type:", "<", ">", "/", "\\", "?", "_", ":", ";", ",", ".", "(", ")",
	"{", "}", "=", " ", " ", "\t", "\n", "a", "Z", "k", "s", "1", "9", "-", "T", "+", "select", "filter", "before", "between", "int64", "text",
	"\"@[", "\"^^type:", "é", "ſ", "K", "İ", " ", "١", "Ⅰ", "世", "\U0001F600", " ", "\u0085",
	"\xc3", "\xff", "\x80", "\xc0\x80", "\xed\xa0\x80", "\xf0\x9f\x98", "\xe4\xb8", "\x00", "\x7f", "$", "#", "%"}

func mutate(rng *rand.Rand, s string) string {
	b := []byte(s)
	for k := 1 + rng.Intn(2); k > 0; k-- {
		switch rng.Intn(5) {
		case 0:
			if len(b) > 0 {
				j := rng.Intn(len(b))
				b = append(b[:j], b[j+1:]...)
			}
		case 1:
			j := rng.Intn(len(b) + 1)
			ins := interesting[rng.Intn(len(interesting))]
			b = append(b[:j], append([]byte(ins), b[j:]...)...)
		case 2:
			if len(b) > 0 {
				b[rng.Intn(len(b))] = interesting[rng.Intn(len(interesting))][0]
			}
		case 3:
			if len(b) > 0 {
				b = b[:rng.Intn(len(b))]
			}
		case 4:
			if len(b) > 1 {
				i, j := rng.Intn(len(b)), rng.Intn(len(b))
				b[i], b[j] = b[j], b[i]
			}
		}
	}
	return string(b)
}

// ---------------------------------------------------------------- exhaustive scopes by checksum (mirror of Corr.fold_strings)
var ckAlpha = []string{"a", "1", " ", "\"", "\\", "<", ">", "/", ",", ";", "(", "]"}

const hm = uint64(1)<<61 - 1

func mix(h, x uint64) uint64 { return (h*1000003 + x + 1) & hm }

var ckNontrivial int

// watchdog for the checksum mode: the case counter must keep moving
var (
	ckSeq   uint64
	ckInput atomic.Value
)

func ckWatchdog() {
	last, since := uint64(0), time.Now()
	for {
		time.Sleep(500 * time.Millisecond)
		cur := atomic.LoadUint64(&ckSeq)
		if cur != last {
			last, since = cur, time.Now()
			continue
		}
		if cur > 0 && time.Since(since) > 5*time.Second {
			in, _ := ckInput.Load().(string)
			json.NewEncoder(os.Stderr).Encode(map[string]string{"hang": hex.EncodeToString([]byte(in))})
			os.Exit(3)
		}
	}
}

func hashCase(h uint64, input string) uint64 {
	ckInput.Store(input)
	atomic.AddUint64(&ckSeq, 1)
	h = mix(h, 7)
	n := 0
	defer func() {
		if n >= 2 {
			ckNontrivial++
		}
	}()
	for t := range lexer.New(input, 0) {
		n++
		h = mix(h, uint64(t.Type)+1000)
		for i := 0; i < len(t.Text); i++ {
			h = mix(h, uint64(t.Text[i]))
		}
		h = mix(h, 999)
	}
	return mix(h, 1) // the channel was closed
}

func foldStrings(n int, prefix string, h uint64, count *int) uint64 {
	h = hashCase(h, prefix)
	*count++
	if n == 0 {
		return h
	}
	for _, a := range ckAlpha {
		h = foldStrings(n-1, prefix+a, h, count)
	}
	return h
}

func checksums(spec string) {
	go ckWatchdog()
	out := json.NewEncoder(os.Stdout)
	for _, item := range strings.Split(spec, ",") {
		parts := strings.SplitN(item, ":", 2)
		p, err := hex.DecodeString(parts[0])
		if err != nil || len(parts) != 2 {
			os.Exit(2)
		}
		d := 0
		for _, c := range parts[1] {
			d = d*10 + int(c-'0')
		}
		n := 0
		ckNontrivial = 0
		h := foldStrings(d, string(p), 0, &n)
		out.Encode(map[string]interface{}{"prefix": parts[0], "depth": d, "hash": fmt.Sprint(h), "count": n, "nontrivial": ckNontrivial})
	}
}

var corpus = []string{
	"", " ", "\n", "select", "SELECT", "SeLeCt ?x from ?g where {?s ?p ?o};",
	"filter latest(?p)", "filter latest (?p)", "FILTER latest (?p)", "filter latest", "filter l(", "filter (",
	"\"a\\\\\"@[]", "\"a\\\"^^type:text", "\"a\\\\\"@[] ", "/a><b>", "/a\\<b>",
	"@", "@x", "@@select", "$$ select", "1", "12", "123",
	"before 2006-01-02T15:04:05Z;", "before 2006-01-02T15:04:05Z , 2007-01-02T15:04:05Z ;", "between 1,  2", "between 1,2,3", "< 1)", "= 1;",
	"?", "??", "?x?y", "_", "_:", "_:1", "_:a_1 ", "/", "/<", "/<>", "/>", "/a<b", "\"", "\"\"", "\"@[]", "\"a\"@[", "\"a\"@[,,]", "\"a\"@[,]",
	"\"x\"^^type:", "\"x\"^^type:foo", "\"x\"^^type:INT64", "\"x\"^^TYPE:int64", "\"1\"^^type:İnt64", "\"1\"^^type:int64x", "\"1\"^^type:int64é",
	"ſelect", "K", "asK", "aſ", "ſ", "deſc", "é", "?é", "\xc3", "\xff\xfe", "a\xc3(",
	"select ?x", "select ?x", "١", "before ١", "{}();.,<>=", "select.", "group by", "GROUPBY",
	// accept() compares lower-cased runes: an upper-case marker is consumed once strings.Index found a later exact one
	"\"x\"^^TYPE:int64 \"y\"^^type:text", "\"x\"^^Type:TEXT \"p\"@[] \"z\"^^type:bool", "\"p\"@[] \"x\"^^TyPe:bool \"y\"^^type:bool",
	"\"x\"^^tYPE:İnt64 \"y\"^^type:text", "\"a\"^^TYPE:blob;\"b\"^^type:blob", "\"a\"^^typE:foo \"b\"^^type:text",
	"\"p\"@[] \"x\"^^type:text", "\"x\"^^type:text \"p\"@[]", "\"x\" \"p\"@[]", "\"@[\"^^type:text", "\"@[x\"@[]", "\"^^type:\"@[]",
}

// stringLiterals returns the values of all string literals of a Go source file (relative to cwd = repository root)
func stringLiterals(path string) []string {
	fset := token.NewFileSet()
	f, err := parser.ParseFile(fset, path, nil, 0)
	if err != nil {
		return nil
	}
	var out []string
	ast.Inspect(f, func(n ast.Node) bool {
		if bl, ok := n.(*ast.BasicLit); ok && bl.Kind == token.STRING {
			if v, err := strconv.Unquote(bl.Value); err == nil {
				out = append(out, v)
			}
		}
		return true
	})
	return out
}

func main() {
	seed := flag.Int64("seed", 1, "PRNG seed")
	n := flag.Int("n", 300, "number of statement bases (each with variants), mutations and random inputs scale with it")
	exh := flag.Int("exhaust", 3, "exhaustive enumeration over the small alphabet up to this length (no prefix)")
	exhp := flag.Int("exhaustp", 2, "same, after each context prefix")
	only := flag.String("only", "", "comma separated list of groups to produce (default all)")
	one := flag.String("one", "", "lex just this input (hex) and exit")
	ck := flag.String("cksum", "", "checksum mode: comma separated list of prefixHex:depth; prints one JSON line per item")
	conc := flag.Bool("conc", false, "concurrency mode: GOMAXPROCS+2 pending lexers, then further statements, then interleaved drain")
	flag.Parse()
	if *conc {
		w = bufio.NewWriterSize(os.Stdout, 1<<20)
		enc = json.NewEncoder(w)
		concMode(*seed)
		w.Flush()
		return
	}
	if *ck != "" {
		checksums(*ck)
		return
	}
	w = bufio.NewWriterSize(os.Stdout, 1<<20)
	defer w.Flush()
	enc = json.NewEncoder(w)
	rng := rand.New(rand.NewSource(*seed))
	want := func(g string) bool { return *only == "" || strings.Contains(","+*only+",", ","+g+",") }
	if *one != "" || len(os.Args) > 1 && os.Args[len(os.Args)-2] == "-one" {
		b, err := hex.DecodeString(*one)
		if err != nil {
			os.Exit(2)
		}
		emit("one", string(b), -1, "", nil)
		return
	}

	if want("corpus") {
		for _, s := range corpus {
			emit("corpus", s, -1, "", nil)
		}
	}
	// every string literal of the repository's own lexer / grammar / planner tests (statements and fragments)
	if want("tests") {
		for _, f := range []string{"bql/lexer/lexer_test.go", "bql/grammar/grammar_test.go", "bql/planner/planner_test.go",
			"bql/semantic/semantic_test.go", "bql/semantic/hooks_test.go"} {
			for _, lit := range stringLiterals(f) {
				if len(lit) > 0 && len(lit) <= 1500 {
					idx := emit("tests", lit, -1, "", nil)
					testStrings = append(testStrings, lit)
					// one white-space variant of every test string that lexes without error
					if idx >= 0 && want("ws") && strings.ContainsAny(lit, " \t\n") {
						toks, _, _ := lexAll(lit)
						if sp, ok := spans(lit, toks); ok && len(toks) > 2 {
							emit("ws", wsVariant(rng, lit, sp), idx, "ws", nil)
						}
					}
				}
			}
		}
	}

	// ---- statements from the grammar
	g := gram.FromBQL(grammar.BQL())
	ws := gram.Witnesses(g, gram.Lexable)
	var sents [][]int
	for _, s := range g.Syms {
		for i := range g.Rules[s] {
			if t, ok := ws[gram.AltID{Sym: g.SymIdx[s], Alt: i}]; ok {
				sents = append(sents, t)
			}
		}
	}
	var bases []string
	if want("stmt") {
		for i := 0; i < *n; i++ {
			var s []int
			if i < len(sents) {
				s = sents[i]
			} else {
				s = sents[rng.Intn(len(sents))]
			}
			rich := i >= len(sents)
			lex := make([]string, len(s))
			for j, k := range s {
				lex[j] = lexeme(rng, k, rich)
			}
			mode := rng.Intn(3)
			if i < len(sents) {
				mode = 0
			}
			in := render(s, lex, func(j int) string {
				ffPar := lexer.TokenType(s[j]) == lexer.ItemFilterFunction && lexer.TokenType(s[j+1]) == lexer.ItemLPar
				switch {
				case mode == 0 && ffPar:
					return "" // gram.Render's convention (the pinned lexer rejected a space here)
				case mode == 0:
					return " "
				case mode == 1 && tightOK(s, lex, j):
					return ""
				case mode == 1:
					return " "
				default:
					if tightOK(s, lex, j) && rng.Intn(3) == 0 {
						return ""
					}
					return wsPool[rng.Intn(len(wsPool))]
				}
			})
			idx := emit("stmt", in, -1, "", nil)
			if idx < 0 {
				continue
			}
			bases = append(bases, in)
			toks, _, _ := lexAll(in)
			// white-space variants (property: kinds and trimmed texts unchanged)
			if sp, ok := spans(in, toks); ok && want("ws") {
				for k := 0; k < 2; k++ {
					emit("ws", wsVariant(rng, in, sp), idx, "ws", nil)
				}
			}
			// case variants: keywords and literal type names
			if want("case") {
				lex2 := make([]string, len(s))
				for j, k := range s {
					lex2[j] = lex[j]
					if lexer.TokenType(k) == lexer.ItemLiteral {
						if p := strings.LastIndex(lex[j], ":"); p >= 0 {
							lex2[j] = lex[j][:p+1] + randCase(rng, lex[j][p+1:])
						}
					} else if isWord(k) && lexer.TokenType(k) != lexer.ItemFilterFunction {
						lex2[j] = randCase(rng, lex[j])
					}
				}
				// same gaps: re-render by substituting the lexemes at the spans of the base
				if sp, ok := spans(in, toks); ok && len(sp) == len(s)+1 {
					var b strings.Builder
					prev := 0
					for j := range s {
						b.WriteString(in[prev:sp[j][0]])
						b.WriteString(lex2[j])
						prev = sp[j][1]
					}
					b.WriteString(in[prev:])
					emit("case", b.String(), idx, "case", nil)
				}
			}
		}
	}
	if want("mut") {
		pool := append(append(append([]string{}, bases...), corpus...), testStrings...)
		for i := 0; i < 2**n; i++ {
			emit("mut", mutate(rng, pool[rng.Intn(len(pool))]), -1, "", nil)
		}
	}
	if want("rand") {
		for i := 0; i < 2**n; i++ {
			var b strings.Builder
			for k := rng.Intn(9); k > 0; k-- {
				if rng.Intn(8) == 0 {
					b.WriteByte(byte(rng.Intn(256)))
				} else if rng.Intn(6) == 0 { // any code point (surrogates become U+FFFD bytes)
					cp := rng.Intn(0x110000)
					if rng.Intn(2) == 0 {
						cp = rng.Intn(0x3000)
					}
					b.WriteString(string(rune(cp)))
				} else {
					b.WriteString(interesting[rng.Intn(len(interesting))])
				}
			}
			emit("rand", b.String(), -1, "", nil)
		}
	}

	// ---- printed forms of values built through the API
	if want("printed") {
		ids := []string{"a", "a b", "a\\", "\\", "a\\\\", "é", "a@[", "^^type:", "a,b", "x]y", "a\"b", "\"", "a\\b", "joe@x.com", "1", "a\tb", "a;b", "a\\\"",
			"\"@[", "x\"^^type:text", "世", "a\nb", "[1 2]", "a\"@[]", "@[x", "@", "^", "^^type:int64", "a^^type:", "a@[]"}
		types := []string{"/u", "/t/x", "/_", "/a>", "/a<", "/a\\", "/é", "/a\\b"}
		ts := []time.Time{time.Unix(0, 0).UTC(), time.Date(2006, 1, 2, 15, 4, 5, 999999999, time.FixedZone("x", 7*3600)), time.Date(1, 1, 1, 0, 0, 0, 0, time.UTC)}
		pr := func(form, s string, kind lexer.TokenType, part string) {
			emit("printed", s, -1, "", func(r *rec) { r.Want = int(kind); r.Form = form; r.Part = hex.EncodeToString([]byte(part)) })
		}
		for _, t := range types {
			for _, id := range ids {
				if nd, err := node.NewNodeFromStrings(t, id); err == nil {
					pr("node", nd.String(), lexer.ItemNode, t)
				}
			}
		}
		for i := 0; i < 5; i++ {
			pr("blanknode", node.NewBlankNode().String(), lexer.ItemNode, "/_")
		}
		for _, id := range ids {
			if p, err := predicate.NewImmutable(id); err == nil {
				pr("predicate", p.String(), lexer.ItemPredicate, id)
			}
			for _, t := range ts {
				if p, err := predicate.NewTemporal(id, t); err == nil {
					pr("predicate", p.String(), lexer.ItemPredicate, id)
				}
			}
			if l, err := literal.DefaultBuilder().Build(literal.Text, id); err == nil {
				pr("literal-text", l.String(), lexer.ItemLiteral, id)
			}
			if l, err := literal.DefaultBuilder().Build(literal.Blob, []byte(id)); err == nil {
				pr("literal", l.String(), lexer.ItemLiteral, "")
			}
			// bounds and bindings have no Go value type: their BQL spelling
			if p, err := predicate.NewImmutable(id); err == nil {
				s := p.String()
				pr("bound", s[:len(s)-1]+ts[0].Format(time.RFC3339Nano)+","+ts[1].Format(time.RFC3339Nano)+"]", lexer.ItemPredicateBound, id)
			}
		}
		for _, v := range []interface{}{true, false, int64(0), int64(-1 << 63), int64(1<<63 - 1), float64(0), float64(-1.5e300), float64(1) / 3} {
			var (
				l   *literal.Literal
				err error
			)
			switch x := v.(type) {
			case bool:
				l, err = literal.DefaultBuilder().Build(literal.Bool, x)
			case int64:
				l, err = literal.DefaultBuilder().Build(literal.Int64, x)
			case float64:
				l, err = literal.DefaultBuilder().Build(literal.Float64, x)
			}
			if err == nil {
				pr("literal", l.String(), lexer.ItemLiteral, "")
			}
		}
		for _, b := range []string{"?x", "?foo_1", "?é", "?X9"} {
			pr("binding", b, lexer.ItemBinding, "")
		}
		for _, b := range []string{"_:v", "_:b12_x", "_:é"} {
			pr("bql-blanknode", b, lexer.ItemBlankNode, "")
		}
	}

	// ---- exhaustive small scope
	if want("exhaustive") {
		alpha := []string{"a", "1", " ", "\"", "\\", "<", ">", "/", ",", ";", "(", "]"}
		prefixes := []string{"before ", "= ", "filter ", "\"a\"^^type:", "\"a\"@[", "\"", "?", "_:", "/a<", "\"a\"^^type:int64", "@", "between 1,"}
		var walk func(prefix string, d int)
		walk = func(prefix string, d int) {
			emit("exhaustive", prefix, -1, "", nil)
			if d == 0 {
				return
			}
			for _, a := range alpha {
				walk(prefix+a, d-1)
			}
		}
		walk("", *exh)
		if *exhp > 0 {
			for _, p := range prefixes {
				walk(p, *exhp)
			}
		}
	}
	w.Flush()
	// trailer: how many generated inputs were outside the model's unicode domain
	json.NewEncoder(os.Stderr).Encode(map[string]int{"emitted": count, "skipped_outside_unicode_domain": skipped})
}
