package main

import (
	"fmt"
	"math/rand"
	"sort"
	"strings"
)

// ---------------------------------------------------------------- vocabulary (small on purpose: collisions between
// cases are where the defects are)

var vNodes = []string{"/u<a>", "/u<b>", "/u<c>", "/t<a>", "/u<d>"}

// T0 and T1 are the same instant in two zones.
var vTimes = []string{"2016-01-01T00:00:00Z", "2016-01-01T01:00:00+01:00", "2016-06-01T00:00:00-08:00", "2017-01-01T00:00:00Z"}

var vPreds = []string{
	`"p"@[]`, `"q"@[]`, `"r"@[]`,
	`"p"@[2016-01-01T00:00:00Z]`, `"q"@[2016-01-01T00:00:00Z]`, `"q"@[2016-01-01T01:00:00+01:00]`,
	`"q"@[2016-06-01T00:00:00-08:00]`, `"r"@[2017-01-01T00:00:00Z]`, `"p"@[2016-06-01T00:00:00-08:00]`,
}

var vLits = []string{
	`"true"^^type:bool`, `"1"^^type:int64`, `"-3"^^type:int64`, `"1.5"^^type:float64`, `"hi"^^type:text`,
	`"[1 2]"^^type:blob`, `"a"^^type:text`,
}

func vObjects() []string {
	var o []string
	o = append(o, vNodes...)
	o = append(o, vNodes[:3]...) // nodes more likely: chains need node-valued objects
	o = append(o, vPreds[0], vPreds[4], vPreds[5], vPreds[6], vPreds[2])
	o = append(o, vLits...)
	return o
}

func pick(r *rand.Rand, xs []string) string { return xs[r.Intn(len(xs))] }

// tripleKey identifies a triple the way the store does: anchors by instant (vTimes[1] is vTimes[0] in another zone)
func tripleKey(t string) string {
	f := strings.Split(t, "\t")
	return f[0] + "\t" + strings.ReplaceAll(f[1], vTimes[1], vTimes[0]) + "\t" + strings.ReplaceAll(f[2], vTimes[1], vTimes[0])
}

func genTriples(r *rand.Rand, n int) []string {
	objs := vObjects()
	seen := map[string]bool{}
	var out []string
	for i := 0; i < n*3 && len(out) < n; i++ {
		t := pick(r, vNodes[:3+r.Intn(2)]) + "\t" + pick(r, vPreds) + "\t" + pick(r, objs)
		if k := tripleKey(t); !seen[k] {
			seen[k] = true
			out = append(out, t)
		}
	}
	return out
}

// roundRobin puts consecutive triples into different graphs (rotation rot): the adversarial partition
func roundRobin(ts []string, k, rot int) [][]string {
	gs := make([][]string, k)
	for i := range gs {
		gs[i] = []string{}
	}
	for i, t := range ts {
		gs[(i+rot)%k] = append(gs[(i+rot)%k], t)
	}
	return gs
}

// ---------------------------------------------------------------- dedicated data / statements

// cyclic data: edges in both directions between three nodes, so that closing clauses become fully specified per row
func cycleData(r *rand.Rand) []string {
	var ts []string
	ns := []string{"/u<a>", "/u<b>", "/u<c>"}
	ps := []string{`"p"@[]`, `"q"@[]`, `"q"@[2016-06-01T00:00:00-08:00]`}
	seen := map[string]bool{}
	for i := 0; i < 14; i++ {
		t := pick(r, ns) + "\t" + pick(r, ps) + "\t" + pick(r, ns)
		if !seen[t] {
			seen[t] = true
			ts = append(ts, t)
		}
	}
	for _, x := range ns { // guarantee a 2-cycle and a 3-cycle on "p"
		_ = x
	}
	for _, t := range []string{"/u<a>\t\"p\"@[]\t/u<b>", "/u<b>\t\"p\"@[]\t/u<a>", "/u<b>\t\"p\"@[]\t/u<c>", "/u<c>\t\"p\"@[]\t/u<a>"} {
		if !seen[t] {
			seen[t] = true
			ts = append(ts, t)
		}
	}
	r.Shuffle(len(ts), func(i, j int) { ts[i], ts[j] = ts[j], ts[i] })
	return ts
}

var cycleQueries = [][]string{
	{`?a "p"@[] ?b`, `?b "p"@[] ?a`},
	{`?a "p"@[] ?b`, `?b "p"@[] ?c`, `?c "p"@[] ?a`},
	{`?a "q"@[] ?b`, `?b "p"@[] ?a`},
	{`?a ?p ?b`, `?b ?p ?a`},
	{`?a "p"@[] ?b`, `?a "p"@[] ?b`},
	{`?a "q"@[?t] ?b`, `?b "q"@[?t] ?a`},
	{`?a "p"@[] ?b`, `?b ?p2 ?c`, `?c "p"@[] ?a`, `?a ?p2 ?b`},
	{`?a "p"@[] ?b`, `?a ?p ?b`},
	{`?a ?p ?b`, `?a "p"@[] ?b`},
}

func cycleQuery(r *rand.Rand, k int) query {
	cl := cycleQueries[r.Intn(len(cycleQueries))]
	q := query{from: k}
	for _, c := range cl {
		q.clauses = append(q.clauses, c)
		q.optional = append(q.optional, false)
	}
	return q
}

// windows given by bindings: `"seen"@[?lo,?hi]` specialised from several rows with different windows, followed by another
// temporal clause (the lookup options of one row must not leak into other rows or later clauses)
func windowData() []string {
	return []string{
		"/u<w1>\t\"lo\"@[2016-01-01T00:00:00Z]\t/u<b>", "/u<w1>\t\"hi\"@[2016-03-01T00:00:00Z]\t/u<b>",
		"/u<w2>\t\"lo\"@[2016-06-01T00:00:00Z]\t/u<c>", "/u<w2>\t\"hi\"@[2016-12-01T00:00:00Z]\t/u<c>",
		"/u<w3>\t\"lo\"@[2015-01-01T00:00:00Z]\t/u<b>", "/u<w3>\t\"hi\"@[2018-01-01T00:00:00Z]\t/u<b>",
		"/u<b>\t\"seen\"@[2016-02-01T00:00:00Z]\t/u<x1>", "/u<b>\t\"seen\"@[2016-07-01T00:00:00Z]\t/u<x2>",
		"/u<c>\t\"seen\"@[2016-07-01T00:00:00Z]\t/u<x3>", "/u<c>\t\"seen\"@[2016-02-01T00:00:00Z]\t/u<x4>",
		"/u<b>\t\"later\"@[2015-06-01T00:00:00Z]\t/u<y1>", "/u<b>\t\"later\"@[2017-06-01T00:00:00Z]\t/u<y2>",
		"/u<c>\t\"later\"@[2016-08-01T00:00:00Z]\t/u<y3>", "/u<c>\t\"later\"@[2014-06-01T00:00:00Z]\t/u<y4>",
	}
}

var windowQueries = [][]string{
	{`?w "lo"@[?lo] ?x`, `?w "hi"@[?hi] ?x`, `?x "seen"@[?lo,?hi] ?o`},
	{`?w "lo"@[?lo] ?x`, `?w "hi"@[?hi] ?x`, `?x "seen"@[?lo,?hi] ?o`, `?x "later"@[?t] ?z`},
	{`?w "lo"@[?lo] ?x`, `?x "seen"@[?lo,] ?o`, `?x "later"@[?t] ?z`},
	{`?w "hi"@[?hi] ?x`, `?x "seen"@[,?hi] ?o`, `?x "later"@[?t] ?z`},
	{`?w "lo"@[?lo] ?x`, `?w "hi"@[?hi] ?x`, `?x "seen"@[?lo,?hi] ?o`, `?w2 "lo"@[?lo2] ?x`},
}

func windowQuery(r *rand.Rand, k int) query {
	cl := windowQueries[r.Intn(len(windowQueries))]
	q := query{from: k}
	for _, c := range cl {
		q.clauses = append(q.clauses, c)
		q.optional = append(q.optional, false)
	}
	if r.Intn(4) == 0 {
		q.tail = "AFTER 2015-03-01T00:00:00Z"
	}
	return q
}

// split distributes triples over k graphs (every triple in exactly one graph unless dup>0: then some are copied).
func split(r *rand.Rand, ts []string, k int, dup bool) [][]string {
	gs := make([][]string, k)
	for i := range gs {
		gs[i] = []string{}
	}
	for _, t := range ts {
		i := r.Intn(k)
		gs[i] = append(gs[i], t)
		if dup && k > 1 && r.Intn(6) == 0 {
			j := (i + 1 + r.Intn(k-1)) % k
			gs[j] = append(gs[j], t)
		}
	}
	return gs
}

// ---------------------------------------------------------------- clause forms
// '$' is a binding placeholder.  Constants are placeholders resolved against an anchor triple taken from the data (so that
// most clauses match something): %S subject, %P predicate, %I quoted predicate id, %N node object, %L literal object,
// %Q predicate object, %J quoted id of a predicate object, %T an anchor time.

var sForms = []string{
	"%S", "%S", "%S AS $n", "%S TYPE $y ID $i", "%S ID $i",
	"$n", "$n", "$n", "$n AS $n", "$n TYPE $y", "$n ID $i", "$n AS $n ID $i TYPE $y", "$n TYPE $y ID $i",
}

var pForms = []string{
	"%P", "%P", "%P",
	"$p", "$p", "$p AS $p", "$p ID $i", "$p AT $t", "$p AS $p ID $i AT $t",
	"%I@[$t]", "%I@[$t]", "%I@[$t] AT $t", "%I@[$t] AS $p ID $i",
	"%P AS $p", "%P ID $i AT $t", "%P AT $t",
	"%I@[2016-01-01T00:00:00Z,2017-01-01T00:00:00Z]", "%I@[,2016-06-01T00:00:00-08:00]", "%I@[2016-06-01T00:00:00-08:00,]", "%I@[,]",
	"%I@[2016-01-01T00:00:00Z,2017-01-01T00:00:00Z] AS $p", "%I@[,] ID $i",
	"%I@[$t,$t]", "%I@[$t,]",
}

var oForms = []string{
	"%L", "%L", "%L AS $o",
	"%N", "%N", "%N AS $o", "%N TYPE $y", "%N ID $i", "%N AS $o TYPE $y ID $i",
	"%Q", "%Q AS $o", "%Q ID $i AT $t", "%Q AT $t",
	"%J@[$t]", "%J@[$t] AS $o", "%J@[2016-01-01T00:00:00Z,2017-01-01T00:00:00Z]", "%J@[,]",
	"$o", "$o", "$o", "$o AS $o", "$o TYPE $y", "$o ID $i", "$o AT $t", "$o AS $o ID $i TYPE $y AT $t", "$o TYPE $y ID $i", "$o ID $i AT $t",
}

// forms whose clause is in the plainly supported fragment (used to bias generation towards D3)
var sPlain = []string{"%S", "%S", "$n", "$n", "$n", "$n TYPE $y", "$n ID $i", "$n AS $n"}
var pPlain = []string{"%P", "%P", "%P", "$p", "$p", "$p ID $i", "$p AT $t", "%I@[$t]"}
var oPlain = []string{"%N", "%N", "%L", "%Q", "$o", "$o", "$o", "$o", "$o TYPE $y", "$o AS $o", "%J@[$t]"}

type anchorT struct{ s, p, o string }

func splitTriple(t string) anchorT {
	f := strings.Split(t, "\t")
	return anchorT{f[0], f[1], f[2]}
}

func quotedID(p string) string { return p[:strings.Index(p, "@[")] }

func objKind(o string) byte {
	if o[0] == '/' {
		return 'N'
	}
	if strings.Contains(o, `"@[`) {
		return 'Q'
	}
	return 'L'
}

// resolve fills the constant placeholders of a form from the anchor triple when its parts have the right kind,
// else from the vocabulary.
func resolve(r *rand.Rand, form string, a *anchorT) string {
	rep := func(ph string, fromAnchor func() (string, bool), vocab func() string) {
		if !strings.Contains(form, ph) {
			return
		}
		v, ok := "", false
		if a != nil && r.Intn(10) > 0 {
			v, ok = fromAnchor()
		}
		if !ok {
			v = vocab()
		}
		form = strings.ReplaceAll(form, ph, v)
	}
	rep("%S", func() (string, bool) { return a.s, true }, func() string { return pick(r, vNodes) })
	rep("%P", func() (string, bool) { return a.p, true }, func() string { return pick(r, vPreds) })
	rep("%I", func() (string, bool) { return quotedID(a.p), true }, func() string { return pick(r, []string{`"p"`, `"q"`, `"r"`}) })
	rep("%N", func() (string, bool) { return a.o, objKind(a.o) == 'N' }, func() string { return pick(r, vNodes) })
	rep("%L", func() (string, bool) { return a.o, objKind(a.o) == 'L' }, func() string { return pick(r, vLits) })
	rep("%Q", func() (string, bool) { return a.o, objKind(a.o) == 'Q' }, func() string { return pick(r, vPreds) })
	rep("%J", func() (string, bool) {
		if objKind(a.o) == 'Q' {
			return quotedID(a.o), true
		}
		return "", false
	}, func() string { return pick(r, []string{`"p"`, `"q"`, `"r"`}) })
	return form
}

func anchorOf(r *rand.Rand, gs [][]string) *anchorT {
	var all []string
	for _, g := range gs {
		all = append(all, g...)
	}
	if len(all) == 0 {
		return nil
	}
	a := splitTriple(pick(r, all))
	return &a
}

type namer func(role byte) string

func fill(form string, nm namer) string {
	var b strings.Builder
	for i := 0; i < len(form); i++ {
		if form[i] == '$' && i+1 < len(form) {
			b.WriteString(nm(form[i+1]))
			i++
		} else {
			b.WriteByte(form[i])
		}
	}
	return b.String()
}

func bindingsOf(text string) []string {
	seen := map[string]bool{}
	var out []string
	for i := 0; i < len(text); i++ {
		if text[i] == '?' {
			j := i + 1
			for j < len(text) && (text[j] == '_' || text[j] >= 'a' && text[j] <= 'z' || text[j] >= '0' && text[j] <= '9') {
				j++
			}
			n := text[i:j]
			if !strings.HasPrefix(n, "?g") && !seen[n] {
				seen[n] = true
				out = append(out, n)
			}
			i = j - 1
		}
	}
	sort.Strings(out)
	return out
}

type query struct {
	clauses  []string // clause texts without OPTIONAL wrapper
	optional []bool
	proj     string // projection text, "" = all bindings
	from     int    // number of graphs
	tail     string // global time bound
	order    string // ORDER BY clause text ("" = none)
	names    []string // graph names ("" / missing = ?g<i>)
}

// graph names that are substrings / prefixes of names listed before them (all start with ?g: never taken for bindings)
var nameSchemes = [][]string{nil, {"?gfam2", "?gfam", "?gf"}, {"?g10", "?g1", "?g"}, {"?g", "?g1", "?g10"}}

func (q query) text() string {
	var cs []string
	for i, c := range q.clauses {
		if q.optional[i] {
			cs = append(cs, "OPTIONAL { "+c+" }")
		} else {
			cs = append(cs, c)
		}
	}
	body := strings.Join(cs, " . ")
	proj := q.proj
	if proj == "" {
		bs := bindingsOf(body)
		if len(bs) == 0 {
			bs = []string{"?zz"}
		}
		proj = strings.Join(bs, ", ")
	}
	var gs []string
	for i := 0; i < q.from; i++ {
		gs = append(gs, graphName(q.names, i))
	}
	t := ""
	if q.tail != "" {
		t = " " + q.tail
	}
	ob := ""
	if q.order != "" {
		ob = " ORDER BY " + q.order
	}
	return "SELECT " + proj + " FROM " + strings.Join(gs, ", ") + " WHERE { " + body + " }" + ob + t + ";"
}

var tails = []string{
	"BEFORE 2016-03-01T00:00:00Z", "AFTER 2016-03-01T00:00:00Z", "BETWEEN 2016-01-01T00:00:00Z, 2016-12-01T00:00:00Z",
	"AFTER 2016-01-01T01:00:00+01:00", "BEFORE 2016-01-01T00:00:00Z",
}

// poolNamer draws names from a flat pool whatever the role (maximal, mostly unsatisfiable sharing)
func poolNamer(r *rand.Rand, pool []string) namer {
	return func(byte) string { return pick(r, pool) }
}

// roleNamer draws names from a small pool per role, so that bindings are shared between positions that can hold values
// of the same kind; with probability 1/wild a name of another role is used.
func roleNamer(r *rand.Rand, width int, wild int) namer {
	pools := map[byte][]string{}
	for _, role := range []byte("npoyit") {
		for i := 0; i < width; i++ {
			pools[role] = append(pools[role], fmt.Sprintf("?%c%d", role, i))
		}
	}
	pools['o'] = append(pools['o'], pools['n']...)
	roles := []byte("npoyit")
	return func(role byte) string {
		if wild > 0 && r.Intn(wild) == 0 {
			role = roles[r.Intn(len(roles))]
		}
		return pick(r, pools[role])
	}
}

func freshNamer(prefix string) namer {
	i := 0
	return func(byte) string { i++; return fmt.Sprintf("?%s%d", prefix, i) }
}

func randClause(r *rand.Rand, nm namer, plain bool, gs [][]string) string {
	a := anchorOf(r, gs)
	if plain {
		return fill(resolve(r, pick(r, sPlain)+" "+pick(r, pPlain)+" "+pick(r, oPlain), a), nm)
	}
	return fill(resolve(r, pick(r, sForms)+" "+pick(r, pForms)+" "+pick(r, oForms), a), nm)
}

// chain: clauses connected through whole-value bindings (subject/object chains), the bread-and-butter join shape
func chainQuery(r *rand.Rand, n int, gs [][]string) query {
	q := query{from: 1 + r.Intn(2)}
	prev := "?a"
	names := []string{"?a", "?b", "?c", "?d", "?e", "?f"}
	for i := 0; i < n; i++ {
		next := names[(i+1)%len(names)]
		var p string
		switch r.Intn(6) {
		case 0:
			p = fmt.Sprintf("?p%d", i)
		case 1:
			p = fmt.Sprintf(`"q"@[?t%d]`, i)
		case 2:
			p = `"q"@[2016-06-01T00:00:00-08:00]`
		default:
			if a := anchorOf(r, gs); a != nil {
				p = a.p
			} else {
				p = pick(r, []string{`"p"@[]`, `"q"@[]`, `"r"@[]`})
			}
		}
		var c string
		switch r.Intn(5) {
		case 0:
			c = next + " " + p + " " + prev // reversed: join on the object
		case 1:
			c = prev + " " + p + " " + next + " TYPE " + fmt.Sprintf("?ty%d", i)
		case 2:
			c = prev + " ID " + fmt.Sprintf("?id%d", i) + " " + p + " " + next
		default:
			c = prev + " " + p + " " + next
		}
		q.clauses = append(q.clauses, c)
		q.optional = append(q.optional, false)
		if r.Intn(3) > 0 {
			prev = next
		}
	}
	return q
}

func randQuery(r *rand.Rand, ncl int, plain bool, optProb int, gs [][]string) query {
	nm := roleNamer(r, 2+r.Intn(2), 12)
	if r.Intn(8) == 0 {
		nm = poolNamer(r, []string{"?a", "?b", "?c", "?d", "?e", "?f"}[:3+r.Intn(4)])
	}
	q := query{from: 1 + r.Intn(3)}
	for i := 0; i < ncl; i++ {
		q.clauses = append(q.clauses, randClause(r, nm, plain, gs))
		q.optional = append(q.optional, i > 0 && optProb > 0 && r.Intn(100) < optProb)
	}
	if r.Intn(5) == 0 {
		q.tail = pick(r, tails)
	}
	return q
}

// projection variants: subset, aliases, a binding selected twice, an alias that carries the name of another binding
func withProjection(r *rand.Rand, q query) query {
	body := strings.Join(q.clauses, " . ")
	bs := bindingsOf(body)
	if len(bs) == 0 || r.Intn(3) > 0 {
		return q
	}
	all := append([]string{}, bs...)
	r.Shuffle(len(bs), func(i, j int) { bs[i], bs[j] = bs[j], bs[i] })
	k := 1 + r.Intn(len(bs))
	var ps []string
	used := map[string]bool{} // output names must be pairwise different (duplicates are rejected only for empty results)
	add := func(b, alias string) {
		o := alias
		if o == "" {
			o = b
		}
		if used[o] {
			return
		}
		used[o] = true
		if alias == "" {
			ps = append(ps, b)
		} else {
			ps = append(ps, b+" AS "+alias)
		}
	}
	for i, b := range bs[:k] {
		switch r.Intn(8) {
		case 0, 1:
			add(b, fmt.Sprintf("?out%d", i))
		case 2:
			// selected twice
			add(b, "")
			add(b, fmt.Sprintf("?dup%d", i))
		case 3:
			// the alias is the name of another binding of the pattern (which a later projection may still read)
			add(b, pick(r, all))
		default:
			add(b, "")
		}
	}
	if len(ps) == 0 {
		add(bs[0], "")
	}
	q.proj = strings.Join(ps, ", ")
	return q
}

func graphsFor(r *rand.Rand, k int, size int) [][]string {
	return split(r, genTriples(r, size), k, true)
}

// ---------------------------------------------------------------- families

func tag(o J, kind string, id int) J {
	o["kind"] = kind
	o["id"] = id
	return o
}

func generate(r *rand.Rand, family string, n int, exhaustive bool, out func(J)) {
	id := 0
	next := func() int { id++; return id }
	switch family {
	case "c03":
		genC03(r, n, exhaustive, out, next)
	case "c10":
		genC10(r, n, exhaustive, out, next)
	case "c14":
		genC14(r, n, out, next)
	}
}

// one-clause shapes: the full cross product of the form lists with distinct binding names, then with names drawn from a
// two-name pool (repeated bindings inside the clause)
func oneClauseShapes(r *rand.Rand, all bool, sample int) []string {
	var shapes []string
	for _, s := range sForms {
		for _, p := range pForms {
			for _, o := range oForms {
				nm := freshNamer("v")
				shapes = append(shapes, fill(s, nm)+" "+fill(p, nm)+" "+fill(o, nm))
			}
		}
	}
	// dedupe (the form lists repeat "$" for weighting)
	seen := map[string]bool{}
	var uniq []string
	for _, s := range shapes {
		if !seen[s] {
			seen[s] = true
			uniq = append(uniq, s)
		}
	}
	shapes = uniq
	if !all {
		r.Shuffle(len(shapes), func(i, j int) { shapes[i], shapes[j] = shapes[j], shapes[i] })
		if sample < len(shapes) {
			shapes = shapes[:sample]
		}
	}
	return shapes
}

func genC03(r *rand.Rand, n int, exhaustive bool, out func(J), next func() int) {
	// (1) one-clause shapes over 1-2 graphs
	one := oneClauseShapes(r, exhaustive, n/3)
	var gs [][]string
	for i, c := range one {
		if i%8 == 0 {
			gs = graphsFor(r, 1+r.Intn(2), 8+r.Intn(20))
		}
		q := query{clauses: []string{resolve(r, c, anchorOf(r, gs))}, optional: []bool{false}, from: len(gs)}
		if r.Intn(6) == 0 {
			q.tail = pick(r, tails)
		}
		out(tag(run(Spec{Graphs: gs, Query: q.text()}, false), "one", next()))
	}
	// (1b) one clause with repeated names
	for i := 0; i < n/8; i++ {
		gs = graphsFor(r, 1, 6+r.Intn(14))
		pool := []string{"?x", "?y"}
		q := query{clauses: []string{randClause(r, poolNamer(r, pool), false, gs)}, optional: []bool{false}, from: 1}
		out(tag(run(Spec{Graphs: gs, Query: q.text()}, false), "one-rep", next()))
	}
	// (2) two-clause shapes: seeded sample (exhaustive: all pairs of plain forms is too large; a 10x sample)
	two := n / 3
	if exhaustive {
		two = n * 3
	}
	for i := 0; i < two; i++ {
		gs = graphsFor(r, 1+r.Intn(2), 5+r.Intn(10))
		q := randQuery(r, 2, r.Intn(3) > 0, 0, gs)
		q.from = len(gs)
		q = withProjection(r, q)
		out(tag(run(Spec{Graphs: gs, Query: q.text()}, false), "two", next()))
	}
	// (3) 3-4 clause chains and random 3-clause patterns
	for i := 0; i < n/4; i++ {
		gs = graphsFor(r, 1+r.Intn(3), 6+r.Intn(10))
		var q query
		if r.Intn(3) > 0 {
			q = chainQuery(r, 2+r.Intn(3), gs)
		} else {
			q = randQuery(r, 3, true, 0, gs)
		}
		q.from = len(gs)
		q = withProjection(r, q)
		out(tag(run(Spec{Graphs: gs, Query: q.text()}, false), "chain", next()))
	}
	// (3b) clause-level intervals against global bounds (updateTimeBounds: the tighter bound wins)
	bnds := []string{"", "2016-01-01T00:00:00Z", "2016-06-01T00:00:00-08:00", "2017-01-01T00:00:00Z"}
	for i := 0; i < n/12; i++ {
		gs = graphsFor(r, 1, 10+r.Intn(14))
		lo, hi := r.Intn(len(bnds)), r.Intn(len(bnds))
		if lo > hi && hi != 0 {
			lo, hi = hi, lo
		}
		id := pick(r, []string{`"q"`, `"p"`, `"r"`})
		c := fmt.Sprintf("?s %s@[%s,%s] ?o", id, bnds[lo], bnds[hi])
		if r.Intn(3) == 0 {
			c = fmt.Sprintf("%s %s@[%s,%s] ?o", pick(r, vNodes[:3]), id, bnds[lo], bnds[hi])
		}
		q := query{clauses: []string{c}, optional: []bool{false}, from: 1, tail: pick(r, tails)}
		if r.Intn(3) == 0 {
			q.clauses = append([]string{"?s ?p0 ?x"}, q.clauses...)
			q.optional = append(q.optional, false)
		}
		out(tag(run(Spec{Graphs: gs, Query: q.text()}, false), "bounds", next()))
	}
	// (3b') the full grid clause interval x global bound over a fixed graph with anchors exactly at, between and around every
	// bound used (updateTimeBounds must keep the tighter bound on both sides; closed intervals)
	{
		grid := []string{
			"2015-06-01T00:00:00Z", "2016-01-01T00:00:00Z", "2016-02-01T00:00:00Z", "2016-03-01T00:00:00Z", "2016-04-01T00:00:00Z",
			"2016-06-01T00:00:00-08:00", "2016-12-01T00:00:00Z", "2016-12-15T00:00:00Z", "2017-01-01T00:00:00Z", "2017-06-01T00:00:00Z",
		}
		var fixed []string
		for i, a := range grid {
			fixed = append(fixed, fmt.Sprintf("/u<a>\t\"q\"@[%s]\t/u<n%d>", a, i))
		}
		fixed = append(fixed, "/u<a>\t\"q\"@[]\t/u<b>", "/u<b>\t\"p\"@[2016-03-01T00:00:00Z]\t/u<a>")
		gg := [][]string{fixed}
		for li, l := range bnds {
			for ui, u := range bnds {
				if li > ui && ui != 0 {
					continue
				}
				for _, tl := range tails {
					c := fmt.Sprintf("?s \"q\"@[%s,%s] ?o", l, u)
					if (li+ui)%2 == 1 {
						c = fmt.Sprintf("/u<a> \"q\"@[%s,%s] ?o", l, u)
					}
					q := query{clauses: []string{c}, optional: []bool{false}, from: 1, tail: tl}
					out(tag(run(Spec{Graphs: gg, Query: q.text()}, false), "bounds-grid", next()))
				}
			}
		}
	}
	// (3c) every driver shape (which of S, P, O are constants) on a temporal triple of the data, under a global bound
	for i := 0; i < n/10; i++ {
		gs = graphsFor(r, 1+r.Intn(2), 10+r.Intn(12))
		var a *anchorT
		for k := 0; k < 20; k++ {
			a = anchorOf(r, gs)
			if a != nil && !strings.HasSuffix(a.p, "@[]") {
				break
			}
		}
		if a == nil {
			continue
		}
		mask := i % 8
		sT, pT, oT := "?s", "?p", "?o"
		if mask&1 != 0 {
			sT = a.s
		}
		if mask&2 != 0 {
			pT = a.p
		}
		if mask&4 != 0 {
			oT = a.o
		}
		if mask == 7 {
			oT += " AS ?o" // a fully specified clause needs an alias to produce a row
			if objKind(a.o) == 'L' || objKind(a.o) == 'Q' || objKind(a.o) == 'N' {
			}
		}
		q := query{clauses: []string{sT + " " + pT + " " + oT}, optional: []bool{false}, from: len(gs), tail: pick(r, tails)}
		out(tag(run(Spec{Graphs: gs, Query: q.text()}, false), "shapes", next()))
	}
	// (3d) cycles and self-joins (clauses that become fully specified per row) over adversarially partitioned graphs,
	// every rotation of the FROM list
	for i := 0; i < n/8; i++ {
		ts := cycleData(r)
		k := 1 + i%3
		q := cycleQuery(r, k)
		q.names = nameSchemes[i%len(nameSchemes)]
		out(tag(run(Spec{Graphs: roundRobin(ts, k, i%k), Names: q.names, Query: q.text()}, false), "cycles", next()))
	}
	// (3e) windows given by bindings, several rows with different windows, a later temporal clause
	for i := 0; i < n/16; i++ {
		ts := windowData()
		r.Shuffle(len(ts), func(a, b int) { ts[a], ts[b] = ts[b], ts[a] })
		k := 1 + i%2
		q := windowQuery(r, k)
		out(tag(run(Spec{Graphs: roundRobin(ts, k, i%k), Query: q.text()}, false), "windows", next()))
	}
	// (3f) wide intermediate tables: more rows than GOMAXPROCS, every row fans out >= 3 into the next clause
	for _, procs := range []int{1, 2, 4} {
		for _, m := range []int{3, 4, 5} {
			var ts []string
			for i := 0; i < m; i++ {
				for j := 0; j < m; j++ {
					ts = append(ts, fmt.Sprintf("/u<n%d>\t\"p\"@[]\t/u<n%d>", i, j))
				}
			}
			for _, cl := range [][]string{{`?a "p"@[] ?b`, `?b "p"@[] ?c`}, {`?a "p"@[] ?b`, `?b ?q ?c`}} {
				q := query{clauses: cl, optional: []bool{false, false}, from: 1}
				out(tag(run(Spec{Graphs: [][]string{ts}, Query: q.text(), Procs: procs}, false), "wide", next()))
			}
		}
	}
	// (3g) a name bound by an earlier clause reused as the AS alias / binding of a partially specified predicate or
	// predicate-valued object (the clause is then looked up with the row's value; id, kind and interval must still hold)
	reuse := []string{
		"?x ?p ?y . %S %I@[?t] AS ?p ?o", "?x ?p ?y . ?s %I@[?t] AS ?p ?o", "?x ?p ?y . ?s %I@[,2016-06-01T00:00:00-08:00] AS ?p ?o",
		"?x ?p ?y . %S %I@[2016-01-01T00:00:00Z,2017-01-01T00:00:00Z] AS ?p ?o", "?x ?p ?y . ?s %I@[,] AS ?p ?o",
		"?x ?p2 ?y . ?s ?p3 %J@[?t] AS ?y", "?x ?p2 ?y . ?s ?p3 %J@[,] AS ?y", "?x ?p2 ?y . %S ?p3 %J@[2016-01-01T00:00:00Z,2017-01-01T00:00:00Z] AS ?y",
		"?x ?p ?y . ?s %I@[?t] AS ?p2 ?o . ?s2 ?p2 ?o2",
	}
	for i := 0; i < n/16; i++ {
		gs = graphsFor(r, 1+r.Intn(2), 10+r.Intn(12))
		form := reuse[i%len(reuse)]
		parts := strings.Split(resolve(r, form, anchorOf(r, gs)), " . ")
		q := query{from: len(gs)}
		for _, c := range parts {
			q.clauses = append(q.clauses, c)
			q.optional = append(q.optional, false)
		}
		out(tag(run(Spec{Graphs: gs, Query: q.text()}, false), "alias-reuse", next()))
	}
	// (3h) sequences of statements on one unmodified graph whose global bounds differ only below the second
	{
		var ts []string
		for i, f := range []string{"00", "00.25", "00.5", "00.75", "01", "01.5"} {
			ts = append(ts, fmt.Sprintf("/u<a>\t\"q\"@[2016-01-01T00:00:%sZ]\t/u<n%d>", f, i))
		}
		ts = append(ts, "/u<a>\t\"q\"@[]\t/u<b>", "/u<b>\t\"p\"@[2016-01-01T00:00:00.3Z]\t/u<a>")
		bs := []string{"2016-01-01T00:00:00Z", "2016-01-01T00:00:00.5Z", "2016-01-01T00:00:00.3Z", "2016-01-01T00:00:01Z", "2016-01-01T00:00:00.9Z"}
		cls := []string{`?s "q"@[?t] ?o`, `?s ?p ?o`, `?s "q"@[,] ?o`}
		k := 0
		for _, op := range []string{"BEFORE", "AFTER"} {
			for i := range bs {
				for j := range bs {
					if i == j {
						continue
					}
					k++
					if k%3 != 0 {
						continue
					}
					c := cls[k%len(cls)]
					q1 := query{clauses: []string{c}, optional: []bool{false}, from: 1, tail: op + " " + bs[i]}
					q2 := query{clauses: []string{c}, optional: []bool{false}, from: 1, tail: op + " " + bs[j]}
					out(tag(run(Spec{Graphs: [][]string{ts}, Query: q2.text(), Pre: []string{q1.text()}}, false), "sequence", next()))
				}
			}
		}
	}
	// (3h') query, INSERT, the same query again (also with the clauses reversed) on one store: lookups after adds after lookups
	for i := 0; i < n/16; i++ {
		ts := cycleData(r)
		h := len(ts) / 2
		q := cycleQuery(r, 1)
		if i%2 == 1 {
			q = query{clauses: []string{`?x "p"@[] ?y`, `?x ?p ?y`}, optional: []bool{false, false}, from: 1}
		}
		q2 := q
		if i%3 == 2 {
			q2.clauses = append([]string{}, q.clauses...)
			for a, b := 0, len(q2.clauses)-1; a < b; a, b = a+1, b-1 {
				q2.clauses[a], q2.clauses[b] = q2.clauses[b], q2.clauses[a]
			}
		}
		pre := []string{q.text(), insertStmt("?g0", ts[h:])}
		if i%4 == 3 {
			pre = append(pre, q2.text(), insertStmt("?g0", ts[:2])) // re-insert triples that are present
		}
		out(tag(run(Spec{Graphs: [][]string{ts[:h]}, Query: q2.text(), Pre: pre}, false), "sequence-insert", next()))
	}
	filterPairs(r, n/32, out, next)
	// (3h'') fill, DROP GRAPH, CREATE GRAPH, INSERT, query with S and O bound and P free: a new graph must not answer from the old one
	for i := 0; i < n/40; i++ {
		ts := cycleData(r)
		h := len(ts) / 2
		a := splitTriple(ts[i%len(ts)])
		q := query{clauses: []string{a.s + " ?p " + a.o}, optional: []bool{false}, from: 1}
		if i%2 == 1 {
			q = query{clauses: []string{`?x "p"@[] ?y`, `?x ?p ?y`}, optional: []bool{false, false}, from: 1}
		}
		pre := []string{q.text(), "DROP GRAPH ?g0;", "CREATE GRAPH ?g0;", insertStmt("?g0", ts[h:])}
		out(tag(run(Spec{Graphs: [][]string{ts}, Query: q.text(), Pre: pre}, false), "sequence-drop", next()))
	}
	// (3h3) statement bounds equal to anchors of the data, both clause orders
	for i := 0; i < n/16; i++ {
		ts := boundsEqData()
		k := 1 + i%2
		q := boundsEqQuery(r, k)
		if i%2 == 1 {
			q.clauses[0], q.clauses[1] = q.clauses[1], q.clauses[0]
		}
		out(tag(run(Spec{Graphs: roundRobin(ts, k, i%k), Query: q.text()}, false), "bounds-eq", next()))
	}
	// (3i) the last clause binds nothing new and matches more than once (the triple in two FROM graphs, an interval matching
	// two anchors), projected through aliases that carry the names of pattern bindings
	for i := 0; i < n/16; i++ {
		base := []string{"/u<a>\t\"p\"@[]\t/u<b>", "/u<a>\t\"q\"@[2016-01-01T00:00:00Z]\t/u<b>", "/u<a>\t\"q\"@[2016-06-01T00:00:00-08:00]\t/u<b>",
			"/u<c>\t\"p\"@[]\t/u<d>", "/u<c>\t\"q\"@[2016-06-01T00:00:00-08:00]\t/u<d>"}
		g0 := append(append([]string{}, base...), genTriples(r, 3)...)
		g1 := append(append([]string{}, base...), genTriples(r, 3)...)
		last := []string{`?s "p"@[] ?o`, `?s "q"@[2015-01-01T00:00:00Z,2018-01-01T00:00:00Z] ?o`, `?s ?p ?o`, `?s "q"@[,] ?o`}[i%4]
		first := []string{`?s "p"@[] ?o`, `?s ?p ?o`}[(i/4)%2]
		q := query{clauses: []string{first, last}, optional: []bool{false, false}, from: 1 + i%2}
		q.proj = []string{"?s AS ?o, ?o AS ?v", "?o AS ?s, ?s AS ?w", "?s AS ?o, ?o AS ?s"}[i%3]
		gsx := [][]string{g0, g1}[:q.from]
		out(tag(run(Spec{Graphs: gsx, Query: q.text()}, false), "merge-alias", next()))
	}
	// (3j) a binding used twice in a clause that also has an anchor / TYPE / ID / AT binding
	for i := 0; i < n/16; i++ {
		ts := repeatData()
		r.Shuffle(len(ts), func(a, b int) { ts[a], ts[b] = ts[b], ts[a] })
		k := 1 + i%2
		q := repeatQuery(r, k)
		if i%3 == 1 { // the other clause order
			for a, b := 0, len(q.clauses)-1; a < b; a, b = a+1, b-1 {
				q.clauses[a], q.clauses[b] = q.clauses[b], q.clauses[a]
			}
		}
		out(tag(run(Spec{Graphs: roundRobin(ts, k, i%k), Query: q.text()}, false), "repeat-extract", next()))
	}
	// (4) malformed stream: statements the front end must reject
	bad := []string{
		"SELECT ?nope FROM ?g0 WHERE { ?s ?p ?o };",
		"SELECT ?s FROM ?g0 WHERE { ?s ?p };",
		"SELECT ?s FROM ?g0 WHERE { ?s \"p\"@[2017-01-01T00:00:00Z,2016-01-01T00:00:00Z] ?o };",
		"SELECT ?s FROM ?g0 WHERE { ?s ?p ?o . };;",
		"SELECT ?s FROM ?missing WHERE { ?s ?p ?o };",
		"SELECT ?s WHERE { ?s ?p ?o };",
	}
	for _, b := range bad {
		out(tag(run(Spec{Graphs: [][]string{genTriples(r, 4)}, Query: b}, false), "malformed", next()))
	}
}

func genC10(r *rand.Rand, n int, exhaustive bool, out func(J), next func() int) {
	// first clause plain, then 1-3 clauses of which at least one is OPTIONAL, sharing 0, 1 or 2 bindings
	for i := 0; i < n; i++ {
		gs := graphsFor(r, 1+r.Intn(2), 4+r.Intn(10))
		ncl := 2 + r.Intn(3)
		var q query
		switch r.Intn(4) {
		case 0:
			q = chainQuery(r, ncl, gs)
			for j := 1; j < ncl; j++ {
				q.optional[j] = r.Intn(2) == 0
			}
			q.optional[1+r.Intn(ncl-1)] = true
		case 1:
			// optional clause sharing nothing / fully specified with or without alias
			q = randQuery(r, 1, true, 0, gs)
			extra := []string{
				"/u<a> \"p\"@[] /u<b>", "/u<a> \"p\"@[] /u<b> AS ?al", "/u<c> \"r\"@[] /u<d>", "/u<a> AS ?al2 \"q\"@[] /u<c>",
				"?n1 \"r\"@[] ?n2", "?n1 \"zz\"@[] ?n2", "/u<d> ?np ?no", "?n1 ?np \"hi\"^^type:text",
			}
			k := 1 + r.Intn(2)
			for j := 0; j < k; j++ {
				q.clauses = append(q.clauses, pick(r, extra))
				q.optional = append(q.optional, true)
			}
		default:
			q = randQuery(r, ncl, r.Intn(4) > 0, 60, gs)
			q.optional[1+r.Intn(ncl-1)] = true
		}
		q.from = len(gs)
		q = withProjection(r, q)
		out(tag(run(Spec{Graphs: gs, Query: q.text()}, false), "optional", next()))
	}
	// disjoint OPTIONAL clauses with several matches whose bindings are NOT projected: a disjoint optional clause multiplies
	// the rows by its matches (left outer join without join condition), which only the multiplicities show
	for i := 0; i < n/8; i++ {
		gs := graphsFor(r, 1+r.Intn(2), 8+r.Intn(10))
		a, b := anchorOf(r, gs), anchorOf(r, gs)
		if a == nil || b == nil {
			continue
		}
		first := []string{"?s " + a.p + " ?o", a.s + " ?p ?o", "?s ?p " + a.o}[i%3]
		opt := []string{"?x " + b.p + " ?y", "?x ?q " + b.o, b.s + " ?q ?y"}[(i/3)%3]
		q := query{clauses: []string{first, opt}, optional: []bool{false, true}, from: len(gs)}
		if i%4 == 3 {
			q.clauses = append(q.clauses, "?o ?p2 ?z")
			q.optional = append(q.optional, i%8 == 3)
		}
		q.proj = strings.Join(bindingsOf(first), ", ")
		out(tag(run(Spec{Graphs: gs, Query: q.text()}, false), "optional-unprojected", next()))
	}
	// an OPTIONAL clause whose ONLY bindings shared with the table are extraction aliases (AT / TYPE / ID), over data in
	// which the same instant is written in two zones on the two sides (anchors are joined as instants)
	shared := [][]string{
		{`?b "q"@[?t] ?c`, `?s ?p ?o AT ?t`},
		{`?b "q"@[?t] ?c`, `?s ?p AT ?t ?o`},
		{`?b ?p1 AT ?t ?c`, `?s "r"@[] ?o AT ?t`},
		{`?b ?p1 ?c AT ?t`, `?s ?p AT ?t ?o`},
		{`?a TYPE ?ty ?p ?b`, `?x ?q ?y TYPE ?ty`},
		{`?a ID ?i ?p ?b`, `?x ID ?i ?q ?y`},
		{`?a ?p ID ?i ?b`, `?x ?q ID ?i ?y`},
		{`?a ?p ?b TYPE ?ty ID ?i`, `?x TYPE ?ty ID ?i "p"@[] ?y`},
	}
	zoned := []string{
		"/u<ann>\t\"q\"@[2016-01-01T01:00:00+01:00]\t/u<car>", "/u<s1>\t\"r\"@[]\t\"q\"@[2016-01-01T00:00:00Z]",
		"/u<s2>\t\"q\"@[2016-01-01T00:00:00Z]\t/u<d>", "/u<bob>\t\"q\"@[2016-06-01T00:00:00-08:00]\t\"q\"@[2016-01-01T01:00:00+01:00]",
		"/u<s3>\t\"r\"@[]\t\"p\"@[2016-06-01T00:00:00-08:00]", "/t<ann>\t\"p\"@[]\t/u<ann>",
	}
	for i := 0; i < n/8; i++ {
		ts := append(append([]string{}, zoned...), genTriples(r, 4+r.Intn(6))...)
		seen := map[string]bool{}
		var uniq []string
		for _, t := range ts {
			if k := tripleKey(t); !seen[k] {
				seen[k] = true
				uniq = append(uniq, t)
			}
		}
		k := 1 + i%2
		cl := shared[i%len(shared)]
		q := query{clauses: []string{cl[0], cl[1]}, optional: []bool{false, true}, from: k}
		if i%3 == 2 {
			q.clauses = append(q.clauses, "?c ?p9 ?z")
			q.optional = append(q.optional, true)
		}
		out(tag(run(Spec{Graphs: roundRobin(uniq, k, i%k), Query: q.text()}, false), "optional-extraction-shared", next()))
	}
	// a fully specified OPTIONAL clause with a temporal predicate under statement-level time bounds (inside and outside)
	for i := 0; i < n/10; i++ {
		gs := graphsFor(r, 1+r.Intn(2), 8+r.Intn(10))
		var a *anchorT
		for k := 0; k < 20; k++ {
			a = anchorOf(r, gs)
			if a != nil && !strings.HasSuffix(a.p, "@[]") {
				break
			}
		}
		b := anchorOf(r, gs)
		if a == nil || b == nil {
			continue
		}
		opt := a.s + " " + a.p + " " + a.o
		if i%2 == 0 {
			opt += " AS ?al"
		}
		q := query{clauses: []string{"?s " + b.p + " ?o", opt}, optional: []bool{false, true}, from: len(gs), tail: pick(r, tails)}
		if i%3 == 0 {
			q.clauses = append(q.clauses, "?o ?p2 ?z")
			q.optional = append(q.optional, true)
		}
		out(tag(run(Spec{Graphs: gs, Query: q.text()}, false), "optional-spec3-bounds", next()))
	}
	// windows given by bindings inside / before OPTIONAL clauses on temporal predicates, several rows with different windows
	optWin := [][]string{
		{`?w "lo"@[?lo] ?x`, `OPT ?x "seen"@[?lo,] ?o`, `OPT ?x "later"@[?t] ?z`},
		{`?w "hi"@[?hi] ?x`, `OPT ?x "seen"@[,?hi] ?o`, `OPT ?x "later"@[?t] ?z`},
		{`?w "lo"@[?lo] ?x`, `?w "hi"@[?hi] ?x`, `OPT ?x "seen"@[?lo,?hi] ?o`, `OPT ?x "later"@[?t] ?z`},
		{`?w "lo"@[?lo] ?x`, `?x "seen"@[?lo,] ?o`, `OPT ?x "later"@[?t] ?z`},
	}
	for i := 0; i < n/16; i++ {
		ts := windowData()
		r.Shuffle(len(ts), func(a, b int) { ts[a], ts[b] = ts[b], ts[a] })
		k := 1 + i%2
		q := query{from: k}
		for _, c := range optWin[i%len(optWin)] {
			q.clauses = append(q.clauses, strings.TrimPrefix(c, "OPT "))
			q.optional = append(q.optional, strings.HasPrefix(c, "OPT "))
		}
		out(tag(run(Spec{Graphs: roundRobin(ts, k, i%k), Query: q.text()}, false), "optional-windows", next()))
	}
	// the same OPTIONAL query before and after matching triples are added through the storage API (no BQL INSERT in between)
	for i := 0; i < n/16; i++ {
		ts := cycleData(r)
		h := len(ts) / 2
		oq := [][]string{
			{`?a "p"@[] ?b`, `OPT ?b "q"@[] ?c`},
			{`?a ?p ?b`, `OPT ?b "q"@[?t] ?c`},
			{`?a "q"@[] ?b`, `OPT ?a "p"@[] ?c`, `OPT ?c "p"@[] ?d`},
		}[i%3]
		q := query{from: 1}
		for _, c := range oq {
			q.clauses = append(q.clauses, strings.TrimPrefix(c, "OPT "))
			q.optional = append(q.optional, strings.HasPrefix(c, "OPT "))
		}
		pre := []string{q.text(), "@add ?g0 " + strings.Join(ts[h:], "|")}
		if i%2 == 1 {
			pre = append(pre, q.text(), "@add ?g0 "+strings.Join(ts[:2], "|"))
		}
		out(tag(run(Spec{Graphs: [][]string{ts[:h]}, Query: q.text(), Pre: pre}, false), "sequence-optional", next()))
	}
	// an OPTIONAL clause all of whose bindings are already bound and which matches more than once for a row (anchors that
	// differ under an interval, the triple in two FROM graphs): the row appears once per match
	for i := 0; i < n/16; i++ {
		base := []string{"/u<a>\t\"p\"@[]\t/u<b>", "/u<a>\t\"q\"@[2016-01-01T00:00:00Z]\t/u<b>", "/u<a>\t\"q\"@[2016-06-01T00:00:00-08:00]\t/u<b>",
			"/u<c>\t\"p\"@[]\t/u<d>", "/u<c>\t\"q\"@[2016-06-01T00:00:00-08:00]\t/u<d>", "/u<b>\t\"p\"@[]\t/u<a>"}
		g0 := append(append([]string{}, base...), genTriples(r, 3)...)
		g1 := append(append([]string{}, base...), genTriples(r, 3)...)
		opt := []string{`?s "q"@[,] ?o`, `?s "q"@[2015-01-01T00:00:00Z,2018-01-01T00:00:00Z] ?o`, `?s "p"@[] ?o`, `?s ?p ?o`}[i%4]
		first := []string{`?s "p"@[] ?o`, `?s ?p ?o`}[(i/4)%2]
		q := query{clauses: []string{first, opt}, optional: []bool{false, true}, from: 1 + i%2}
		out(tag(run(Spec{Graphs: [][]string{g0, g1}[:q.from], Query: q.text()}, false), "optional-allbound", next()))
	}
	filterPairs(r, n/12, out, next)
	// one sized case: 260 left rows, the OPTIONAL clause shares an anchor binding; the same instant in two zones on the two sides
	{
		var ts []string
		for i := 0; i < 260; i++ {
			ts = append(ts, fmt.Sprintf("/u<n%d>\t\"p\"@[2016-01-01T00:00:00Z]\t/u<x>", i))
			if i%3 == 0 {
				ts = append(ts, fmt.Sprintf("/u<n%d>\t\"q\"@[2016-01-01T01:00:00+01:00]\t/u<z%d>", i, i))
			}
			if i%7 == 0 {
				ts = append(ts, fmt.Sprintf("/u<n%d>\t\"q\"@[2016-06-01T00:00:00-08:00]\t/u<y%d>", i, i))
			}
		}
		q := query{clauses: []string{`?s "p"@[?t] ?o`, `?s "q"@[?t] ?z`}, optional: []bool{false, true}, from: 1}
		out(tag(run(Spec{Graphs: [][]string{ts}, Query: q.text()}, false), "sized", next()))
	}
	if exhaustive {
		// all pairs (plain first clause form, plain second clause form) with the second optional, names from a pool of 3
		pool := []string{"?a", "?b", "?c"}
		for _, s2 := range sPlain {
			for _, p2 := range pPlain {
				for _, o2 := range oPlain {
					gs := graphsFor(r, 1, 4+r.Intn(8))
					nm := poolNamer(r, pool)
					q := query{clauses: []string{"?a ?b ?c", fill(resolve(r, s2+" "+p2+" "+o2, anchorOf(r, gs)), nm)}, optional: []bool{false, true}, from: 1}
					out(tag(run(Spec{Graphs: gs, Query: q.text()}, false), "optional-pairs", next()))
				}
			}
		}
	}
}

// ---------------------------------------------------------------- C14: metamorphic variants

func perms(n int) [][]int {
	if n == 1 {
		return [][]int{{0}}
	}
	var out [][]int
	for _, p := range perms(n - 1) {
		for i := 0; i <= len(p); i++ {
			q := append(append(append([]int{}, p[:i]...), n-1), p[i:]...)
			out = append(out, q)
		}
	}
	return out
}

func renameAll(text string) string {
	// consistent renaming ?x -> ?x_r for every binding (graph names untouched)
	var b strings.Builder
	for i := 0; i < len(text); i++ {
		if text[i] == '?' {
			j := i + 1
			for j < len(text) && (text[j] == '_' || text[j] >= 'a' && text[j] <= 'z' || text[j] >= '0' && text[j] <= '9') {
				j++
			}
			n := text[i:j]
			if strings.HasPrefix(n, "?g") {
				b.WriteString(n)
			} else {
				b.WriteString("?r" + n[1:] + "x")
			}
			i = j - 1
			continue
		}
		b.WriteByte(text[i])
	}
	return b.String()
}

// data with anchors that differ only in the fractional part of a second (and some that differ by more)
func orderData(r *rand.Rand) []string {
	fr := []string{".001", ".002", ".01", ".1", ".25", ".5", ".75", ".9", ".999", ""}
	r.Shuffle(len(fr), func(i, j int) { fr[i], fr[j] = fr[j], fr[i] })
	var ts []string
	for i, f := range fr[:7+r.Intn(3)] {
		sec := "00"
		if i%4 == 3 {
			sec = "01"
		}
		ts = append(ts, fmt.Sprintf("/u<n%d>\t\"e\"@[2016-01-01T00:00:%s%sZ]\t/u<m%d>", i, sec, f, i%3))
	}
	for i, f := range fr[:5] {
		ts = append(ts, fmt.Sprintf("/u<m%d>\t\"f\"@[2016-02-01T00:00:00%sZ]\t/u<z%d>", i%3, f, i))
	}
	return ts
}

// filterPairs: the same statement without and with a FILTER on a predicate / object binding of one NON-optional clause. The
// filter applies to that clause only, so the filtered result is the unfiltered one restricted to rows whose value of the
// binding is a temporal (immutable) predicate - whatever other clauses, OPTIONAL or not, follow.
func filterPairs(r *rand.Rand, n int, out func(J), next func() int) {
	shapes := []struct {
		cl  []string
		opt []bool
		b   string
	}{
		{[]string{`?s ?p ?c`, `?c "q"@[] ?k`}, []bool{false, true}, "?p"},
		{[]string{`?s ?p ?c`, `?c ?p2 ?k`}, []bool{false, true}, "?p"},
		{[]string{`?s ?p ?c`, `?c ?p2 ?k`}, []bool{false, false}, "?p"},
		{[]string{`?s ?p ?o`, `?s "p"@[] ?z`}, []bool{false, true}, "?p"},
		{[]string{`?s "r"@[] ?o`, `?s ?p2 ?z`}, []bool{false, true}, "?o"},
		{[]string{`?s ?p ?o`, `?s ?p2 ?o2`, `?o2 "q"@[?t] ?w`}, []bool{false, false, true}, "?o"},
		{[]string{`?a "p"@[] ?s`, `?s ?p ?c`, `?c "r"@[] ?k`}, []bool{false, false, true}, "?p"},
	}
	for i := 0; i < n; i++ {
		gs := graphsFor(r, 1+i%2, 10+r.Intn(12))
		sh := shapes[i%len(shapes)]
		fn := []string{"isTemporal", "isImmutable"}[(i/len(shapes))%2]
		q := query{clauses: sh.cl, optional: sh.opt, from: len(gs)}
		qf := q
		qf.clauses = append(append([]string{}, sh.cl...), "FILTER "+fn+"("+sh.b+")")
		qf.optional = append(append([]bool{}, sh.opt...), false)
		// the projection is the same explicit list for both
		q.proj = strings.Join(bindingsOf(strings.Join(sh.cl, " . ")), ", ")
		qf.proj = q.proj
		pair := next()
		for role, qq := range []query{q, qf} {
			o := tag(run(Spec{Graphs: gs, Query: qq.text()}, false), "filter-pair", next())
			o["pair"] = pair
			o["role"] = []string{"plain", "filtered"}[role]
			o["filter_fn"] = fn
			o["filter_binding"] = sh.b
			out(o)
		}
	}
}

// statement bounds EQUAL to anchors of the data, on clauses joined through an anchor binding: one clause is fully specified
// once the other has bound ?t, so the path (existence test vs driver lookup) depends on the clause order
var eqAnchors = []string{"2016-01-01T00:00:00Z", "2016-03-01T00:00:00Z", "2016-06-01T00:00:00-08:00", "2016-12-01T00:00:00Z"}

func boundsEqData() []string {
	var ts []string
	for i, a := range eqAnchors {
		ts = append(ts, fmt.Sprintf("/u<s%d>\t\"p\"@[%s]\t/u<o%d>", i, a, i), fmt.Sprintf("/u<a>\t\"q\"@[%s]\t/u<b>", a))
	}
	ts = append(ts, "/u<a>\t\"q\"@[]\t/u<b>", "/u<s9>\t\"p\"@[2016-03-01T00:00:00Z]\t/u<a>")
	return ts
}

func boundsEqQuery(r *rand.Rand, k int) query {
	cl := [][]string{
		{`?s "p"@[?t] ?o`, `/u<a> "q"@[?t] /u<b>`},
		{`?s "p"@[?t] ?o`, `/u<a> "q"@[?t] /u<b> AS ?ob`},
		{`?s "p"@[?t] ?o`, `?x "q"@[?t] ?y`},
		{`?s ?p1 AT ?t ?o`, `/u<a> "q"@[?t] ?y`},
	}[r.Intn(4)]
	q := query{from: k}
	for _, c := range cl {
		q.clauses = append(q.clauses, c)
		q.optional = append(q.optional, false)
	}
	a, b := r.Intn(len(eqAnchors)), r.Intn(len(eqAnchors))
	if a > b {
		a, b = b, a
	}
	q.tail = []string{"AFTER " + eqAnchors[a], "BEFORE " + eqAnchors[b], "BETWEEN " + eqAnchors[a] + ", " + eqAnchors[b]}[r.Intn(3)]
	return q
}

// insertStmt writes triples (tab separated texts) as an INSERT statement into graph g
func insertStmt(g string, ts []string) string {
	var parts []string
	for _, t := range ts {
		parts = append(parts, strings.ReplaceAll(t, "\t", " "))
	}
	return "INSERT DATA INTO " + g + " { " + strings.Join(parts, " . ") + " };"
}

// clauses that use a binding twice AND carry an anchor / TYPE / ID / AT binding, joined with a second clause
func repeatData() []string {
	return []string{
		"/u<a>\t\"met\"@[2016-01-01T00:00:00Z]\t/u<a>", "/u<a>\t\"met\"@[2016-06-01T00:00:00-08:00]\t/u<b>",
		"/u<b>\t\"met\"@[2016-01-01T00:00:00Z]\t/u<a>", "/u<b>\t\"p\"@[]\t/u<b>", "/u<a>\t\"p\"@[]\t/u<c>", "/u<c>\t\"p\"@[]\t/u<c>",
		"/u<a>\t\"name\"@[]\t\"hi\"^^type:text", "/u<b>\t\"name\"@[]\t\"a\"^^type:text", "/u<c>\t\"name\"@[]\t\"1\"^^type:int64",
		"/u<c>\t\"q\"@[2016-01-01T00:00:00Z]\t\"q\"@[2016-01-01T00:00:00Z]", "/u<b>\t\"q\"@[2016-01-01T00:00:00Z]\t\"q\"@[2016-06-01T00:00:00-08:00]",
	}
}

var repeatQueries = [][]string{
	{`?x "met"@[?t] ?x`, `?x "name"@[] ?n`},
	{`?x "p"@[] ?x TYPE ?ty`, `?x "name"@[] ?n`},
	{`?x ID ?i "p"@[] ?x`, `?x "name"@[] ?n`},
	{`?x ?p AT ?t ?x`, `?x "name"@[] ?n`},
	{`?x TYPE ?ty ?p ?x`, `?x ?q ?o`},
	{`?s ?p AT ?t ?p`, `?s "name"@[] ?n`},
	{`?s "q"@[?t] "q"@[?t]`, `?s ?p2 ?o2`},
	{`?x "met"@[?t] ?x`, `?y "met"@[?t] ?x`, `?y "name"@[] ?n`},
}

func repeatQuery(r *rand.Rand, k int) query {
	cl := repeatQueries[r.Intn(len(repeatQueries))]
	q := query{from: k}
	for _, c := range cl {
		q.clauses = append(q.clauses, c)
		q.optional = append(q.optional, false)
	}
	return q
}

var orderQueries = []query{
	{clauses: []string{`?s "e"@[?t] ?o`}, optional: []bool{false}, proj: "?s, ?t, ?o", order: "?t"},
	{clauses: []string{`?s "e"@[?t] ?o`}, optional: []bool{false}, proj: "?t, ?s", order: "?t DESC"},
	{clauses: []string{`?a "e"@[?t] ?b`, `?b "f"@[?u] ?c`}, optional: []bool{false, false}, proj: "?a, ?t, ?b, ?u, ?c", order: "?t, ?u"},
	{clauses: []string{`?a "e"@[?t] ?b`, `?b "f"@[?u] ?c`}, optional: []bool{false, false}, proj: "?t, ?u, ?c", order: "?u DESC, ?t"},
}

func genC14(r *rand.Rand, n int, out func(J), next func() int) {
	for gi := 0; gi < n; gi++ {
		var ts []string
		var q query
		ncl := 1 + r.Intn(4)
		ordered := gi%4 == 3
		keepTail := false
		switch {
		case ordered:
			ts = orderData(r)
			q = orderQueries[r.Intn(len(orderQueries))]
			ncl = len(q.clauses)
		case gi%4 == 1 && gi%8 == 1:
			ts = cycleData(r)
			q = cycleQuery(r, 1)
			ncl = len(q.clauses)
		case gi%8 == 2:
			// wide: a complete digraph, so that the intermediate table exceeds GOMAXPROCS and every row fans out
			m := 4 + gi%2
			for i := 0; i < m; i++ {
				for j := 0; j < m; j++ {
					ts = append(ts, fmt.Sprintf("/u<n%d>\t\"p\"@[]\t/u<n%d>", i, j))
				}
			}
			q = query{clauses: []string{`?a "p"@[] ?b`, `?b "p"@[] ?c`}, optional: []bool{false, false}}
			ncl = 2
		case gi%8 == 0 && gi%16 == 8 || gi%16 == 4:
			ts = boundsEqData()
			r.Shuffle(len(ts), func(a, b int) { ts[a], ts[b] = ts[b], ts[a] })
			q = boundsEqQuery(r, 1)
			ncl = len(q.clauses)
			keepTail = true
		case gi%8 == 4:
			// OPTIONAL clauses that share a binding with the rows built so far and match for some rows only
			ts = cycleData(r)
			oq := [][]string{
				{`?a "p"@[] ?b`, `OPT ?b "q"@[] ?c`},
				{`?a ?p ?b`, `OPT ?b "q"@[?t] ?c`, `OPT ?c "p"@[] ?d`},
				{`?a "q"@[] ?b`, `OPT ?a "p"@[] ?c`},
				{`?a "p"@[] ?b`, `?b "p"@[] ?c`, `OPT ?c "q"@[] ?a`},
			}[(gi/8)%4]
			q = query{}
			for _, c := range oq {
				q.clauses = append(q.clauses, strings.TrimPrefix(c, "OPT "))
				q.optional = append(q.optional, strings.HasPrefix(c, "OPT "))
			}
			ncl = len(q.clauses)
		case gi%8 == 6:
			ts = repeatData()
			r.Shuffle(len(ts), func(a, b int) { ts[a], ts[b] = ts[b], ts[a] })
			q = repeatQuery(r, 1)
			ncl = len(q.clauses)
		case gi%8 == 5:
			ts = windowData()
			r.Shuffle(len(ts), func(a, b int) { ts[a], ts[b] = ts[b], ts[a] })
			q = windowQuery(r, 1)
			ncl = len(q.clauses)
		default:
			ts = genTriples(r, 5+r.Intn(10))
			switch r.Intn(3) {
			case 0:
				q = chainQuery(r, ncl, [][]string{ts})
			default:
				q = randQuery(r, ncl, r.Intn(4) > 0, 0, [][]string{ts})
			}
			if gi%5 == 4 && ncl > 1 { // some queries with OPTIONAL: every variant except clause order applies
				q.optional[1+r.Intn(ncl-1)] = true
			}
			q = withProjection(r, q)
		}
		q.from = 1
		if !keepTail {
			q.tail = ""
		}
		hasOpt := false
		for _, o := range q.optional {
			hasOpt = hasOpt || o
		}
		emitv := func(variant string, sp Spec, eval bool) {
			o := tag(run(sp, false), "c14", next())
			o["group"] = gi
			o["variant"] = variant
			o["eval"] = eval && !ordered
			o["has_optional"] = hasOpt
			o["ordered"] = ordered
			out(o)
		}
		base := [][]string{ts}
		emitv("base", Spec{Graphs: base, Query: q.text()}, true)
		// configurations and repetition
		for _, ch := range []int{0, 1, 16} {
			for _, bulk := range []int{1, 2, 1000} {
				for _, procs := range []int{1, 4} {
					if ch == 0 && bulk == 1000 && procs == 4 {
						continue
					}
					emitv(fmt.Sprintf("cfg:chan=%d,bulk=%d,procs=%d", ch, bulk, procs), Spec{Graphs: base, Query: q.text(), ChanSize: ch, BulkSize: bulk, Procs: procs}, false)
				}
			}
		}
		for rep := 0; rep < 3; rep++ {
			emitv(fmt.Sprintf("rep:%d", rep), Spec{Graphs: base, Query: q.text(), Procs: 4}, false)
		}
		// renaming
		emitv("rename", Spec{Graphs: base, Query: renameAll(q.text())}, true)
		// partitions of the data over 2 and 3 graphs (no duplication): a random one, and the adversarial round-robin
		// partitions in every rotation (consecutive triples in different graphs, every order of the FROM list)
		for k := 2; k <= 3; k++ {
			q2 := q
			q2.from = k
			emitv(fmt.Sprintf("split:%d", k), Spec{Graphs: split(r, ts, k, false), Query: q2.text()}, true)
			for rot := 0; rot < k; rot++ {
				// graph names that are substrings of names listed before them, and the other way round
				q3 := q2
				q3.names = nameSchemes[1+(gi+rot)%(len(nameSchemes)-1)]
				emitv(fmt.Sprintf("split:rr%d.%d", k, rot), Spec{Graphs: roundRobin(ts, k, rot), Names: q3.names, Query: q3.text()}, true)
			}
		}
		// superset of the data
		if !ordered {
			sup := append([]string{}, ts...)
			seen := map[string]bool{}
			for _, t := range ts {
				seen[tripleKey(t)] = true
			}
			for _, t := range genTriples(r, 4) {
				if !seen[tripleKey(t)] {
					seen[tripleKey(t)] = true
					sup = append(sup, t)
				}
			}
			// also new predicates between a subject and an object that are already connected (same S+O bucket of the store)
			for _, t := range ts[:min(3, len(ts))] {
				f := strings.Split(t, "\t")
				nt := f[0] + "\t\"r\"@[]\t" + f[2]
				if !seen[tripleKey(nt)] {
					seen[tripleKey(nt)] = true
					sup = append(sup, nt)
				}
			}
			emitv("superset", Spec{Graphs: [][]string{sup}, Query: q.text()}, true)
			// the same final data reached by: query, INSERT of the extra triples, query again (must equal the superset run);
			// and the same with the clauses in reverse order
			if extra := sup[len(ts):]; len(extra) > 0 {
				emitv("seqadd", Spec{Graphs: base, Pre: []string{q.text(), insertStmt("?g0", extra)}, Query: q.text()}, true)
				emitv("seqadd:again", Spec{Graphs: base, Pre: []string{q.text(), insertStmt("?g0", extra), q.text(), insertStmt("?g0", ts[:1])}, Query: q.text()}, true)
			}
		}
		// clause permutations (the projection is kept: explicit list so that it does not depend on clause order)
		if ncl > 1 && ncl <= 4 && !hasOpt {
			q0 := q
			if q0.proj == "" {
				q0.proj = strings.Join(bindingsOf(strings.Join(q.clauses, " . ")), ", ")
			}
			if q0.proj != "" {
				for _, p := range perms(ncl)[1:] {
					q2 := q0
					q2.clauses = make([]string, ncl)
					q2.optional = make([]bool, ncl)
					for i, j := range p {
						q2.clauses[i] = q0.clauses[j]
					}
					emitv(fmt.Sprintf("perm:%v", p), Spec{Graphs: base, Query: q2.text()}, true)
				}
			}
		}
	}
}
