// h_query: correspondence harness of the Planner family (C03, C10, C14).
//
// Generates small random graphs in storage/memory over a small vocabulary and SELECT statements as TEXT, parses them
// with the real grammar.SemanticBQL parser, executes them with planner.New(...).Execute and prints one JSON object per
// case: the graphs as read back from the store, every parsed semantic.GraphClause field by field, the global lookup
// options, the projections and the observed outcome (rows as rendered cells, sorted; errors as a small enum).
//
// Modes:
//   -mode gen  -family c03|c10|c14 -n N -seed S [-exhaustive]   generate + run
//   -mode one                                                    run one case read from stdin (child process; used for
//                                                                cases that may crash the process inside a goroutine)
//   -mode probe                                                  how the store matches predicate kinds (F6)
//   -mode replay -file f.json                                    run the cases of a corpus file (one JSON case per line)
package main

import (
	"bufio"
	"bytes"
	"context"
	"encoding/json"
	"flag"
	"fmt"
	"io"
	"math"
	"math/rand"
	"os"
	"os/exec"
	"runtime"
	"sort"
	"strings"
	"time"

	"github.com/google/badwolf/bql/grammar"
	"github.com/google/badwolf/bql/planner"
	"github.com/google/badwolf/bql/semantic"
	"github.com/google/badwolf/bql/table"
	"github.com/google/badwolf/storage"
	"github.com/google/badwolf/storage/memory"
	"github.com/google/badwolf/triple"
	"github.com/google/badwolf/triple/literal"
	"github.com/google/badwolf/triple/node"
	"github.com/google/badwolf/triple/predicate"
)

type J = map[string]interface{}

// Spec is the input of one execution: graph contents as triple texts, the statement text and the configuration.
type Spec struct {
	Graphs   [][]string `json:"graphs"` // graph i is named Names[i], by default ?g<i>
	Names    []string   `json:"names,omitempty"`
	Query    string     `json:"query"`
	Pre      []string   `json:"pre,omitempty"` // statements executed before Query on the same store (results discarded)
	ChanSize int        `json:"chan"`
	BulkSize int        `json:"bulk"`
	Procs    int        `json:"procs"`
}

// ---------------------------------------------------------------- serialisation of values

func jTime(t *time.Time) interface{} {
	if t == nil {
		return nil
	}
	_, off := t.Zone()
	return J{"ns": t.UnixNano(), "z": off}
}

func jNode(n *node.Node) interface{} {
	if n == nil {
		return nil
	}
	return J{"t": n.Type().String(), "id": n.ID().String()}
}

func jPred(p *predicate.Predicate) interface{} {
	if p == nil {
		return nil
	}
	if p.Type() == predicate.Immutable {
		return J{"id": string(p.ID()), "a": nil}
	}
	ta, err := p.TimeAnchor()
	if err != nil {
		return J{"id": string(p.ID()), "a": nil, "bad": true}
	}
	return J{"id": string(p.ID()), "a": jTime(ta)}
}

func jLit(l *literal.Literal) interface{} {
	if l == nil {
		return nil
	}
	switch l.Type() {
	case literal.Bool:
		b, _ := l.Bool()
		return J{"k": "bool", "v": b}
	case literal.Int64:
		i, _ := l.Int64()
		return J{"k": "int64", "v": fmt.Sprint(i)}
	case literal.Float64:
		f, _ := l.Float64()
		return J{"k": "float64", "v": fmt.Sprint(math.Float64bits(f))}
	case literal.Text:
		s, _ := l.Text()
		return J{"k": "text", "v": s}
	case literal.Blob:
		b, _ := l.Blob()
		is := make([]int, len(b))
		for i, x := range b {
			is[i] = int(x)
		}
		return J{"k": "blob", "v": is}
	}
	return J{"k": "unknown"}
}

func jObj(o *triple.Object) interface{} {
	if o == nil {
		return nil
	}
	if n, err := o.Node(); err == nil {
		return J{"n": jNode(n)}
	}
	if p, err := o.Predicate(); err == nil {
		return J{"p": jPred(p)}
	}
	if l, err := o.Literal(); err == nil {
		return J{"l": jLit(l)}
	}
	return J{"bad": true}
}

func jTriple(t *triple.Triple) interface{} {
	return J{"s": jNode(t.Subject()), "p": jPred(t.Predicate()), "o": jObj(t.Object())}
}

func jCell(c *table.Cell, ok bool) interface{} {
	if !ok || c == nil {
		return J{"missing": true}
	}
	n := 0
	var r J
	if c.S != nil {
		n++
		r = J{"s": *c.S}
	}
	if c.N != nil {
		n++
		r = J{"n": jNode(c.N)}
	}
	if c.P != nil {
		n++
		r = J{"p": jPred(c.P)}
	}
	if c.L != nil {
		n++
		r = J{"l": jLit(c.L)}
	}
	if c.T != nil {
		n++
		r = J{"t": jTime(c.T)}
	}
	if n == 0 {
		return J{"null": true}
	}
	if n > 1 {
		return J{"multi": true}
	}
	return r
}

func jClause(c *semantic.GraphClause) J {
	return J{
		"Optional": c.Optional,
		"S":        jNode(c.S), "SBinding": c.SBinding, "SAlias": c.SAlias, "STypeAlias": c.STypeAlias, "SIDAlias": c.SIDAlias,
		"P": jPred(c.P), "PID": c.PID, "PBinding": c.PBinding, "PAlias": c.PAlias, "PIDAlias": c.PIDAlias,
		"PAnchorBinding": c.PAnchorBinding, "PAnchorAlias": c.PAnchorAlias,
		"PLowerBound": jTime(c.PLowerBound), "PUpperBound": jTime(c.PUpperBound),
		"PLowerBoundAlias": c.PLowerBoundAlias, "PUpperBoundAlias": c.PUpperBoundAlias, "PTemporal": c.PTemporal,
		"O": jObj(c.O), "OBinding": c.OBinding, "OAlias": c.OAlias, "OID": c.OID, "OTypeAlias": c.OTypeAlias,
		"OIDAlias": c.OIDAlias, "OAnchorBinding": c.OAnchorBinding, "OAnchorAlias": c.OAnchorAlias,
		"OLowerBound": jTime(c.OLowerBound), "OUpperBound": jTime(c.OUpperBound),
		"OLowerBoundAlias": c.OLowerBoundAlias, "OUpperBoundAlias": c.OUpperBoundAlias, "OTemporal": c.OTemporal,
	}
}

// ---------------------------------------------------------------- one execution

func canon(v interface{}) string {
	b, _ := json.Marshal(v)
	return string(b)
}

func graphName(names []string, i int) string {
	if i < len(names) {
		return names[i]
	}
	return fmt.Sprintf("?g%d", i)
}

func buildStore(ctx context.Context, graphs [][]string, names ...string) (storage.Store, []interface{}, error) {
	st := memory.NewStore()
	var dump []interface{}
	for i, g := range graphs {
		gr, err := st.NewGraph(ctx, graphName(names, i))
		if err != nil {
			return nil, nil, err
		}
		var ts []*triple.Triple
		for _, line := range g {
			t, err := triple.Parse(line, literal.DefaultBuilder())
			if err != nil {
				return nil, nil, fmt.Errorf("bad triple %q: %v", line, err)
			}
			ts = append(ts, t)
		}
		if err := gr.AddTriples(ctx, ts); err != nil {
			return nil, nil, err
		}
		// read the graph back: the model sees what the store holds (duplicates by UUID collapsed by the store)
		ch := make(chan *triple.Triple, len(ts)+1)
		if err := gr.Triples(ctx, storage.DefaultLookup, ch); err != nil {
			return nil, nil, err
		}
		var gd []interface{}
		for t := range ch {
			gd = append(gd, jTriple(t))
		}
		if gd == nil {
			gd = []interface{}{}
		}
		dump = append(dump, gd)
	}
	return st, dump, nil
}

// dangerous: the statement may crash the process inside a goroutine started by the planner (nil dereference in
// updateTimeBoundsForRow, F15), which recover() in this goroutine cannot catch.
// Also: a string-valued cell (ID / TYPE alias) used to specialise an object position goes through
// literal.Parse(`"..."^^type:string`), which returns (nil, nil) while F3 is unfixed; the invalid object then
// dereferences nil inside a lookup goroutine.
func dangerous(stm *semantic.Statement) bool {
	strs := map[string]bool{}
	for _, c := range stm.GraphPatternClauses() {
		if c.PLowerBoundAlias != "" || c.PUpperBoundAlias != "" {
			return true
		}
		for _, n := range []string{c.STypeAlias, c.SIDAlias, c.PIDAlias, c.OTypeAlias, c.OIDAlias} {
			if n != "" {
				strs[n] = true
			}
		}
	}
	for _, c := range stm.GraphPatternClauses() {
		if strs[c.OBinding] || strs[c.OAlias] {
			return true
		}
	}
	return false
}

func parse(q string) (stm *semantic.Statement, kind string) {
	defer func() {
		if r := recover(); r != nil {
			stm, kind = nil, "parse_panic"
		}
	}()
	p, err := grammar.NewParser(grammar.SemanticBQL())
	if err != nil {
		return nil, "parser"
	}
	stm = &semantic.Statement{}
	if err := p.Parse(grammar.NewLLk(q, 1), stm); err != nil {
		return nil, "parse_err"
	}
	return stm, ""
}

func execute(ctx context.Context, st storage.Store, stm *semantic.Statement, sp Spec) (res J) {
	defer func() {
		if r := recover(); r != nil {
			res = J{"kind": "panic", "msg": fmt.Sprint(r)}
		}
	}()
	if sp.Procs > 0 {
		old := runtime.GOMAXPROCS(sp.Procs)
		defer runtime.GOMAXPROCS(old)
	}
	bulk := sp.BulkSize
	if bulk == 0 {
		bulk = 1000
	}
	pl, err := planner.New(ctx, st, stm, sp.ChanSize, bulk, nil)
	if err != nil {
		return J{"kind": "err", "stage": "plan", "msg": err.Error()}
	}
	tbl, err := pl.Execute(ctx)
	if err != nil {
		return J{"kind": "err", "stage": "exec", "msg": err.Error()}
	}
	outs := tbl.Bindings()
	var rows []string
	for _, r := range tbl.Rows() {
		var cells []interface{}
		for _, b := range outs {
			c, ok := r[b]
			cells = append(cells, jCell(c, ok))
		}
		rows = append(rows, canon(cells))
	}
	// the rows in the order of the table (compared only for statements whose ORDER BY is a total order)
	seq := make([]json.RawMessage, len(rows))
	for i, r := range rows {
		seq[i] = json.RawMessage(r)
	}
	sort.Strings(rows)
	jr := make([]json.RawMessage, len(rows))
	for i, r := range rows {
		jr[i] = json.RawMessage(r)
	}
	if outs == nil {
		outs = []string{}
	}
	return J{"kind": "ok", "outs": outs, "rows": jr, "seq": seq}
}

// runSpec parses and executes one spec in this process.
func runSpec(sp Spec) J {
	ctx := context.Background()
	out := J{"query": sp.Query, "cfg": J{"chan": sp.ChanSize, "bulk": sp.BulkSize, "procs": sp.Procs}, "graph_texts": sp.Graphs}
	st, dump, err := buildStore(ctx, sp.Graphs, sp.Names...)
	if err != nil {
		out["result"] = J{"kind": "harness", "msg": err.Error()}
		return out
	}
	gn := make([]string, len(sp.Graphs))
	for i := range gn {
		gn[i] = graphName(sp.Names, i)
	}
	out["graph_names"] = gn
	out["graphs"] = dump
	// a sequence of statements on the same store: the earlier ones only warm whatever the store or the planner keeps
	for _, pq := range sp.Pre {
		if strings.HasPrefix(pq, "@add ") {
			// "@add <graph> <triple>|<triple>...": triples added through the storage API, not through a BQL statement
			f := strings.SplitN(pq[5:], " ", 2)
			if gr, err := st.Graph(ctx, f[0]); err == nil && len(f) == 2 {
				var ts []*triple.Triple
				for _, line := range strings.Split(f[1], "|") {
					if t, err := triple.Parse(line, literal.DefaultBuilder()); err == nil {
						ts = append(ts, t)
					}
				}
				gr.AddTriples(ctx, ts)
			}
			continue
		}
		if pstm, _ := parse(pq); pstm != nil {
			execute(ctx, st, pstm, sp)
		}
	}
	if len(sp.Pre) > 0 {
		out["pre"] = sp.Pre
		// the earlier statements may have inserted data: the model sees what the store holds NOW
		var nd []interface{}
		for i := range sp.Graphs {
			gr, err := st.Graph(ctx, graphName(sp.Names, i))
			if err != nil {
				out["result"] = J{"kind": "harness", "msg": err.Error()}
				return out
			}
			ch := make(chan *triple.Triple, 4096)
			go func() { gr.Triples(ctx, storage.DefaultLookup, ch) }()
			gd := []interface{}{}
			for t := range ch {
				gd = append(gd, jTriple(t))
			}
			nd = append(nd, gd)
		}
		out["graphs"] = nd
	}
	stm, k := parse(sp.Query)
	if stm == nil {
		out["result"] = J{"kind": k}
		return out
	}
	describe(out, stm)
	out["result"] = execute(ctx, st, stm, sp)
	return out
}

func describe(out J, stm *semantic.Statement) {
	var cls []interface{}
	for _, c := range stm.GraphPatternClauses() {
		cls = append(cls, jClause(c))
	}
	out["clauses"] = cls
	lo := stm.GlobalLookupOptions()
	out["lo"] = J{"lower": jTime(lo.LowerAnchor), "upper": jTime(lo.UpperAnchor), "max": lo.MaxElements}
	var prj []interface{}
	for _, p := range stm.Projections() {
		prj = append(prj, J{"b": p.Binding, "a": p.Alias, "op": int(p.OP)})
	}
	out["projs"] = prj
	out["outs"] = stm.OutputBindings()
	out["from"] = stm.InputGraphNames()
	out["nfilters"] = len(stm.FilterClauses())
	out["extras"] = len(stm.GroupBy()) + len(stm.OrderBy()) + len(stm.HavingExpression())
	out["limit_set"] = stm.IsLimitSet()
}

// run executes the spec; specs that may kill the process are run in a child.
func run(sp Spec, forceChild bool) J {
	stm, _ := parse(sp.Query)
	if stm != nil && (forceChild || dangerous(stm)) {
		return runChild(sp)
	}
	return runSpec(sp)
}

// worker: one long-lived child process that executes specs sent line by line (a new process per case is too slow for
// the exhaustive tiers). If it dies, the case it was working on crashed the process; a new worker is started.
type worker struct {
	cmd *exec.Cmd
	in  io.WriteCloser
	out *bufio.Reader
	err *bytes.Buffer
}

var theWorker *worker

func startWorker() *worker {
	cmd := exec.Command(os.Args[0], "-mode", "worker")
	in, _ := cmd.StdinPipe()
	outp, _ := cmd.StdoutPipe()
	w := &worker{cmd: cmd, in: in, out: bufio.NewReaderSize(outp, 1<<20), err: &bytes.Buffer{}}
	cmd.Stderr = w.err
	if err := cmd.Start(); err != nil {
		return nil
	}
	return w
}

func runChild(sp Spec) J {
	if theWorker == nil {
		theWorker = startWorker()
	}
	if theWorker != nil {
		b, _ := json.Marshal(sp)
		_, werr := theWorker.in.Write(append(b, '\n'))
		if werr == nil {
			line, rerr := theWorker.out.ReadBytes('\n')
			if rerr == nil {
				var out J
				dec := json.NewDecoder(bytes.NewReader(line))
				dec.UseNumber()
				if dec.Decode(&out) == nil {
					out["child"] = true
					return out
				}
			}
		}
		// the worker died on this case
		theWorker.in.Close()
		theWorker.cmd.Wait()
	}
	msg := ""
	if theWorker != nil {
		msg = theWorker.err.String()
	}
	theWorker = nil
	// describe the case in this process without executing it
	out := J{"query": sp.Query, "cfg": J{"chan": sp.ChanSize, "bulk": sp.BulkSize, "procs": sp.Procs}, "graph_texts": sp.Graphs, "child": true}
	ctx := context.Background()
	_, dump, _ := buildStore(ctx, sp.Graphs, sp.Names...)
	out["graphs"] = dump
	gn := make([]string, len(sp.Graphs))
	for i := range gn {
		gn[i] = graphName(sp.Names, i)
	}
	out["graph_names"] = gn
	if stm, _ := parse(sp.Query); stm != nil {
		describe(out, stm)
	}
	site := ""
	for _, l := range strings.Split(msg, "\n") {
		if strings.Contains(l, "badwolf/bql/planner.") || strings.Contains(l, "badwolf/bql/table.") {
			site = strings.TrimSpace(l)
			break
		}
	}
	kind := "crash"
	if strings.Contains(msg, "panic:") || strings.Contains(msg, "SIGSEGV") {
		kind = "panic"
	}
	out["result"] = J{"kind": kind, "site": site, "goroutine": true}
	return out
}

func stopWorker() {
	if theWorker != nil {
		theWorker.in.Close()
		theWorker.cmd.Wait()
		theWorker = nil
	}
}

func workerLoop() {
	sc := bufio.NewScanner(os.Stdin)
	sc.Buffer(make([]byte, 1<<20), 1<<26)
	w := bufio.NewWriter(os.Stdout)
	for sc.Scan() {
		var sp Spec
		if err := json.Unmarshal(sc.Bytes(), &sp); err != nil {
			fmt.Fprintln(os.Stderr, "bad spec:", err)
			os.Exit(2)
		}
		emit(w, runSpec(sp))
		w.Flush()
	}
}

// ---------------------------------------------------------------- store probe (F6)

func probe() J {
	ctx := context.Background()
	st := memory.NewStore()
	g, _ := st.NewGraph(ctx, "?g")
	t1, _ := triple.Parse(`/u<a>	"p"@[2016-01-01T00:00:00Z]	/u<c>`, literal.DefaultBuilder())
	t2, _ := triple.Parse(`/u<a>	"q"@[]	/u<c>`, literal.DefaultBuilder())
	g.AddTriples(ctx, []*triple.Triple{t1, t2})
	count := func(p *predicate.Predicate) int {
		ch := make(chan *triple.Object, 10)
		if err := g.Objects(ctx, t1.Subject(), p, storage.DefaultLookup, ch); err != nil {
			return -1
		}
		n := 0
		for range ch {
			n++
		}
		return n
	}
	pi, _ := predicate.NewImmutable("p")
	qt, _ := predicate.NewTemporal("q", time.Unix(1451606400, 0).UTC())
	l, lerr := literal.DefaultBuilder().Parse(`"x"^^type:string`)
	return J{"immutable_query_matches_temporal": count(pi), "temporal_query_matches_immutable": count(qt),
		"unknown_literal_type_nil_nil": l == nil && lerr == nil}
}

// ---------------------------------------------------------------- main

func emit(w *bufio.Writer, o J) {
	b, err := json.Marshal(o)
	if err != nil {
		fmt.Fprintln(os.Stderr, "marshal:", err)
		os.Exit(2)
	}
	w.Write(b)
	w.WriteByte('\n')
}

func main() {
	mode := flag.String("mode", "gen", "gen|one|probe|replay")
	family := flag.String("family", "c03", "c03|c10|c14")
	n := flag.Int("n", 100, "number of random cases")
	seed := flag.Int64("seed", 1, "PRNG seed")
	exh := flag.Bool("exhaustive", false, "enumerate all one-clause shapes (and all two-clause shapes over the small form set)")
	file := flag.String("file", "", "corpus file for -mode replay")
	flag.Parse()
	w := bufio.NewWriterSize(os.Stdout, 1<<20)
	defer w.Flush()
	defer stopWorker()
	switch *mode {
	case "worker":
		workerLoop()
	case "one":
		var sp Spec
		if err := json.NewDecoder(os.Stdin).Decode(&sp); err != nil {
			fmt.Fprintln(os.Stderr, "bad spec:", err)
			os.Exit(2)
		}
		emit(w, runSpec(sp))
	case "probe":
		emit(w, probe())
	case "replay":
		f, err := os.Open(*file)
		if err != nil {
			fmt.Fprintln(os.Stderr, err)
			os.Exit(2)
		}
		sc := bufio.NewScanner(f)
		sc.Buffer(make([]byte, 1<<20), 1<<24)
		for sc.Scan() {
			line := strings.TrimSpace(sc.Text())
			if line == "" || strings.HasPrefix(line, "#") {
				continue
			}
			var c struct {
				Spec
				Name string `json:"name"`
			}
			if err := json.Unmarshal([]byte(line), &c); err != nil {
				fmt.Fprintln(os.Stderr, "bad corpus line:", err)
				os.Exit(2)
			}
			o := run(c.Spec, true)
			o["kind"] = "corpus"
			o["name"] = c.Name
			emit(w, o)
		}
	case "gen":
		r := rand.New(rand.NewSource(*seed))
		generate(r, *family, *n, *exh, func(o J) { emit(w, o) })
	default:
		fmt.Fprintln(os.Stderr, "unknown mode")
		os.Exit(2)
	}
}
