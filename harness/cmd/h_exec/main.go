// h_exec: sequences of data / graph statements through the real parser (grammar.SemanticBQL), planner.New and
// Execute on storage/memory; after every statement the full listing of every graph is printed (C04).
// One JSON object per sequence on stdout.  All randomness comes from -seed.
package main

import (
	"bufio"
	"context"
	"encoding/json"
	"flag"
	"fmt"
	"math/rand"
	"os"
	"runtime"
	"sort"
	"strings"
	"sync"

	"github.com/google/badwolf/storage/memory"
	. "verif/harness/internal/execgen"
)

func main() {
	seed := flag.Int64("seed", 1, "PRNG seed")
	n := flag.Int("n", 100, "number of sequences")
	replay := flag.String("replay", "", "file with one statement text per line: run them as one sequence")
	bulkFlag := flag.Int("bulk", 0, "bulk size (0 = drawn per sequence)")
	bursts := flag.Int("bursts", 25, "number of concurrent CREATE/INSERT bursts")
	big := flag.Bool("big", false, "also run the DECONSTRUCT of 1027 rows as one batch (bulk size 2048)")
	mode := flag.String("mode", "random", "random | pool (all sequences of at most -len statements from the fixed pool)")
	maxLen := flag.Int("len", 3, "maximal sequence length in pool mode")
	flag.Parse()
	ctx := context.Background()
	w := bufio.NewWriter(os.Stdout)
	defer w.Flush()
	enc := json.NewEncoder(w)
	rnd := rand.New(rand.NewSource(*seed))

	if *replay != "" {
		data, err := os.ReadFile(*replay)
		if err != nil {
			fmt.Fprintln(os.Stderr, err)
			os.Exit(2)
		}
		st := memory.NewStore()
		b := NewBlanks()
		bulk := *bulkFlag
		if bulk == 0 {
			bulk = 100
		}
		seq := Seq{Bulk: bulk}
		for _, line := range strings.Split(string(data), "\n") {
			if strings.TrimSpace(line) == "" {
				continue
			}
			r := Execute(ctx, st, line, bulk)
			seq.Stmts = append(seq.Stmts, VStmt{Kind: "text", Text: line, Obs: &Observed{Class: r.Class, Err: r.Err, After: Listing(ctx, st, b)}})
		}
		enc.Encode(seq)
		return
	}

	bulks := []int{1, 2, 3, 5, 100}
	runSeq := func(id, bulk int, fixed []VStmt, nprefix int) {
		st := memory.NewStore()
		b := NewBlanks()
		g := &Gen{R: rnd, B: b}
		seq := Seq{ID: id, Bulk: bulk}
		for j, s := range fixed {
			if s.Kind == "construct" || s.Kind == "select" {
				s.Q = g.QueryHaving(ctx, st, s.Ins, s.WB, s.Note, s.Hav)
			}
			r := Execute(ctx, st, s.Text, bulk)
			obs := &Observed{Class: r.Class, Err: r.Err}
			obs.After = Listing(ctx, st, b)
			s.Obs = obs
			if j >= nprefix || id == 0 {
				seq.Stmts = append(seq.Stmts, s)
			} else {
				// the prefix is executed but reported only once (sequence 0); later sequences start from its result
				seq.Prev = obs.After
			}
		}
		enc.Encode(seq)
	}
	if *mode == "pool" {
		// every sequence of at most 3 statements of the pool, each from the prefix store
		b0 := NewBlanks()
		prefix, pool := PoolPrefix(b0), Pool(b0)
		id := 0
		var rec func(cur []VStmt, depth int)
		rec = func(cur []VStmt, depth int) {
			if len(cur) > 0 {
				runSeq(id, bulks[id%len(bulks)], append(append([]VStmt{}, prefix...), cur...), len(prefix))
				id++
			}
			if depth == *maxLen {
				return
			}
			for _, s := range pool {
				rec(append(append([]VStmt{}, cur...), s), depth+1)
			}
		}
		rec(nil, 0)
		return
	}
	// corpus: a statement that names a drawn blank node which is no longer anywhere in the store
	{
		st := memory.NewStore()
		b := NewBlanks()
		g := &Gen{R: rnd, B: b}
		seq := Seq{ID: -1, Bulk: 2}
		pool := Pool(b)
		step := func(s VStmt) {
			if s.Kind == "construct" {
				s.Q = g.QueryHaving(ctx, st, s.Ins, s.WB, s.Note, s.Hav)
			}
			r := Execute(ctx, st, s.Text, seq.Bulk)
			s.Obs = &Observed{Class: r.Class, Err: r.Err, After: Listing(ctx, st, b)}
			seq.Stmts = append(seq.Stmts, s)
		}
		for _, s := range PoolPrefix(b) {
			step(s)
		}
		// HAVING that keeps only part of the solutions: the template must be instantiated for the kept rows only
		for _, add := range []bool{true, false} {
			for _, hv := range []string{" HAVING ?s = ?o", ` HAVING ?o = "1"^^type:int64`} {
				c := pool[4]
				c.Add, c.Hav = add, hv
				if !add {
					c.Outs, c.Ins = []string{"?a"}, []string{"?a"}
					c.Tmpl = pool[6].Tmpl
					c.Text = fmt.Sprintf("DECONSTRUCT { %s } IN ?a FROM ?a WHERE { %s }%s;", b.RenderTemplate(c.Tmpl), c.Note, hv)
				} else {
					c.Text = strings.TrimSuffix(c.Text, ";") + hv + ";"
				}
				step(c)
			}
		}
		step(pool[5]) // reifying CONSTRUCT into ?b
		step(pool[3]) // DROP GRAPH ?b
		if len(b.UUID) > 0 {
			k := 0
			t := VTriple{S: VNode{T: "/t", I: "c"}, P: VPred{ID: "p"}, O: VObj{N: &VNode{B: &k}}}
			step(VStmt{Kind: "insert", Gs: []string{"?a"}, Ts: []VTriple{t}, Text: "INSERT DATA INTO ?a { " + b.TripleText(t) + " };"})
			step(VStmt{Kind: "delete", Gs: []string{"?a"}, Ts: []VTriple{t}, Text: "DELETE DATA FROM ?a { " + b.TripleText(t) + " };"})
		}
		enc.Encode(seq)
	}
	// corpus: more target graphs than GOMAXPROCS (update() must reach every one of them)
	wide := func(id, procs, ngraphs int) {
		old := runtime.GOMAXPROCS(0)
		if procs > 0 {
			runtime.GOMAXPROCS(procs)
			defer runtime.GOMAXPROCS(old)
		}
		st := memory.NewStore()
		b := NewBlanks()
		g := &Gen{R: rnd, B: b}
		seq := Seq{ID: id, Bulk: 2}
		step := func(s VStmt) {
			if s.Kind == "construct" {
				s.Q = g.Query(ctx, st, s.Ins, s.WB, s.Note)
			}
			r := Execute(ctx, st, s.Text, seq.Bulk)
			s.Obs = &Observed{Class: r.Class, Err: r.Err, After: Listing(ctx, st, b)}
			seq.Stmts = append(seq.Stmts, s)
		}
		var gs []string
		for k := 0; k < ngraphs; k++ {
			gs = append(gs, fmt.Sprintf("?g%d", k))
		}
		all := append([]string{"?src"}, gs...)
		step(VStmt{Kind: "create", Gs: all, Text: "CREATE GRAPH " + strings.Join(all, ", ") + ";"})
		data := func(kind string, targets []string, n int) VStmt {
			var ts []VTriple
			var tt []string
			for len(ts) < n {
				t := g.DataTriple()
				ts = append(ts, t)
				tt = append(tt, b.TripleText(t))
			}
			kw := "INSERT DATA INTO "
			if kind == "delete" {
				kw = "DELETE DATA FROM "
			}
			return VStmt{Kind: kind, Gs: targets, Ts: ts, Text: kw + strings.Join(targets, ", ") + " { " + strings.Join(tt, " . ") + " };"}
		}
		step(data("insert", []string{"?src"}, 4))
		ins := data("insert", gs, 3)
		step(ins)
		pso := Pool(b)[4] // CONSTRUCT { ?s "p2"@[] ?o } ... WHERE { ?s "p"@[] ?o }
		for _, add := range []bool{true, false} {
			c := pso
			c.Add, c.Outs, c.Ins = add, gs, []string{"?src"}
			kw, into := "CONSTRUCT", "INTO"
			if !add {
				kw, into = "DECONSTRUCT", "IN"
			}
			c.Text = fmt.Sprintf("%s { %s } %s %s FROM ?src WHERE { %s };", kw, b.RenderTemplate(c.Tmpl), into, strings.Join(gs, ", "), c.Note)
			step(c)
		}
		del := ins
		del.Kind, del.Text = "delete", strings.Replace(ins.Text, "INSERT DATA INTO ", "DELETE DATA FROM ", 1)
		step(del)
		enc.Encode(seq)
	}
	wide(-2, 2, 3)
	wide(-3, 2, 5)
	wide(-4, 1, 4)
	wide(-5, 0, runtime.GOMAXPROCS(0)+1)
	// corpus: batches of more than 1024 triples whose size is not a multiple of GOMAXPROCS (DELETE DATA of 1027 of
	// 1031 triples under GOMAXPROCS 4; DECONSTRUCT of 1027 rows written as one batch, bulk size 2048)
	sized := func(id, bulk int, deconstruct bool) {
		old := runtime.GOMAXPROCS(4)
		defer runtime.GOMAXPROCS(old)
		st := memory.NewStore()
		b := NewBlanks()
		g := &Gen{R: rnd, B: b}
		seq := Seq{ID: id, Bulk: bulk}
		step := func(s VStmt) {
			if s.Kind == "construct" {
				s.Q = g.Query(ctx, st, s.Ins, s.WB, s.Note)
			}
			r := Execute(ctx, st, s.Text, seq.Bulk)
			s.Obs = &Observed{Class: r.Class, Err: r.Err, After: Listing(ctx, st, b)}
			seq.Stmts = append(seq.Stmts, s)
		}
		data := func(kind string, from, to int) VStmt {
			var ts []VTriple
			var tt []string
			for k := from; k < to; k++ {
				t := VTriple{S: VNode{T: "/u", I: fmt.Sprintf("n%d", k)}, P: VPred{ID: "p"}, O: VObj{N: &VNode{T: "/u", I: "b"}}}
				ts = append(ts, t)
				tt = append(tt, b.TripleText(t))
			}
			kw := "INSERT DATA INTO "
			if kind == "delete" {
				kw = "DELETE DATA FROM "
			}
			return VStmt{Kind: kind, Gs: []string{"?big"}, Ts: ts, Text: kw + "?big { " + strings.Join(tt, " . ") + " };"}
		}
		step(VStmt{Kind: "create", Gs: []string{"?big"}, Text: "CREATE GRAPH ?big;"})
		if deconstruct {
			step(data("insert", 0, 1027))
			c := Pool(b)[6] // DECONSTRUCT { ?s "p"@[] ?o } IN ... WHERE { ?s "p"@[] ?o }
			c.Outs, c.Ins = []string{"?big"}, []string{"?big"}
			c.Text = fmt.Sprintf("DECONSTRUCT { %s } IN ?big FROM ?big WHERE { %s };", b.RenderTemplate(c.Tmpl), c.Note)
			step(c)
		} else {
			step(data("insert", 0, 1031))
			step(data("delete", 0, 1027))
		}
		enc.Encode(seq)
	}
	// corpus: the same instant spelled in different zones between INSERT and DELETE / DECONSTRUCT
	{
		st := memory.NewStore()
		b := NewBlanks()
		g := &Gen{R: rnd, B: b}
		seq := Seq{ID: -8, Bulk: 2}
		step := func(s VStmt) {
			if s.Kind == "construct" {
				s.Q = g.QueryHaving(ctx, st, s.Ins, s.WB, s.Note, s.Hav)
			}
			r := Execute(ctx, st, s.Text, seq.Bulk)
			s.Obs = &Observed{Class: r.Class, Err: r.Err, After: Listing(ctx, st, b)}
			seq.Stmts = append(seq.Stmts, s)
		}
		at := int64(1591012800000000000) // 2020-06-01T12:00:00Z
		tr := func(id string, z int) VTriple {
			return VTriple{S: VNode{T: "/u", I: "a"}, P: VPred{ID: id, A: &at, Z: z}, O: VObj{N: &VNode{T: "/u", I: "b"}}}
		}
		data := func(kind, gname string, t VTriple) VStmt {
			kw := "INSERT DATA INTO "
			if kind == "delete" {
				kw = "DELETE DATA FROM "
			}
			return VStmt{Kind: kind, Gs: []string{gname}, Ts: []VTriple{t}, Text: kw + gname + " { " + b.TripleText(t) + " };"}
		}
		step(VStmt{Kind: "create", Gs: []string{"?a", "?b"}, Text: "CREATE GRAPH ?a, ?b;"})
		step(data("insert", "?a", tr("r", 120)))
		step(data("insert", "?b", tr("r", 0)))
		step(data("delete", "?b", tr("r", 120)))  // stored ...T12:00:00Z, removed as ...T14:00:00+02:00
		step(data("insert", "?b", tr("w", -330))) // stored ...T06:30:00-05:30
		step(data("insert", "?b", tr("w", 0)))    // the same triple again, other spelling: still one triple
		c := Pool(b)[9]                           // template ?s "w"@[?t] ?o over WHERE { ?s "r"@[?t] ?o }: ?t comes from ?a (+02:00)
		c.Add, c.Outs, c.Ins = false, []string{"?b"}, []string{"?a"}
		c.Text = fmt.Sprintf("DECONSTRUCT { %s } IN ?b FROM ?a WHERE { %s };", b.RenderTemplate(c.Tmpl), c.Note)
		step(c)
		enc.Encode(seq)
	}
	// burst: CREATE GRAPH of one new name from 8 goroutines at once, each followed by an INSERT of its own triple:
	// exactly one CREATE succeeds and the graph ends up holding every triple whose INSERT reported success
	for rep := 0; rep < *bursts; rep++ {
		st := memory.NewStore()
		b := NewBlanks()
		const workers = 8
		type res struct {
			created, inserted bool
			t                 VTriple
		}
		out := make([]res, workers)
		start := make(chan struct{})
		var wg sync.WaitGroup
		for k := 0; k < workers; k++ {
			wg.Add(1)
			go func(k int) {
				defer wg.Done()
				t := VTriple{S: VNode{T: "/u", I: fmt.Sprintf("w%d", k)}, P: VPred{ID: "p"}, O: VObj{N: &VNode{T: "/u", I: "b"}}}
				text := "INSERT DATA INTO ?n { " + b.TripleText(t) + " };"
				<-start
				c := Execute(ctx, st, "CREATE GRAPH ?n;", 100)
				i := Execute(ctx, st, text, 100)
				out[k] = res{c.Class == "ok", i.Class == "ok", t}
			}(k)
		}
		close(start)
		wg.Wait()
		bu := &Burst{Workers: workers}
		for _, r := range out {
			if r.created {
				bu.CreateOK++
			}
			if r.inserted {
				bu.InsertOK = append(bu.InsertOK, r.t)
			}
		}
		l := Listing(ctx, st, b)
		bu.Final, bu.GraphSeen = l["?n"], l["?n"] != nil
		enc.Encode(Seq{ID: -100 - rep, Bulk: 100, Stmts: []VStmt{}, Burst: bu})
	}
	sized(-6, 100, false)
	if *big {
		sized(-7, 2048, true)
	}
	for i := 0; i < *n; i++ {
		// every tenth random sequence runs under GOMAXPROCS 1 or 2 with target lists of three graphs
		wideSeq := i%10 == 9
		procsOld := 0
		if wideSeq {
			procsOld = runtime.GOMAXPROCS(1 + (i/10)%2)
		}
		st := memory.NewStore()
		b := NewBlanks()
		g := &Gen{R: rnd, B: b, Wide: wideSeq}
		seq := Seq{ID: i, Bulk: bulks[rnd.Intn(len(bulks))]}
		if *bulkFlag > 0 {
			seq.Bulk = *bulkFlag
		}
		// most sequences start with the Graphs in place
		nst := 1 + rnd.Intn(8)
		if rnd.Intn(3) != 0 {
			nst = 4 + rnd.Intn(5)
		}
		var stmts []VStmt
		if rnd.Intn(8) != 0 {
			gs := Graphs
			if rnd.Intn(6) == 0 {
				gs = Graphs[:1+rnd.Intn(3)]
			}
			stmts = append(stmts, VStmt{Kind: "create", Gs: gs, Text: "CREATE GRAPH " + strings.Join(gs, ", ") + ";"})
			if rnd.Intn(4) != 0 {
				// seed data so that the patterns have solutions
				var ts []VTriple
				var tt []string
				for i := 0; i < 5+rnd.Intn(6); i++ {
					t := g.DataTriple()
					ts = append(ts, t)
					tt = append(tt, b.TripleText(t))
				}
				tg := []string{gs[rnd.Intn(len(gs))]}
				g.Filled = append(g.Filled, tg...)
				stmts = append(stmts, VStmt{Kind: "insert", Gs: tg, Ts: ts, Text: "INSERT DATA INTO " + tg[0] + " { " + strings.Join(tt, " . ") + " };"})
			}
		}
		for len(stmts) < nst {
			stmts = append(stmts, VStmt{})
		}
		for j := range stmts {
			s := stmts[j]
			if s.Kind == "" {
				s = g.Stmt()
			}
			if s.Kind == "construct" || s.Kind == "select" {
				s.Q = g.QueryHaving(ctx, st, s.Ins, s.WB, s.Note, s.Hav)
			}
			r := Execute(ctx, st, s.Text, seq.Bulk)
			obs := &Observed{Class: r.Class, Err: r.Err}
			if r.Tbl != nil {
				obs.NRows = r.Tbl.NumRows()
				if s.Kind == "show" {
					for _, row := range r.Tbl.Rows() {
						if c := row["?graph_id"]; c != nil && c.S != nil {
							obs.Show = append(obs.Show, *c.S)
						}
					}
					sort.Strings(obs.Show)
				}
			}
			obs.After = Listing(ctx, st, b)
			s.Obs = obs
			seq.Stmts = append(seq.Stmts, s)
		}
		enc.Encode(seq)
		if procsOld > 0 {
			runtime.GOMAXPROCS(procsOld)
		}
	}
}
