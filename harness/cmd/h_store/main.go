// h_store: drives storage/memory (built from the working tree of /repo) through histories of store and graph
// operations and through all lookups, and prints what it observed, one JSON object per line.
// Used by the checks C01 (store = map name -> set), C02 (indexed lookup = scan) and C09 (lookup options).
//
// Modes
//
//	-mode hist        random histories (-n, -seed, -maxops, -c02, -c09); after EVERY step: GraphNames, Graph(name) for
//	                  every name, Exist over the universe and Triples() for every graph object ever created, and
//	                  (-c02) a digest of every query of the argument pools with default options, (-c09) digests of
//	                  query x options products, plus Go-side page-concatenation checks.
//	-mode exhaustive  every history of length -len over a fixed small alphabet (4-triple universe, 2 names); one digest
//	                  per first operation.
//	-mode detail      re-generates history -hist of -seed and prints, for the state after step -step, every lookup of
//	                  the given query/options lists with its digest and its full encoded result (failing-input search).
//	-mode replay      runs the explicit case of -file (universe, pools, operations) and prints it like -mode hist (used by
//	                  the shrinker of the checks).
//	-mode options     every options value of a finite grid x 8 queries on every sub-graph of a 6-triple universe; one
//	                  digest per sub-graph.
//	-mode faultctx    AddTriples / RemoveTriples under contexts that turn cancelled mid-call; lookup = scan audited after each.
//	-mode parload     24 goroutines load one graph each at the same time, then a sequential audit of every graph.
//	-mode burst       concurrent NewGraph / DeleteGraph of one name: exactly one caller succeeds.
//	-mode overflow    replays finding C09-page-overflow (MaxElements = Offset = 2^32).
//	-mode shared      concurrent callers sharing one LookupOptions value with LatestAnchor (defect F7).
//
// Canonicalisation: graph names, nodes, predicate ids, literals are numbers (positions in the pools); a predicate is
// (id, anchor instant in ns, zone offset in s); a triple additionally carries the rank of Triple.String() among the
// universe in Go string order; graph objects are numbered in creation order; errors are mapped to small codes.
package main

import (
	"context"
	"encoding/json"
	"flag"
	"fmt"
	"math/big"
	"math/rand"
	"os"
	"runtime"
	"sort"
	"strings"
	"sync"
	"sync/atomic"
	"time"

	"github.com/google/badwolf/bql/planner/filter"
	"github.com/google/badwolf/storage"
	"github.com/google/badwolf/storage/memory"
	"github.com/google/badwolf/triple"
	"github.com/google/badwolf/triple/literal"
	"github.com/google/badwolf/triple/node"
	"github.com/google/badwolf/triple/predicate"
)

// ---------------------------------------------------------------- digest (same function as BWStore.Corr)
const dP = uint64(1000003)

func dmix(h, x uint64) uint64 { return dP*h + x + 1 }

func dlist(h uint64, l []uint64) uint64 {
	for _, x := range l {
		h = dmix(h, x)
	}
	return h
}

func zenc(z int64) uint64 {
	if z >= 0 {
		return 2 * uint64(z)
	}
	return 2*uint64(-z) + 1
}

// ---------------------------------------------------------------- vocabulary
// an instant as (Unix seconds, nanoseconds) so that instants outside the int64 UnixNano range can be written, and the
// zone offset in seconds
type anchor struct {
	sec, nsec int64
	off       int
}

func (a anchor) plusNs(d int64) anchor {
	n := a.nsec + d
	s := a.sec
	for n < 0 {
		n += 1e9
		s--
	}
	for n >= 1e9 {
		n -= 1e9
		s++
	}
	return anchor{s, n, a.off}
}

func (a anchor) less(b anchor) bool { return a.sec < b.sec || (a.sec == b.sec && a.nsec < b.nsec) }

type pval struct {
	id int
	a  *anchor
	p  *predicate.Predicate
}

type oval struct {
	kind int // 0 node, 1 literal, 2 predicate
	n    int
	pv   *pval
	o    *triple.Object
}

type tval struct {
	s    int
	p    *pval
	o    *oval
	t    *triple.Triple
	str  string
	rank int
}

var nodeStrs = [][2]string{{"/u", "a"}, {"/u", "b"}, {"/t", "a"}, {"/u", "ab"}, {"/t", "b"}}

// "/ua" and "/ub" are the bytes type+id of the nodes /u<a> and /u<b>: PartialUUID of such a predicate = UUID of the node;
// the text literals "p" and "q" (below) have the UUID that is the PartialUUID of the predicates with those ids.
// Same bytes in DIFFERENT component positions are harmless for a correct store (separate indexes, position-wise keys).
// "pé" extends "p" by the bytes C3 A9, which are also the first bytes of the varint of some anchors (see anchorPool):
// an encoding id ++ anchor without a fixed-width anchor field would not be injective.
// "pimmutable" = "p" ++ "immutable": Predicate.UUID of the immutable "p" hashes exactly the bytes of its id.
var idStrs = []string{"p", "q", "p q", "P", "/ua", "/ub", "pé", "pimmutable"}

// the first baseNodes nodes are the ordinary vocabulary; the nodes /o<0> .. /o<1099> after them only serve as objects of the
// huge-bucket scenario
const baseNodes = 5
const extraNodes = 1100

var nodes []*node.Node
var lits []*literal.Literal

const baseSec, baseNsec = int64(1437311524), int64(669618843) // 2015-07-19T13:12:04.669618843Z

var anchorPool = []anchor{
	{baseSec, baseNsec, 0}, {baseSec, baseNsec, 3 * 3600}, {baseSec, baseNsec + 1, 0}, {baseSec, baseNsec - 1, -8 * 3600},
	{baseSec + 3600, baseNsec, 0}, {baseSec - 86400, baseNsec, 5*3600 + 1800}, {baseSec + 3600, baseNsec, -3600},
	// boundary instants
	{-62135596800, 0, 0},         // time.Time{}: 0001-01-01T00:00:00Z, IsZero()
	{0, 0, 0},                    // the Unix epoch
	{-31536000, 5, 3600},         // before 1970
	{253402300799, 999999999, 0}, // 9999-12-31T23:59:59.999999999Z
	{-9223372037, 145224192, 0},  // the smallest instant whose UnixNano fits in an int64 (1677-09-21)
	{9223372036, 854775807, 0},   // the largest (2262-04-11)
	{-62135596800, 0, -7 * 3600}, // the zero instant written in another zone (not IsZero-by-representation)
	// 14, 15: varint(UnixNano of 14) = C3 A9 ++ varint(UnixNano of 15); used with the ids "p" / "pé"
	{-1415577601, 999997342, 0}, // 1925-02-21T23:59:59.999997342Z
	{86400, 0, 0},               // 1970-01-02T00:00:00Z
	// 16..18: instants BEFORE Go's zero time
	{-62135596800 - 3600, 0, 0},          // 0000-12-31T23:00:00Z
	{-62135596800 - 7*3600, 0, 7 * 3600}, // 0001-01-01T00:00:00+07:00
	{-62135596800 - 86400*300, 5, 0},     // year 0000, spring
}

func mkTime(a anchor) time.Time {
	loc := time.UTC
	if a.off != 0 {
		loc = time.FixedZone("", a.off)
	}
	return time.Unix(a.sec, a.nsec).In(loc)
}

func must(err error) {
	if err != nil {
		fmt.Fprintln(os.Stderr, "h_store:", err)
		os.Exit(2)
	}
}

func initVocabulary() {
	for _, ns := range nodeStrs {
		n, err := node.NewNodeFromStrings(ns[0], ns[1])
		must(err)
		nodes = append(nodes, n)
	}
	for i := 0; i < extraNodes; i++ {
		n, err := node.NewNodeFromStrings("/o", fmt.Sprint(i))
		must(err)
		nodes = append(nodes, n)
	}
	b := literal.DefaultBuilder()
	mk := func(t literal.Type, v interface{}) {
		l, err := b.Build(t, v)
		must(err)
		lits = append(lits, l)
	}
	mk(literal.Int64, int64(1))
	mk(literal.Text, "1")
	mk(literal.Float64, float64(1))
	mk(literal.Bool, true)
	mk(literal.Text, "a b")
	mk(literal.Int64, int64(-1))
	mk(literal.Text, "p") // index 6: same bytes as predicate id "p"
	mk(literal.Text, "q") // index 7: same bytes as predicate id "q"
}

func mkPred(id int, a *anchor) *pval {
	var p *predicate.Predicate
	var err error
	if a == nil {
		p, err = predicate.NewImmutable(idStrs[id])
	} else {
		p, err = predicate.NewTemporal(idStrs[id], mkTime(*a))
	}
	must(err)
	return &pval{id: id, a: a, p: p}
}

func mkObj(kind, n int, pv *pval) *oval {
	switch kind {
	case 0:
		return &oval{kind: 0, n: n, o: triple.NewNodeObject(nodes[n])}
	case 1:
		return &oval{kind: 1, n: n, o: triple.NewLiteralObject(lits[n])}
	default:
		return &oval{kind: 2, pv: pv, o: triple.NewPredicateObject(pv.p)}
	}
}

// ---------------------------------------------------------------- model keys (for the self check only)
func pkey(p *pval) string {
	if p.a == nil {
		return fmt.Sprintf("%d/imm", p.id)
	}
	return fmt.Sprintf("%d/%d", p.id, mkTime(*p.a).UnixNano()) // Go's UnixNano (wraps outside 1677..2262): what UUID() hashes
}

func okey(o *oval) string {
	switch o.kind {
	case 0:
		return fmt.Sprintf("n%d", o.n)
	case 1:
		return fmt.Sprintf("l%d", o.n)
	}
	return "p" + pkey(o.pv)
}

func tkey(t *tval) string { return fmt.Sprintf("%d|%s|%s", t.s, pkey(t.p), okey(t.o)) }

// ---------------------------------------------------------------- a scenario: universe + pools
type scenario struct {
	univ     []*tval
	byStr    map[string]*tval
	nodeIx   []int   // sub-pool of node numbers
	preds    []*pval // sub-pool of predicates (query arguments)
	objs     []*oval // sub-pool of objects
	nodeByS  map[string]int
	idByS    map[string]int
	litByS   map[string]int
	bounds   []anchor // window bounds: stored anchors and +-1ns
	nNames   int
	nameStrs []string
	haveStr  map[string]bool
}

func (sc *scenario) finish() {
	sort.Slice(sc.univ, func(i, j int) bool { return sc.univ[i].str < sc.univ[j].str })
	sc.byStr = map[string]*tval{}
	for i, t := range sc.univ {
		t.rank = i
		sc.byStr[t.str] = t
	}
	sc.nodeByS = map[string]int{}
	for i, n := range nodes {
		sc.nodeByS[n.String()] = i
	}
	sc.idByS = map[string]int{}
	for i, s := range idStrs {
		sc.idByS[s] = i
	}
	sc.litByS = map[string]int{}
	for i, l := range lits {
		sc.litByS[l.String()] = i
	}
	seen := map[[2]int64]bool{}
	for _, p := range sc.preds {
		if p.a != nil {
			for _, d := range []int64{-1, 0, 1} {
				b := p.a.plusNs(d)
				b.off = 0
				if !seen[[2]int64{b.sec, b.nsec}] {
					seen[[2]int64{b.sec, b.nsec}] = true
					sc.bounds = append(sc.bounds, b)
				}
			}
		}
	}
	sort.Slice(sc.bounds, func(i, j int) bool { return sc.bounds[i].less(sc.bounds[j]) })
	sc.selfCheck()
}

// unfaithful reports two values whose model keys and UUIDs disagree and stops: the store would then treat as one triple
// what the property (and the model) treat as two, or the other way round (exit status 3, read by the checks).
func unfaithful(what, a, b string) {
	emit(map[string]interface{}{"kind": "key_unfaithful", "what": what, "a": a, "b": b})
	os.Exit(3)
}

// foreign: the store returned a value that was never given to it in this history (not in the universe): a verdict, not a
// harness failure (exit status 3, reported by the checks with the history number)
var curHist = -1

func foreign(what string) {
	emit(map[string]interface{}{"kind": "foreign_result", "what": "a lookup / listing returned a value that was never stored in this store",
		"a": what, "b": fmt.Sprintf("history %d (graph objects or state leaking between stores of one process?)", curHist)})
	os.Exit(3)
}

// faithful checks key equal <-> UUID equal over a list of (key, uuid, printed form), in linear time
func faithful(what string, keys, uuids, strs []string) {
	byU, byK := map[string]int{}, map[string]int{}
	for i := range keys {
		if j, ok := byU[uuids[i]]; ok && keys[j] != keys[i] {
			unfaithful(what+": different keys, same UUID", strs[j], strs[i])
		}
		if j, ok := byK[keys[i]]; ok && uuids[j] != uuids[i] {
			unfaithful(what+": same key, different UUIDs", strs[j], strs[i])
		}
		byU[uuids[i]], byK[keys[i]] = i, i
	}
}

// key faithfulness: on this universe and these pools, model key equal <-> UUID equal (component-wise and for triples)
func (sc *scenario) selfCheck() {
	var k, u, st []string
	seenStr := map[string]bool{}
	for _, t := range sc.univ {
		if seenStr[t.str] {
			must(fmt.Errorf("duplicate universe string %q", t.str))
		}
		seenStr[t.str] = true
		k, u, st = append(k, tkey(t)), append(u, t.t.UUID().String()), append(st, t.str)
	}
	faithful("triple", k, u, st)
	k, u, st = nil, nil, nil
	var pk, pu []string
	for _, p := range sc.preds {
		k, u, st = append(k, pkey(p)), append(u, p.p.UUID().String()), append(st, p.p.String())
		pk, pu = append(pk, fmt.Sprint(p.id)), append(pu, p.p.PartialUUID().String())
	}
	for _, t := range sc.univ { // also the predicates that only occur in the universe
		k, u, st = append(k, pkey(t.p)), append(u, t.p.p.UUID().String()), append(st, t.p.p.String())
	}
	faithful("predicate", k, u, st)
	faithful("partial predicate", pk, pu, st[:len(pk)])
	k, u, st = nil, nil, nil
	for _, o := range sc.objs {
		k, u, st = append(k, okey(o)), append(u, o.o.UUID().String()), append(st, o.o.String())
	}
	for _, t := range sc.univ {
		k, u, st = append(k, okey(t.o)), append(u, t.o.o.UUID().String()), append(st, t.o.o.String())
	}
	faithful("object", k, u, st)
	k, u, st = nil, nil, nil
	for _, n := range sc.nodeIx {
		k, u, st = append(k, fmt.Sprint(n)), append(u, nodes[n].UUID().String()), append(st, nodes[n].String())
	}
	faithful("node", k, u, st)
}

func (sc *scenario) addTriple(s int, p *pval, o *oval) {
	t, err := triple.New(nodes[s], p.p, o.o)
	must(err)
	str := t.String()
	if sc.haveStr == nil {
		sc.haveStr = map[string]bool{}
	}
	if sc.haveStr[str] {
		return
	}
	sc.haveStr[str] = true
	sc.univ = append(sc.univ, &tval{s: s, p: p, o: o, t: t, str: str})
}

func randomScenario(r *rand.Rand, usize int, wide bool) *scenario {
	sc := &scenario{nNames: 3, nameStrs: []string{"?a", "?b", "?A"}}
	if wide {
		return wideScenario(r, sc, usize)
	}
	// sub-pools
	nn := 2 + r.Intn(2)
	sc.nodeIx = r.Perm(baseNodes)[:nn]
	sort.Ints(sc.nodeIx)
	ids := r.Perm(len(idStrs))[:2]
	// every other scenario: the same bytes occur in two component positions (predicate id = type+id of a pooled node,
	// or a text literal = a pooled predicate id)
	cross := r.Intn(7)
	forceLit := -1
	ancient := false
	var extraAnchors []anchor
	switch cross {
	case 2: // ids "p" and "pé" with the two anchors whose unpadded encodings would make id ++ anchor ambiguous
		ids[0], ids[1] = 0, 6
		extraAnchors = []anchor{anchorPool[14], anchorPool[15]}
	case 4: // ids "p" and "pimmutable": the full-UUID bytes of immutable "p" are the id bytes of the other
		ids[0], ids[1] = 0, 7
	case 3: // the second predicate id only has anchors BEFORE Go's zero time (0000-.., 0001-01-01T00:00:00+07:00)
		ancient = true
	case 0: // predicate id "/ua" together with the node /u<a> (number 0) as subject and as object
		if ids[0] != 4 && ids[1] != 4 {
			ids[0] = 4
		}
		has := false
		for _, n := range sc.nodeIx {
			has = has || n == 0
		}
		if !has {
			sc.nodeIx[0] = 0
			sort.Ints(sc.nodeIx)
		}
	case 1: // predicate id "p" (or "q") together with the text literal of the same bytes
		k := r.Intn(2)
		if ids[0] != k && ids[1] != k {
			ids[0] = k
		}
		forceLit = 6 + k
	}
	sort.Ints(ids)
	// anchors: always the same instant in two zones and its +1ns neighbour, plus one or two others
	as := []anchor{anchorPool[0], anchorPool[1], anchorPool[2]}
	for _, i := range r.Perm(len(anchorPool) - 3)[:r.Intn(4)] {
		as = append(as, anchorPool[3+i])
	}
	as = append(as, extraAnchors...)
	for k, id := range ids {
		sc.preds = append(sc.preds, mkPred(id, nil))
		these := as
		if ancient && k == 1 {
			these = []anchor{anchorPool[16], anchorPool[17], anchorPool[18]}
		}
		for i := range these {
			a := these[i]
			sc.preds = append(sc.preds, mkPred(id, &a))
		}
	}
	// objects: nodes, literals, predicates
	for _, n := range sc.nodeIx[:1+r.Intn(len(sc.nodeIx))] {
		sc.objs = append(sc.objs, mkObj(0, n, nil))
	}
	hasLit := false
	for _, l := range r.Perm(len(lits))[:2+r.Intn(2)] {
		sc.objs = append(sc.objs, mkObj(1, l, nil))
		hasLit = hasLit || l == forceLit
	}
	if forceLit >= 0 && !hasLit {
		sc.objs = append(sc.objs, mkObj(1, forceLit, nil))
	}
	if cross == 0 { // the node /u<a> also as an object
		hasN := false
		for _, o := range sc.objs {
			hasN = hasN || (o.kind == 0 && o.n == 0)
		}
		if !hasN {
			sc.objs = append(sc.objs, mkObj(0, 0, nil))
		}
	}
	for _, pi := range r.Perm(len(sc.preds))[:2+r.Intn(3)] {
		sc.objs = append(sc.objs, mkObj(2, 0, sc.preds[pi]))
	}
	// universe: random triples over the pools; small pools make near-duplicates frequent
	for tries := 0; len(sc.univ) < usize && tries < 20*usize; tries++ {
		s := sc.nodeIx[r.Intn(len(sc.nodeIx))]
		p := sc.preds[r.Intn(len(sc.preds))]
		o := sc.objs[r.Intn(len(sc.objs))]
		sc.addTriple(s, p, o)
		if r.Intn(3) == 0 && p.a != nil { // a sibling that differs only in kind / anchor / zone
			q := sc.preds[r.Intn(len(sc.preds))]
			if q.id == p.id {
				sc.addTriple(s, q, o)
			}
		}
	}
	sc.finish()
	return sc
}

// hugeScenario: ONE subject and ONE predicate id (immutable and one anchor, alternating) with n different node objects: the
// master index and the S, P and S+P buckets hold more than 1024 triples (thresholds of chunked / parallel code paths); the
// query pools are tiny so that the lookups on those buckets stay affordable.
func hugeScenario(r *rand.Rand, sc *scenario, n int) *scenario {
	sc.nodeIx = []int{0}
	a := anchorPool[0]
	pImm, pT := mkPred(0, nil), mkPred(0, &a)
	sc.preds = []*pval{pImm, pT}
	for i := 0; i < n; i++ {
		o := mkObj(0, baseNodes+i, nil)
		if i < 2 {
			sc.objs = append(sc.objs, o)
		}
		p := pImm
		if i%2 == 1 {
			p = pT
		}
		sc.addTriple(0, p, o)
	}
	sc.objs = append(sc.objs, mkObj(1, 0, nil))
	sc.finish()
	return sc
}

// wideScenario: a universe of a few hundred triples over the whole vocabulary, so that graphs, buckets and lookup
// results hold hundreds of elements; the query pools are small random parts of the vocabulary.
func wideScenario(r *rand.Rand, sc *scenario, usize int) *scenario {
	var vn []int
	var vp []*pval
	var vo []*oval
	for i := 0; i < baseNodes; i++ {
		vn = append(vn, i)
	}
	as := append([]anchor{}, anchorPool[:3]...)
	for _, i := range r.Perm(len(anchorPool) - 3)[:5] {
		as = append(as, anchorPool[3+i])
	}
	for id := range idStrs {
		vp = append(vp, mkPred(id, nil))
		for i := range as {
			a := as[i]
			vp = append(vp, mkPred(id, &a))
		}
	}
	for _, n := range vn[:3] {
		vo = append(vo, mkObj(0, n, nil))
	}
	for l := range lits {
		vo = append(vo, mkObj(1, l, nil))
	}
	for _, pi := range r.Perm(len(vp))[:5] {
		vo = append(vo, mkObj(2, 0, vp[pi]))
	}
	hot := vn[r.Intn(len(vn))] // one subject and one predicate id carry most triples: big buckets
	hotID := r.Intn(len(idStrs))
	for tries := 0; len(sc.univ) < usize && tries < 20*usize; tries++ {
		s := vn[r.Intn(len(vn))]
		if r.Intn(2) == 0 {
			s = hot
		}
		p := vp[r.Intn(len(vp))]
		if r.Intn(2) == 0 {
			for p.id != hotID {
				p = vp[r.Intn(len(vp))]
			}
		}
		sc.addTriple(s, p, vo[r.Intn(len(vo))])
	}
	// query pools: the hot components plus a few others, stored and non-stored
	sc.nodeIx = []int{hot}
	for _, n := range r.Perm(len(vn))[:2] {
		if n != hot {
			sc.nodeIx = append(sc.nodeIx, n)
		}
	}
	sort.Ints(sc.nodeIx)
	for _, i := range r.Perm(len(vp))[:8] {
		sc.preds = append(sc.preds, vp[i])
	}
	for _, p := range vp {
		if p.id == hotID && p.a == nil {
			sc.preds = append(sc.preds, p)
		}
	}
	for _, i := range r.Perm(len(vo))[:6] {
		sc.objs = append(sc.objs, vo[i])
	}
	sc.finish()
	return sc
}

// ---------------------------------------------------------------- JSON rendering of values
func jPred(p *pval) []int64 {
	if p.a == nil {
		return []int64{int64(p.id)}
	}
	return []int64{int64(p.id), p.a.sec, p.a.nsec, int64(p.a.off), mkTime(*p.a).UnixNano()}
}

func jObj(o *oval) []int64 {
	switch o.kind {
	case 0:
		return []int64{0, int64(o.n)}
	case 1:
		return []int64{1, int64(o.n)}
	}
	return append([]int64{2}, jPred(o.pv)...)
}

type jTriple struct {
	S int     `json:"s"`
	P []int64 `json:"p"`
	O []int64 `json:"o"`
}

type jPools struct {
	Nodes []int     `json:"nodes"`
	Preds [][]int64 `json:"preds"`
	Objs  [][]int64 `json:"objs"`
}

func (sc *scenario) jUniverse() ([]jTriple, []string) {
	var out []jTriple
	var strs []string
	for _, t := range sc.univ {
		out = append(out, jTriple{S: t.s, P: jPred(t.p), O: jObj(t.o)})
		strs = append(strs, t.str)
	}
	return out, strs
}

func (sc *scenario) jPools() jPools {
	jp := jPools{Nodes: sc.nodeIx}
	for _, p := range sc.preds {
		jp.Preds = append(jp.Preds, jPred(p))
	}
	for _, o := range sc.objs {
		jp.Objs = append(jp.Objs, jObj(o))
	}
	return jp
}

// ---------------------------------------------------------------- encoding of observed values
func (sc *scenario) encPredicate(p *predicate.Predicate) []uint64 {
	id, ok := sc.idByS[string(p.ID())]
	if !ok {
		foreign(fmt.Sprintf("predicate id %q", p.ID()))
	}
	if p.Type() == predicate.Immutable {
		return []uint64{uint64(id), 0}
	}
	ta, err := p.TimeAnchor()
	must(err)
	_, off := ta.Zone()
	return []uint64{uint64(id), 1, zenc(ta.Unix()), uint64(ta.Nanosecond()), zenc(int64(off))}
}

func (sc *scenario) encNode(n *node.Node) uint64 {
	i, ok := sc.nodeByS[n.String()]
	if !ok {
		foreign(fmt.Sprintf("node %v", n))
	}
	return uint64(i)
}

func (sc *scenario) encObject(o *triple.Object) []uint64 {
	if n, err := o.Node(); err == nil {
		return []uint64{0, sc.encNode(n)}
	}
	if l, err := o.Literal(); err == nil {
		i, ok := sc.litByS[l.String()]
		if !ok {
			foreign(fmt.Sprintf("literal %v", l))
		}
		return []uint64{1, uint64(i)}
	}
	p, err := o.Predicate()
	must(err)
	return append([]uint64{2}, sc.encPredicate(p)...)
}

func (sc *scenario) encTriple(t *triple.Triple) []uint64 {
	u, ok := sc.byStr[t.String()]
	if !ok {
		foreign(fmt.Sprintf("triple %s", t))
	}
	out := []uint64{sc.encNode(t.Subject())}
	out = append(out, sc.encPredicate(t.Predicate())...)
	out = append(out, sc.encObject(t.Object())...)
	return append(out, uint64(u.rank))
}

// ---------------------------------------------------------------- queries and options
type query struct {
	K int `json:"k"` // 0 Objects 1 Subjects 2 PredsSO 3 PredsS 4 PredsO 5 TrS 6 TrP 7 TrO 8 TrSP 9 TrPO 10 Triples
	A int `json:"a"` // first argument: position in the pool of its sort
	B int `json:"b"` // second argument
}

type lopts struct {
	Max    int       `json:"max"`
	Lower  *[2]int64 `json:"lower"` // [Unix seconds, nanoseconds]
	Upper  *[2]int64 `json:"upper"`
	Latest bool      `json:"latest"`
	Filter []int     `json:"filter"` // [op, field]: op 0 latest 1 isImmutable 2 isTemporal 3 other; field 0 subject 1 predicate 2 object 3 other
	Offset int       `json:"offset"`
}

func (lo lopts) build() *storage.LookupOptions {
	out := &storage.LookupOptions{MaxElements: lo.Max, Offset: lo.Offset, LatestAnchor: lo.Latest}
	if lo.Lower != nil {
		t := time.Unix(lo.Lower[0], lo.Lower[1]).UTC()
		out.LowerAnchor = &t
	}
	if lo.Upper != nil {
		t := time.Unix(lo.Upper[0], lo.Upper[1]).In(time.FixedZone("", 7200))
		out.UpperAnchor = &t
	}
	if lo.Filter != nil {
		ops := []filter.Operation{filter.Latest, filter.IsImmutable, filter.IsTemporal, filter.Operation(0)}
		fields := []filter.Field{filter.SubjectField, filter.PredicateField, filter.ObjectField, filter.Field(0)}
		op := ops[lo.Filter[0]]
		if lo.Filter[0] == 3 && lo.Max%2 != 0 {
			op = filter.Operation(7)
		}
		out.FilterOptions = &filter.StorageOptions{Operation: op, Field: fields[lo.Filter[1]]}
	}
	return out
}

func sameTimePtr(a, b *time.Time) bool {
	if a == nil || b == nil {
		return a == b
	}
	_, oa := a.Zone()
	_, ob := b.Zone()
	return a.Equal(*b) && oa == ob
}

func sameOptions(a, b *storage.LookupOptions) bool {
	if a.MaxElements != b.MaxElements || a.Offset != b.Offset || a.LatestAnchor != b.LatestAnchor ||
		!sameTimePtr(a.LowerAnchor, b.LowerAnchor) || !sameTimePtr(a.UpperAnchor, b.UpperAnchor) {
		return false
	}
	if a.FilterOptions == nil || b.FilterOptions == nil {
		return a.FilterOptions == b.FilterOptions
	}
	return *a.FilterOptions == *b.FilterOptions
}

func (sc *scenario) allQueries() []query {
	var qs []query
	ns, ps, os_ := len(sc.nodeIx), len(sc.preds), len(sc.objs)
	prod := func(k, na, nb int) {
		for a := 0; a < na; a++ {
			for b := 0; b < nb; b++ {
				qs = append(qs, query{k, a, b})
			}
		}
	}
	one := func(k, na int) {
		for a := 0; a < na; a++ {
			qs = append(qs, query{k, a, 0})
		}
	}
	prod(0, ns, ps)
	prod(1, ps, os_)
	prod(2, ns, os_)
	one(3, ns)
	one(4, os_)
	one(5, ns)
	one(6, ps)
	one(7, os_)
	prod(8, ns, ps)
	prod(9, ps, os_)
	qs = append(qs, query{10, 0, 0})
	return qs
}

// queryFrom builds a lookup of the given kind whose arguments are the components of a universe triple.
func (sc *scenario) queryFrom(t *tval, k int) query {
	si, pi, oi := 0, 0, 0
	for i, n := range sc.nodeIx {
		if n == t.s {
			si = i
		}
	}
	for i, p := range sc.preds {
		if p == t.p {
			pi = i
		}
	}
	for i, o := range sc.objs {
		if o == t.o {
			oi = i
		}
	}
	switch k {
	case 0, 8:
		return query{k, si, pi}
	case 1, 9:
		return query{k, pi, oi}
	case 2:
		return query{k, si, oi}
	case 3, 5:
		return query{k, si, 0}
	case 4, 7:
		return query{k, oi, 0}
	case 6:
		return query{k, pi, 0}
	}
	return query{10, 0, 0}
}

// capacity of the result channels: the lookups send while holding the graph lock, the harness drains afterwards
var chanCap = 256

func errCode(err error) uint64 {
	m := err.Error()
	switch {
	case strings.Contains(m, "LatestAnchor and FilterOptions"):
		return 1
	case strings.Contains(m, "invalid field"):
		return 2
	case strings.Contains(m, "not supported in the driver"):
		return 3
	}
	return 9
}

// drain runs one storage call that publishes on a channel and consumes the channel CONCURRENTLY, so that a result of any
// size is received (the lookups send while they hold the graph lock). A call that returns without closing its channel is
// counted in notClosed; a call that never returns is reported by the watchdog.
var notClosed int
var callStarted atomic.Int64 // Unix seconds of the storage call in progress (0: none)

func drain[T any](call func(chan<- T) error, each func(T)) error {
	c := make(chan T, 16)
	errc := make(chan error, 1)
	callStarted.Store(time.Now().Unix())
	defer callStarted.Store(0)
	go func() { errc <- call(c) }()
	for {
		select {
		case x, ok := <-c:
			if !ok {
				return <-errc
			}
			each(x)
		case err := <-errc:
			for {
				select {
				case x, ok := <-c:
					if !ok {
						return err
					}
					each(x)
				default:
					notClosed++
					return err
				}
			}
		}
	}
}

// watchdog: a storage call that does not come back within two minutes ends the run with a verdict (exit status 4)
func watchdog() {
	for {
		time.Sleep(2 * time.Second)
		if t := callStarted.Load(); t != 0 && time.Now().Unix()-t > 120 {
			emit(map[string]interface{}{"kind": "stuck", "what": "a Store/Graph call did not return within 120 s"})
			os.Exit(4)
		}
	}
}

// runQuery performs one lookup on the real graph and returns the canonical encoding of its outcome.
func (sc *scenario) runQuery(g storage.Graph, q query, lo *storage.LookupOptions) []uint64 {
	ctx := context.Background()
	var body []uint64
	cnt := 0
	var err error
	switch q.K {
	case 0:
		err = drain(func(c chan<- *triple.Object) error {
			return g.Objects(ctx, nodes[sc.nodeIx[q.A]], sc.preds[q.B].p, lo, c)
		}, func(o *triple.Object) {
			body = append(append(body, 2), sc.encObject(o)...)
			cnt++
		})
	case 1:
		err = drain(func(c chan<- *node.Node) error {
			return g.Subjects(ctx, sc.preds[q.A].p, sc.objs[q.B].o, lo, c)
		}, func(n *node.Node) {
			body = append(body, 0, sc.encNode(n))
			cnt++
		})
	case 2, 3, 4:
		err = drain(func(c chan<- *predicate.Predicate) error {
			switch q.K {
			case 2:
				return g.PredicatesForSubjectAndObject(ctx, nodes[sc.nodeIx[q.A]], sc.objs[q.B].o, lo, c)
			case 3:
				return g.PredicatesForSubject(ctx, nodes[sc.nodeIx[q.A]], lo, c)
			}
			return g.PredicatesForObject(ctx, sc.objs[q.A].o, lo, c)
		}, func(p *predicate.Predicate) {
			body = append(append(body, 1), sc.encPredicate(p)...)
			cnt++
		})
	default:
		err = drain(func(c chan<- *triple.Triple) error {
			switch q.K {
			case 5:
				return g.TriplesForSubject(ctx, nodes[sc.nodeIx[q.A]], lo, c)
			case 6:
				return g.TriplesForPredicate(ctx, sc.preds[q.A].p, lo, c)
			case 7:
				return g.TriplesForObject(ctx, sc.objs[q.A].o, lo, c)
			case 8:
				return g.TriplesForSubjectAndPredicate(ctx, nodes[sc.nodeIx[q.A]], sc.preds[q.B].p, lo, c)
			case 9:
				return g.TriplesForPredicateAndObject(ctx, sc.preds[q.A].p, sc.objs[q.B].o, lo, c)
			}
			return g.Triples(ctx, lo, c)
		}, func(t *triple.Triple) {
			body = append(append(body, 3), sc.encTriple(t)...)
			cnt++
		})
	}
	if err != nil {
		if cnt != 0 {
			return []uint64{7, errCode(err), uint64(cnt)} // an error AND results: no model outcome has this shape
		}
		return []uint64{1, errCode(err)}
	}
	return append([]uint64{0, uint64(cnt)}, body...)
}

// result statistics of the lookups digested so far: [empty, non-empty, error, elements]
var lkStats [4]int

// distinct non-trivial lookups of the current history: (graph content, query, options) with a non-empty result
var lkDistinct = map[[3]uint64]bool{}

func contentKey(g storage.Graph) uint64 {
	h := uint64(7)
	must(drain(func(c chan<- *triple.Triple) error {
		return g.Triples(context.Background(), storage.DefaultLookup, c)
	}, func(t *triple.Triple) {
		h = dlist(h, []uint64{uint64(len(t.String()))})
		for _, b := range []byte(t.String()) {
			h = dmix(h, uint64(b))
		}
	}))
	return h
}

func bytesToU64(b []byte) []uint64 {
	out := make([]uint64, len(b))
	for i, x := range b {
		out[i] = uint64(x)
	}
	return out
}

func (sc *scenario) digestState(objs []storage.Graph, qs []query, los []lopts) uint64 {
	h := uint64(0)
	// ONE options value per element of los, reused by all the lookups of this call (callers share options values, e.g.
	// storage.DefaultLookup); after every lookup it must still be what it was
	built := make([]*storage.LookupOptions, len(los))
	for i, lo := range los {
		built[i] = lo.build()
	}
	for _, g := range objs {
		ck := contentKey(g)
		for _, q := range qs {
			for i, lo := range los {
				enc := sc.runQuery(g, q, built[i])
				if !sameOptions(built[i], lo.build()) {
					lj, _ := json.Marshal(lo)
					qj, _ := json.Marshal(q)
					emit(map[string]interface{}{"kind": "options_modified", "what": "a lookup changed the LookupOptions value passed to it",
						"a": fmt.Sprintf("lookup %s with options %s", qj, lj), "b": fmt.Sprintf("options afterwards: %s (history %d)", built[i].String(), curHist)})
					os.Exit(3)
				}
				switch {
				case enc[0] != 0:
					lkStats[2]++
				case enc[1] == 0:
					lkStats[0]++
				default:
					lkStats[1]++
					lkStats[3] += int(enc[1])
					lj, _ := json.Marshal(lo)
					lkDistinct[[3]uint64{ck, uint64(q.K*10000 + q.A*100 + q.B), dlist(0, bytesToU64(lj))}] = true
				}
				h = dlist(h, enc)
			}
		}
	}
	return h
}

// ---------------------------------------------------------------- the store under test and its observation
type world struct {
	sc      *scenario
	st      storage.Store
	objs    []storage.Graph       // graph objects in creation order
	objIx   map[storage.Graph]int // pointer -> creation number
	pending []opx                 // operations already decided (the remove / re-add echo of an add)
}

func newWorld(sc *scenario) *world {
	return &world{sc: sc, st: memory.NewStore(), objIx: map[storage.Graph]int{}}
}

type jop []interface{}

type jobs struct {
	Res    int             `json:"res"`
	Names  []int           `json:"names"`
	Gets   []int           `json:"gets"`
	Graphs [][]interface{} `json:"graphs"`
	C02    uint64          `json:"c02"`
	C09    []jc09          `json:"c09"`
}

type jc09 struct {
	Qs  []query `json:"qs"`
	Los []lopts `json:"los"`
	D   uint64  `json:"d"`
}

type opx struct {
	kind string
	n    int   // name
	h    int   // graph object
	is   []int // universe ranks
}

func (o opx) json() jop {
	switch o.kind {
	case "names":
		return jop{"names"}
	case "add", "rem":
		is := o.is
		if is == nil {
			is = []int{}
		}
		return jop{o.kind, o.h, is}
	}
	return jop{o.kind, o.n}
}

// apply runs one operation on the real store; result code: 0 ok, 1 error, 2+object number, 99 no such handle
func (w *world) apply(o opx) int {
	ctx := context.Background()
	switch o.kind {
	case "new":
		g, err := w.st.NewGraph(ctx, w.sc.nameStrs[o.n])
		if err != nil {
			return 1
		}
		w.objIx[g] = len(w.objs)
		w.objs = append(w.objs, g)
		return 2 + w.objIx[g]
	case "get":
		g, err := w.st.Graph(ctx, w.sc.nameStrs[o.n])
		if err != nil {
			return 1
		}
		i, ok := w.objIx[g]
		if !ok {
			return 98
		}
		return 2 + i
	case "drop":
		if err := w.st.DeleteGraph(ctx, w.sc.nameStrs[o.n]); err != nil {
			return 1
		}
		return 0
	case "names":
		return 0
	case "add", "rem":
		if o.h >= len(w.objs) {
			return 99
		}
		var ts []*triple.Triple
		for _, i := range o.is {
			ts = append(ts, w.sc.univ[i].t)
		}
		var err error
		if o.kind == "add" {
			err = w.objs[o.h].AddTriples(ctx, ts)
		} else {
			err = w.objs[o.h].RemoveTriples(ctx, ts)
		}
		if err != nil {
			return 1
		}
		return 0
	}
	must(fmt.Errorf("bad op %v", o))
	return -1
}

func (w *world) observe(res int) jobs {
	ctx := context.Background()
	ob := jobs{Res: res, Names: []int{}, C09: []jc09{}}
	nc := make(chan string, 16)
	must(w.st.GraphNames(ctx, nc))
	for n := range nc {
		found := -1
		for i, s := range w.sc.nameStrs {
			if s == n {
				found = i
			}
		}
		ob.Names = append(ob.Names, found)
	}
	sort.Ints(ob.Names)
	for i := 0; i < w.sc.nNames; i++ {
		g, err := w.st.Graph(ctx, w.sc.nameStrs[i])
		if err != nil {
			ob.Gets = append(ob.Gets, 0)
		} else {
			ob.Gets = append(ob.Gets, 1+w.objIx[g])
		}
	}
	ob.Graphs = [][]interface{}{}
	for _, g := range w.objs {
		mask := new(big.Int)
		for i, t := range w.sc.univ {
			ok, err := g.Exist(ctx, t.t)
			must(err)
			if ok {
				mask.SetBit(mask, i, 1)
			}
		}
		ranks := []int{}
		must(drain(func(c chan<- *triple.Triple) error { return g.Triples(ctx, storage.DefaultLookup, c) },
			func(t *triple.Triple) {
				u, ok := w.sc.byStr[t.String()]
				if !ok {
					foreign(fmt.Sprintf("triple %s (in Triples())", t))
				}
				ranks = append(ranks, u.rank)
			}))
		ob.Graphs = append(ob.Graphs, []interface{}{mask, ranks})
	}
	return ob
}

// nonEmpty: the graph objects whose listing (as just observed) is not empty
func nonEmpty(objs []storage.Graph, ob jobs) []storage.Graph {
	var out []storage.Graph
	for i, g := range objs {
		if len(ob.Graphs[i][1].([]int)) > 0 {
			out = append(out, g)
		}
	}
	return out
}

// batch sizes around powers of two and typical chunk sizes; batches repeat triples, so a small universe is enough
// longChurn: number of operations of the long-lived wide histories (flag -longchurn, 0 = none)
var longChurn = 0

// bigMax caps the batch sizes (flag -bigmax)
var bigMax = 5000

var bigSizes = []int{63, 64, 65, 127, 128, 129, 255, 256, 257, 511, 512, 513, 768, 1000, 1023, 1024, 1025, 2048, 4097}

// bigBatch builds a batch of exactly n ranks with repetitions: a prefix drawn from one part of the universe and a
// suffix drawn from the REST of the universe, the cut placed at a chunk-sized distance from the end (or the start), so
// that an implementation that drops or repeats a chunk, the first or the last element changes the resulting set.
func bigBatch(r *rand.Rand, usize, n int) []int {
	perm := r.Perm(usize)
	k := 1 + r.Intn(usize-1)
	a, b := perm[:k], perm[k:]
	cuts := []int{n - 256, n - 128, n - 64, n - 1, 1, 64, 128, 256, n / 2, r.Intn(n)}
	cut := cuts[r.Intn(len(cuts))]
	if cut <= 0 || cut >= n {
		cut = n / 2
	}
	out := make([]int, 0, n)
	for len(out) < cut {
		out = append(out, a[r.Intn(len(a))])
	}
	for len(out) < n {
		out = append(out, b[r.Intn(len(b))])
	}
	return out
}

// ---------------------------------------------------------------- generators
// twin: another universe triple with the SAME key as t (an anchor written in another zone); t itself if there is none
func (sc *scenario) twin(r *rand.Rand, t int) int {
	var c []int
	for i, b := range sc.univ {
		if i != t && tkey(b) == tkey(sc.univ[t]) {
			c = append(c, i)
		}
	}
	if len(c) == 0 {
		return t
	}
	return c[r.Intn(len(c))]
}

// sibling: a universe triple that shares one of the three pair keys (S+P id, P id+O, S+O) with t; t itself if there is none
func (sc *scenario) sibling(r *rand.Rand, t int) int {
	a := sc.univ[t]
	var c []int
	for i, b := range sc.univ {
		if i != t && ((a.s == b.s && a.p.id == b.p.id) || (a.p.id == b.p.id && okey(a.o) == okey(b.o)) || (a.s == b.s && okey(a.o) == okey(b.o))) {
			c = append(c, i)
		}
	}
	if len(c) == 0 {
		return t
	}
	return c[r.Intn(len(c))]
}

func (w *world) randomOp(r *rand.Rand, stored map[int]map[int]bool, big bool) opx {
	sc := w.sc
	if len(w.pending) > 0 {
		o := w.pending[0]
		w.pending = w.pending[1:]
		return o
	}
	x := r.Intn(100)
	if len(sc.univ) > 100 && len(w.objs) > 0 && r.Intn(12) != 0 { // wide universe: churn on the FIRST graph object - add most of the universe, then remove most of what is stored, so
		// that thousands of triples are really added and really removed on one graph object within one history
		h := 0
		if len(stored[h]) < len(sc.univ)/3 {
			is := r.Perm(len(sc.univ))[:len(sc.univ)*9/10]
			return opx{kind: "add", h: h, is: is}
		}
		ks := make([]int, 0, len(stored[h]))
		for k := range stored[h] {
			ks = append(ks, k)
		}
		sort.Ints(ks)
		r.Shuffle(len(ks), func(i, j int) { ks[i], ks[j] = ks[j], ks[i] })
		ks = ks[:len(ks)*9/10]
		for j := 0; j < 5; j++ { // a few absent ones and duplicates
			ks = append(ks, r.Intn(len(sc.univ)))
		}
		return opx{kind: "rem", h: h, is: ks}
	}
	if big && len(w.objs) > 0 && r.Intn(8) != 0 { // a very large batch (with repetitions) on the newest object
		h := len(w.objs) - 1
		n := bigSizes[r.Intn(len(bigSizes))]
		for n > bigMax {
			n = bigSizes[r.Intn(len(bigSizes))]
		}
		if len(stored[h]) < len(sc.univ) { // fill the graph first: removes are only observable on stored triples
			is := r.Perm(len(sc.univ))
			for len(is) < n {
				is = append(is, r.Intn(len(sc.univ)))
			}
			return opx{kind: "add", h: h, is: is}
		}
		kind := "rem"
		if r.Intn(5) == 0 {
			kind = "add"
		}
		return opx{kind: kind, h: h, is: bigBatch(r, len(sc.univ), n)}
	}
	if len(w.objs) == 0 && x >= 20 {
		return opx{kind: "new", n: r.Intn(sc.nNames)}
	}
	switch {
	case x < 11:
		return opx{kind: "new", n: r.Intn(sc.nNames)}
	case x < 16:
		return opx{kind: "get", n: r.Intn(sc.nNames)}
	case x < 22:
		return opx{kind: "drop", n: r.Intn(sc.nNames)}
	case x < 24:
		return opx{kind: "names"}
	}
	h := r.Intn(len(w.objs))
	if r.Intn(4) != 0 { // prefer the most recent object
		h = len(w.objs) - 1 - r.Intn(1+r.Intn(len(w.objs)))
	}
	nb := r.Intn(6)
	if r.Intn(10) == 0 {
		nb = 6 + r.Intn(6)
	}
	var is []int
	add := x < 68
	for j := 0; j < nb; j++ {
		i := r.Intn(len(sc.univ))
		if !add && r.Intn(2) == 0 && len(stored[h]) > 0 { // remove something that is there
			ks := make([]int, 0, len(stored[h]))
			for k := range stored[h] {
				ks = append(ks, k)
			}
			sort.Ints(ks)
			i = ks[r.Intn(len(ks))]
			if r.Intn(3) == 0 { // the same triple in its other spelling (same instant written in another zone), if any
				i = sc.twin(r, i)
			}
		}
		is = append(is, i)
		if r.Intn(5) == 0 && len(is) > 0 { // duplicate inside the batch
			is = append(is, is[r.Intn(len(is))])
		}
	}
	if add {
		if len(is) > 0 && r.Intn(3) == 0 {
			// echo: remove the triple that was added last (its pair buckets may become empty), then add it again or add a
			// sibling with the same pair key FIRST in the next batch, with nothing in between
			t := is[len(is)-1]
			again := []int{t}
			if r.Intn(2) == 0 {
				again = []int{sc.sibling(r, t)}
			}
			for j := r.Intn(3); j > 0; j-- {
				again = append(again, r.Intn(len(sc.univ)))
			}
			w.pending = []opx{{kind: "rem", h: h, is: []int{t}}, {kind: "add", h: h, is: again}}
		}
		return opx{kind: "add", h: h, is: is}
	}
	return opx{kind: "rem", h: h, is: is}
}

func (sc *scenario) randomLopts(r *rand.Rand) lopts {
	lo := lopts{}
	pg := []int{-1, 0, 1, 2, 3}
	if r.Intn(2) == 0 {
		lo.Max = pg[r.Intn(5)]
		lo.Offset = pg[r.Intn(5)]
		if r.Intn(2) == 0 && lo.Max > 0 && lo.Offset > 1 { // first pages are the non-empty ones
			lo.Offset = r.Intn(2)
		}
	}
	if len(sc.univ) > 100 && r.Intn(3) == 0 { // results of hundreds: page sizes around typical buffer sizes
		lo.Max = []int{63, 64, 65, 127, 128, 129, 255, 256, 257, 100}[r.Intn(10)]
		lo.Offset = r.Intn(3)
	}
	if r.Intn(30) == 0 { // huge values: MaxElements * Offset near and beyond the range of int
		lo.Max = []int{1 << 31, 1 << 32, 1 << 62, 1<<63 - 1, 3}[r.Intn(5)]
		lo.Offset = []int{1 << 32, 1 << 40, 4, 2, 1<<63 - 1}[r.Intn(5)]
	}
	nb := len(sc.bounds)
	if nb > 0 && r.Intn(3) != 0 {
		if r.Intn(3) != 0 { // a window that is usually non-empty: lower from the lower half, upper from the upper half
			if r.Intn(4) != 0 {
				b := sc.bounds[r.Intn((nb+1)/2)]
				lo.Lower = &[2]int64{b.sec, b.nsec}
			}
			if r.Intn(4) != 0 {
				b := sc.bounds[nb/2+r.Intn(nb-nb/2)]
				lo.Upper = &[2]int64{b.sec, b.nsec}
			}
		} else { // any pair, also lower > upper
			a, b := sc.bounds[r.Intn(nb)], sc.bounds[r.Intn(nb)]
			lo.Lower, lo.Upper = &[2]int64{a.sec, a.nsec}, &[2]int64{b.sec, b.nsec}
		}
	}
	if r.Intn(5) == 0 {
		lo.Latest = true
	}
	if (!lo.Latest && r.Intn(10) < 6) || (lo.Latest && r.Intn(8) == 0) {
		op := r.Intn(3)
		f := 1 + r.Intn(2)
		if r.Intn(14) == 0 {
			op = 3
		}
		if r.Intn(14) == 0 {
			f = []int{0, 3}[r.Intn(2)]
		}
		lo.Filter = []int{op, f}
	}
	return lo
}

type pageBad struct {
	Q        query    `json:"q"`
	Lo       lopts    `json:"lo"`
	N        int      `json:"n"`
	Unpaged  []uint64 `json:"unpaged"`
	Concat   []uint64 `json:"concat"`
	Why      string   `json:"why"`
	GraphObj int      `json:"graph"`
}

// pagesCheck: on the implementation, the pages of size n concatenate to the unpaged result, each page has at most n
// elements, and the page after the last is empty.
func (sc *scenario) pagesCheck(g storage.Graph, gi int, q query, lo lopts, n int) *pageBad {
	lo.Max, lo.Offset = 0, 0
	un := sc.runQuery(g, q, lo.build())
	if un[0] != 0 {
		return nil
	}
	total := int(un[1])
	var concat []uint64
	cnt := 0
	for k := 0; k <= total/n+1; k++ {
		lo.Max, lo.Offset = n, k
		pg := sc.runQuery(g, q, lo.build())
		if pg[0] != 0 {
			return &pageBad{q, lo, n, un, pg, "page errors but unpaged lookup does not", gi}
		}
		if int(pg[1]) > n {
			return &pageBad{q, lo, n, un, pg, "page longer than MaxElements", gi}
		}
		if k*n >= total && pg[1] != 0 {
			return &pageBad{q, lo, n, un, pg, "page beyond the end not empty", gi}
		}
		if k*n+n <= total && int(pg[1]) != n {
			return &pageBad{q, lo, n, un, pg, "inner page not full", gi}
		}
		cnt += int(pg[1])
		concat = append(concat, pg[2:]...)
	}
	full := append([]uint64{0, uint64(cnt)}, concat...)
	if fmt.Sprint(full) != fmt.Sprint(un) {
		return &pageBad{q, lo, n, un, full, "concatenation of pages differs from the unpaged result", gi}
	}
	return nil
}

// ---------------------------------------------------------------- mode hist
type histOut struct {
	Kind     string    `json:"kind"`
	Idx      int       `json:"idx"`
	Universe []jTriple `json:"universe"`
	Strs     []string  `json:"strs"`
	Pools    jPools    `json:"pools"`
	Names    int       `json:"names"`
	Steps    []jstep   `json:"steps"`
	PagesBad []pageBad `json:"pages_bad"`
	Pages    int       `json:"pages_checked"`
	Lookups  int       `json:"lookups"`
	LkStats  [4]int    `json:"lookup_stats"` // empty, non-empty, error, elements returned
	LkDist   int       `json:"lookup_distinct_nonempty"`
}

type jstep struct {
	Op  jop  `json:"op"`
	Obs jobs `json:"obs"`
}

func histSeed(seed int64, idx int) int64 { return seed*1000003 + int64(idx)*7919 + 17 }

func genHistory(seed int64, idx int, maxops int, usize int, c02, c09 bool, uptoStep int) (*world, histOut, []opx) {
	r := rand.New(rand.NewSource(histSeed(seed, idx)))
	curHist = idx
	lkStats = [4]int{}
	lkDistinct = map[[3]uint64]bool{}
	wide := idx%32 == 9 // every thirty-second history: a universe of 150..300 triples, graphs and results of hundreds
	if wide {
		usize = 250 + r.Intn(60)
	}
	huge := idx%96 == 21 // every ninety-sixth history: one subject / one predicate id with 1025..1031 triples
	var sc *scenario
	if huge {
		n := 1025 + r.Intn(7)
		for p := runtime.GOMAXPROCS(0); p > 1 && n%p == 0; {
			n++
		}
		sc = hugeScenario(r, &scenario{nNames: 3, nameStrs: []string{"?a", "?b", "?A"}}, n)
	} else {
		sc = randomScenario(r, usize, wide)
	}
	chanCap = len(sc.univ) + 16
	w := newWorld(sc)
	out := histOut{Kind: "hist", Idx: idx, Names: sc.nNames, Pools: sc.jPools(), PagesBad: []pageBad{}}
	out.Universe, out.Strs = sc.jUniverse()
	nops := 1 + r.Intn(maxops)
	if r.Intn(4) == 0 {
		nops = 1 + r.Intn(6)
	}
	if wide {
		nops = 16 + r.Intn(5)
		if longChurn > 0 && idx%128 == 9 { // thorough: one graph object lives through tens of thousands of adds and removes
			nops = longChurn
		}
	}
	big := idx%8 == 5 // every eighth history alternates full adds and adversarial removes of 63 .. 4097 triples
	if big {
		nops = 8 + r.Intn(7)
	}
	if huge { // new; add everything in one batch; remove three; add two of them again
		all := r.Perm(len(sc.univ))
		w.pending = []opx{{kind: "new", n: 0}, {kind: "add", h: 0, is: all}, {kind: "rem", h: 0, is: all[:3]},
			{kind: "add", h: 0, is: all[1:3]}}
		nops = len(w.pending)
	}
	stored := map[int]map[int]bool{}
	allQ := sc.allQueries()
	var ops []opx
	for i := 0; i < nops; i++ {
		o := w.randomOp(r, stored, big)
		ops = append(ops, o)
		res := w.apply(o)
		if o.kind == "add" || o.kind == "rem" {
			if stored[o.h] == nil {
				stored[o.h] = map[int]bool{}
			}
			for _, k := range o.is {
				if o.kind == "add" {
					stored[o.h][k] = true
				} else {
					delete(stored[o.h], k)
				}
			}
		}
		ob := w.observe(res)
		// the random choices for the lookups are drawn even when the lookups are skipped, so that -c02/-c09 do not
		// change the history that a (seed, idx) pair denotes
		nq, nl := 3+r.Intn(4), 4+r.Intn(5)
		var qs []query
		var los []lopts
		var storedNow []int
		for hh := range w.objs {
			for k := range stored[hh] {
				storedNow = append(storedNow, k)
			}
		}
		sort.Ints(storedNow)
		for j := 0; j < nq; j++ {
			q := allQ[r.Intn(len(allQ))]
			if len(storedNow) > 0 && r.Intn(10) < 7 { // arguments taken from a triple that is stored somewhere
				q = sc.queryFrom(sc.univ[storedNow[r.Intn(len(storedNow))]], r.Intn(11))
			}
			qs = append(qs, q)
		}
		for j := 0; j < nl; j++ {
			los = append(los, sc.randomLopts(r))
		}
		pq := allQ[r.Intn(len(allQ))]
		if len(storedNow) > 0 && r.Intn(10) < 8 {
			pq = sc.queryFrom(sc.univ[storedNow[r.Intn(len(storedNow))]], r.Intn(11))
		}
		plo := sc.randomLopts(r)
		pn := 1 + r.Intn(3)
		if c02 && len(w.objs) > 0 {
			ob.C02 = sc.digestState(w.objs, allQ, []lopts{{}})
			out.Lookups += len(w.objs) * len(allQ)
		}
		if c09 && len(w.objs) > 0 {
			ne := nonEmpty(w.objs, ob)
			ob.C09 = append(ob.C09, jc09{qs, los, sc.digestState(ne, qs, los)})
			out.Lookups += len(ne) * len(qs) * len(los)
			gi := len(w.objs) - 1
			if o.kind == "add" || o.kind == "rem" {
				gi = o.h
			}
			if gi < len(w.objs) {
				for _, cand := range []query{pq, {10, 0, 0}} {
					out.Pages++
					if bad := sc.pagesCheck(w.objs[gi], gi, cand, plo, pn); bad != nil {
						out.PagesBad = append(out.PagesBad, *bad)
					}
				}
			}
		}
		out.Steps = append(out.Steps, jstep{o.json(), ob})
		out.LkStats = lkStats
		out.LkDist = len(lkDistinct)
		if uptoStep >= 0 && i == uptoStep {
			break
		}
	}
	return w, out, ops
}

// ---------------------------------------------------------------- mode exhaustive
func exhaustiveScenario() *scenario {
	sc := &scenario{nNames: 2, nameStrs: []string{"?a", "?b"}}
	sc.nodeIx = []int{0, 1}
	a0, a1 := anchorPool[0], anchorPool[1]
	p0, p1, p2 := mkPred(0, nil), mkPred(0, &a0), mkPred(0, &a1)
	sc.preds = []*pval{p0, p1, p2}
	sc.objs = []*oval{mkObj(0, 1, nil), mkObj(1, 0, nil)}
	sc.addTriple(0, p0, sc.objs[0])
	sc.addTriple(0, p1, sc.objs[0])
	sc.addTriple(0, p2, sc.objs[0])
	sc.addTriple(0, p0, sc.objs[1])
	sc.finish()
	return sc
}

func exhaustiveAlphabet() []opx {
	al := []opx{{kind: "new", n: 0}, {kind: "new", n: 1}, {kind: "drop", n: 0}, {kind: "drop", n: 1}, {kind: "get", n: 0}}
	for i := 0; i < 4; i++ {
		al = append(al, opx{kind: "add", h: 0, is: []int{i}})
	}
	for i := 0; i < 4; i++ {
		al = append(al, opx{kind: "rem", h: 0, is: []int{i}})
	}
	al = append(al, opx{kind: "add", h: 0, is: []int{1, 3, 1}}, opx{kind: "rem", h: 0, is: []int{2, 0}},
		opx{kind: "add", h: 1, is: []int{0, 2}}, opx{kind: "rem", h: 1, is: []int{1}},
		opx{kind: "add", h: 2, is: []int{3}}, opx{kind: "add", h: 0, is: []int{}})
	return al
}

func (w *world) obsDigest(res int, wl bool, allQ []query, h uint64) uint64 {
	ob := w.observe(res)
	h = dmix(h, uint64(res))
	for _, n := range ob.Names {
		h = dmix(h, uint64(n))
	}
	h = dmix(h, 77)
	for _, g := range ob.Gets {
		h = dmix(h, uint64(g))
	}
	for _, g := range ob.Graphs {
		h = dmix(dmix(h, 78), g[0].(*big.Int).Uint64())
		for _, rk := range g[1].([]int) {
			h = dmix(h, uint64(rk))
		}
	}
	if wl {
		h = dmix(h, w.sc.digestState(w.objs, allQ, []lopts{{}}))
	}
	return h
}

func runExhaustive(length int, wl bool, group int) {
	sc := exhaustiveScenario()
	al := exhaustiveAlphabet()
	allQ := sc.allQueries()
	digests := make([]uint64, len(al))
	var perHist []uint64 // digests of the single histories of -group
	count := 0
	var rec func(prefix []opx, depth int, acc *uint64)
	rec = func(prefix []opx, depth int, acc *uint64) {
		if depth == length {
			w := newWorld(sc)
			h := uint64(0)
			for _, o := range prefix {
				h = w.obsDigest(w.apply(o), wl, allQ, h)
			}
			*acc = dmix(*acc, h)
			count++
			if group >= 0 {
				perHist = append(perHist, h)
			}
			return
		}
		for _, o := range al {
			rec(append(prefix, o), depth+1, acc)
		}
	}
	for i, o := range al {
		if group >= 0 && i != group {
			continue
		}
		acc := uint64(0)
		rec([]opx{o}, 1, &acc)
		digests[i] = acc
	}
	u, strs := sc.jUniverse()
	var jal []jop
	for _, o := range al {
		jal = append(jal, o.json())
	}
	emit(map[string]interface{}{"kind": "exhaustive", "universe": u, "strs": strs, "pools": sc.jPools(), "names": sc.nNames,
		"alphabet": jal, "len": length, "digests": digests, "histories": count, "with_lookups": wl, "group": group, "history_digests": perHist})
}

// ---------------------------------------------------------------- mode shared (F7)
func runShared(workers, calls int) {
	sc := exhaustiveScenario()
	w := newWorld(sc)
	w.apply(opx{kind: "new", n: 0})
	w.apply(opx{kind: "add", h: 0, is: []int{0, 1, 2, 3}})
	errs, wrong, total := 0, 0, 0
	restored := true
	perKind := map[int]int{}
	// every lookup method, with arguments taken from the stored temporal triple
	for k := 0; k <= 10; k++ {
		q := sc.queryFrom(sc.univ[1], k)
		lo := &storage.LookupOptions{LatestAnchor: true}
		want := fmt.Sprint(sc.runQuery(w.objs[0], q, &storage.LookupOptions{LatestAnchor: true}))
		var wg sync.WaitGroup
		var mu sync.Mutex
		for i := 0; i < workers; i++ {
			wg.Add(1)
			go func() {
				defer wg.Done()
				for j := 0; j < calls; j++ {
					got := sc.runQuery(w.objs[0], q, lo)
					mu.Lock()
					total++
					if got[0] != 0 {
						errs++
						perKind[k]++
					} else if fmt.Sprint(got) != want {
						wrong++
						perKind[k]++
					}
					mu.Unlock()
				}
			}()
		}
		wg.Wait()
		if lo.FilterOptions != nil {
			restored = false
		}
	}
	emit(map[string]interface{}{"kind": "shared", "workers": workers, "calls": total, "errors": errs, "wrong": wrong,
		"options_restored": restored, "failures_per_method": perKind})
}

// ---------------------------------------------------------------- mode burst: concurrent creators / droppers of ONE name
// Eight goroutines create the same new name at once: exactly one must succeed, Graph(name) must be the handle of the winner
// (a triple added through it is visible through Graph(name)); then eight goroutines drop it: exactly one must succeed.
func runBurst(rounds int) {
	ctx := context.Background()
	sc := exhaustiveScenario()
	st := memory.NewStore()
	const workers = 8
	badCreate, badDelete, badHandle := 0, 0, 0
	var first map[string]interface{}
	note := func(kind string, round, winners int) {
		if first == nil {
			first = map[string]interface{}{"kind": kind, "round": round, "successful_calls": winners, "workers": workers}
		}
	}
	for r := 0; r < rounds; r++ {
		name := fmt.Sprintf("?g%d", r)
		start := make(chan struct{})
		hs := make([]storage.Graph, workers)
		errs := make([]error, workers)
		var wg sync.WaitGroup
		for i := 0; i < workers; i++ {
			wg.Add(1)
			go func(i int) {
				defer wg.Done()
				<-start
				hs[i], errs[i] = st.NewGraph(ctx, name)
			}(i)
		}
		close(start)
		wg.Wait()
		var winner storage.Graph
		n := 0
		for i := range hs {
			if errs[i] == nil {
				n++
				winner = hs[i]
			}
		}
		if n != 1 {
			badCreate++
			note("NewGraph: not exactly one creator succeeded", r, n)
		}
		if winner != nil {
			must(winner.AddTriples(ctx, []*triple.Triple{sc.univ[0].t}))
			g, err := st.Graph(ctx, name)
			ok := false
			if err == nil {
				ok, _ = g.Exist(ctx, sc.univ[0].t)
			}
			if err != nil || !ok {
				badHandle++
				note("Graph(name) is not the graph the successful NewGraph returned", r, n)
			}
		}
		start = make(chan struct{})
		for i := 0; i < workers; i++ {
			wg.Add(1)
			go func(i int) {
				defer wg.Done()
				<-start
				errs[i] = st.DeleteGraph(ctx, name)
			}(i)
		}
		close(start)
		wg.Wait()
		n = 0
		for i := range errs {
			if errs[i] == nil {
				n++
			}
		}
		if n != 1 {
			badDelete++
			note("DeleteGraph: not exactly one dropper succeeded", r, n)
		}
	}
	emit(map[string]interface{}{"kind": "burst", "rounds": rounds, "bad_create": badCreate, "bad_delete": badDelete,
		"bad_handle": badHandle, "first": first, "gomaxprocs": runtime.GOMAXPROCS(0)})
}

// ---------------------------------------------------------------- audit: lookup = scan, on the implementation alone
// expected encoding of a default-options lookup computed from Triples() of the same graph
func (sc *scenario) auditGraph(g storage.Graph) string {
	ctx := context.Background()
	var L []*tval
	must(drain(func(c chan<- *triple.Triple) error { return g.Triples(ctx, storage.DefaultLookup, c) },
		func(t *triple.Triple) {
			u, ok := sc.byStr[t.String()]
			if !ok {
				foreign(fmt.Sprintf("triple %s (in Triples())", t))
			}
			L = append(L, u)
		}))
	sort.Slice(L, func(i, j int) bool { return L[i].rank < L[j].rank })
	inL := map[string]bool{}
	for _, u := range L {
		inL[tkey(u)] = true
	}
	for _, t := range sc.univ {
		ok, err := g.Exist(ctx, t.t)
		must(err)
		if ok != inL[tkey(t)] {
			return fmt.Sprintf("Exist(%s) = %v but Triples() says %v", t.str, ok, inL[tkey(t)])
		}
	}
	pm := func(q, p *pval) bool {
		return q.id == p.id && (q.a == nil) == (p.a == nil) && (q.a == nil || (q.a.sec == p.a.sec && q.a.nsec == p.a.nsec))
	}
	for _, q := range sc.allQueries() {
		var want []uint64
		cnt := 0
		for _, u := range L {
			var okS, okP, okO = true, true, true
			switch q.K {
			case 0, 8:
				okS, okP = sc.nodeIx[q.A] == u.s, pm(sc.preds[q.B], u.p)
			case 1, 9:
				okP, okO = pm(sc.preds[q.A], u.p), okey(sc.objs[q.B]) == okey(u.o)
			case 2:
				okS, okO = sc.nodeIx[q.A] == u.s, okey(sc.objs[q.B]) == okey(u.o)
			case 3, 5:
				okS = sc.nodeIx[q.A] == u.s
			case 4, 7:
				okO = okey(sc.objs[q.A]) == okey(u.o)
			case 6:
				okP = pm(sc.preds[q.A], u.p)
			}
			if !(okS && okP && okO) {
				continue
			}
			cnt++
			switch q.K {
			case 0:
				want = append(append(want, 2), sc.encObject(u.t.Object())...)
			case 1:
				want = append(want, 0, sc.encNode(u.t.Subject()))
			case 2, 3, 4:
				want = append(append(want, 1), sc.encPredicate(u.t.Predicate())...)
			default:
				want = append(append(want, 3), sc.encTriple(u.t)...)
			}
		}
		want = append([]uint64{0, uint64(cnt)}, want...)
		got := sc.runQuery(g, q, &storage.LookupOptions{})
		if fmt.Sprint(got) != fmt.Sprint(want) {
			qj, _ := json.Marshal(q)
			return fmt.Sprintf("lookup %s returns %v, the scan of Triples() gives %v", qj, got, want)
		}
	}
	return ""
}

// a context that reports Canceled from its (n+1)-th Err() call on
type faultCtx struct {
	context.Context
	n *int32
}

func (c faultCtx) Err() error {
	if atomic.AddInt32(c.n, -1) < 0 {
		return context.Canceled
	}
	return nil
}

// mode faultctx: AddTriples / RemoveTriples under contexts that turn cancelled after 0..12 Err() calls; whatever the call
// returns, the graph must still satisfy lookup = scan (every reachable graph, C02)
func runFaultCtx(seed int64, rounds int) {
	r := rand.New(rand.NewSource(seed*31 + 7))
	sc := randomScenario(r, 24, false)
	w := newWorld(sc)
	w.apply(opx{kind: "new", n: 0})
	g := w.objs[0]
	calls, errs, bad := 0, 0, 0
	var first map[string]interface{}
	for i := 0; i < rounds; i++ {
		var ts []*triple.Triple
		var strs []string
		for j := 1 + r.Intn(4); j > 0; j-- {
			u := sc.univ[r.Intn(len(sc.univ))]
			ts = append(ts, u.t)
			strs = append(strs, u.str)
		}
		n := int32(r.Intn(13))
		budget := n
		ctx := faultCtx{context.Background(), &n}
		kind := "AddTriples"
		var err error
		if r.Intn(5) < 3 {
			err = g.AddTriples(ctx, ts)
		} else {
			kind = "RemoveTriples"
			err = g.RemoveTriples(ctx, ts)
		}
		calls++
		if err != nil {
			errs++
		}
		if why := sc.auditGraph(g); why != "" {
			bad++
			if first == nil {
				first = map[string]interface{}{"call": kind, "batch": strs, "context_cancelled_after_err_calls": budget,
					"returned_error": err != nil, "why": why, "round": i}
			}
			// start again from a fresh graph so that one inconsistency is not counted for ever
			w.apply(opx{kind: "drop", n: 0})
			w.apply(opx{kind: "new", n: 0})
			g = w.objs[len(w.objs)-1]
		}
	}
	emit(map[string]interface{}{"kind": "faultctx", "calls": calls, "errors": errs, "bad": bad, "first": first})
}

// mode parload: 24 goroutines load one graph each (same store) with 2000 triples at the same time; afterwards, single
// threaded, every graph must hold exactly its own triples (Exist for each, listing size) - graphs are independent
func runParLoad(rounds int) {
	ctx := context.Background()
	a := anchorPool[0]
	pImm, pT := mkPred(0, nil), mkPred(0, &a)
	const workers, per = 24, 2000
	bad := 0
	var first map[string]interface{}
	for rd := 0; rd < rounds; rd++ {
		st := memory.NewStore()
		gs := make([]storage.Graph, workers)
		batches := make([][]*triple.Triple, workers)
		for i := range gs {
			g, err := st.NewGraph(ctx, fmt.Sprintf("?g%d", i))
			must(err)
			gs[i] = g
			for j := 0; j < per; j++ {
				p := pImm
				if j%2 == 1 {
					p = pT
				}
				t, err := triple.New(nodes[(i+j)%baseNodes], p.p, triple.NewNodeObject(nodes[baseNodes+(i*37+j)%extraNodes]))
				must(err)
				batches[i] = append(batches[i], t)
			}
		}
		var wg sync.WaitGroup
		start := make(chan struct{})
		for i := range gs {
			wg.Add(1)
			go func(i int) {
				defer wg.Done()
				<-start
				for k := 0; k < per; k += 50 {
					must(gs[i].AddTriples(ctx, batches[i][k:k+50]))
				}
			}(i)
		}
		close(start)
		wg.Wait()
		for i, g := range gs {
			distinct := map[string]bool{}
			missing := 0
			for _, t := range batches[i] {
				distinct[t.String()] = true
				if ok, _ := g.Exist(ctx, t); !ok {
					missing++
				}
			}
			listed := 0
			must(drain(func(c chan<- *triple.Triple) error { return g.Triples(ctx, storage.DefaultLookup, c) },
				func(*triple.Triple) { listed++ }))
			if missing != 0 || listed != len(distinct) {
				bad++
				if first == nil {
					first = map[string]interface{}{"round": rd, "graph": i, "added_distinct": len(distinct), "listed": listed,
						"added_but_Exist_false": missing}
				}
			}
		}
	}
	emit(map[string]interface{}{"kind": "parload", "rounds": rounds, "graphs_per_round": workers, "triples_per_graph": per,
		"bad_graphs": bad, "first": first, "gomaxprocs": runtime.GOMAXPROCS(0)})
}

// ---------------------------------------------------------------- mode overflow (finding C09-page-overflow)
func runOverflow() {
	sc := exhaustiveScenario()
	w := newWorld(sc)
	w.apply(opx{kind: "new", n: 0})
	w.apply(opx{kind: "add", h: 0, is: []int{0}})
	q := query{10, 0, 0}
	un := sc.runQuery(w.objs[0], q, &storage.LookupOptions{})
	page := sc.runQuery(w.objs[0], q, &storage.LookupOptions{MaxElements: 1 << 32, Offset: 1 << 32})
	control := sc.runQuery(w.objs[0], q, &storage.LookupOptions{MaxElements: 3, Offset: 1 << 40})
	emit(map[string]interface{}{"kind": "overflow", "max": 1 << 32, "offset": 1 << 32, "unpaged_elements": un[1],
		"page_elements": page[1], "control_elements": control[1]})
}

// ---------------------------------------------------------------- mode detail
type detailIn struct {
	Qs  []query `json:"qs"`
	Los []lopts `json:"los"`
}

func runDetail(seed int64, idx, step, maxops, usize int, spec string, neOnly bool) {
	w, out, _ := genHistory(seed, idx, maxops, usize, false, false, step)
	sc := w.sc
	if neOnly {
		ne := nonEmpty(w.objs, out.Steps[len(out.Steps)-1].Obs)
		w.objs = ne
	}
	var in detailIn
	if spec == "" {
		in.Qs = sc.allQueries()
		in.Los = []lopts{{}}
	} else {
		must(json.Unmarshal([]byte(spec), &in))
	}
	for gi, g := range w.objs {
		for _, q := range in.Qs {
			for _, lo := range in.Los {
				enc := sc.runQuery(g, q, lo.build())
				emit(map[string]interface{}{"kind": "lookup", "graph": gi, "q": q, "lo": lo, "d": dlist(0, enc), "enc": enc})
			}
		}
	}
}

// ---------------------------------------------------------------- mode options: the whole option space on every sub-graph
func optionsScenario() (*scenario, []query) {
	sc := &scenario{nNames: 1, nameStrs: []string{"?a"}}
	sc.nodeIx = []int{0}
	aT, aT1, aH, aHz := anchorPool[0], anchorPool[2], anchorPool[4], anchorPool[6]
	pImm, pT, pT1, pH, pHz := mkPred(0, nil), mkPred(0, &aT), mkPred(0, &aT1), mkPred(0, &aH), mkPred(0, &aHz)
	sc.preds = []*pval{pImm, pT, pT1, pH, pHz}
	oN, oL, oP := mkObj(0, 1, nil), mkObj(1, 0, nil), mkObj(2, 0, pH)
	sc.objs = []*oval{oN, oL, oP}
	sc.addTriple(0, pImm, oN)
	sc.addTriple(0, pT, oN)
	sc.addTriple(0, pT1, oN)
	sc.addTriple(0, pH, oN)
	sc.addTriple(0, pHz, oL)
	sc.addTriple(0, pImm, oP)
	sc.finish()
	qs := []query{{10, 0, 0}, {5, 0, 0}, {6, 4, 0}, {6, 0, 0}, {0, 0, 3}, {3, 0, 0}, {7, 0, 0}, {1, 0, 2}}
	return sc, qs
}

func subsetsOf(l []int) [][]int {
	if len(l) == 0 {
		return [][]int{{}}
	}
	s := subsetsOf(l[1:])
	out := append([][]int{}, s...)
	for _, x := range s {
		out = append(out, append([]int{l[0]}, x...))
	}
	return out
}

func runOptions() {
	sc, qs := optionsScenario()
	bounds := []*[2]int64{nil, {baseSec, baseNsec + 1}, {baseSec + 3600, baseNsec}}
	pgs := []int{-1, 0, 1, 2}
	var los []lopts
	// (LatestAnchor, FilterOptions): no filter, the six valid filters, three invalid ones, LatestAnchor alone and with a filter
	type mode struct {
		latest bool
		filter []int
	}
	modes := []mode{{false, nil}}
	for op := 0; op < 3; op++ {
		for f := 1; f < 3; f++ {
			modes = append(modes, mode{false, []int{op, f}})
		}
	}
	modes = append(modes, mode{false, []int{0, 0}}, mode{false, []int{3, 1}}, mode{false, []int{2, 3}},
		mode{true, nil}, mode{true, []int{0, 1}})
	for _, l := range bounds {
		for _, u := range bounds {
			for _, md := range modes {
				for _, m := range pgs {
					for _, o := range pgs {
						los = append(los, lopts{Max: m, Lower: l, Upper: u, Latest: md.latest, Filter: md.filter, Offset: o})
					}
				}
			}
		}
	}
	all := make([]int, len(sc.univ))
	for i := range all {
		all[i] = i
	}
	var digests []uint64
	lkStats = [4]int{}
	lkDistinct = map[[3]uint64]bool{}
	subs := subsetsOf(all)
	for _, sub := range subs {
		w := newWorld(sc)
		w.apply(opx{kind: "new", n: 0})
		w.apply(opx{kind: "add", h: 0, is: sub})
		digests = append(digests, sc.digestState(w.objs, qs, los))
	}
	u, strs := sc.jUniverse()
	jb := []interface{}{}
	for _, b := range bounds {
		if b == nil {
			jb = append(jb, nil)
		} else {
			jb = append(jb, *b)
		}
	}
	emit(map[string]interface{}{"kind": "options", "universe": u, "strs": strs, "pools": sc.jPools(), "qs": qs, "bounds": jb,
		"pgs": pgs, "digests": digests, "options": len(los), "graphs": len(subs), "lookups": len(los) * len(qs) * len(subs),
		"lookup_stats": lkStats, "lookup_distinct_nonempty": len(lkDistinct)})
}

// ---------------------------------------------------------------- mode replay: an explicit case
type replayIn struct {
	Universe []jTriple        `json:"universe"`
	Pools    jPools           `json:"pools"`
	Names    int              `json:"names"`
	Ops      []jop            `json:"ops"`
	C09      map[string]*jc09 `json:"c09"` // step number -> queries and options to digest after that step
}

func predFromJSON(p []int64) *pval {
	if len(p) == 1 {
		return mkPred(int(p[0]), nil)
	}
	return mkPred(int(p[0]), &anchor{sec: p[1], nsec: p[2], off: int(p[3])})
}

func samePval(a *pval, j []int64) bool {
	if a.id != int(j[0]) || (a.a == nil) != (len(j) == 1) {
		return false
	}
	return a.a == nil || (a.a.sec == j[1] && a.a.nsec == j[2] && a.a.off == int(j[3]))
}

func toInt(x interface{}) int { return int(x.(float64)) }

func runReplay(file string, c02, c09 bool) {
	raw, err := os.ReadFile(file)
	must(err)
	var in replayIn
	must(json.Unmarshal(raw, &in))
	sc := &scenario{nNames: in.Names, nameStrs: []string{"?a", "?b", "?A"}[:in.Names]}
	sc.nodeIx = in.Pools.Nodes
	for _, p := range in.Pools.Preds {
		sc.preds = append(sc.preds, predFromJSON(p))
	}
	findPred := func(j []int64) *pval {
		for _, p := range sc.preds {
			if samePval(p, j) {
				return p
			}
		}
		return predFromJSON(j)
	}
	for _, o := range in.Pools.Objs {
		if o[0] == 2 {
			sc.objs = append(sc.objs, mkObj(2, 0, findPred(o[1:])))
		} else {
			sc.objs = append(sc.objs, mkObj(int(o[0]), int(o[1]), nil))
		}
	}
	findObj := func(j []int64) *oval {
		for _, o := range sc.objs {
			if fmt.Sprint(jObj(o)) == fmt.Sprint(j) {
				return o
			}
		}
		if j[0] == 2 {
			return mkObj(2, 0, findPred(j[1:]))
		}
		return mkObj(int(j[0]), int(j[1]), nil)
	}
	for _, t := range in.Universe {
		sc.addTriple(t.S, findPred(t.P), findObj(t.O))
	}
	want := make([]string, len(sc.univ))
	for i, t := range sc.univ {
		want[i] = t.str
	}
	sc.finish()
	for i, t := range sc.univ { // the universe must arrive in rank order, ranks are referenced by the operations
		if t.str != want[i] {
			must(fmt.Errorf("replay universe is not in String() order at %d", i))
		}
	}
	chanCap = len(sc.univ) + 16 // the lookups send while holding the lock: the channel must hold a whole result
	w := newWorld(sc)
	out := histOut{Kind: "hist", Idx: 0, Names: sc.nNames, Pools: sc.jPools(), PagesBad: []pageBad{}}
	out.Universe, out.Strs = sc.jUniverse()
	lkStats = [4]int{}
	lkDistinct = map[[3]uint64]bool{}
	allQ := sc.allQueries()
	for i, jo := range in.Ops {
		o := opx{kind: jo[0].(string)}
		switch o.kind {
		case "new", "get", "drop":
			o.n = toInt(jo[1])
		case "add", "rem":
			o.h = toInt(jo[1])
			for _, x := range jo[2].([]interface{}) {
				o.is = append(o.is, toInt(x))
			}
		}
		ob := w.observe(w.apply(o))
		if c02 && len(w.objs) > 0 {
			ob.C02 = sc.digestState(w.objs, allQ, []lopts{{}})
			out.Lookups += len(w.objs) * len(allQ)
		}
		if e := in.C09[fmt.Sprint(i)]; c09 && e != nil && len(w.objs) > 0 {
			ne := nonEmpty(w.objs, ob)
			ob.C09 = append(ob.C09, jc09{e.Qs, e.Los, sc.digestState(ne, e.Qs, e.Los)})
			out.Lookups += len(ne) * len(e.Qs) * len(e.Los)
		}
		out.Steps = append(out.Steps, jstep{o.json(), ob})
	}
	out.LkStats = lkStats
	out.LkDist = len(lkDistinct)
	emit(out)
}

var enc = json.NewEncoder(os.Stdout)

func emit(v interface{}) { must(enc.Encode(v)) }

func main() {
	mode := flag.String("mode", "hist", "hist | exhaustive | detail | shared")
	n := flag.Int("n", 10, "number of histories")
	seed := flag.Int64("seed", 1, "PRNG seed")
	maxops := flag.Int("maxops", 40, "maximal history length")
	usize := flag.Int("usize", 24, "universe size")
	c02 := flag.Bool("c02", false, "digest all default-option lookups after every step")
	c09 := flag.Bool("c09", false, "digest query x option products after every step, check page concatenation")
	length := flag.Int("len", 3, "history length for -mode exhaustive")
	hist := flag.Int("hist", 0, "history index for -mode detail")
	step := flag.Int("step", 0, "step index for -mode detail")
	spec := flag.String("spec", "", "JSON {qs, los} for -mode detail (default: all queries, default options)")
	first := flag.Int("first", 0, "index of the first history")
	group := flag.Int("group", -1, "-mode exhaustive: only the histories starting with this operation, one digest per history")
	file := flag.String("file", "", "case file for -mode replay")
	flag.IntVar(&bigMax, "bigmax", 5000, "largest batch size used in the big-batch histories")
	flag.IntVar(&longChurn, "longchurn", 0, "operations in the long-lived wide histories (every 128th history)")
	neOnly := flag.Bool("ne", false, "-mode detail: only graph objects that hold triples (as the C09 digests)")
	flag.Parse()
	initVocabulary()
	go watchdog()
	switch *mode {
	case "hist":
		for i := *first; i < *first+*n; i++ {
			_, out, _ := genHistory(*seed, i, *maxops, *usize, *c02, *c09, -1)
			emit(out)
		}
	case "exhaustive":
		runExhaustive(*length, *c02, *group)
	case "detail":
		runDetail(*seed, *hist, *step, *maxops, *usize, *spec, *neOnly)
	case "shared":
		runShared(8, *n)
	case "replay":
		runReplay(*file, *c02, *c09)
	case "options":
		runOptions()
	case "overflow":
		runOverflow()
	case "burst":
		runBurst(*n)
	case "faultctx":
		runFaultCtx(*seed, *n)
	case "parload":
		runParLoad(*n)
	default:
		must(fmt.Errorf("unknown mode %q", *mode))
	}
}
