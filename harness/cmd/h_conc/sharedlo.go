package main

import (
	"math/rand"
	"sync"

	"github.com/google/badwolf/storage"
	"github.com/google/badwolf/storage/memory"
)

type sharedCall struct {
	kind, s, p, o int
	want          []string
}

// modeSharedLO is the F7 experiment: many goroutines share ONE
// &storage.LookupOptions{LatestAnchor: true}.
func modeSharedLO(seed int64, n, threads int) {
	if n <= 0 {
		n = 2000
	}
	if threads <= 0 {
		threads = 4
	}
	rng := rand.New(rand.NewSource(seed))
	st := memory.NewStore()
	g, err := st.NewGraph(ctx, "g0")
	if err != nil {
		die("sharedlo: %v", err)
	}
	var content []int
	var set uint64
	for i := range trips {
		if i%4 != 3 {
			content = append(content, i)
			set |= 1 << uint(i)
		}
	}
	if err := g.AddTriples(ctx, tripleSlice(content)); err != nil {
		die("sharedlo: %v", err)
	}

	// Call table: Triples plus two variants of each indexed lookup, with the
	// single-goroutine result (private options) as the expected value.
	latest := defaultLO()
	latest.Latest = true
	var calls []sharedCall
	baselineOK := true
	addCall := func(kind, s, p, o int) {
		ki := kinds[kind]
		if !ki.hasS {
			s = -1
		}
		if !ki.hasP {
			p = -1
		}
		if !ki.hasO {
			o = -1
		}
		r := callLookup(g, kind, s, p, o, buildLO(latest), chBuffered)
		if r.err != nil || r.panicked || !r.closed {
			die("sharedlo: baseline call failed for %s", ki.name)
		}
		_, ref := refLookup(set, kind, s, p, o, latest)
		if !sameStrings(ref, r.res) {
			baselineOK = false
		}
		calls = append(calls, sharedCall{kind, s, p, o, r.res})
	}
	addCall(0, -1, -1, -1)
	for k := 1; k < len(kinds); k++ {
		for v := 0; v < 2; v++ {
			t := &trips[content[rng.Intn(len(content))]]
			addCall(k, t.s, t.p, t.o)
		}
	}
	nonemptyBaselines := 0
	for _, c := range calls {
		if len(c.want) > 0 {
			nonemptyBaselines++
		}
	}

	lo := &storage.LookupOptions{LatestAnchor: true}
	type counts struct {
		calls, failed, other, wrong, panics, notClosed int
	}
	per := make([]counts, threads)
	var ready, fin sync.WaitGroup
	start := make(chan struct{})
	ready.Add(threads)
	fin.Add(threads)
	for t := 0; t < threads; t++ {
		go func(t int) {
			defer fin.Done()
			c := &per[t]
			ready.Done()
			<-start
			for i := 0; i < n; i++ {
				kick()
				var sc *sharedCall
				if i%2 == 0 {
					sc = &calls[0]
				} else {
					sc = &calls[1+((i/2)+t)%(len(calls)-1)]
				}
				mode := chBuffered
				if (i/2)%2 == 1 {
					mode = chUnbuffered
				}
				r := callLookup(g, sc.kind, sc.s, sc.p, sc.o, lo, mode)
				c.calls++
				switch {
				case r.panicked:
					c.panics++
				case errEnum(r.err) == "latest_and_filter":
					c.failed++
				case r.err != nil:
					c.other++
				case !sameStrings(r.res, sc.want):
					c.wrong++
				}
				if r.notClosed || r.extra {
					c.notClosed++
				}
			}
		}(t)
	}
	ready.Wait()
	close(start)
	fin.Wait()
	var tot counts
	for _, c := range per {
		tot.calls += c.calls
		tot.failed += c.failed
		tot.other += c.other
		tot.wrong += c.wrong
		tot.panics += c.panics
		tot.notClosed += c.notClosed
	}
	after := "nil"
	if lo.FilterOptions != nil {
		after = "nonnil"
	}
	emit(map[string]interface{}{
		"mode": "sharedlo", "seed": seed, "pred_kind_strict": predKindStrict, "threads": threads, "calls": tot.calls,
		"failed_latest_and_filter": tot.failed, "other_errors": tot.other,
		"wrong_results": tot.wrong, "panics": tot.panics, "not_closed": tot.notClosed,
		"options_after": after, "graph_triples": len(content),
		"call_table": len(calls), "nonempty_baselines": nonemptyBaselines,
		"baseline_matches_reference": baselineOK,
	})
}
