package main

import "math/rand"

// planOp is a generated operation before it is bound to an object id.
type planOp struct {
	Op      string // store op, AddTriples, RemoveTriples, Exist, or a lookup kind name
	Name    int    // graph name index (store ops; graph ops in the graph flavour; fallback)
	Ts      []int
	Kind    int
	S, P, O int
	LO      loDesc
	Spin    int
}

// weight of this op in porcupine operations.
func (p *planOp) weight() int {
	if p.Op == opRemoveTriples {
		return len(p.Ts)
	}
	return 1
}

type gen struct {
	rng    *rand.Rand
	hot    []int // triples favoured in this round
	names  int   // number of graph names in use
	errPct int   // percentage of lookups with deliberately invalid options
}

func (g *gen) pickHot(n int) {
	perm := g.rng.Perm(len(trips))
	g.hot = append([]int{}, perm[:n]...)
}

func (g *gen) triple() int {
	if len(g.hot) > 0 && g.rng.Intn(100) < 85 {
		return g.hot[g.rng.Intn(len(g.hot))]
	}
	return g.rng.Intn(len(trips))
}

func (g *gen) distinctTriples(n int) []int {
	seen := map[int]bool{}
	var out []int
	for tries := 0; len(out) < n && tries < 50; tries++ {
		t := g.triple()
		if !seen[t] {
			seen[t] = true
			out = append(out, t)
		}
	}
	return out
}

func (g *gen) window() (int, int) {
	lower, upper := -1, -1
	switch g.rng.Intn(3) {
	case 0:
		lower = g.rng.Intn(len(timeRankStr))
	case 1:
		upper = g.rng.Intn(len(timeRankStr))
	default:
		a, b := g.rng.Intn(len(timeRankStr)), g.rng.Intn(len(timeRankStr))
		if a > b {
			a, b = b, a
		}
		lower, upper = a, b
	}
	return lower, upper
}

func (g *gen) filterField() int {
	if g.rng.Intn(5) == 0 {
		return ffObject
	}
	return ffPredicate
}

func (g *gen) lookupOptions() loDesc {
	lo := defaultLO()
	r := g.rng.Intn(100)
	if r < g.errPct {
		switch g.rng.Intn(3) {
		case 0:
			lo.Latest = true
			lo.Fop, lo.Ffield = fopLatest+g.rng.Intn(3), ffPredicate
		case 1:
			lo.Fop = fopLatest + g.rng.Intn(3)
			if g.rng.Intn(2) == 0 {
				lo.Ffield = ffGarbage
			} else {
				lo.Ffield = ffSubject
			}
		default:
			lo.Fop, lo.Ffield = fopBad, ffPredicate
		}
		return lo
	}
	r = g.rng.Intn(100)
	switch {
	case r < 30:
	case r < 45:
		lo.Max = 1 + g.rng.Intn(2)
		lo.Off = g.rng.Intn(2)
	case r < 60:
		lo.Lower, lo.Upper = g.window()
	case r < 75:
		lo.Latest = true
	case r < 92:
		lo.Fop, lo.Ffield = fopLatest+g.rng.Intn(3), g.filterField()
	default:
		// combinations
		if g.rng.Intn(2) == 0 {
			lo.Latest = true
		} else {
			lo.Fop, lo.Ffield = fopLatest+g.rng.Intn(3), g.filterField()
		}
		if g.rng.Intn(2) == 0 {
			lo.Max = 1 + g.rng.Intn(2)
			lo.Off = g.rng.Intn(2)
		}
		if g.rng.Intn(2) == 0 {
			lo.Lower, lo.Upper = g.window()
		}
	}
	return lo
}

func (g *gen) query() (kind, s, p, o int) {
	if g.rng.Intn(5) == 0 {
		kind = 0
	} else {
		kind = 1 + g.rng.Intn(10)
	}
	t := &trips[g.triple()]
	s, p, o = t.s, t.p, t.o
	if g.rng.Intn(6) == 0 {
		s = g.rng.Intn(len(subjs))
	}
	switch r := g.rng.Intn(10); {
	case r < 3:
		// another predicate with the same id (other anchor or other kind)
		base := (p / 4) * 4
		p = base + g.rng.Intn(4)
	case r < 4:
		p = g.rng.Intn(len(preds))
	}
	if g.rng.Intn(6) == 0 {
		o = g.rng.Intn(len(objs))
	}
	ki := kinds[kind]
	if !ki.hasS {
		s = -1
	}
	if !ki.hasP {
		p = -1
	}
	if !ki.hasO {
		o = -1
	}
	return
}

func (g *gen) spin() int { return g.rng.Intn(120) }

func (g *gen) graphOp() planOp {
	po := planOp{Kind: -1, S: -1, P: -1, O: -1, LO: defaultLO(), Name: g.rng.Intn(g.names), Spin: g.spin()}
	r := g.rng.Intn(100)
	switch {
	case r < 25:
		po.Op = opAddTriples
		po.Ts = g.distinctTriples(1 + g.rng.Intn(3))
	case r < 37:
		po.Op = opRemoveTriples
		po.Ts = g.distinctTriples(1 + g.rng.Intn(2))
	case r < 47:
		po.Op = opExist
		po.Ts = []int{g.triple()}
	default:
		po.Kind, po.S, po.P, po.O = g.query()
		po.Op = kinds[po.Kind].name
		po.LO = g.lookupOptions()
	}
	return po
}

func (g *gen) storeOp() planOp {
	po := planOp{Kind: -1, S: -1, P: -1, O: -1, LO: defaultLO(), Name: g.rng.Intn(g.names), Spin: g.spin()}
	r := g.rng.Intn(100)
	switch {
	case r < 30:
		po.Op = opNewGraph
	case r < 60:
		po.Op = opGraph
	case r < 85:
		po.Op = opDeleteGraph
	default:
		po.Op = opGraphNames
	}
	return po
}
