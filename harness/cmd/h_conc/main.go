// Command h_conc produces the supporting runs for property C07: concurrent use
// of badwolf's in-memory store is linearizable, race-free and deadlock-free,
// lookups see AddTriples batches atomically, close their channel exactly once
// and leave the caller's LookupOptions alone.
//
// Output: one JSON object per line on stdout; diagnostics on stderr.
package main

import (
	"bufio"
	"encoding/json"
	"flag"
	"fmt"
	"os"
	"sync"
)

var (
	outMu sync.Mutex
	outW  = bufio.NewWriter(os.Stdout)
)

func emit(v interface{}) {
	outMu.Lock()
	defer outMu.Unlock()
	enc := json.NewEncoder(outW)
	enc.SetEscapeHTML(false)
	if err := enc.Encode(v); err != nil {
		fmt.Fprintf(os.Stderr, "h_conc: cannot encode output: %v\n", err)
	}
	outW.Flush()
}

func main() {
	mode := flag.String("mode", "", "lin | linfile | selftest | stress | sharedlo | replay")
	seed := flag.Int64("seed", 1, "seed of the single PRNG")
	n := flag.Int("n", 0, "size knob: rounds (lin), ops per goroutine (stress), calls per goroutine (sharedlo), ops (selftest); 0 = mode default")
	threads := flag.Int("threads", 4, "goroutines (stress, sharedlo)")
	timeout := flag.Int("timeout", 600, "hard watchdog in seconds without progress (a confirmed deadlock = every goroutine blocked, nothing runnable, is reported after ~15 s whatever this value)")
	procs := flag.Int("procs", 0, "stmt/sized: GOMAXPROCS for the run (0 = leave)")
	file := flag.String("file", "", "history file for -mode linfile")
	exhaustive := flag.Bool("exhaustive", false, "lin/linfile: also brute-force histories with at most -brutemax operations")
	bruteMax := flag.Int("brutemax", 8, "largest history checked by brute force")
	sharedLatest := flag.Bool("sharedlatest", false, "stress: also share one LookupOptions{LatestAnchor:true}")
	variant := flag.String("variant", "", "replay: \"\" or \"writer\"")
	mutant := flag.String("mutant", "", "lin: \"splitadd\" records a batch as atomic but adds it triple by triple (sensitivity check of the harness itself)")
	predKind := flag.String("predkind", "auto", "reference semantics for lookups with a predicate: auto (probe the store) | strict | loose")
	flag.Parse()
	if flag.NArg() > 0 {
		die("unexpected arguments %v", flag.Args())
	}

	switch *mutant {
	case "":
	case "splitadd":
		mutantSplitAdd = true
	default:
		die("unknown -mutant %q", *mutant)
	}
	buildVocab()
	switch *predKind {
	case "auto":
		predKindStrict = probePredKind()
	case "strict":
		predKindStrict = true
	case "loose":
		predKindStrict = false
	default:
		die("unknown -predkind %q", *predKind)
	}
	fmt.Fprintf(os.Stderr, "h_conc: reference predicate-kind semantics: strict=%v (%s)\n", predKindStrict, *predKind)
	startWatchdog(*mode, *timeout)

	switch *mode {
	case "lin":
		modeLin(*seed, *n, *exhaustive, *bruteMax)
	case "linfile":
		if *file == "" {
			die("-mode linfile needs -file")
		}
		modeLinFile(*file, *exhaustive, *bruteMax)
	case "selftest":
		modeSelftest(*seed, *n)
	case "stress":
		modeStress(*seed, *n, *threads, *sharedLatest)
	case "sharedlo":
		modeSharedLO(*seed, *n, *threads)
	case "batch":
		modeBatch(*seed, *n, *threads)
	case "stmt":
		modeStmt(*seed, *n, *threads, *procs)
	case "sized":
		modeSized(*seed, *n, *threads, *procs)
	case "construct":
		modeConstruct(*seed, *n)
	case "pairidx":
		modePairIdx(*seed, *n)
	case "replay":
		switch *variant {
		case "":
			modeReplay()
		case "writer":
			modeReplayWriter()
		default:
			die("unknown -variant %q", *variant)
		}
	default:
		die("unknown -mode %q", *mode)
	}
}
