package main

import (
	"context"
	"fmt"
	"sync"
	"sync/atomic"

	"github.com/google/badwolf/bql/grammar"
	"github.com/google/badwolf/bql/planner"
	"github.com/google/badwolf/bql/semantic"
	"github.com/google/badwolf/storage"
	"github.com/google/badwolf/storage/memory"
	"github.com/google/badwolf/triple"
	"github.com/google/badwolf/triple/node"
	"github.com/google/badwolf/triple/predicate"
)

// modeConstruct: CONSTRUCT / DECONSTRUCT ... INTO ?dst statements with many result rows and a small bulk size
// while another goroutine drops (and re-creates) the output graph. Every statement must RETURN (a table or an
// error); a statement that never returns is found by the watchdog's dump criterion. Even rounds are gated: a thin
// wrapper around the memory store (public API only) releases the DROP GRAPH statement exactly when the CONSTRUCT's
// lookup on ?src starts, i.e. after Statement.Init resolved the graphs and before the first bulk is written; odd
// rounds race freely against a DROP / CREATE loop.

type gateStore struct {
	storage.Store
	hook func()
}

func (s *gateStore) Graph(ctx context.Context, id string) (storage.Graph, error) {
	g, err := s.Store.Graph(ctx, id)
	if err != nil || id != "?src" {
		return g, err
	}
	return &gateGraph{Graph: g, hook: s.hook}, nil
}

type gateGraph struct {
	storage.Graph
	hook func()
}

func (g *gateGraph) TriplesForPredicate(ctx context.Context, p *predicate.Predicate, lo *storage.LookupOptions, ts chan<- *triple.Triple) error {
	g.hook()
	return g.Graph.TriplesForPredicate(ctx, p, lo, ts)
}

func (g *gateGraph) Triples(ctx context.Context, lo *storage.LookupOptions, ts chan<- *triple.Triple) error {
	g.hook()
	return g.Graph.Triples(ctx, lo, ts)
}

func runBQL(st storage.Store, text string, bulk int) (stage string) {
	defer func() {
		if r := recover(); r != nil {
			stage = "panic"
		}
	}()
	p, err := grammar.NewParser(grammar.SemanticBQL())
	if err != nil {
		return "parse"
	}
	stm := &semantic.Statement{}
	if err := p.Parse(grammar.NewLLk(text, 1), stm); err != nil {
		return "parse"
	}
	pl, err := planner.New(ctx, st, stm, 0, bulk, nil)
	if err != nil {
		return "plan"
	}
	if _, err := pl.Execute(ctx); err != nil {
		return "exec"
	}
	return ""
}

func modeConstruct(seed int64, n int) {
	if n <= 0 {
		n = 20
	}
	const rows = 60
	p, err := predicate.Parse(`"p"@[]`)
	if err != nil {
		die("predicate: %v", err)
	}
	var src []*triple.Triple
	for i := 0; i < rows; i++ {
		s, e1 := node.Parse(fmt.Sprintf("/u<c%d>", i))
		o, e2 := node.Parse(fmt.Sprintf("/v<c%d>", i))
		if e1 != nil || e2 != nil {
			die("node: %v %v", e1, e2)
		}
		t, err := triple.New(s, p, triple.NewNodeObject(o))
		if err != nil {
			die("triple: %v", err)
		}
		src = append(src, t)
	}
	stmts := []string{
		`CONSTRUCT { ?s "q"@[] ?o } INTO ?dst FROM ?src WHERE { ?s "p"@[] ?o };`,
		`DECONSTRUCT { ?s "p"@[] ?o } IN ?dst FROM ?src WHERE { ?s "p"@[] ?o };`,
	}
	outcomes := map[string]int{}
	gatedErr, gatedOK, dropStmts := 0, 0, 0
	for round := 0; round < n; round++ {
		kick()
		mem := memory.NewStore()
		if s := runBQL(mem, "CREATE GRAPH ?src, ?dst;", 10); s != "" {
			die("CREATE GRAPH failed at %s", s)
		}
		g, err := mem.Graph(ctx, "?src")
		if err != nil {
			die("Graph: %v", err)
		}
		if err := g.AddTriples(ctx, src); err != nil {
			die("AddTriples: %v", err)
		}
		text := stmts[(round/2)%len(stmts)]
		gated := round%2 == 0
		var aDone int32
		var wg sync.WaitGroup
		if gated {
			release, dropped := make(chan struct{}), make(chan struct{})
			var once sync.Once
			st := &gateStore{Store: mem, hook: func() {
				once.Do(func() { close(release); <-dropped })
			}}
			wg.Add(1)
			go func() {
				defer wg.Done()
				<-release
				runBQL(mem, "DROP GRAPH ?dst;", 10)
				dropStmts++
				close(dropped)
			}()
			stage := runBQL(st, text, 2)
			once.Do(func() { close(release) }) // the statement never looked ?src up: let the dropper go
			outcomes["gated:"+stage]++
			if stage == "" {
				gatedOK++
			} else {
				gatedErr++
			}
		} else {
			start := make(chan struct{})
			wg.Add(1)
			go func() {
				defer wg.Done()
				<-start
				for i := 0; atomic.LoadInt32(&aDone) == 0 && i < 100000; i++ {
					kick()
					runBQL(mem, "DROP GRAPH ?dst;", 10)
					runBQL(mem, "CREATE GRAPH ?dst;", 10)
				}
			}()
			close(start)
			stage := runBQL(mem, text, 2)
			outcomes["racing:"+stage]++
		}
		atomic.StoreInt32(&aDone, 1)
		wg.Wait()
	}
	emit(map[string]interface{}{"mode": "construct", "result": "done", "seed": seed, "rounds": n, "rows": rows, "bulk_size": 2,
		"outcomes": outcomes, "gated_returned_error": gatedErr, "gated_returned_ok": gatedOK})
}
