package main

import (
	"math/rand"
	"sync/atomic"

	"github.com/google/badwolf/storage/memory"
)

// modeSelftest runs random operations from ONE goroutine and compares the
// store with the reference model operation by operation.
func modeSelftest(seed int64, n int) {
	if n <= 0 {
		n = 2000
	}
	rng := rand.New(rand.NewSource(seed))
	const episode = 100
	ops, mismatches, lookups, nonempty := 0, 0, 0, 0
	byOp := map[string]int{}
	errs := map[string]int{}
	var first map[string]interface{}
	for ops < n {
		kick()
		var clock atomic.Int64
		env := &runEnv{st: memory.NewStore(), reg: newRegistry(), clock: &clock, storeFlavour: true}
		g := &gen{rng: rng, names: 3, errPct: 10}
		g.pickHot(6 + rng.Intn(10))
		w := &worker{g: 0}
		st := initState()
		for i := 0; i < episode && ops < n; i++ {
			var po planOp
			if rng.Intn(100) < 25 {
				po = g.storeOp()
			} else {
				po = g.graphOp()
			}
			es := env.exec(w, &po)
			bad := false
			for k := range es {
				e := &es[k]
				ok, ns, want := stepFull(st, &e.In, &e.Out)
				if !ok {
					bad = true
					if first == nil {
						first = map[string]interface{}{
							"op_index": ops,
							"entry":    entryToJSON(e),
							"want":     outToJSON(&e.In, &want),
						}
					}
				}
				st = ns
			}
			ops++
			byOp[es[0].In.Op]++
			if es[0].Out.Err != "" {
				errs[es[0].Out.Err]++
			}
			if es[0].In.Kind >= 0 {
				lookups++
				if len(es[0].Out.Res) > 0 {
					nonempty++
				}
			}
			if bad {
				mismatches++
				break // state may have diverged: start a new episode
			}
			if len(env.reg.ids) >= maxObj-1 {
				break
			}
		}
	}
	line := map[string]interface{}{
		"mode": "selftest", "seed": seed, "pred_kind_strict": predKindStrict, "ops": ops, "mismatches": mismatches,
		"lookups": lookups, "nonempty_lookups": nonempty, "by_op": byOp, "errors": errs,
	}
	if first != nil {
		line["first"] = first
	}
	emit(line)
}
