package main

import (
	"fmt"
	"math/rand"
	"runtime"
	"sort"
	"strings"
	"sync"

	"github.com/google/badwolf/bql/grammar"
	"github.com/google/badwolf/bql/planner"
	"github.com/google/badwolf/bql/semantic"
	"github.com/google/badwolf/storage"
	"github.com/google/badwolf/storage/memory"
	"github.com/google/badwolf/triple"
)

// modeStmt: statement-level concurrency. Several goroutines parse (each statement
// with its own grammar.NewParser(grammar.SemanticBQL()), as the tools do), plan
// and execute INSERT / DELETE / SELECT (single clause and two-clause joins)
// statements on ONE store and ONE graph, each goroutine in its own name space of
// nodes. Because the name spaces are disjoint, every statement's outcome and the
// final contents must be exactly those of the sequential execution of the same
// statement lists (the same code run by one goroutine on a fresh store), and the
// final contents must equal the set model (inserted minus deleted triples).
// -procs 1 runs the whole thing under GOMAXPROCS=1 (deadlock freedom of the
// planner's own fan-out).

type stmtOp struct {
	text string
	kind string // insert | delete | select | join
	ins  []string
	del  []string
}

type stmtOut struct {
	stage string // "" | parse | plan | exec | panic
	rows  []string
}

func (o stmtOut) key() string { return o.stage + "|" + strings.Join(o.rows, "\x1f") }

func genStmtPlan(rng *rand.Rand, k, n int) []stmtOp {
	node := func(i int) string { return fmt.Sprintf("/w<%d_%d>", k, i) }
	have := map[string]bool{}
	var ops []stmtOp
	for len(ops) < n {
		r := rng.Intn(100)
		switch {
		case r < 45 || len(have) == 0:
			cnt := 2 + rng.Intn(3)
			var ts []string
			for j := 0; j < cnt; j++ {
				p := `"p"@[]`
				if rng.Intn(2) == 0 {
					p = `"q"@[]`
				}
				t := fmt.Sprintf("%s\t%s\t%s", node(rng.Intn(6)), p, node(rng.Intn(6)))
				ts = append(ts, t)
				have[t] = true
			}
			body := make([]string, len(ts))
			for j, t := range ts {
				body[j] = strings.ReplaceAll(t, "\t", " ")
			}
			ops = append(ops, stmtOp{kind: "insert", ins: ts,
				text: "INSERT DATA INTO ?g { " + strings.Join(body, " . ") + " };"})
		case r < 60:
			var all []string
			for t := range have {
				all = append(all, t)
			}
			sort.Strings(all)
			t := all[rng.Intn(len(all))]
			delete(have, t)
			ops = append(ops, stmtOp{kind: "delete", del: []string{t},
				text: "DELETE DATA FROM ?g { " + strings.ReplaceAll(t, "\t", " ") + " };"})
		case r < 80:
			ops = append(ops, stmtOp{kind: "select",
				text: fmt.Sprintf(`SELECT ?o FROM ?g WHERE { %s "p"@[] ?o };`, node(rng.Intn(6)))})
		default:
			ops = append(ops, stmtOp{kind: "join",
				text: fmt.Sprintf(`SELECT ?x, ?o FROM ?g WHERE { %s "p"@[] ?x . ?x "q"@[] ?o };`, node(rng.Intn(6)))})
		}
	}
	return ops
}

func runStatement(st storage.Store, text string) (out stmtOut) {
	defer func() {
		if r := recover(); r != nil {
			out = stmtOut{stage: "panic"}
		}
	}()
	p, err := grammar.NewParser(grammar.SemanticBQL())
	if err != nil {
		return stmtOut{stage: "parse"}
	}
	stm := &semantic.Statement{}
	if err := p.Parse(grammar.NewLLk(text, 1), stm); err != nil {
		return stmtOut{stage: "parse"}
	}
	pl, err := planner.New(ctx, st, stm, 0, 10, nil)
	if err != nil {
		return stmtOut{stage: "plan"}
	}
	tbl, err := pl.Execute(ctx)
	if err != nil {
		return stmtOut{stage: "exec"}
	}
	bs := tbl.Bindings()
	sort.Strings(bs)
	var rows []string
	for _, r := range tbl.Rows() {
		var cells []string
		for _, b := range bs {
			if c, ok := r[b]; ok && c != nil {
				cells = append(cells, b+"="+c.String())
			} else {
				cells = append(cells, b+"=<absent>")
			}
		}
		rows = append(rows, strings.Join(cells, " "))
	}
	sort.Strings(rows)
	return stmtOut{rows: rows}
}

func graphContents(st storage.Store) ([]string, error) {
	g, err := st.Graph(ctx, "?g")
	if err != nil {
		return nil, err
	}
	ch := make(chan *triple.Triple, 64)
	var res []string
	done := make(chan struct{})
	go func() {
		for t := range ch {
			res = append(res, t.String())
		}
		close(done)
	}()
	err = g.Triples(ctx, storage.DefaultLookup, ch)
	<-done
	sort.Strings(res)
	return res, err
}

func modeStmt(seed int64, n, threads, procs int) {
	if n <= 0 {
		n = 40
	}
	if threads < 2 {
		threads = 2
	}
	if procs > 0 {
		runtime.GOMAXPROCS(procs)
	}
	rng := rand.New(rand.NewSource(seed))
	plans := make([][]stmtOp, threads)
	for k := range plans {
		plans[k] = genStmtPlan(rand.New(rand.NewSource(rng.Int63())), k, n)
	}
	// sequential reference: the same code, one goroutine, fresh store
	seqStore := memory.NewStore()
	if o := runStatement(seqStore, "CREATE GRAPH ?g;"); o.stage != "" {
		die("reference: CREATE GRAPH failed at %s", o.stage)
	}
	want := make([][]stmtOut, threads)
	seqErrs := 0
	for k := range plans {
		for _, op := range plans[k] {
			kick()
			o := runStatement(seqStore, op.text)
			if o.stage != "" {
				seqErrs++
			}
			want[k] = append(want[k], o)
		}
	}
	seqFinal, _ := graphContents(seqStore)
	// set model of the final contents
	model := map[string]bool{}
	for k := range plans {
		for _, op := range plans[k] {
			for _, t := range op.ins {
				model[t] = true
			}
			for _, t := range op.del {
				delete(model, t)
			}
		}
	}
	var modelFinal []string
	for t := range model {
		modelFinal = append(modelFinal, t)
	}
	sort.Strings(modelFinal)

	// concurrent run
	st := memory.NewStore()
	if o := runStatement(st, "CREATE GRAPH ?g;"); o.stage != "" {
		die("CREATE GRAPH failed at %s", o.stage)
	}
	got := make([][]stmtOut, threads)
	var wg sync.WaitGroup
	start := make(chan struct{})
	for k := range plans {
		wg.Add(1)
		go func(k int) {
			defer wg.Done()
			<-start
			for _, op := range plans[k] {
				kick()
				got[k] = append(got[k], runStatement(st, op.text))
				if procs == 1 {
					runtime.Gosched()
				}
			}
		}(k)
	}
	close(start)
	wg.Wait()
	final, ferr := graphContents(st)

	stages := map[string]int{}
	kinds := map[string]int{}
	mism, joinRows, selRows := 0, 0, 0
	var first map[string]interface{}
	for k := range plans {
		for i, op := range plans[k] {
			kinds[op.kind]++
			g, w := got[k][i], want[k][i]
			if g.stage != "" {
				stages[g.stage]++
			}
			if op.kind == "join" {
				joinRows += len(w.rows)
			}
			if op.kind == "select" {
				selRows += len(w.rows)
			}
			if g.key() != w.key() {
				mism++
				if first == nil {
					first = map[string]interface{}{"goroutine": k, "index": i, "statement": op.text,
						"sequential": map[string]interface{}{"stage": w.stage, "rows": w.rows},
						"concurrent": map[string]interface{}{"stage": g.stage, "rows": g.rows}}
				}
			}
		}
	}
	canon := func(ts []string) map[string]bool {
		m := map[string]bool{}
		for _, t := range ts {
			m[t] = true
		}
		return m
	}
	fm, sm := canon(final), canon(seqFinal)
	var missing, foreign []string
	for t := range sm {
		if !fm[t] {
			missing = append(missing, t)
		}
	}
	for t := range fm {
		if !sm[t] {
			foreign = append(foreign, t)
		}
	}
	sort.Strings(missing)
	sort.Strings(foreign)
	head := func(l []string) []string {
		if len(l) > 3 {
			return l[:3]
		}
		return l
	}
	out := map[string]interface{}{
		"mode": "stmt", "result": "done", "seed": seed, "threads": threads, "gomaxprocs": runtime.GOMAXPROCS(0),
		"statements": threads * n, "by_kind": kinds, "failed_stages": stages, "sequential_failures": seqErrs,
		"result_mismatches": mism, "final_size": len(final), "final_missing": len(missing), "final_foreign": len(foreign),
		"missing_sample": head(missing), "foreign_sample": head(foreign), "final_error": errEnum(ferr),
		"model_size": len(modelFinal), "sequential_matches_model": strings.Join(seqFinal, "\n") == strings.Join(modelFinal, "\n"),
		"select_rows": selRows, "join_rows": joinRows,
	}
	if first != nil {
		out["first"] = first
	}
	emit(out)
}
