package main

import (
	"crypto/sha1"
	"encoding/hex"
	"encoding/json"
	"math/rand"
	"os"
	"runtime"
	"sort"
	"sync"
	"sync/atomic"
	"time"

	"github.com/anishathalye/porcupine"
	"github.com/google/badwolf/storage"
	"github.com/google/badwolf/storage/memory"
)

const maxHistoryOps = 28

// mutantSplitAdd (-mutant splitadd) makes the harness issue one AddTriples call
// per triple while still recording ONE atomic AddTriples operation.
var mutantSplitAdd bool

type runEnv struct {
	st           storage.Store
	reg          *registry
	clock        *atomic.Int64
	storeFlavour bool
	pre          [3]storage.Graph
	preID        [3]int
}

type worker struct {
	g     int
	cur   storage.Graph
	curID int
	inv   int
}

func isStoreOp(op string) bool {
	return op == opNewGraph || op == opGraph || op == opDeleteGraph || op == opGraphNames
}

// exec runs one planned operation on the real store and returns its history
// entries (RemoveTriples of k triples yields k entries with shared stamps).
func (e *runEnv) exec(w *worker, po *planOp) []entry {
	w.inv++
	inv := (w.g+1)*1000 + w.inv
	op := po.Op
	if !isStoreOp(op) {
		if e.storeFlavour {
			if w.cur == nil {
				// no handle yet: fetch or create one instead
				op = opGraph
				if po.Spin&1 == 1 {
					op = opNewGraph
				}
			}
		} else {
			w.cur, w.curID = e.pre[po.Name], e.preID[po.Name]
		}
	}
	in := opIn{Op: op, Kind: -1, Name: po.Name, H: -1, S: -1, P: -1, O: -1, LO: defaultLO()}
	var out opOut
	var call, ret int64
	switch op {
	case opNewGraph, opGraph:
		call = e.clock.Add(1)
		var g storage.Graph
		var err error
		if op == opNewGraph {
			g, err = e.st.NewGraph(ctx, graphNames[po.Name])
		} else {
			g, err = e.st.Graph(ctx, graphNames[po.Name])
		}
		out.ID = -1
		if err == nil {
			out.ID = e.reg.idOf(g)
		}
		ret = e.clock.Add(1)
		out.Err = errEnum(err)
		if err == nil {
			w.cur, w.curID = g, out.ID
		}
	case opDeleteGraph:
		call = e.clock.Add(1)
		err := e.st.DeleteGraph(ctx, graphNames[po.Name])
		ret = e.clock.Add(1)
		out.Err = errEnum(err)
	case opGraphNames:
		call = e.clock.Add(1)
		r := callGraphNames(e.st, chUnbuffered)
		ret = e.clock.Add(1)
		out.Err, out.Res = outcomeErr(&r), r.res
	case opAddTriples:
		in.H, in.Ts = w.curID, po.Ts
		ts := tripleSlice(po.Ts)
		call = e.clock.Add(1)
		var err error
		if mutantSplitAdd {
			// Deliberately broken client-side behaviour used to show that the
			// check notices non-atomic batches: one store call per triple.
			for i := range ts {
				if e1 := w.cur.AddTriples(ctx, ts[i:i+1]); e1 != nil {
					err = e1
				}
				spinWait(40)
			}
		} else {
			err = w.cur.AddTriples(ctx, ts)
		}
		ret = e.clock.Add(1)
		out.Err = errEnum(err)
	case opRemoveTriples:
		ts := tripleSlice(po.Ts)
		call = e.clock.Add(1)
		err := w.cur.RemoveTriples(ctx, ts)
		ret = e.clock.Add(1)
		es := make([]entry, len(po.Ts))
		for i, t := range po.Ts {
			pin := in
			pin.H, pin.Ts = w.curID, []int{t}
			es[i] = entry{G: w.g, Call: call, Ret: ret, In: pin, Out: opOut{Err: errEnum(err)}, Inv: inv}
		}
		return es
	case opExist:
		in.H, in.Ts = w.curID, po.Ts
		call = e.clock.Add(1)
		ok, err := w.cur.Exist(ctx, trips[po.Ts[0]].t)
		ret = e.clock.Add(1)
		out.Err, out.Ok = errEnum(err), ok
	default:
		in.H, in.Kind, in.S, in.P, in.O, in.LO = w.curID, po.Kind, po.S, po.P, po.O, po.LO
		lo := buildLO(po.LO)
		snap := snapshotLO(lo)
		call = e.clock.Add(1)
		r := callLookup(w.cur, po.Kind, po.S, po.P, po.O, lo, chUnbuffered)
		ret = e.clock.Add(1)
		out.Err, out.Res = outcomeErr(&r), r.res
		if out.Err == "" && !snap.sameAs(lo) {
			out.Err = "options_modified"
		}
	}
	return []entry{{G: w.g, Call: call, Ret: ret, In: in, Out: out, Inv: inv}}
}

func spinWait(n int) {
	runtime.Gosched()
	x := 0
	for i := 0; i < n; i++ {
		x += i
		if i&31 == 31 {
			runtime.Gosched()
		}
	}
	_ = x
}

type roundPlan struct {
	storeFlavour bool
	names        int
	setup        []planOp
	threads      [][]planOp
}

func genRound(rng *rand.Rand, small bool) roundPlan {
	var rp roundPlan
	rp.storeFlavour = rng.Intn(2) == 1
	rp.names = 1 + rng.Intn(2)
	g := &gen{rng: rng, names: rp.names, errPct: 3}
	g.pickHot(4 + rng.Intn(5))
	budget := maxHistoryOps
	addSetup := func(po planOp) {
		rp.setup = append(rp.setup, po)
		budget -= po.weight()
	}
	base := planOp{Kind: -1, S: -1, P: -1, O: -1, LO: defaultLO()}
	if rp.storeFlavour {
		if rng.Intn(2) == 0 {
			po := base
			po.Op, po.Name = opNewGraph, 0
			addSetup(po)
			if rng.Intn(2) == 0 {
				po := base
				po.Op, po.Name, po.Ts = opAddTriples, 0, g.distinctTriples(2+rng.Intn(4))
				addSetup(po)
			}
		}
	} else {
		for n := 0; n < rp.names; n++ {
			po := base
			po.Op, po.Name = opNewGraph, n
			addSetup(po)
		}
		for n := 0; n < rp.names; n++ {
			if rng.Intn(3) > 0 {
				po := base
				po.Op, po.Name, po.Ts = opAddTriples, n, g.distinctTriples(2+rng.Intn(4))
				addSetup(po)
			}
		}
	}
	nt := 2 + rng.Intn(3)
	if small {
		nt = 2
	}
	for t := 0; t < nt; t++ {
		n := 3 + rng.Intn(5)
		if small {
			n = 2 + rng.Intn(2)
		}
		var ops []planOp
		for i := 0; i < n; i++ {
			if rp.storeFlavour && rng.Intn(100) < 45 {
				ops = append(ops, g.storeOp())
			} else {
				ops = append(ops, g.graphOp())
			}
		}
		rp.threads = append(rp.threads, ops)
	}
	// Trim to the history budget: drop the last op of the heaviest thread.
	for {
		total, heavy, hw := 0, 0, -1
		for t, ops := range rp.threads {
			w := 0
			for i := range ops {
				w += ops[i].weight()
			}
			total += w
			if w > hw {
				heavy, hw = t, w
			}
		}
		if total <= budget {
			break
		}
		rp.threads[heavy] = rp.threads[heavy][:len(rp.threads[heavy])-1]
	}
	return rp
}

type roundOut struct {
	entries  []entry
	flavour  string
	threads  int
	overlap  int
	overlapG int // overlapping pairs where both operations are graph-level
	errors   map[string]int
	nonempty int
	lookups  int
}

func runRound(rp *roundPlan) roundOut {
	var clock atomic.Int64
	env := &runEnv{st: memory.NewStore(), reg: newRegistry(), clock: &clock, storeFlavour: rp.storeFlavour}
	var all []entry
	// Setup runs in the calling goroutine, recorded as goroutine -1.
	sw := &worker{g: -1}
	setupEnv := *env
	setupEnv.storeFlavour = true // setup always works through the handle it just created
	for i := range rp.setup {
		po := &rp.setup[i]
		if po.Op != opNewGraph {
			sw.cur, sw.curID = env.pre[po.Name], env.preID[po.Name]
		}
		es := setupEnv.exec(sw, po)
		if po.Op == opNewGraph && es[0].Out.Err == "" {
			env.pre[po.Name], env.preID[po.Name] = sw.cur, sw.curID
		}
		all = append(all, es...)
	}
	nt := len(rp.threads)
	results := make([][]entry, nt)
	var ready, fin sync.WaitGroup
	start := make(chan struct{})
	ready.Add(nt)
	fin.Add(nt)
	for t := 0; t < nt; t++ {
		go func(t int) {
			defer fin.Done()
			w := &worker{g: t}
			ops := rp.threads[t]
			var es []entry
			ready.Done()
			<-start
			for i := range ops {
				spinWait(ops[i].Spin)
				es = append(es, env.exec(w, &ops[i])...)
			}
			results[t] = es
		}(t)
	}
	ready.Wait()
	close(start)
	fin.Wait()
	for _, es := range results {
		all = append(all, es...)
	}
	sort.SliceStable(all, func(i, j int) bool { return all[i].Call < all[j].Call })

	ro := roundOut{entries: all, threads: nt, errors: map[string]int{}, flavour: "graph"}
	if rp.storeFlavour {
		ro.flavour = "store"
	}
	type iv struct {
		g         int
		call, ret int64
		graphOp   bool
	}
	seen := map[int]bool{}
	var ivs []iv
	for i := range all {
		e := &all[i]
		if seen[e.Inv] {
			continue
		}
		seen[e.Inv] = true
		ivs = append(ivs, iv{e.G, e.Call, e.Ret, !isStoreOp(e.In.Op)})
		if e.Out.Err != "" {
			ro.errors[e.Out.Err]++
		}
		if e.In.Kind >= 0 {
			ro.lookups++
			if len(e.Out.Res) > 0 {
				ro.nonempty++
			}
		}
	}
	for i := range ivs {
		for j := i + 1; j < len(ivs); j++ {
			a, b := ivs[i], ivs[j]
			if a.g != b.g && a.call < b.ret && b.call < a.ret {
				ro.overlap++
				if a.graphOp && b.graphOp {
					ro.overlapG++
				}
			}
		}
	}
	return ro
}

func historyJSON(es []entry) []histEntry {
	h := make([]histEntry, len(es))
	for i := range es {
		h[i] = entryToJSON(&es[i])
	}
	return h
}

// historyDigest is the sha1 of the per-goroutine operation sequences without
// time stamps.
func historyDigest(es []entry) string {
	byG := map[int][]interface{}{}
	var gs []int
	for i := range es {
		h := entryToJSON(&es[i])
		if _, ok := byG[h.G]; !ok {
			gs = append(gs, h.G)
		}
		byG[h.G] = append(byG[h.G], []interface{}{h.Op, h.In, h.Out})
	}
	sort.Ints(gs)
	var canon []interface{}
	for _, g := range gs {
		canon = append(canon, []interface{}{g, byG[g]})
	}
	b, _ := json.Marshal(canon)
	sum := sha1.Sum(b)
	return hex.EncodeToString(sum[:])
}

func checkHistory(es []entry, exhaustive bool, bruteMax int) map[string]interface{} {
	res, _ := porcupine.CheckOperationsVerbose(storeModel, toPorcupine(es), 5*time.Second)
	out := map[string]interface{}{"result": resultName(res)}
	if exhaustive && len(es) <= bruteMax {
		b := "illegal"
		if bruteCheck(es) {
			b = "ok"
		}
		out["brute"] = b
		if b != resultName(res) {
			out["brute_disagree"] = true
		}
	}
	return out
}

func modeLin(seed int64, n int, exhaustive bool, bruteMax int) {
	if n <= 0 {
		n = 200
	}
	rng := rand.New(rand.NewSource(seed))
	counts := map[string]int{}
	totalOverlapG := 0
	totalOps, totalOverlap, totalLookups, totalNonempty, bruteRuns, bruteDisagree := 0, 0, 0, 0, 0, 0
	digests := map[string]bool{}
	for i := 0; i < n; i++ {
		kick()
		small := exhaustive && rng.Intn(2) == 0
		rp := genRound(rng, small)
		ro := runRound(&rp)
		line := checkHistory(ro.entries, exhaustive, bruteMax)
		result := line["result"].(string)
		counts[result]++
		if _, ok := line["brute"]; ok {
			bruteRuns++
		}
		if _, ok := line["brute_disagree"]; ok {
			bruteDisagree++
		}
		totalOps += len(ro.entries)
		totalOverlap += ro.overlap
		totalOverlapG += ro.overlapG
		totalLookups += ro.lookups
		totalNonempty += ro.nonempty
		dg := historyDigest(ro.entries)
		digests[dg] = true
		line["digest"] = dg
		line["mode"] = "lin"
		line["round"] = i
		line["flavour"] = ro.flavour
		line["ops"] = len(ro.entries)
		line["threads"] = ro.threads
		line["overlap"] = ro.overlap
		line["overlap_graph_ops"] = ro.overlapG
		line["errors"] = ro.errors
		line["lookups"] = ro.lookups
		line["nonempty_lookups"] = ro.nonempty
		if result != "ok" || i < 3 {
			line["history"] = historyJSON(ro.entries)
		}
		emit(line)
	}
	sum := map[string]interface{}{
		"mode": "lin", "summary": true, "seed": seed, "rounds": n, "pred_kind_strict": predKindStrict,
		"ok": counts["ok"], "illegal": counts["illegal"], "unknown": counts["unknown"],
		"ops": totalOps, "overlap_total": totalOverlap, "distinct_histories": len(digests),
		"lookups": totalLookups, "nonempty_lookups": totalNonempty, "overlap_graph_ops_total": totalOverlapG,
	}
	if exhaustive {
		sum["brute_runs"] = bruteRuns
		sum["brute_disagree"] = bruteDisagree
	}
	emit(sum)
}

func modeLinFile(path string, exhaustive bool, bruteMax int) {
	data, err := os.ReadFile(path)
	if err != nil {
		die("linfile: %v", err)
	}
	var doc struct {
		History []histEntry `json:"history"`
	}
	if err := json.Unmarshal(data, &doc); err != nil {
		die("linfile: %v", err)
	}
	var es []entry
	for i := range doc.History {
		e, err := entryFromJSON(&doc.History[i])
		if err != nil {
			emit(map[string]interface{}{"mode": "linfile", "file": path, "result": "bad_input", "entry": i, "problem": err.Error()})
			os.Exit(2)
		}
		e.Inv = i
		es = append(es, e)
	}
	line := checkHistory(es, exhaustive, bruteMax)
	line["mode"] = "linfile"
	line["pred_kind_strict"] = predKindStrict
	line["file"] = path
	line["ops"] = len(es)
	emit(line)
}
