package main

import (
	"time"

	"github.com/google/badwolf/storage"
	"github.com/google/badwolf/storage/memory"
	"github.com/google/badwolf/triple"
)

func replayGraph() (storage.Graph, []int) {
	st := memory.NewStore()
	g, err := st.NewGraph(ctx, "g0")
	if err != nil {
		die("replay: %v", err)
	}
	// Every triple of subject 0: contains two triples with the latest anchor of
	// predicate id "p" plus older anchors and immutable ones.
	var content []int
	for i := range trips {
		if trips[i].s == 0 {
			content = append(content, i)
		}
	}
	_ = latestPair() // asserts the two latest-anchor triples exist
	if err := g.AddTriples(ctx, tripleSlice(content)); err != nil {
		die("replay: %v", err)
	}
	return g, content
}

// modeReplay replays the model's witness interleaving for F7 on the real
// store. The unbuffered result channel of A is the scheduling handle.
func modeReplay() {
	g, content := replayGraph()
	lo := &storage.LookupOptions{LatestAnchor: true}

	chA := make(chan *triple.Triple)
	aDone := make(chan error, 1)
	go func() { aDone <- g.Triples(ctx, lo, chA) }()

	var aRes []string
	aBlocked := false
	select {
	case v, ok := <-chA:
		if ok {
			aRes = append(aRes, v.String())
			aBlocked = true // A is past the first send; a second result exists
		}
	case <-time.After(5 * time.Second):
		die("replay: A did not produce a first result")
	}

	// B runs while A sits in its second send holding the read lock.
	bCh := make(chan lookupResult, 1)
	go func() { bCh <- callLookup(g, 0, -1, -1, -1, lo, chBuffered) }()
	var b lookupResult
	bFinished := true
	select {
	case b = <-bCh:
	case <-time.After(5 * time.Second):
		bFinished = false
	}

	for v := range chA {
		aRes = append(aRes, v.String())
	}
	aErr := <-aDone
	if !bFinished {
		b = <-bCh
	}
	var set uint64
	for _, i := range content {
		set |= 1 << uint(i)
	}
	latest := defaultLO()
	latest.Latest = true
	_, ref := refLookup(set, 0, -1, -1, -1, latest)
	bErr := errEnum(b.err)
	if b.panicked {
		bErr = "panic_" + b.panicKind
	}
	after := "nil"
	if lo.FilterOptions != nil {
		after = "nonnil"
	}
	emit(map[string]interface{}{
		"mode": "replay", "b_error": bErr, "a_error": errEnum(aErr),
		"reproduced": bErr == "latest_and_filter",
		"b_closed":   b.closed && !b.notClosed && !b.extra,
		"a_results":  len(aRes), "b_results": len(b.res),
		"a_blocked_before_b":         aBlocked,
		"b_finished_while_a_blocked": bFinished,
		"b_equals_a":                 b.err == nil && sameStrings(aRes, b.res),
		"a_matches_reference":        sameStrings(aRes, ref),
		"options_after":              after,
	})
}

// modeReplayWriter demonstrates the hypothesis of the deadlock-freedom
// statement: a lookup whose consumer does not read keeps the read lock, so a
// writer on the same graph waits until the consumer drains.
func modeReplayWriter() {
	g, _ := replayGraph()
	lo := &storage.LookupOptions{}
	chA := make(chan *triple.Triple)
	aDone := make(chan error, 1)
	go func() { aDone <- g.Triples(ctx, lo, chA) }()
	n := 0
	select {
	case _, ok := <-chA:
		if ok {
			n++
		}
	case <-time.After(5 * time.Second):
		die("replay writer: A did not produce a first result")
	}
	var extra []int
	for i := range trips {
		if trips[i].s == 1 {
			extra = append(extra, i)
			break
		}
	}
	cDone := make(chan error, 1)
	go func() { cDone <- g.AddTriples(ctx, tripleSlice(extra)) }()
	blocked := false
	completed := false
	var cErr error
	select {
	case cErr = <-cDone:
		completed = true
	case <-time.After(300 * time.Millisecond):
		blocked = true
	}
	for range chA {
		n++
	}
	aErr := <-aDone
	if !completed {
		select {
		case cErr = <-cDone:
			completed = true
		case <-time.After(5 * time.Second):
		}
	}
	present, _ := g.Exist(ctx, trips[extra[0]].t)
	emit(map[string]interface{}{
		"mode": "replay", "variant": "writer",
		"writer_blocked_while_consumer_idle": blocked,
		"writer_completed_after_drain":       completed,
		"a_results":                          n, "a_error": errEnum(aErr), "writer_error": errEnum(cErr),
		"written_triple_present": present,
	})
}
