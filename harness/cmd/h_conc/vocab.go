package main

import (
	"fmt"
	"os"
	"time"

	"github.com/google/badwolf/triple"
	"github.com/google/badwolf/triple/literal"
	"github.com/google/badwolf/triple/node"
	"github.com/google/badwolf/triple/predicate"
)

// The vocabulary is fixed (it does not depend on -seed) so that history files
// can be re-checked by -mode linfile.
//
// All reference-side reasoning (model.go) uses only the small integer / string
// metadata below; the badwolf values are only used to drive the real store.

// Time scale used by the reference: rank 0..6. Predicate anchors sit on the odd
// ranks (1, 3, 5); LowerAnchor / UpperAnchor windows may use every rank.
var timeRankStr = []string{
	"2014-07-01T00:00:00Z",
	"2015-01-01T00:00:00Z",
	"2015-07-01T00:00:00Z",
	"2016-01-01T00:00:00Z",
	"2016-07-01T00:00:00Z",
	"2017-01-01T00:00:00Z",
	"2017-07-01T00:00:00Z",
}

var timeRank []time.Time

type predMeta struct {
	str      string
	id       string
	temporal bool
	rank     int // time rank of the anchor, -1 for immutable
	p        *predicate.Predicate
}

type objMeta struct {
	str    string
	isPred bool
	pred   int // index into preds when isPred
	o      *triple.Object
}

type tripMeta struct {
	str     string
	s, p, o int
	t       *triple.Triple
}

var (
	subjStr = []string{"/u<a>", "/u<b>", "/t<c>"}
	subjs   []*node.Node
	preds   []predMeta
	objs    []objMeta
	trips   []tripMeta

	subjIdx = map[string]int{}
	predIdx = map[string]int{}
	objIdx  = map[string]int{}
	tripIdx = map[string]int{}
	timeIdx = map[string]int{}

	graphNames = []string{"g0", "g1", "g2"}
	nameIdx    = map[string]int{"g0": 0, "g1": 1, "g2": 2}
)

func die(format string, a ...interface{}) {
	fmt.Fprintf(os.Stderr, "h_conc: "+format+"\n", a...)
	os.Exit(2)
}

func buildVocab() {
	for i, s := range timeRankStr {
		t, err := time.Parse(time.RFC3339Nano, s)
		if err != nil {
			die("time %q: %v", s, err)
		}
		timeRank = append(timeRank, t)
		timeIdx[s] = i
	}
	for i, s := range subjStr {
		n, err := node.Parse(s)
		if err != nil {
			die("node %q: %v", s, err)
		}
		if n.String() != s {
			die("node string mismatch %q vs %q", n.String(), s)
		}
		subjs = append(subjs, n)
		subjIdx[s] = i
	}
	for _, id := range []string{"p", "q"} {
		specs := []struct {
			str  string
			rank int
		}{
			{fmt.Sprintf("%q@[]", id), -1},
			{fmt.Sprintf("%q@[%s]", id, timeRankStr[1]), 1},
			{fmt.Sprintf("%q@[%s]", id, timeRankStr[3]), 3},
			{fmt.Sprintf("%q@[%s]", id, timeRankStr[5]), 5},
		}
		for _, sp := range specs {
			p, err := predicate.Parse(sp.str)
			if err != nil {
				die("predicate %q: %v", sp.str, err)
			}
			if p.String() != sp.str {
				die("predicate string mismatch %q vs %q", p.String(), sp.str)
			}
			predIdx[sp.str] = len(preds)
			preds = append(preds, predMeta{str: sp.str, id: id, temporal: sp.rank >= 0, rank: sp.rank, p: p})
		}
	}
	addObj := func(str string, isPred bool, pi int, o *triple.Object) {
		if o.String() != str {
			die("object string mismatch %q vs %q", o.String(), str)
		}
		objIdx[str] = len(objs)
		objs = append(objs, objMeta{str: str, isPred: isPred, pred: pi, o: o})
	}
	addObj(subjStr[0], false, -1, triple.NewNodeObject(subjs[0]))
	addObj(subjStr[2], false, -1, triple.NewNodeObject(subjs[2]))
	for _, ls := range []string{`"1"^^type:int64`, `"x"^^type:text`} {
		l, err := literal.DefaultBuilder().Parse(ls)
		if err != nil || l == nil {
			die("literal %q: %v", ls, err)
		}
		addObj(ls, false, -1, triple.NewLiteralObject(l))
	}
	// One predicate-valued object: "p"@[2016-01-01T00:00:00Z] (preds[2]).
	po, err := predicate.Parse(preds[2].str)
	if err != nil {
		die("predicate object: %v", err)
	}
	addObj(preds[2].str, true, 2, triple.NewPredicateObject(po))

	for si := range subjs {
		for pi := range preds {
			for oi := range objs {
				if (si+pi+oi)%3 != 0 {
					continue
				}
				t, err := triple.New(subjs[si], preds[pi].p, objs[oi].o)
				if err != nil {
					die("triple.New: %v", err)
				}
				str := subjStr[si] + "\t" + preds[pi].str + "\t" + objs[oi].str
				if t.String() != str {
					die("triple string mismatch %q vs %q", t.String(), str)
				}
				if _, dup := tripIdx[str]; dup {
					die("duplicate triple string %q", str)
				}
				tripIdx[str] = len(trips)
				trips = append(trips, tripMeta{str: str, s: si, p: pi, o: oi, t: t})
			}
		}
	}
	if len(trips) > 64 {
		die("vocabulary too large for a 64 bit set: %d", len(trips))
	}
}
