package main

import (
	"fmt"
	"math/rand"
	"runtime"
	"sync"
	"sync/atomic"

	"github.com/google/badwolf/storage"
	"github.com/google/badwolf/storage/memory"
	"github.com/google/badwolf/triple"
	"github.com/google/badwolf/triple/node"
	"github.com/google/badwolf/triple/predicate"
)

// modeSized: read-only concurrency on LARGE results. One graph with sizedSubjects
// subjects of sizedPerSubject triples each; many goroutines (more than processors)
// run TriplesForSubject / Objects / PredicatesForSubject / TriplesForPredicate at
// the same time with unbuffered or tiny result channels and slow consumers, so
// that lookups overlap while they are still streaming. Every delivered listing
// (elements AND order: results are sorted by the store) must equal the listing
// the same call gives to a single goroutine.

const (
	sizedSubjects   = 12
	sizedPerSubject = 600
)

type sizedCall struct {
	kind string
	subj int
}

func sizedRun(g storage.Graph, c sizedCall, ss []*node.Node, p *predicate.Predicate, capacity int, slow bool) (res []string, nils int, errS string, panicked bool) {
	collect := func(next func() (string, bool, bool)) {
		i := 0
		for {
			s, isNil, ok := next()
			if !ok {
				return
			}
			if isNil {
				nils++
				s = "<nil>"
			}
			res = append(res, s)
			i++
			if slow && i%64 == 0 {
				runtime.Gosched()
			}
		}
	}
	done := make(chan struct{})
	var err error
	call := func(f func() error) {
		defer func() {
			if r := recover(); r != nil {
				panicked = true
			}
		}()
		err = f()
	}
	switch c.kind {
	case "TriplesForSubject", "TriplesForPredicate":
		ch := make(chan *triple.Triple, capacity)
		go func() {
			defer close(done)
			collect(func() (string, bool, bool) {
				t, ok := <-ch
				if !ok {
					return "", false, false
				}
				if t == nil {
					return "", true, true
				}
				return t.String(), false, true
			})
		}()
		if c.kind == "TriplesForSubject" {
			call(func() error { return g.TriplesForSubject(ctx, ss[c.subj], storage.DefaultLookup, ch) })
		} else {
			call(func() error { return g.TriplesForPredicate(ctx, p, storage.DefaultLookup, ch) })
		}
	case "Objects":
		ch := make(chan *triple.Object, capacity)
		go func() {
			defer close(done)
			collect(func() (string, bool, bool) {
				o, ok := <-ch
				if !ok {
					return "", false, false
				}
				if o == nil {
					return "", true, true
				}
				return o.String(), false, true
			})
		}()
		call(func() error { return g.Objects(ctx, ss[c.subj], p, storage.DefaultLookup, ch) })
	case "PredicatesForSubject":
		ch := make(chan *predicate.Predicate, capacity)
		go func() {
			defer close(done)
			collect(func() (string, bool, bool) {
				o, ok := <-ch
				if !ok {
					return "", false, false
				}
				if o == nil {
					return "", true, true
				}
				return o.String(), false, true
			})
		}()
		call(func() error { return g.PredicatesForSubject(ctx, ss[c.subj], storage.DefaultLookup, ch) })
	}
	<-done
	return res, nils, errEnum(err), panicked
}

func modeSized(seed int64, n, threads, procs int) {
	if n <= 0 {
		n = 12
	}
	if procs > 0 {
		runtime.GOMAXPROCS(procs)
	}
	if threads < 2 {
		threads = 2 * runtime.GOMAXPROCS(0)
	}
	st := memory.NewStore()
	g, err := st.NewGraph(ctx, "big")
	if err != nil {
		die("NewGraph: %v", err)
	}
	p, err := predicate.Parse(`"p"@[]`)
	if err != nil {
		die("predicate: %v", err)
	}
	var ss []*node.Node
	var all []*triple.Triple
	for i := 0; i < sizedSubjects; i++ {
		s, err := node.Parse(fmt.Sprintf("/big<s%02d>", i))
		if err != nil {
			die("node: %v", err)
		}
		ss = append(ss, s)
		for j := 0; j < sizedPerSubject; j++ {
			o, err := node.Parse(fmt.Sprintf("/big<o%02d_%04d>", i, j))
			if err != nil {
				die("node: %v", err)
			}
			t, err := triple.New(s, p, triple.NewNodeObject(o))
			if err != nil {
				die("triple: %v", err)
			}
			all = append(all, t)
		}
	}
	if err := g.AddTriples(ctx, all); err != nil {
		die("AddTriples: %v", err)
	}
	kinds := []string{"TriplesForSubject", "Objects", "PredicatesForSubject", "TriplesForSubject", "Objects", "TriplesForPredicate"}
	// single-goroutine reference listings
	want := map[sizedCall][]string{}
	for _, k := range []string{"TriplesForSubject", "Objects", "PredicatesForSubject"} {
		for i := range ss {
			c := sizedCall{k, i}
			r, _, e, pk := sizedRun(g, c, ss, p, 16, false)
			if e != "" || pk || len(r) != sizedPerSubject {
				die("reference %v: err=%q panic=%v len=%d", c, e, pk, len(r))
			}
			want[c] = r
		}
	}
	{
		c := sizedCall{"TriplesForPredicate", 0}
		r, _, e, pk := sizedRun(g, c, ss, p, 16, false)
		if e != "" || pk || len(r) != sizedSubjects*sizedPerSubject {
			die("reference %v: err=%q panic=%v len=%d", c, e, pk, len(r))
		}
		want[c] = r
	}
	var calls, mism, nilTotal, panics, errs int64
	var first atomic.Value
	rng := rand.New(rand.NewSource(seed))
	var wg sync.WaitGroup
	start := make(chan struct{})
	for w := 0; w < threads; w++ {
		wg.Add(1)
		wr := rand.New(rand.NewSource(rng.Int63()))
		go func(w int) {
			defer wg.Done()
			<-start
			for i := 0; i < n; i++ {
				kick()
				c := sizedCall{kinds[wr.Intn(len(kinds))], wr.Intn(sizedSubjects)}
				if c.kind == "TriplesForPredicate" {
					c.subj = 0
				}
				capacity := []int{0, 0, 1, 4}[wr.Intn(4)]
				r, nils, e, pk := sizedRun(g, c, ss, p, capacity, true)
				atomic.AddInt64(&calls, 1)
				atomic.AddInt64(&nilTotal, int64(nils))
				if pk {
					atomic.AddInt64(&panics, 1)
				}
				if e != "" {
					atomic.AddInt64(&errs, 1)
				}
				exp := want[c]
				bad := pk || e != "" || len(r) != len(exp)
				pos := -1
				if !bad {
					for j := range r {
						if r[j] != exp[j] {
							bad, pos = true, j
							break
						}
					}
				}
				if bad {
					atomic.AddInt64(&mism, 1)
					d := map[string]interface{}{"kind": c.kind, "subject": c.subj, "capacity": capacity, "want_len": len(exp),
						"got_len": len(r), "panic": pk, "error": e, "nil_elements": nils, "first_diff_at": pos}
					if pos >= 0 {
						d["want"], d["got"] = exp[pos], r[pos]
					}
					first.CompareAndSwap(nil, d)
				}
			}
		}(w)
	}
	close(start)
	wg.Wait()
	out := map[string]interface{}{
		"mode": "sized", "result": "done", "seed": seed, "threads": threads, "gomaxprocs": runtime.GOMAXPROCS(0),
		"subjects": sizedSubjects, "triples_per_subject": sizedPerSubject, "calls": calls,
		"mismatches": mism, "nil_elements": nilTotal, "panics": panics, "errors": errs,
	}
	if v := first.Load(); v != nil {
		out["first"] = v
	}
	emit(out)
}
