package main

import (
	"fmt"
	"runtime"
	"sort"
	"sync"

	"github.com/google/badwolf/storage"
	"github.com/google/badwolf/storage/memory"
	"github.com/google/badwolf/triple"
	"github.com/google/badwolf/triple/node"
	"github.com/google/badwolf/triple/predicate"
)

// modePairIdx: long RemoveTriples batches whose triples share a pair key (S+P, P+O or S+O) while another goroutine
// removes the last stored triple of that pair and adds a new triple with the same pair key; RemoveTriples is one
// critical section PER TRIPLE, so this interleaves with the batch. At quiescence the audit "every pair lookup = scan":
// every triple listed by Triples() must be delivered by TriplesForSubjectAndPredicate, Objects,
// TriplesForPredicateAndObject, Subjects and PredicatesForSubjectAndObject for its own components, and Exist must hold;
// and the contents must be what any serial order of the single-triple updates gives (here: exactly the added triple).

func mkNode(s string) *node.Node {
	n, err := node.Parse(s)
	if err != nil {
		die("node %q: %v", s, err)
	}
	return n
}

func mkTriple(s *node.Node, p *predicate.Predicate, o *node.Node) *triple.Triple {
	t, err := triple.New(s, p, triple.NewNodeObject(o))
	if err != nil {
		die("triple: %v", err)
	}
	return t
}

func listStrings[T fmt.Stringer](call func(chan<- T) error) ([]string, error) {
	ch := make(chan T, 16)
	var res []string
	done := make(chan struct{})
	go func() {
		for v := range ch {
			res = append(res, v.String())
		}
		close(done)
	}()
	err := call(ch)
	<-done
	sort.Strings(res)
	return res, err
}

func contains(l []string, s string) bool {
	i := sort.SearchStrings(l, s)
	return i < len(l) && l[i] == s
}

// audit returns the pair lookups that miss a stored triple.
func auditPairs(g storage.Graph) (stored int, missing []string) {
	lo := storage.DefaultLookup
	all := []*triple.Triple{}
	ch := make(chan *triple.Triple, 16)
	done := make(chan struct{})
	go func() {
		for t := range ch {
			all = append(all, t)
		}
		close(done)
	}()
	if err := g.Triples(ctx, lo, ch); err != nil {
		die("Triples: %v", err)
	}
	<-done
	for _, t := range all {
		s, p, o := t.Subject(), t.Predicate(), t.Object()
		if ok, _ := g.Exist(ctx, t); !ok {
			missing = append(missing, "Exist "+t.String())
		}
		if l, _ := listStrings(func(c chan<- *triple.Triple) error { return g.TriplesForSubjectAndPredicate(ctx, s, p, lo, c) }); !contains(l, t.String()) {
			missing = append(missing, "TriplesForSubjectAndPredicate "+t.String())
		}
		if l, _ := listStrings(func(c chan<- *triple.Object) error { return g.Objects(ctx, s, p, lo, c) }); !contains(l, o.String()) {
			missing = append(missing, "Objects "+t.String())
		}
		if l, _ := listStrings(func(c chan<- *triple.Triple) error { return g.TriplesForPredicateAndObject(ctx, p, o, lo, c) }); !contains(l, t.String()) {
			missing = append(missing, "TriplesForPredicateAndObject "+t.String())
		}
		if l, _ := listStrings(func(c chan<- *node.Node) error { return g.Subjects(ctx, p, o, lo, c) }); !contains(l, s.String()) {
			missing = append(missing, "Subjects "+t.String())
		}
		if l, _ := listStrings(func(c chan<- *predicate.Predicate) error { return g.PredicatesForSubjectAndObject(ctx, s, o, lo, c) }); !contains(l, p.String()) {
			missing = append(missing, "PredicatesForSubjectAndObject "+t.String())
		}
		if l, _ := listStrings(func(c chan<- *triple.Triple) error { return g.TriplesForSubject(ctx, s, lo, c) }); !contains(l, t.String()) {
			missing = append(missing, "TriplesForSubject "+t.String())
		}
	}
	return len(all), missing
}

func modePairIdx(seed int64, n int) {
	if n <= 0 {
		n = 300
	}
	const absent = 150
	st := memory.NewStore()
	g, err := st.NewGraph(ctx, "pairs")
	if err != nil {
		die("NewGraph: %v", err)
	}
	preds := make([]*predicate.Predicate, absent+4)
	for i := range preds {
		p, err := predicate.Parse(fmt.Sprintf(`"k%d"@[]`, i))
		if err != nil {
			die("predicate: %v", err)
		}
		preds[i] = p
	}
	bad, wrongContents, landed := 0, 0, 0
	var first []string
	for round := 0; round < n; round++ {
		kick()
		kind := round % 3 // 0: same S+P, 1: same P+O, 2: same S+O
		mk := func(i int) *triple.Triple {
			r := fmt.Sprintf("%d", round)
			switch kind {
			case 0:
				return mkTriple(mkNode("/x<s"+r+">"), preds[0], mkNode(fmt.Sprintf("/x<o%s_%d>", r, i)))
			case 1:
				return mkTriple(mkNode(fmt.Sprintf("/x<s%s_%d>", r, i)), preds[0], mkNode("/x<o"+r+">"))
			default:
				return mkTriple(mkNode("/x<s"+r+">"), preds[i], mkNode("/x<o"+r+">"))
			}
		}
		t1, t2, t3 := mk(0), mk(1), mk(2)
		if err := g.AddTriples(ctx, []*triple.Triple{t1, t2}); err != nil {
			die("AddTriples: %v", err)
		}
		// the long batch: t1, then triples with the same pair key that are not stored (removing them is a no-op)
		batch := []*triple.Triple{t1}
		for i := 0; i < absent; i++ {
			batch = append(batch, mk(3+i))
		}
		var wg sync.WaitGroup
		wg.Add(2)
		hit := false
		go func() {
			defer wg.Done()
			if err := g.RemoveTriples(ctx, batch); err != nil {
				die("RemoveTriples: %v", err)
			}
		}()
		go func() {
			defer wg.Done()
			for i := 0; i < 1000000; i++ { // wait until the batch has removed its first triple
				if ok, _ := g.Exist(ctx, t1); !ok {
					break
				}
				runtime.Gosched()
			}
			_ = g.RemoveTriples(ctx, []*triple.Triple{t2})
			_ = g.AddTriples(ctx, []*triple.Triple{t3})
			hit = true
		}()
		wg.Wait()
		if hit {
			landed++
		}
		// quiescent: every serial order of {remove t1, remove absent..., remove t2, add t3} leaves exactly {t3} of this round
		stored, missing := auditPairs(g)
		if len(missing) > 0 {
			bad++
			if first == nil {
				first = missing
				if len(first) > 6 {
					first = first[:6]
				}
			}
		}
		if ok, _ := g.Exist(ctx, t3); !ok || stored != 1 {
			wrongContents++
		}
		_ = g.RemoveTriples(ctx, []*triple.Triple{t3})
	}
	out := map[string]interface{}{"mode": "pairidx", "result": "done", "seed": seed, "rounds": n, "batch_len": absent + 1,
		"rounds_with_index_holes": bad, "rounds_with_wrong_contents": wrongContents, "interleavings_run": landed}
	if first != nil {
		out["first_missing"] = first
	}
	emit(out)
}
