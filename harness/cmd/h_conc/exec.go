package main

import (
	"context"
	"fmt"
	"sort"
	"strings"
	"sync"
	"time"

	"github.com/google/badwolf/bql/planner/filter"
	"github.com/google/badwolf/storage"
	"github.com/google/badwolf/storage/memory"
	"github.com/google/badwolf/triple"
	"github.com/google/badwolf/triple/node"
	"github.com/google/badwolf/triple/predicate"
)

var ctx = context.Background()

func errEnum(err error) string {
	if err == nil {
		return ""
	}
	m := err.Error()
	switch {
	case strings.Contains(m, "cannot have LatestAnchor and FilterOptions"):
		return "latest_and_filter"
	case strings.Contains(m, "cannot provide an empty channel"):
		return "nil_channel"
	case strings.Contains(m, "already exists"):
		return "exists"
	case strings.Contains(m, "does not exist"):
		return "missing"
	case strings.Contains(m, "invalid field"), strings.Contains(m, "not supported"):
		return "bad_filter"
	}
	return "other"
}

func panicEnum(p interface{}) string {
	m := fmt.Sprint(p)
	switch {
	case strings.Contains(m, "close of closed channel"):
		return "close_closed"
	case strings.Contains(m, "close of nil channel"):
		return "close_nil"
	case strings.Contains(m, "send on closed channel"):
		return "send_closed"
	case strings.Contains(m, "nil pointer dereference"):
		return "nil_deref"
	}
	return "other"
}

// registry gives small integer ids to distinct storage.Graph values.
type registry struct {
	mu  sync.Mutex
	ids map[storage.Graph]int
}

func newRegistry() *registry { return &registry{ids: map[storage.Graph]int{}} }

func (r *registry) idOf(g storage.Graph) int {
	r.mu.Lock()
	defer r.mu.Unlock()
	if id, ok := r.ids[g]; ok {
		return id
	}
	id := len(r.ids)
	r.ids[g] = id
	return id
}

// buildLO makes a fresh storage.LookupOptions value from its description.
func buildLO(d loDesc) *storage.LookupOptions {
	lo := &storage.LookupOptions{MaxElements: d.Max, Offset: d.Off, LatestAnchor: d.Latest}
	if d.Lower >= 0 {
		t := timeRank[d.Lower]
		lo.LowerAnchor = &t
	}
	if d.Upper >= 0 {
		t := timeRank[d.Upper]
		lo.UpperAnchor = &t
	}
	if d.Fop != fopNone {
		lo.FilterOptions = &filter.StorageOptions{Operation: filter.Operation(d.Fop), Field: filter.Field(d.Ffield)}
	}
	return lo
}

// loSnapshot is a by-value copy of a LookupOptions including what it points to.
type loSnapshot struct {
	v            storage.LookupOptions
	lower, upper time.Time
	fo           filter.StorageOptions
}

func snapshotLO(lo *storage.LookupOptions) loSnapshot {
	s := loSnapshot{v: *lo}
	if lo.LowerAnchor != nil {
		s.lower = *lo.LowerAnchor
	}
	if lo.UpperAnchor != nil {
		s.upper = *lo.UpperAnchor
	}
	if lo.FilterOptions != nil {
		s.fo = *lo.FilterOptions
	}
	return s
}

func (s loSnapshot) sameAs(lo *storage.LookupOptions) bool {
	if s.v != *lo {
		return false
	}
	if lo.LowerAnchor != nil && !s.lower.Equal(*lo.LowerAnchor) {
		return false
	}
	if lo.UpperAnchor != nil && !s.upper.Equal(*lo.UpperAnchor) {
		return false
	}
	if lo.FilterOptions != nil && s.fo != *lo.FilterOptions {
		return false
	}
	return true
}

const (
	chUnbuffered = iota // consumer goroutine drains an unbuffered channel
	chBuffered          // large buffer, drained after the call returned
	chNil               // nil channel
)

const consumerWait = 45 * time.Second // only reached when a channel really was left open; long because of machine load

type lookupResult struct {
	res       []string
	err       error
	panicked  bool
	panicKind string
	closed    bool // the consumer saw the channel closed
	notClosed bool // the channel was (still) open after the call returned
	extra     bool // a value arrived after the consumer had seen the close
}

func safeCall(f func() error) (err error, panicked bool, kind string) {
	defer func() {
		if p := recover(); p != nil {
			panicked = true
			kind = panicEnum(p)
		}
	}()
	return f(), false, ""
}

func safeString(v fmt.Stringer) (s string) {
	defer func() {
		if recover() != nil {
			s = "<unprintable>"
		}
	}()
	return v.String()
}

// runLookup calls a lookup with a channel of the requested flavour, consumes
// everything and reports how the channel ended.
func runLookup[T fmt.Stringer](call func(chan<- T) error, mode int) lookupResult {
	var r lookupResult
	if mode == chNil {
		r.err, r.panicked, r.panicKind = safeCall(func() error { return call(nil) })
		return r
	}
	var ch chan T
	if mode == chBuffered {
		ch = make(chan T, 128)
	} else {
		ch = make(chan T)
	}
	var res []string
	done := make(chan struct{})
	if mode == chUnbuffered {
		go func() {
			defer close(done)
			for v := range ch {
				res = append(res, safeString(v))
			}
		}()
	}
	r.err, r.panicked, r.panicKind = safeCall(func() error { return call(ch) })
	if mode == chBuffered {
	drain:
		for {
			select {
			case v, ok := <-ch:
				if !ok {
					r.closed = true
					break drain
				}
				res = append(res, safeString(v))
			default:
				r.notClosed = true
				break drain
			}
		}
	} else {
		select {
		case <-done:
			r.closed = true
		default:
			t := time.NewTimer(consumerWait)
			select {
			case <-done:
				r.closed = true
			case <-t.C:
				r.notClosed = true
			}
			t.Stop()
		}
	}
	if r.closed {
		r.res = res
		// A second receive must yield (zero, false) immediately.
		select {
		case _, ok := <-ch:
			if ok {
				r.extra = true
			}
		default:
			r.notClosed = true
		}
	}
	if r.res == nil {
		r.res = []string{}
	}
	return r
}

// callLookup dispatches a lookup kind to the storage.Graph method.
func callLookup(g storage.Graph, kind, s, p, o int, lo *storage.LookupOptions, mode int) lookupResult {
	var sn *node.Node
	var pp *predicate.Predicate
	var oo *triple.Object
	if s >= 0 {
		sn = subjs[s]
	}
	if p >= 0 {
		pp = preds[p].p
	}
	if o >= 0 {
		oo = objs[o].o
	}
	switch kind {
	case 0:
		return runLookup(func(ch chan<- *triple.Triple) error { return g.Triples(ctx, lo, ch) }, mode)
	case 1:
		return runLookup(func(ch chan<- *triple.Object) error { return g.Objects(ctx, sn, pp, lo, ch) }, mode)
	case 2:
		return runLookup(func(ch chan<- *node.Node) error { return g.Subjects(ctx, pp, oo, lo, ch) }, mode)
	case 3:
		return runLookup(func(ch chan<- *predicate.Predicate) error { return g.PredicatesForSubject(ctx, sn, lo, ch) }, mode)
	case 4:
		return runLookup(func(ch chan<- *predicate.Predicate) error { return g.PredicatesForObject(ctx, oo, lo, ch) }, mode)
	case 5:
		return runLookup(func(ch chan<- *predicate.Predicate) error {
			return g.PredicatesForSubjectAndObject(ctx, sn, oo, lo, ch)
		}, mode)
	case 6:
		return runLookup(func(ch chan<- *triple.Triple) error { return g.TriplesForSubject(ctx, sn, lo, ch) }, mode)
	case 7:
		return runLookup(func(ch chan<- *triple.Triple) error { return g.TriplesForPredicate(ctx, pp, lo, ch) }, mode)
	case 8:
		return runLookup(func(ch chan<- *triple.Triple) error { return g.TriplesForObject(ctx, oo, lo, ch) }, mode)
	case 9:
		return runLookup(func(ch chan<- *triple.Triple) error {
			return g.TriplesForSubjectAndPredicate(ctx, sn, pp, lo, ch)
		}, mode)
	case 10:
		return runLookup(func(ch chan<- *triple.Triple) error {
			return g.TriplesForPredicateAndObject(ctx, pp, oo, lo, ch)
		}, mode)
	}
	panic("bad lookup kind")
}

// graphNamesCall runs Store.GraphNames the same way as a lookup. Results are
// sorted because the store emits them in map order.
func callGraphNames(st storage.Store, mode int) lookupResult {
	var r lookupResult
	if mode == chNil {
		r.err, r.panicked, r.panicKind = safeCall(func() error { return st.GraphNames(ctx, nil) })
		return r
	}
	var ch chan string
	if mode == chBuffered {
		ch = make(chan string, 128)
	} else {
		ch = make(chan string)
	}
	var res []string
	done := make(chan struct{})
	if mode == chUnbuffered {
		go func() {
			defer close(done)
			for v := range ch {
				res = append(res, v)
			}
		}()
	}
	r.err, r.panicked, r.panicKind = safeCall(func() error { return st.GraphNames(ctx, ch) })
	if mode == chBuffered {
	drain:
		for {
			select {
			case v, ok := <-ch:
				if !ok {
					r.closed = true
					break drain
				}
				res = append(res, v)
			default:
				r.notClosed = true
				break drain
			}
		}
	} else {
		t := time.NewTimer(consumerWait)
		select {
		case <-done:
			r.closed = true
		case <-t.C:
			r.notClosed = true
		}
		t.Stop()
	}
	if r.closed {
		sort.Strings(res)
		r.res = res
		select {
		case _, ok := <-ch:
			if ok {
				r.extra = true
			}
		default:
			r.notClosed = true
		}
	}
	if r.res == nil {
		r.res = []string{}
	}
	return r
}

// outcomeErr folds the channel discipline into the error enum so that the
// model rejects a lookup that panicked or did not close its channel.
func outcomeErr(r *lookupResult) string {
	switch {
	case r.panicked:
		return "panic_" + r.panicKind
	case r.notClosed:
		return "not_closed"
	case r.extra:
		return "value_after_close"
	}
	return errEnum(r.err)
}

func tripleSlice(ts []int) []*triple.Triple {
	out := make([]*triple.Triple, len(ts))
	for i, t := range ts {
		out[i] = trips[t].t
	}
	return out
}

// probePredKind asks the real store (single goroutine) whether a lookup by an
// immutable predicate returns a temporal triple with the same predicate id.
func probePredKind() bool {
	st := memory.NewStore()
	g, err := st.NewGraph(ctx, "probe")
	if err != nil {
		die("probe: %v", err)
	}
	var temporal int = -1
	for i := range trips {
		if preds[trips[i].p].temporal && preds[trips[i].p].id == "p" {
			temporal = i
			break
		}
	}
	if temporal < 0 {
		die("probe: no temporal triple in the vocabulary")
	}
	if err := g.AddTriples(ctx, tripleSlice([]int{temporal})); err != nil {
		die("probe: %v", err)
	}
	r := callLookup(g, 7, -1, 0, -1, buildLO(defaultLO()), chBuffered) // TriplesForPredicate("p"@[])
	if r.err != nil || r.panicked || !r.closed {
		die("probe: lookup failed")
	}
	return len(r.res) == 0
}
