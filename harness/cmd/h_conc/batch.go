package main

import (
	"fmt"
	"runtime"
	"sync"
	"sync/atomic"

	"github.com/google/badwolf/storage"
	"github.com/google/badwolf/storage/memory"
	"github.com/google/badwolf/triple"
)

// modeBatch is the targeted probe for "a lookup never observes only part of one
// batch of added triples": per round a fresh graph, one writer adds ALL vocabulary
// triples in one AddTriples call while reader goroutines keep calling Triples and
// Exist; a reader that sees a count strictly between 0 and the batch size, or sees
// the last triple of the batch present while the full listing is shorter, has
// observed a torn batch.
func modeBatch(seed int64, n, threads int) {
	if n <= 0 {
		n = 100
	}
	if threads < 2 {
		threads = 2
	}
	all := make([]*triple.Triple, 0, len(trips))
	for i := range trips {
		all = append(all, trips[i].t)
	}
	size := len(all)
	var torn, reads, fullReads, emptyReads, errs int64
	var firstTorn atomic.Value
	for round := 0; round < n; round++ {
		kick()
		st := memory.NewStore()
		g, err := st.NewGraph(ctx, fmt.Sprintf("b%d", round))
		if err != nil {
			die("NewGraph: %v", err)
		}
		var wg sync.WaitGroup
		var done int32
		start := make(chan struct{})
		for r := 0; r < threads-1; r++ {
			wg.Add(1)
			go func(r int) {
				defer wg.Done()
				<-start
				for atomic.LoadInt32(&done) == 0 {
					cnt, e := countTriples(g)
					if e != nil {
						atomic.AddInt64(&errs, 1)
						return
					}
					atomic.AddInt64(&reads, 1)
					switch {
					case cnt == 0:
						atomic.AddInt64(&emptyReads, 1)
					case cnt == size:
						atomic.AddInt64(&fullReads, 1)
						return
					default:
						atomic.AddInt64(&torn, 1)
						firstTorn.CompareAndSwap(nil, map[string]interface{}{"round": round, "seen": cnt, "batch": size})
						return
					}
					runtime.Gosched()
				}
			}(r)
		}
		close(start)
		runtime.Gosched()
		if err := g.AddTriples(ctx, all); err != nil {
			die("AddTriples: %v", err)
		}
		// let the readers see the full batch, then stop the stragglers
		wgDone := make(chan struct{})
		go func() { wg.Wait(); close(wgDone) }()
		<-wgDone
		atomic.StoreInt32(&done, 1)
	}
	out := map[string]interface{}{
		"mode": "batch", "seed": seed, "rounds": n, "readers": threads - 1, "batch_size": size,
		"reads": reads, "empty_reads": emptyReads, "full_reads": fullReads, "torn": torn, "errors": errs,
	}
	if v := firstTorn.Load(); v != nil {
		out["first_torn"] = v
	}
	emit(out)
}

func countTriples(g storage.Graph) (int, error) {
	ch := make(chan *triple.Triple)
	cnt := 0
	fin := make(chan struct{})
	go func() {
		for range ch {
			cnt++
		}
		close(fin)
	}()
	err := g.Triples(ctx, storage.DefaultLookup, ch)
	<-fin
	return cnt, err
}
